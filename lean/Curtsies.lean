import Curtsies.Model.Basic
import Curtsies.Model.FmtStr
import Curtsies.Generated.Sgr
import Curtsies.Properties.C06
import Curtsies.Spec.PySlice
import Curtsies.Proofs.Slice
