/-
  C08 for the modelled decoder: the witnesses of D15 / D12 / D35 and the input-level no-loss corollary, instantiated
  with `getKeyUtf8` - the transcription of `events.get_key(bytes, 'utf-8', Keynames.BYTES, full)` over the REGENERATED
  key tables (Driver/Input.lean; validated against the live `get_key` by the tie C08/getkey on every run) - and the
  live constants READ_SIZE / MAX_KEYPRESS_SIZE / default paste_threshold.
-/
import Curtsies.Properties.C08
import Curtsies.Driver.Input
namespace Curtsies
open Curtsies.Input Curtsies.Driver.InputSim

deriving instance DecidableEq for Except

def realParams : Params :=
  { readSize := Generated.InputKeys.readSize, maxKey := Generated.InputKeys.maxKeypressSize,
    pasteThreshold := Generated.InputKeys.defaultPasteThreshold, hasWake := true }

/-- D15 with the real decoder: `e2 82` at t=0, `ac` at t=1 -> ValueError, both bytes gone. -/
theorem C08_D15_witness_real :
    let r := send realParams getKeyUtf8 id 10 ({} : InSt Nat) [(0, .arrive [0xe2, 0x82]), (1, .arrive [0xac])] none
    (match r.1 with | .error (.py .valueError) => true | _ => false) = true ∧
      r.2.1.unprocessed = [] ∧ r.2.1.osbuf = [] ∧ r.2.2.length = 1 := by
  decide +kernel

/-- D12 with the real decoder: Esc and 'é' together -> UnicodeDecodeError, `1b c3` gone, `a9` left. -/
theorem C08_D12_witness_real :
    let r := send realParams getKeyUtf8 id 10 ({} : InSt Nat) [(0, .arrive [0x1b, 0xc3, 0xa9])] (some 0)
    (match r.1 with | .error (.py .unicodeDecodeError) => true | _ => false) = true ∧
      r.2.1.unprocessed = [0xa9] ∧ r.2.1.osbuf = [] := by
  decide +kernel

/-- D35 with the real decoder: `c3 41` -> UnicodeDecodeError, the valid 'A' gone too. -/
theorem C08_D35_witness_real :
    let r := send realParams getKeyUtf8 id 10 ({} : InSt Nat) [(0, .arrive [0xc3, 0x41])] (some 0)
    (match r.1 with | .error (.py .unicodeDecodeError) => true | _ => false) = true ∧
      r.2.1.unprocessed = [] ∧ r.2.1.osbuf = [] := by
  decide +kernel

/-- the same bytes arriving whole come back as one keypress (the hypotheses of the partial theorems are inhabited) -/
theorem C08_whole_character_real :
    (match (send realParams getKeyUtf8 id 10 ({} : InSt Nat) [(0, .arrive [0xe2, 0x82, 0xac])] none).1 with
     | .ok (some (.key k bs)) => k == [0xe2, 0x82, 0xac] && bs == [0xe2, 0x82, 0xac] | _ => false) = true := by
  decide +kernel

/-- INPUT-LEVEL NO-LOSS for the modelled decoder (utf-8, Keynames.BYTES): streams made of complete keypresses. -/
theorem C08_no_loss_real (wf : Nat) (st : InSt Nat) (ag : Agenda Nat) (timeout : Option Time)
    (hu : Units getKeyUtf8 id realParams.maxKey st.unprocessed) (ho : Units getKeyUtf8 id realParams.maxKey st.osbuf)
    (ha : PayloadUnits getKeyUtf8 id realParams.maxKey ag) :
    ∀ e, (send realParams getKeyUtf8 id wf st ag timeout).1 ≠ .error (.py e) :=
  C08_no_loss_wellformed realParams getKeyUtf8 id (by decide) wf st ag timeout hu ho ha

theorem prefix_cases3 (q : List Nat) (a b c : Nat) (h : q <+: [a, b, c]) :
    q = [] ∨ q = [a] ∨ q = [a, b] ∨ q = [a, b, c] := by
  obtain ⟨t, ht⟩ := h
  rcases q with _ | ⟨x, _ | ⟨y, _ | ⟨z, _ | ⟨w, q⟩⟩⟩⟩ <;> simp_all

/-- complete keypresses for the modelled decoder: 'a', '€' (e2 82 ac), Up (ESC [ A) -/
theorem unit_a : IsUnit getKeyUtf8 id realParams.maxKey [0x61] [0x61] :=
  ⟨by simp, by decide, fun q hq hne hneq => by
    exfalso
    obtain ⟨t, ht⟩ := hq
    rcases q with _ | ⟨x, _ | ⟨y, q⟩⟩ <;> simp_all, fun full => by cases full <;> decide +kernel⟩

theorem unit_euro : IsUnit getKeyUtf8 id realParams.maxKey [0xe2, 0x82, 0xac] [0xe2, 0x82, 0xac] :=
  ⟨by simp, by decide, fun q hq hne hneq => by
    rcases prefix_cases3 q _ _ _ hq with h | h | h | h
    · exact absurd h hne
    · subst h; decide +kernel
    · subst h; decide +kernel
    · exact absurd h hneq, fun full => by cases full <;> decide +kernel⟩

theorem unit_up : IsUnit getKeyUtf8 id realParams.maxKey [0x1b, 0x5b, 0x41] [0x1b, 0x5b, 0x41] :=
  ⟨by simp, by decide, fun q hq hne hneq => by
    rcases prefix_cases3 q _ _ _ hq with h | h | h | h
    · exact absurd h hne
    · subst h; decide +kernel
    · subst h; decide +kernel
    · exact absurd h hneq, fun full => by cases full <;> decide +kernel⟩

/-- Non-vacuity of `C08_no_loss_real`: the stream "a € Up a" is made of complete keypresses. -/
theorem C08_units_example_real :
    Units getKeyUtf8 id realParams.maxKey [0x61, 0xe2, 0x82, 0xac, 0x1b, 0x5b, 0x41, 0x61] :=
  Units.cons [0x61] _ _ unit_a (Units.cons [0xe2, 0x82, 0xac] _ _ unit_euro
    (Units.cons [0x1b, 0x5b, 0x41] _ _ unit_up (Units.cons [0x61] [] _ unit_a Units.nil)))

end Curtsies
