/-
  C19 - Equality, hashing and repr of FmtStr are coherent with what it displays.

  `==`, `hash` are thin in Lean (the code compares / hashes `str(self)`, the model says exactly that); the
  display clause `C19_eq_display` rests on `C01_display`.  The reflected comparison `s == f` reaching
  `FmtStr.__eq__` and `hash` of a str are CPython facts (correspondence only).
  `C19_repr_partial` (full statement `C19_repr_full_statement`; open finding D27 with `C19_repr_witness`): for every
  FmtStr with at least one run whose FORMATTED run texts contain no `ESC [` pair (such a literal IS re-parsed by `fmtstr`
  when the repr is evaluated - the model's evaluator uses the real `from_str` model), `repr(f)` is an expression over string
  literals, `+` and the fmtfuncs names of the REGENERATED table, and evaluating it gives a value (a FmtStr, or
  a plain str when nothing is formatted) with the same characters and the same displayed formatting.
  `lower` (str.lower) only has to leave the lower-case helper names alone (`LowerOk`; `idl` does).
-/
import Curtsies.Model.Repr
import Curtsies.Properties.C01
import Curtsies.Properties.C14
import Curtsies.Generated.EscParse
namespace Curtsies
open Spec

/-! ### == and hash -/

/-- `f == g` is equality of the terminal strings. -/
theorem C19_eq (f g : FmtStr) :
    fmtEqObj f (.fmt g) = some (decide (render f = render g)) ∧ (fmtEq f g = true ↔ render f = render g) := by
  simp [fmtEqObj, fmtEq]

/-- `f == s` for a plain str is "the terminal string is that str"; with the operands swapped Python calls
    the same method (`eqStr` is symmetric by construction); a `bytes` operand is accepted as well and compared
    through `str(other)` (its repr text `b'...'`); any other object: NotImplemented.
    (`C19_eq` / `C19_str` are definitional: the model says what the code says; the correspondence carries them.) -/
theorem C19_str (f : FmtStr) (s : Text) :
    fmtEqObj f (.str s) = some (decide (render f = s)) ∧ (eqStr f s = true ↔ render f = s) ∧
    fmtEqObj f (.bytes s) = some (decide (render f = s)) ∧ fmtEqObj f .other = none := by
  simp [fmtEqObj, eqStr]

/-- `==` on FmtStrs is an equivalence relation (what dict/set membership needs besides the hash law). -/
theorem C19_eq_equiv (f g h : FmtStr) :
    fmtEq f f = true ∧ (fmtEq f g = fmtEq g f) ∧ (fmtEq f g = true → fmtEq g h = true → fmtEq f h = true) := by
  refine ⟨by simp [fmtEq], ?_, ?_⟩
  · simp only [fmtEq]; by_cases e : render f = render g <;> simp [e, eq_comm]
  · simp only [fmtEq, decide_eq_true_eq]; exact fun a b => a.trans b

/-- Equal values hash equal, for whatever `hash` is on str; a FmtStr equal to a plain str hashes like it. -/
theorem C19_hash (strHash : Text → Int) (f g : FmtStr) (s : Text) :
    (fmtEq f g = true → hashFmt strHash f = hashFmt strHash g) ∧
    (eqStr f s = true → hashFmt strHash f = strHash s) := by
  simp only [fmtEq, eqStr, decide_eq_true_eq, hashFmt]
  exact ⟨fun e => by rw [e], fun e => by rw [e]⟩

/-- Equal FmtStrs display the same: same characters, same formatting on each (texts free of ESC / 8-bit CSI,
    the domain of C01). -/
theorem C19_eq_display (f g : FmtStr)
    (hf : ∀ ch ∈ text f, ch ≠ Curtsies.ESC ∧ ch ≠ Curtsies.CSI8)
    (hg : ∀ ch ∈ text g, ch ≠ Curtsies.ESC ∧ ch ≠ Curtsies.CSI8)
    (h : fmtEq f g = true) : effCells f = effCells g := by
  simp only [fmtEq, decide_eq_true_eq] at h
  have e1 := C01_display f hf
  have e2 := C01_display g hg
  rw [h, e2] at e1
  injection e1 with e1
  exact e1.symm

/-- Equality does look at formatting and at run boundaries only as far as the terminal string does:
    same text, different colour - different; explicit `False` style - equal to plain. -/
example : fmtEq [⟨['a'], { fg := some 1 }⟩] [⟨['a'], { fg := some 2 }⟩] = false := by decide
example : fmtEq [⟨['a'], { bold := some false }⟩] [⟨['a'], {}⟩] = true := by decide
example : fmtEq [⟨['a'], {}⟩, ⟨['b'], {}⟩] [⟨['a', 'b'], {}⟩] = true := by decide

/-! ### repr -/

/-- the (name, dict) pairs `repr_part` writes, outermost first -/
def namedAtts (a : Atts) : List (String × Atts) :=
  (a.bg.map fun c => ("on_" ++ colourName c, ({ bg := some c } : Atts))).toList ++
  (if a.blink = some true then [("blink", ({ blink := some true } : Atts))] else []) ++
  (if a.bold = some true then [("bold", ({ bold := some true } : Atts))] else []) ++
  (if a.dark = some true then [("dark", ({ dark := some true } : Atts))] else []) ++
  (a.fg.map fun c => (colourName c, ({ fg := some c } : Atts))).toList ++
  (if a.invert = some true then [("invert", ({ invert := some true } : Atts))] else []) ++
  (if a.italic = some true then [("italic", ({ italic := some true } : Atts))] else []) ++
  (if a.underline = some true then [("underline", ({ underline := some true } : Atts))] else [])

theorem names_table : ∀ c : Fin 8, fgName c = some (colourName c) ∧ bgName c = some ("on_" ++ colourName c) := by
  decide +kernel

theorem reprNames_eq (a : Atts) : reprNames a = some ((namedAtts a).map Prod.fst) := by
  rcases a with ⟨bg, blink, bold, dark, fg, invert, italic, underline⟩
  cases bg <;> cases fg <;>
    simp [reprNames, namedAtts, names_table, bind, Option.bind, pure] <;>
    (repeat' split) <;> simp_all

def accL (L : List (String × Atts)) : Atts := L.foldr (fun p acc => Atts.extend acc p.2) ({} : Atts)

theorem accL_proj {β : Type} (proj : Atts → Option β) (h0 : proj {} = none)
    (hext : ∀ x y : Atts, proj (x.extend y) = (proj y).orElse fun _ => proj x) (L : List (String × Atts)) :
    proj (accL L) = L.findSome? fun p => proj p.2 := by
  induction L with
  | nil => simp [accL, h0]
  | cons p rest ih =>
    have : accL (p :: rest) = (accL rest).extend p.2 := rfl
    rw [this, hext, ih, List.findSome?_cons]
    cases proj p.2 <;> rfl

theorem findSome_ite {α β : Type} (f : α → Option β) (c : Prop) [Decidable c] (x : α) :
    List.findSome? f (if c then [x] else []) = if c then f x else none := by
  split <;> simp
theorem findSome_optList {α β γ : Type} (f : α → Option β) (o : Option γ) (g : γ → α) :
    List.findSome? f (o.map g).toList = o.bind fun v => f (g v) := by
  cases o <;> simp

theorem acc_eff (a : Atts) : (accL (namedAtts a)).eff = a.eff := by
  have hbg := accL_proj Atts.bg rfl (fun _ _ => rfl) (namedAtts a)
  have hblink := accL_proj Atts.blink rfl (fun _ _ => rfl) (namedAtts a)
  have hbold := accL_proj Atts.bold rfl (fun _ _ => rfl) (namedAtts a)
  have hdark := accL_proj Atts.dark rfl (fun _ _ => rfl) (namedAtts a)
  have hfg := accL_proj Atts.fg rfl (fun _ _ => rfl) (namedAtts a)
  have hinvert := accL_proj Atts.invert rfl (fun _ _ => rfl) (namedAtts a)
  have hitalic := accL_proj Atts.italic rfl (fun _ _ => rfl) (namedAtts a)
  have hunderline := accL_proj Atts.underline rfl (fun _ _ => rfl) (namedAtts a)
  simp only [Atts.eff, hbg, hblink, hbold, hdark, hfg, hinvert, hitalic, hunderline, Eff.mk.injEq]
  simp only [namedAtts, List.findSome?_append, findSome_ite, findSome_optList]
  rcases a with ⟨bg, blink, bold, dark, fg, invert, italic, underline⟩
  refine ⟨?_, ?_, ?_, ?_, ?_, ?_, ?_, ?_⟩
  · cases bg <;> simp
  · rcases blink with _|_|_ <;> simp [flag]
  · rcases bold with _|_|_ <;> simp [flag]
  · rcases dark with _|_|_ <;> simp [flag]
  · cases fg <;> simp
  · rcases invert with _|_|_ <;> simp [flag]
  · rcases italic with _|_|_ <;> simp [flag]
  · rcases underline with _|_|_ <;> simp [flag]

/-- `lower` leaves the names bound by the fmtfuncs helpers alone (they are lower-case already). -/
def LowerOk (lower : String → String) : Prop :=
  ∀ name bound, Generated.fmtfuncs.lookup name = some bound →
    lower bound = bound ∧ lower (strDrop3 bound) = strDrop3 bound

def Good (lower : String → String) (p : String × Atts) : Prop :=
  ∃ bound, Generated.fmtfuncs.lookup p.1 = some bound ∧ parseArgs lower [] (fmtfuncKw bound []) = .ok p.2

theorem good_of_idl {lower : String → String} (hl : LowerOk lower) (name bound : String) (atts : Atts)
    (hb : Generated.fmtfuncs.lookup name = some bound)
    (hp : parseArgs idl [] (fmtfuncKw bound []) = .ok atts) : Good lower (name, atts) := by
  refine ⟨bound, hb, ?_⟩
  rw [← hp]
  apply C14_lower_congr
  intro s hs
  obtain ⟨h1, h2⟩ := hl name bound hb
  have : s = bound := by
    unfold fmtfuncKw at hs
    by_cases hbe : (bound == "" || Kw.has [] "style") = true
    · rw [if_pos hbe] at hs; simp [Kw.get?] at hs
    · rw [if_neg hbe] at hs; simp [Kw.get?] at hs; exact hs
  subst this
  exact ⟨h1, h2⟩

theorem namedAtts_good {lower : String → String} (hl : LowerOk lower) (a : Atts) :
    ∀ p ∈ namedAtts a, Good lower p := by
  intro p hp
  simp only [namedAtts, List.mem_append] at hp
  have st : ∀ q ∈ styleNames, Good lower (q.1, styleAtts q.2 true) := fun q hq =>
    good_of_idl hl q.1 q.1 _ (C14_spellings_style q hq).2.2.2.2.2.1 (C14_spellings_style q hq).2.2.2.2.2.2
  rcases hp with ((((((hp | hp) | hp) | hp) | hp) | hp) | hp) | hp
  · cases hbg : a.bg with
    | none => rw [hbg] at hp; simp at hp
    | some c =>
      rw [hbg] at hp; simp at hp; subst hp
      exact good_of_idl hl _ _ _ (C14_spellings_bg c).2.2.2.2.1 (C14_spellings_bg c).2.2.2.2.2
  · split at hp
    · simp at hp; subst hp; exact st ("blink", .blink) (by decide)
    · simp at hp
  · split at hp
    · simp at hp; subst hp; exact st ("bold", .bold) (by decide)
    · simp at hp
  · split at hp
    · simp at hp; subst hp; exact st ("dark", .dark) (by decide)
    · simp at hp
  · cases hfg : a.fg with
    | none => rw [hfg] at hp; simp at hp
    | some c =>
      rw [hfg] at hp; simp at hp; subst hp
      exact good_of_idl hl _ _ _ (C14_spellings_fg c).2.2.2.2.1 (C14_spellings_fg c).2.2.2.2.2
  · split at hp
    · simp at hp; subst hp; exact st ("invert", .invert) (by decide)
    · simp at hp
  · split at hp
    · simp at hp; subst hp; exact st ("italic", .italic) (by decide)
    · simp at hp
  · split at hp
    · simp at hp; subst hp; exact st ("underline", .underline) (by decide)
    · simp at hp

theorem eval_wrap (md : Nat) (lower : String → String) (s : Text)
    (L : List (String × Atts)) (hs : L ≠ [] → hasEscBracket s = false) (hg : ∀ p ∈ L, Good lower p) :
    evalExpr md lower (wrapCalls (L.map Prod.fst) (.lit s))
      = some (if L.isEmpty then .str s else .fmt [⟨s, accL L⟩]) := by
  induction L with
  | nil => simp [wrapCalls, evalExpr]
  | cons p rest ih =>
    obtain ⟨bound, hb, hp⟩ := hg p (List.mem_cons_self ..)
    have hs : hasEscBracket s = false := hs (by simp)
    have ih := ih (fun _ => hs) (fun q hq => hg q (List.mem_cons_of_mem _ hq))
    simp only [wrapCalls, List.map_cons, List.foldr_cons] at ih ⊢
    simp only [evalExpr, ih]
    have hacc : accL (p :: rest) = (accL rest).extend p.2 := rfl
    cases rest with
    | nil =>
      simp [callFmtfunc, hb, fromStr, hs, fmtfuncApply, fmtstrApply, hp, copyWithNewAtts, accL]
    | cons q r =>
      simp [callFmtfunc, hb, fmtfuncApply, fmtstrApply, hp, copyWithNewAtts, hacc]

theorem chunk_eval (md : Nat) (lower : String → String) (hl : LowerOk lower) (c : Chunk)
    (hs : namedAtts c.atts ≠ [] → hasEscBracket c.s = false) :
    ∃ e v, reprPart c = some e ∧ evalExpr md lower e = some v ∧ v.effCells = effCells [c] := by
  refine ⟨_, _, ?_, eval_wrap md lower c.s (namedAtts c.atts) hs (namedAtts_good hl c.atts), ?_⟩
  · simp [reprPart, reprNames_eq]
  · have ha := acc_eff c.atts
    by_cases he : (namedAtts c.atts).isEmpty = true
    · rw [if_pos he]
      have : namedAtts c.atts = [] := List.isEmpty_iff.mp he
      rw [this] at ha
      have ha' : ({} : Eff) = c.atts.eff := ha
      simp [Val.effCells, effCells, Chunk.cells, List.map_map, Function.comp_def, ha']
    · rw [if_neg he]
      simp [Val.effCells, effCells, Chunk.cells, List.map_map, Function.comp_def, ha]

theorem valAdd_eff (x y : Val) : (valAdd x y).effCells = x.effCells ++ y.effCells := by
  cases x <;> cases y <;>
    simp [valAdd, Val.effCells, effCells, addStr, raddStr, add, Chunk.cells, List.map_map, Function.comp_def]
  all_goals (intros; rfl)

theorem effCells_cons (c : Chunk) (f : FmtStr) : effCells (c :: f) = effCells [c] ++ effCells f := by
  simp [effCells]

/-- FULL STATEMENT of the repr clause: for every FmtStr with at least one run, `repr(f)` evaluates in the fmtfuncs
    namespace to a value with the same characters and formatting. -/
def C19_repr_full_statement : Prop :=
  ∀ (md : Nat) (lower : String → String), LowerOk lower → ∀ f : FmtStr, f ≠ [] →
    ∃ e v, reprAst f = some e ∧ evalExpr md lower e = some v ∧ v.effCells = effCells f

/-- PARTIAL (open finding D27): the full statement for every FmtStr in which no FORMATTED run - a run whose repr
    is wrapped in at least one helper call, `namedAtts c.atts ≠ []`: a colour, or a style that is `True` - has a text
    containing an `ESC [` pair.  Such a text is written into the repr as a plain literal and `fmtstr` re-parses it as
    escape sequences when the helper is called (`C19_repr_witness`, `C19_repr_full_statement_false`).  Unformatted
    runs with `ESC [` are plain literals in the repr and round-trip.  The hypothesis is exactly the complement of the
    finding's footprint. -/
theorem C19_repr_partial (md : Nat) (lower : String → String) (hl : LowerOk lower) (f : FmtStr) (hne : f ≠ [])
    (hclean : ∀ c ∈ f, namedAtts c.atts ≠ [] → hasEscBracket c.s = false) :
    ∃ e v, reprAst f = some e ∧ evalExpr md lower e = some v ∧ v.effCells = effCells f := by
  have parts : ∀ (g : FmtStr), (∀ c ∈ g, namedAtts c.atts ≠ [] → hasEscBracket c.s = false) →
      ∃ es, g.mapM reprPart = some es ∧
        ∀ e v, evalExpr md lower e = some v →
          ∃ w, evalExpr md lower (plusAll e es) = some w ∧ w.effCells = v.effCells ++ effCells g := by
    intro g
    induction g with
    | nil => intro _; exact ⟨[], rfl, fun e v he => ⟨v, he, by simp [effCells]⟩⟩
    | cons c g ih =>
      intro hc
      obtain ⟨es, hes, hrest⟩ := ih (fun c' h' => hc c' (List.mem_cons_of_mem _ h'))
      obtain ⟨ec, vc, h1, h2, h3⟩ := chunk_eval md lower hl c (hc c (List.mem_cons_self ..))
      refine ⟨ec :: es, by simp [List.mapM_cons, h1, hes], ?_⟩
      intro e v he
      have hplus : evalExpr md lower (.plus e ec) = some (valAdd v vc) := by simp [evalExpr, he, h2]
      obtain ⟨w, hw1, hw2⟩ := hrest _ _ hplus
      refine ⟨w, hw1, ?_⟩
      rw [hw2, valAdd_eff, h3, effCells_cons c g, List.append_assoc]
  cases f with
  | nil => exact absurd rfl hne
  | cons c g =>
    obtain ⟨es, hes, hrest⟩ := parts g (fun c' h' => hclean c' (List.mem_cons_of_mem _ h'))
    obtain ⟨ec, vc, h1, h2, h3⟩ := chunk_eval md lower hl c (hclean c (List.mem_cons_self ..))
    obtain ⟨w, hw1, hw2⟩ := hrest ec vc h2
    refine ⟨plusAll ec es, w, ?_, hw1, ?_⟩
    · simp [reprAst, List.mapM_cons, h1, hes]
    · rw [hw2, h3, ← effCells_cons]

/-- WITNESS for D27 (replayed on the real code by the harness): `FmtStr(Chunk('\x1b[31mx', {'bold': True}))` has six
    bold characters; its repr `bold('\x1b[31mx')` evaluates to ONE character, bold and red. -/
theorem C19_repr_witness :
    (reprAst [⟨[Curtsies.ESC, '[', '3', '1', 'm', 'x'], { bold := some true }⟩]).bind
        (evalExpr Generated.intMaxStrDigits idl)
      = some (.fmt [⟨['x'], { fg := some 1, bold := some true }⟩]) := by
  decide +kernel

/-- The full statement is FALSE for the model (hence the finding, not a gap in the proof). -/
theorem C19_repr_full_statement_false : ¬ C19_repr_full_statement := by
  intro h
  obtain ⟨e, v, h1, h2, h3⟩ := h Generated.intMaxStrDigits idl (fun _ _ _ => ⟨rfl, rfl⟩)
    [⟨[Curtsies.ESC, '[', '3', '1', 'm', 'x'], { bold := some true }⟩] (by decide)
  have w := C19_repr_witness
  rw [h1] at w
  simp only [Option.bind_some] at w
  rw [h2] at w
  injection w with w
  subst w
  revert h3; decide +kernel

/-- `LowerOk` is satisfiable (the driver evaluates with this `lower`). -/
theorem C19_lowerOk_idl : LowerOk idl := fun _ _ _ => ⟨rfl, rfl⟩

/-- Non-vacuity: bold red 'a' next to a plain run and an empty on-blue run. -/
example : reprAst [⟨['a'], { fg := some 1, bold := some true }⟩, ⟨['b'], {}⟩, ⟨[], { bg := some 4 }⟩]
    = some (.plus (.plus (.app "bold" (.app "red" (.lit ['a']))) (.lit ['b'])) (.app "on_blue" (.lit []))) := by
  decide +kernel

end Curtsies
