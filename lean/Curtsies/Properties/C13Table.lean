/-
  C13, table obligation (its own module so that a change of the live class breaks exactly this theorem).
  `Generated.dictMutators` / `Generated.frozenUnguarded` are regenerated on every run by
  harness/extract_more_heap.py from the live `dict` and the live `FrozenAttributes`.
-/
import Curtsies.Generated.Heap
namespace Curtsies

/-- TABLE: the mutators the live `FrozenAttributes` lets through (the call returns instead of raising) are
    exactly those the model lets through (`opCmd … (.attsMutate _ _ name _)` answers `.err` unless
    `name = "__init__"`, `C13_guards_partial` / `C13_init_witness`): `__init__` and nothing else.
    Reverting the guard of any other mutator in /repo, or repairing D24, makes this `decide` fail. -/
theorem C13_guards_table :
    Generated.frozenUnguarded = Generated.dictMutators.filter (fun n => n == "__init__") := by decide

end Curtsies
