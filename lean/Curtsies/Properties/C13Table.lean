/-
  C13, table obligation (its own module so that a change of the live class breaks exactly this theorem).
  `Generated.dictMutators` / `Generated.frozenUnguarded` are regenerated on every run by
  harness/extract_more_heap.py from the live `dict` and the live `FrozenAttributes`.
-/
import Curtsies.Generated.Heap
namespace Curtsies

/-- TABLE: the live `FrozenAttributes` lets NO mutator of `dir(dict)` through (every call raises), as the
    model says (`C13_guards`). Reverting the guard of any mutator in /repo - `__init__` (D24) included -
    makes this `decide` fail. -/
theorem C13_guards_table : Generated.frozenUnguarded = [] := by decide

end Curtsies
