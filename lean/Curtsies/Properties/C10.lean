/-
  C10 - width and width_aware_slice measure and cut by terminal columns.

  For EVERY Unicode environment `u` (the library's `wcwidth`), under the sanity hypothesis `u.sane (text f)`
  (every character of the string has width 0, 1 or 2 - exactly what the library's own guard
  `wcswidth(self.s) != -1` establishes for the real `wcwidth`, whose only other value is -1; `C10_guard`
  shows the code raises ValueError otherwise):

  * `C10_width`, `C10_offset`: `.width` / `width_at_offset(n)` are the column sums.
  * The slicing clause is the per-character column-interval relation `SliceRel u strict a b`: walking the
    characters of `f` with their column intervals [col, col+w), a character wholly inside [a, b) is kept with its
    formatting; any other character of non-zero width is replaced by as many spaces (with ITS formatting) as it has
    columns inside the range (one for a double-width character cut by an edge, none for a character outside); a
    zero-width character is never invented, moved or restyled and can only be kept when its column is in [a, b].
    `strict = some kl` adds the cluster rule WITHOUT latitude (`keepZ`): a zero-width character goes with its base
    (the nearest preceding character of non-zero width): it is kept iff the LAST column of its base is requested
    (`a < col ≤ b` - so also after the replacement space of a wide base cut by the LEFT edge, not after one cut by
    the right edge); a leading one without a base iff the whole string is requested (`keepLead`). This is the
    layout-independent behaviour of the code on a string held in ONE run (`D30Free_single`).
    - `C10_slice_full_statement` (that rule, every run layout) is FALSE for the code: finding D30, witnesses
      `C10_D30_witness_inside / _end / _start / _lead` for the four shapes (all about the leading zero-width
      characters of a run; see `D30Free`).
    - `C10_slice_partial`: the full statement on the complement of the footprint (`D30Free`: for every run that
      begins with a zero-width character the code's decision `codeKeeps` equals the rule's; sufficient:
      `D30Free_of_no_leading_zw`, `D30Free_single`).
    - `C10_slice_columns_partial`: the rule-free relation (`strict = none`) for EVERY run layout, all `a b : Nat`.
  * `C10_slice_width`: hence the width of the result is the number of requested columns that exist.
  * `C10_cols : C10_cols_full_statement`: the flattened column view of DESIGN section 3 (`cols`: a double-width
    character fills a left and a right column, zero-width characters none): the columns of the result are columns
    a..b-1 of `f` with an orphaned half replaced by a space of the same formatting. Derived from `SliceRel` (non-strict: it does not depend on zero-width characters).
-/
import Curtsies.Proofs.Width
namespace Curtsies

/-! ### specification side -/

/-- columns occupied by a list of cells -/
def cellsWidth (u : UEnv) (l : List Cell) : Int := colWidth u (l.map Prod.fst)

def colOverlap (a b col w : Int) : Nat := (min (col + w) b - max col a).toNat

/-- Must a zero-width character at column `col` be kept? It goes with its base (the nearest preceding character
    of non-zero width, which ends at `col`): kept iff the LAST column of the base is requested, `a < col ≤ b`.
    A leading zero-width character without a base (`col = 0`) is kept iff `kl` (the whole string is requested,
    see `keepLead`). This is exactly what the code does on a string held in ONE run. -/
def keepZ (kl : Bool) (a b col : Int) : Prop := (a < col ∧ col ≤ b) ∨ (col = 0 ∧ kl = true)

theorem not_keepZ_pos {kl : Bool} {a b col : Int} (h : col ≤ a ∨ b < col) (h0 : 0 < col) : ¬ keepZ kl a b col := by
  intro hk; rcases hk with ⟨h1, h2⟩ | ⟨h1, _⟩ <;> omega
theorem not_keepZ_kl {kl : Bool} {a b col : Int} (h : col ≤ a ∨ b < col) (hk : kl = false) : ¬ keepZ kl a b col := by
  intro hk'; rcases hk' with ⟨h1, h2⟩ | ⟨_, h2⟩
  · omega
  · rw [hk] at h2; cases h2

inductive SliceRel (u : UEnv) (strict : Option Bool) (a b : Int) : Int → List Cell → List Cell → Prop
  | nil (col : Int) : SliceRel u strict a b col [] []
  | zdrop {col : Int} {x : Cell} {rest out : List Cell} :
      u.wcwidth x.1 = 0 → (∀ kl, strict = some kl → ¬ keepZ kl a b col) →
      SliceRel u strict a b col rest out → SliceRel u strict a b col (x :: rest) out
  | zkeep {col : Int} {x : Cell} {rest out : List Cell} :
      u.wcwidth x.1 = 0 → a ≤ col → col ≤ b → (∀ kl, strict = some kl → keepZ kl a b col) →
      SliceRel u strict a b col rest out → SliceRel u strict a b col (x :: rest) (x :: out)
  | inside {col : Int} {x : Cell} {rest out : List Cell} :
      0 < u.wcwidth x.1 → a ≤ col → col + u.wcwidth x.1 ≤ b →
      SliceRel u strict a b (col + u.wcwidth x.1) rest out → SliceRel u strict a b col (x :: rest) (x :: out)
  | cut {col : Int} {x : Cell} {rest out : List Cell} :
      0 < u.wcwidth x.1 → ¬ (a ≤ col ∧ col + u.wcwidth x.1 ≤ b) →
      SliceRel u strict a b (col + u.wcwidth x.1) rest out →
      SliceRel u strict a b col (x :: rest) (List.replicate (colOverlap a b col (u.wcwidth x.1)) (' ', x.2) ++ out)

/-! ### proofs -/
variable {strict : Option Bool}

private theorem intervalOverlap_cut (cs w a b col0 : Int) (hcs : 0 ≤ cs) (hw : w = 1 ∨ w = 2) :
    ∃ n, intervalOverlap cs (cs + w) (max 0 (a - col0)) (b - col0) = .ok n ∧
      n.toNat = colOverlap a b (col0 + cs) w := by
  unfold intervalOverlap colOverlap
  split
  · exact ⟨_, rfl, by omega⟩
  · split
    · exact ⟨_, rfl, by omega⟩
    · split
      · exact ⟨_, rfl, by omega⟩
      · split
        · exact ⟨_, rfl, by omega⟩
        · exfalso; omega

private theorem wasLoop_rel (u : UEnv) (atts : Atts) (a b col0 : Int) (s : Text) (cs : Int)
    (hs : u.sane s) (hcs : 0 ≤ cs)
    (hlead : ∀ kl, strict = some kl → a < col0 → cs = 0 → ∀ ch, s.head? = some ch → u.wcwidth ch ≠ 0)
    (hkl : ∀ kl, strict = some kl → kl = false) (hcol0 : 0 ≤ col0) :
    ∃ r, wasLoop u (max 0 (a - col0)) (b - col0) cs s = .ok r ∧
      SliceRel u strict a b (col0 + cs) (s.map fun ch => (ch, atts)) (r.map fun ch => (ch, atts)) := by
  induction s generalizing cs with
  | nil => exact ⟨[], rfl, .nil _⟩
  | cons c rest ih =>
    have ⟨hw, hrest⟩ := UEnv.sane_cons hs
    obtain ⟨r, hr, hrel⟩ := ih (cs + u.wcwidth c) hrest (by omega)
      (fun kl hst ha h0 => absurd (by omega : u.wcwidth c = 0) (hlead kl hst ha (by omega) c rfl))
    have hcol : col0 + (cs + u.wcwidth c) = col0 + cs + u.wcwidth c := by omega
    rw [hcol] at hrel
    unfold wasLoop
    simp only []
    by_cases h1 : cs = max 0 (a - col0) ∧ cs + u.wcwidth c = max 0 (a - col0)
    · rw [if_pos h1]
      have hz : u.wcwidth c = 0 := by omega
      rw [hz] at hrel
      simp only [Int.add_zero] at hrel
      refine ⟨r, hr, .zdrop hz (fun kl hst => ?_) hrel⟩
      by_cases ha : a < col0
      · exact absurd hz (hlead kl hst ha (by omega) c rfl)
      · exact not_keepZ_kl (by omega) (hkl kl hst)
    · rw [if_neg h1]
      by_cases h2 : cs ≥ max 0 (a - col0) ∧ cs + u.wcwidth c ≤ b - col0
      · rw [if_pos h2, hr]
        refine ⟨c :: r, rfl, ?_⟩
        by_cases hz : u.wcwidth c = 0
        · rw [hz] at hrel
          simp only [Int.add_zero] at hrel
          exact .zkeep hz (by omega) (by omega) (fun kl _ => Or.inl (by omega)) hrel
        · exact .inside (x := (c, atts)) (by show 0 < u.wcwidth c; omega) (by omega)
            (by show col0 + cs + u.wcwidth c ≤ b; omega) hrel
      · rw [if_neg h2]
        by_cases hz : u.wcwidth c = 0
        · have : intervalOverlap cs (cs + u.wcwidth c) (max 0 (a - col0)) (b - col0) = .ok 0 := by
            unfold intervalOverlap
            rw [if_pos (by omega)]
          rw [this, hr]
          refine ⟨r, by simp [bind, Except.bind, pure, Except.pure], ?_⟩
          rw [hz] at hrel
          simp only [Int.add_zero] at hrel
          refine .zdrop hz (fun kl hst => ?_) hrel
          exact not_keepZ_kl (by omega) (hkl kl hst)
        · obtain ⟨n, hn, hn2⟩ := intervalOverlap_cut cs (u.wcwidth c) a b col0 hcs (by omega)
          rw [hn, hr]
          refine ⟨List.replicate n.toNat ' ' ++ r, by simp [bind, Except.bind, pure, Except.pure], ?_⟩
          rw [hn2, List.map_append, List.map_replicate]
          exact .cut (x := (c, atts)) (by show 0 < u.wcwidth c; omega)
            (by show ¬ (a ≤ col0 + cs ∧ col0 + cs + u.wcwidth c ≤ b); omega) hrel


@[simp] theorem cellsWidth_nil (u : UEnv) : cellsWidth u [] = 0 := rfl
@[simp] theorem cellsWidth_cons (u : UEnv) (x : Cell) (l : List Cell) :
    cellsWidth u (x :: l) = u.wcwidth x.1 + cellsWidth u l := by simp [cellsWidth]
@[simp] theorem cellsWidth_append (u : UEnv) (l m : List Cell) :
    cellsWidth u (l ++ m) = cellsWidth u l + cellsWidth u m := by simp [cellsWidth]

private theorem chunk_cells_fst (c : Chunk) : c.cells.map Prod.fst = c.s := by
  simp [Chunk.cells, Function.comp_def]

/-- a stretch wholly inside, starting strictly right of `a`: everything is kept -/
theorem SliceRel.all_inside_pos (u : UEnv) (a b : Int) (l : List Cell) (col : Int)
    (hs : u.sane (l.map Prod.fst)) (h1 : a < col) (h2 : col + cellsWidth u l ≤ b) :
    SliceRel u strict a b col l l := by
  induction l generalizing col with
  | nil => exact .nil _
  | cons x rest ih =>
    simp only [List.map_cons] at hs
    have ⟨hw, hrest⟩ := UEnv.sane_cons hs
    have hn' : 0 ≤ cellsWidth u rest := colWidth_nonneg hrest
    simp only [cellsWidth_cons] at h2
    by_cases hz : u.wcwidth x.1 = 0
    · exact .zkeep hz (by omega) (by omega) (fun kl _ => Or.inl (by omega)) (ih col hrest h1 (by omega))
    · exact .inside (by omega) (by omega) (by omega) (ih _ hrest (by omega) (by omega))

/-- a stretch wholly inside: everything is kept, provided the specification keeps zero-width characters at its
    first column (`hlz`, needed only if the stretch begins with one) -/
theorem SliceRel.all_inside (u : UEnv) (a b : Int) (l : List Cell) (col : Int)
    (hs : u.sane (l.map Prod.fst)) (h1 : a ≤ col) (h2 : col + cellsWidth u l ≤ b)
    (hlz : (∀ x, l.head? = some x → u.wcwidth x.1 = 0) → l ≠ [] → ∀ kl, strict = some kl → keepZ kl a b col) :
    SliceRel u strict a b col l l := by
  induction l generalizing col with
  | nil => exact .nil _
  | cons x rest ih =>
    simp only [List.map_cons] at hs
    have ⟨hw, hrest⟩ := UEnv.sane_cons hs
    have hn' : 0 ≤ cellsWidth u rest := colWidth_nonneg hrest
    simp only [cellsWidth_cons] at h2
    by_cases hz : u.wcwidth x.1 = 0
    · have hk := hlz (fun y hy => by simp at hy; subst hy; exact hz) (by simp)
      exact .zkeep hz h1 (by omega) hk (ih col hrest h1 (by omega) (fun _ _ => hk))
    · exact .inside (by omega) h1 (by omega) (SliceRel.all_inside_pos u a b rest _ hrest (by omega) (by omega))

/-- a stretch wholly outside, not touching column 0 nor column `b`: everything is dropped -/
theorem SliceRel.all_outside_pos (u : UEnv) (a b : Int) (l : List Cell) (col : Int)
    (hs : u.sane (l.map Prod.fst)) (h : col + cellsWidth u l ≤ a ∨ b < col) (h0 : 0 < col) :
    SliceRel u strict a b col l [] := by
  induction l generalizing col with
  | nil => exact .nil _
  | cons x rest ih =>
    simp only [List.map_cons] at hs
    have ⟨hw, hrest⟩ := UEnv.sane_cons hs
    have hn : 0 ≤ cellsWidth u rest := colWidth_nonneg hrest
    simp only [cellsWidth_cons] at h
    by_cases hz : u.wcwidth x.1 = 0
    · exact .zdrop hz (fun kl _ => not_keepZ_pos (by omega) h0) (ih col hrest (by omega) h0)
    · have h0' : colOverlap a b col (u.wcwidth x.1) = 0 := by unfold colOverlap; omega
      have := SliceRel.cut (u := u) (strict := strict) (a := a) (b := b) (col := col) (x := x) (by omega) (by omega)
        (ih (col + u.wcwidth x.1) hrest (by omega) (by omega))
      rw [h0'] at this
      simpa using this

/-- a stretch wholly outside: everything is dropped, provided the specification drops zero-width characters at its
    first column (`hlz`, needed only if the stretch begins with one) -/
theorem SliceRel.all_outside (u : UEnv) (a b : Int) (l : List Cell) (col : Int)
    (hs : u.sane (l.map Prod.fst)) (h : col + cellsWidth u l ≤ a ∨ b ≤ col) (hcol : 0 ≤ col)
    (hlz : (∀ x, l.head? = some x → u.wcwidth x.1 = 0) → l ≠ [] → ∀ kl, strict = some kl → ¬ keepZ kl a b col) :
    SliceRel u strict a b col l [] := by
  induction l generalizing col with
  | nil => exact .nil _
  | cons x rest ih =>
    simp only [List.map_cons] at hs
    have ⟨hw, hrest⟩ := UEnv.sane_cons hs
    have hn : 0 ≤ cellsWidth u rest := colWidth_nonneg hrest
    simp only [cellsWidth_cons] at h
    by_cases hz : u.wcwidth x.1 = 0
    · have hk := hlz (fun y hy => by simp at hy; subst hy; exact hz) (by simp)
      exact .zdrop hz hk (ih col hrest (by omega) hcol (fun _ _ => hk))
    · have h0 : colOverlap a b col (u.wcwidth x.1) = 0 := by unfold colOverlap; omega
      have := SliceRel.cut (u := u) (strict := strict) (a := a) (b := b) (col := col) (x := x) (by omega) (by omega)
        (SliceRel.all_outside_pos u a b rest (col + u.wcwidth x.1) hrest (by omega) (by omega))
      rw [h0] at this
      simpa using this

theorem SliceRel.append {u : UEnv} {a b : Int} {l1 o1 : List Cell} {col : Int}
    (h1 : SliceRel u strict a b col l1 o1) {l2 o2 : List Cell}
    (h2 : SliceRel u strict a b (col + cellsWidth u l1) l2 o2) : SliceRel u strict a b col (l1 ++ l2) (o1 ++ o2) := by
  induction h1 with
  | nil col => simpa using h2
  | zdrop hz hb _ ih =>
    simp only [cellsWidth_cons, hz, Int.zero_add] at h2
    exact .zdrop hz hb (ih h2)
  | zkeep hz ha hb hk _ ih =>
    simp only [cellsWidth_cons, hz, Int.zero_add] at h2
    exact .zkeep hz ha hb hk (ih h2)
  | inside hw ha hb _ ih =>
    simp only [cellsWidth_cons, ← Int.add_assoc] at h2
    exact .inside hw ha hb (ih h2)
  | cut hw hn _ ih =>
    simp only [cellsWidth_cons, ← Int.add_assoc] at h2
    rw [List.append_assoc]
    exact .cut hw hn (ih h2)

/-- Does the code keep the leading zero-width characters of a run that starts at column `counter` and is `cw`
    columns wide? Only through the whole-run shortcut: the run lies inside [a, b] (a run without columns: strictly
    between `a` and `b`). -/
def codeKeeps (a b counter cw : Int) : Prop :=
  (a ≤ counter ∧ counter + cw ≤ b ∧ 0 < cw) ∨ (cw = 0 ∧ a < counter ∧ counter < b)

/-- The complement of the footprint of finding D30: for every run that begins with a zero-width character, the
    code's decision about the run's leading zero-width characters (`codeKeeps`) is the specification's (`keepZ` at
    the column where the run starts). `counter` is the column at which the first run of the list starts.
    The four shapes it excludes (leading zero-width characters of a run starting at `counter`):
    S1 `a < counter < b < counter + cw` (right-cut run: dropped although inside), S2 `a < counter = b` (run starting at
    the slice end: dropped although their base is the last requested character), S3 `counter = a`, run wholly
    inside (kept although their base lies before the slice / is missing), S4 a run without columns at column 0
    when the whole string is requested (dropped). -/
def D30Free (u : UEnv) (kl : Bool) (a b : Int) : Int → FmtStr → Prop
  | _, [] => True
  | counter, c :: rest =>
    ((∀ ch, c.s.head? = some ch → u.wcwidth ch = 0) → c.s ≠ [] →
      (codeKeeps a b counter (colWidth u c.s) ↔ keepZ kl a b counter)) ∧
    D30Free u kl a b (counter + colWidth u c.s) rest

private theorem head_cells (u : UEnv) (c : Chunk) (h : ∀ x, c.cells.head? = some x → u.wcwidth x.1 = 0) :
    (∀ ch, c.s.head? = some ch → u.wcwidth ch = 0) ∧ (c.cells ≠ [] → c.s ≠ []) := by
  constructor
  · intro ch hch
    cases hs : c.s with
    | nil => rw [hs] at hch; cases hch
    | cons y ys =>
      rw [hs] at hch; simp at hch; subst hch
      exact h (y, c.atts) (by simp [Chunk.cells, hs])
  · intro hne hs; apply hne; simp [Chunk.cells, hs]

private theorem wasChunkLoop_rel (u : UEnv) (start stop : Int) (f : FmtStr) (counter : Int)
    (hs : u.sane (text f)) (hc : 0 ≤ counter) (hstop : 0 ≤ stop)
    (hfree : ∀ kl, strict = some kl → D30Free u kl start stop counter f)
    (hkl : ∀ kl, strict = some kl → kl = true → start = 0 ∧ counter + colWidth u (text f) ≤ stop) :
    ∃ parts, wasChunkLoop u start stop counter f = .ok parts ∧
      SliceRel u strict start stop counter (cells f) (cells parts) := by
  induction f generalizing counter with
  | nil => exact ⟨[], rfl, .nil _⟩
  | cons c rest ih =>
    rw [text_cons] at hs
    have ⟨h1, h2⟩ := UEnv.sane_append.mp hs
    have hcw := colWidth_nonneg h1
    have hrw := colWidth_nonneg h2
    have hcs : u.sane (c.cells.map Prod.fst) := by rw [chunk_cells_fst]; exact h1
    have hcwid : cellsWidth u c.cells = colWidth u c.s := by simp [cellsWidth, chunk_cells_fst]
    -- what D30Free says about this run, when it begins with a zero-width character
    have hclause : ∀ kl, strict = some kl → (∀ x, c.cells.head? = some x → u.wcwidth x.1 = 0) → c.cells ≠ [] →
        (codeKeeps start stop counter (colWidth u c.s) ↔ keepZ kl start stop counter) := by
      intro kl hst hz hne
      have := head_cells u c hz
      exact (hfree kl hst).1 this.1 (this.2 hne)
    have hkl' : ∀ kl, strict = some kl → kl = true →
        start = 0 ∧ counter + colWidth u c.s + colWidth u (text rest) ≤ stop := by
      intro kl hst hk
      have := hkl kl hst hk
      rw [text_cons, colWidth_append] at this
      exact ⟨this.1, by omega⟩
    -- the part contributed by this chunk
    have hpart : ∃ part, wasChunkPart u start stop counter c (colWidth u c.s) = .ok part ∧
        SliceRel u strict start stop counter c.cells (cells part) := by
      unfold wasChunkPart
      simp only []
      by_cases hcond : start < counter + colWidth u c.s ∧ stop > counter
      · rw [if_pos hcond]
        by_cases hwhole : min (stop - counter) (colWidth u c.s) - max 0 (start - counter) = colWidth u c.s
        · rw [if_pos hwhole]
          refine ⟨[c], rfl, ?_⟩
          simp only [cells_cons, cells_nil, List.append_nil]
          refine SliceRel.all_inside u _ _ _ _ hcs (by omega) (by rw [hcwid]; omega) (fun hz hne kl hst => ?_)
          refine (hclause kl hst hz hne).mp ?_
          unfold codeKeeps
          by_cases h0 : colWidth u c.s = 0
          · right; omega
          · left; omega
        · rw [if_neg hwhole]
          have hklf : ∀ kl, strict = some kl → kl = false := by
            intro kl hst
            cases hk : kl with
            | false => rfl
            | true =>
              exfalso
              obtain ⟨e1, e2⟩ := hkl' kl hst hk
              omega
          obtain ⟨r, hr, hrel⟩ := wasLoop_rel (strict := strict) u c.atts start stop counter c.s 0 h1
            (Int.le_refl 0)
            (fun kl hst ha _ ch hch hzw => by
              have hz : ∀ x, c.cells.head? = some x → u.wcwidth x.1 = 0 := by
                intro x hx
                cases hs' : c.s with
                | nil => rw [hs'] at hch; cases hch
                | cons y ys =>
                  rw [hs'] at hch; simp at hch; subst hch
                  simp [Chunk.cells, hs'] at hx; subst hx; exact hzw
              have hne : c.cells ≠ [] := by
                intro h; cases hs' : c.s with
                | nil => rw [hs'] at hch; cases hch
                | cons y ys => simp [Chunk.cells, hs'] at h
              have := (hclause kl hst hz hne).mpr (Or.inl ⟨by omega, by omega⟩)
              unfold codeKeeps at this
              omega)
            hklf hc
          refine ⟨[⟨r, c.atts⟩], by simp [widthAwareSliceStr, hr, bind, Except.bind, pure, Except.pure], ?_⟩
          simp only [cells_cons, cells_nil, List.append_nil, Int.add_zero] at hrel ⊢
          exact hrel
      · rw [if_neg hcond]
        refine ⟨[], rfl, ?_⟩
        refine SliceRel.all_outside u _ _ _ _ hcs (by rw [hcwid]; omega) hc (fun hz hne kl hst hk => ?_)
        have := (hclause kl hst hz hne).mpr hk
        unfold codeKeeps at this
        omega
    obtain ⟨part, hp, hprel⟩ := hpart
    unfold wasChunkLoop
    simp only [chunkWidth_eq h1, hp, bind, Except.bind]
    by_cases hb : stop < counter + colWidth u c.s
    · rw [if_pos hb]
      refine ⟨part, rfl, ?_⟩
      have hout : SliceRel u strict start stop (counter + cellsWidth u c.cells) (cells rest) [] := by
        apply SliceRel.all_outside_pos
        · rw [← text_eq_cells]; exact h2
        · rw [hcwid]; omega
        · rw [hcwid]; omega
      have := SliceRel.append hprel hout
      simpa using this
    · rw [if_neg hb]
      obtain ⟨parts, hps, hrel⟩ := ih (counter + colWidth u c.s) h2 (by omega)
        (fun kl hst => (hfree kl hst).2) (fun kl hst hk => hkl' kl hst hk)
      rw [hps]
      refine ⟨part ++ parts, rfl, ?_⟩
      rw [cells_cons, cells_append]
      apply SliceRel.append hprel
      rw [hcwid]; exact hrel


/-! ### corollary: the width of a slice -/

private theorem cellsWidth_replicate (u : UEnv) (hsp : u.wcwidth ' ' = 1) (n : Nat) (a : Atts) :
    cellsWidth u (List.replicate n (' ', a)) = n := by
  induction n with
  | zero => simp
  | succ k ih => simp [List.replicate_succ, ih, hsp]; omega

theorem SliceRel.width {u : UEnv} {a b col : Int} {l out : List Cell} (h : SliceRel u strict a b col l out)
    (hs : u.sane (l.map Prod.fst)) (hsp : u.wcwidth ' ' = 1) (hab : a ≤ b) :
    cellsWidth u out = max 0 (min b (col + cellsWidth u l) - max a col) := by
  induction h with
  | nil col => simp; omega
  | zdrop hz _ _ ih =>
    simp only [List.map_cons] at hs
    have := ih (UEnv.sane_cons hs).2
    simp only [cellsWidth_cons, hz]; omega
  | zkeep hz ha hb _ _ ih =>
    simp only [List.map_cons] at hs
    have := ih (UEnv.sane_cons hs).2
    simp only [cellsWidth_cons, hz]; omega
  | @inside col x rest out hw ha hb _ ih =>
    simp only [List.map_cons] at hs
    have := ih (UEnv.sane_cons hs).2
    have hn : 0 ≤ cellsWidth u rest := colWidth_nonneg (UEnv.sane_cons hs).2
    simp only [cellsWidth_cons]; omega
  | @cut col x rest out hw hn _ ih =>
    simp only [List.map_cons] at hs
    have := ih (UEnv.sane_cons hs).2
    have hn : 0 ≤ cellsWidth u rest := colWidth_nonneg (UEnv.sane_cons hs).2
    have hx := (UEnv.sane_cons hs).1
    simp only [cellsWidth_append, cellsWidth_replicate u hsp, cellsWidth_cons, colOverlap]
    omega

/-- every character of the result is a character of the source or a replacement space -/
theorem SliceRel.sane_out {u : UEnv} {a b col : Int} {l out : List Cell} (h : SliceRel u strict a b col l out)
    (hs : u.sane (l.map Prod.fst)) (hsp : u.wcwidth ' ' = 1) : u.sane (out.map Prod.fst) := by
  induction h with
  | nil col => exact hs
  | zdrop hz _ _ ih => simp only [List.map_cons] at hs; exact ih (UEnv.sane_cons hs).2
  | zkeep hz ha hb _ _ ih =>
    simp only [List.map_cons] at hs ⊢
    intro c hc
    rcases List.mem_cons.mp hc with rfl | hc
    · exact (UEnv.sane_cons hs).1
    · exact ih (UEnv.sane_cons hs).2 c hc
  | inside hw ha hb _ ih =>
    simp only [List.map_cons] at hs ⊢
    intro c hc
    rcases List.mem_cons.mp hc with rfl | hc
    · exact (UEnv.sane_cons hs).1
    · exact ih (UEnv.sane_cons hs).2 c hc
  | cut hw hn _ ih =>
    simp only [List.map_cons] at hs
    simp only [List.map_append, List.map_replicate]
    intro c hc
    rcases List.mem_append.mp hc with hc | hc
    · have := (List.mem_replicate.mp hc).2
      rw [this]; omega
    · exact ih (UEnv.sane_cons hs).2 c hc

/-! ### the property theorems -/

/-- `f.width` is the number of terminal columns `f` occupies. -/
theorem C10_width (u : UEnv) (f : FmtStr) (hs : u.sane (text f)) :
    fmtWidth u f = .ok (colWidth u (text f)) := fmtWidth_eq hs

/-- `f.width_at_offset(n)` is the width of the first `n` characters (every `n`, also past the end). -/
theorem C10_offset (u : UEnv) (f : FmtStr) (n : Nat) (hs : u.sane (text f)) :
    widthAtOffset u f n = .ok (colWidth u ((text f).take n)) := by
  have h := UEnv.sane_take hs n
  have := colWidth_nonneg h
  simp only [widthAtOffset, wcswidthN, wcswidth_eq h]
  rw [if_neg (by omega)]

theorem wcswidthLoop_neg (u : UEnv) (s : Text) (acc : Int) (h : ∃ c ∈ s, u.wcwidth c < 0) :
    wcswidthLoop u acc s = -1 := by
  induction s generalizing acc with
  | nil => simp at h
  | cons c rest ih =>
    unfold wcswidthLoop
    by_cases hc : u.wcwidth c < 0
    · rw [if_pos hc]
    · rw [if_neg hc]
      apply ih
      obtain ⟨d, hd, hd2⟩ := h
      rcases List.mem_cons.mp hd with rfl | hd
      · exact absurd hd2 hc
      · exact ⟨d, hd, hd2⟩

/-- Outside the sanity hypothesis nothing is computed: a character of negative width (cwcwidth's -1 for
    control characters) makes `width_aware_slice` raise ValueError, for every index. -/
theorem C10_guard (u : UEnv) (f : FmtStr) (idx : Index) (h : ∃ c ∈ text f, u.wcwidth c < 0) :
    widthAwareSlice u f idx = .error .valueError := by
  simp [widthAwareSlice, wcswidth, wcswidthLoop_neg u _ 0 h]

/-- Are leading zero-width characters without a base kept? Exactly when the whole string is requested
    (what the code does on a string held in one run: its whole-run shortcut). -/
def keepLead (u : UEnv) (f : FmtStr) (a b : Nat) : Bool :=
  decide (a = 0 ∧ colWidth u (text f) ≤ (b : Int) ∧ 0 < colWidth u (text f))

private theorem slice_rel (u : UEnv) (f : FmtStr) (a b : Nat) (hs : u.sane (text f))
    (hfree : ∀ kl, strict = some kl → D30Free u kl a b 0 f)
    (hkl : ∀ kl, strict = some kl → kl = keepLead u f a b) :
    ∃ r, widthAwareSlice u f (.slice (some a) (some b) false) = .ok r ∧
      SliceRel u strict a b 0 (cells f) (cells r) := by
  obtain ⟨parts, hp, hrel⟩ := wasChunkLoop_rel (strict := strict) u a b f 0 hs (Int.le_refl 0) (by omega) hfree
    (fun kl hst hk => by
      have := hkl kl hst
      rw [hk] at this
      have := of_decide_eq_true this.symm
      omega)
  have hw : wcswidth u (text f) ≠ -1 := by
    rw [wcswidth_eq hs]; have := colWidth_nonneg hs; omega
  refine ⟨if parts.isEmpty then emptyFmt else parts, ?_, ?_⟩
  · have hn : normalizeSlice (colWidth u (text f)).toNat (.slice (some (a : Int)) (some (b : Int)) false)
        = .ok (a, b) := by
      simp [normalizeSlice]
      constructor <;> omega
    simp only [widthAwareSlice, if_neg hw, fmtWidth_eq hs, bind, Except.bind, hn, hp, pure, Except.pure]
  · by_cases he : parts.isEmpty
    · rw [if_pos he]
      have : parts = [] := List.isEmpty_iff.mp he
      rw [this] at hrel
      exact hrel
    · rw [if_neg he]; exact hrel

/-- FULL statement of the slicing clause, no latitude: every zero-width character goes with its base (kept iff the
    last column of its base is requested; without a base iff the whole string is requested). It is what the code
    does for a string held in one run and it is FALSE for multi-run strings - finding D30, `C10_D30_witness_*`. -/
def C10_slice_full_statement : Prop :=
  ∀ (u : UEnv) (f : FmtStr) (a b : Nat), u.sane (text f) →
    ∃ r, widthAwareSlice u f (.slice (some a) (some b) false) = .ok r ∧
      SliceRel u (some (keepLead u f a b)) a b 0 (cells f) (cells r)

/-- The full statement holds on the complement of the footprint of D30 (`D30Free`). -/
theorem C10_slice_partial (u : UEnv) (f : FmtStr) (a b : Nat) (hs : u.sane (text f))
    (hfree : D30Free u (keepLead u f a b) a b 0 f) :
    ∃ r, widthAwareSlice u f (.slice (some a) (some b) false) = .ok r ∧
      SliceRel u (some (keepLead u f a b)) a b 0 (cells f) (cells r) :=
  slice_rel u f a b hs (fun kl h => by cases h; exact hfree) (fun kl h => by cases h; rfl)

/-- Everything except the rule for zero-width characters holds for EVERY run layout (`strict = none`:
    a zero-width character may be kept, if it sits inside [a, b], or dropped): columns, formatting, replacement
    spaces, order, nothing invented. -/
theorem C10_slice_columns_partial (u : UEnv) (f : FmtStr) (a b : Nat) (hs : u.sane (text f)) :
    ∃ r, widthAwareSlice u f (.slice (some a) (some b) false) = .ok r ∧
      SliceRel u none a b 0 (cells f) (cells r) :=
  slice_rel u f a b hs (fun kl h => by cases h) (fun kl h => by cases h)

/-- A string held in ONE non-empty run is outside the footprint: there the code meets the full statement. -/
theorem D30Free_single (u : UEnv) (c : Chunk) (a b : Nat) (hs : u.sane c.s) :
    D30Free u (keepLead u [c] a b) a b 0 [c] := by
  have hw := colWidth_nonneg hs
  refine ⟨fun _ _ => ?_, trivial⟩
  have ht : text [c] = c.s := by simp [text]
  unfold codeKeeps keepZ keepLead
  rw [ht]
  constructor
  · intro h
    right
    refine ⟨rfl, ?_⟩
    rcases h with h | h
    · exact decide_eq_true ⟨by omega, by omega, by omega⟩
    · omega
  · intro h
    rcases h with h | ⟨_, h⟩
    · omega
    · have := of_decide_eq_true h
      left; omega

/-- one-step inversion of `SliceRel` -/
theorem SliceRel.inv_cons {u : UEnv} {a b col : Int} {x : Cell} {rest out : List Cell}
    (h : SliceRel u strict a b col (x :: rest) out) :
    (u.wcwidth x.1 = 0 ∧ (∀ kl, strict = some kl → ¬ keepZ kl a b col) ∧ SliceRel u strict a b col rest out) ∨
    (u.wcwidth x.1 = 0 ∧ (∀ kl, strict = some kl → keepZ kl a b col) ∧
      ∃ out', out = x :: out' ∧ SliceRel u strict a b col rest out') ∨
    (0 < u.wcwidth x.1 ∧ (a ≤ col ∧ col + u.wcwidth x.1 ≤ b) ∧
      ∃ out', out = x :: out' ∧ SliceRel u strict a b (col + u.wcwidth x.1) rest out') ∨
    (0 < u.wcwidth x.1 ∧ ¬ (a ≤ col ∧ col + u.wcwidth x.1 ≤ b) ∧
      ∃ out', out = List.replicate (colOverlap a b col (u.wcwidth x.1)) (' ', x.2) ++ out' ∧
        SliceRel u strict a b (col + u.wcwidth x.1) rest out') := by
  cases h with
  | zdrop hz hb hr => exact Or.inl ⟨hz, hb, hr⟩
  | zkeep hz _ _ hk hr => exact Or.inr (Or.inl ⟨hz, hk, _, rfl, hr⟩)
  | inside hw ha hb hr => exact Or.inr (Or.inr (Or.inl ⟨hw, ⟨ha, hb⟩, _, rfl, hr⟩))
  | cut hw hn hr => exact Or.inr (Or.inr (Or.inr ⟨hw, hn, _, rfl, hr⟩))

theorem SliceRel.inv_nil {u : UEnv} {a b col : Int} {out : List Cell}
    (h : SliceRel u strict a b col [] out) : out = [] := by
  cases h; rfl

/-- A simple sufficient condition for `D30Free`: no run begins with a zero-width character. -/
theorem D30Free_of_no_leading_zw (u : UEnv) (kl : Bool) (a b : Int) (f : FmtStr) (counter : Int)
    (h : ∀ c ∈ f, ∀ ch, c.s.head? = some ch → u.wcwidth ch ≠ 0) : D30Free u kl a b counter f := by
  induction f generalizing counter with
  | nil => trivial
  | cons c rest ih =>
    refine ⟨fun hz hne => ?_, ih _ (fun d hd => h d (by simp [hd]))⟩
    exfalso
    cases hs : c.s with
    | nil => exact hne hs
    | cons y ys => exact h c (by simp) y (by simp [hs]) (hz y (by simp [hs]))

/-! ### finding D30: machine-checked witnesses on the model (the harness replays them on the real code each run) -/

private theorem wit_a : exEnv.wcwidth 'a' = 1 := by decide
private theorem wit_e : exEnv.wcwidth 'e' = 1 := by decide
private theorem wit_x : exEnv.wcwidth 'x' = 1 := by decide
private theorem wit_z : exEnv.wcwidth '́' = 0 := by decide

private theorem sane_of_list (s : Text) (h : (s.all fun c => decide (exEnv.wcwidth c = 0 ∨ exEnv.wcwidth c = 1 ∨ exEnv.wcwidth c = 2)) = true) :
    exEnv.sane s := by
  intro c hc
  have := List.all_eq_true.mp h c hc
  exact of_decide_eq_true this

/-- shape S1 - `fmtstr('a') + red('́bcc')`, columns 0..2: the combining character at column 1 (strictly inside,
    its base 'a' is kept) is dropped; the same text in one run keeps it. -/
theorem C10_D30_witness_inside : ¬ C10_slice_full_statement := by
  intro hfull
  obtain ⟨r, hr, hrel⟩ := hfull exEnv [⟨['a'], {}⟩, ⟨['́', 'b', 'c', 'c'], {fg := some 1}⟩] 0 3
    (sane_of_list _ (by decide))
  have hval : widthAwareSlice exEnv [⟨['a'], {}⟩, ⟨['́', 'b', 'c', 'c'], {fg := some 1}⟩]
      (.slice (some ((0 : Nat) : Int)) (some ((3 : Nat) : Int)) false)
      = .ok [⟨['a'], {}⟩, ⟨['b', 'c'], {fg := some 1}⟩] := (isOk_iff _ _).mp (by decide +kernel)
  have hk : keepLead exEnv [⟨['a'], {}⟩, ⟨['́', 'b', 'c', 'c'], {fg := some 1}⟩] 0 3 = false := by decide +kernel
  rw [hval] at hr
  injection hr with hr
  subst hr
  rw [hk] at hrel
  have hc : cells [⟨['a'], {}⟩, ⟨['́', 'b', 'c', 'c'], {fg := some 1}⟩]
      = [('a', {}), ('́', {fg := some 1}), ('b', {fg := some 1}), ('c', {fg := some 1}), ('c', {fg := some 1})] := rfl
  have hc2 : cells [⟨['a'], {}⟩, ⟨['b', 'c'], {fg := some 1}⟩]
      = [('a', {}), ('b', {fg := some 1}), ('c', {fg := some 1})] := rfl
  rw [hc, hc2] at hrel
  rcases hrel.inv_cons with ⟨h0, _⟩ | ⟨h0, _⟩ | ⟨_, _, out', ho, h1⟩ | ⟨_, hn, _⟩
  · simp only [wit_a] at h0; omega
  · simp only [wit_a] at h0; omega
  · simp only [wit_a, List.cons.injEq, true_and] at ho h1
    subst ho
    rcases h1.inv_cons with ⟨_, hb, _⟩ | ⟨_, _, out'', ho2, _⟩ | ⟨hw, _⟩ | ⟨hw, _⟩
    · exact hb _ rfl (Or.inl ⟨by omega, by omega⟩)
    · simp at ho2
    · simp only [wit_z] at hw; omega
    · simp only [wit_z] at hw; omega
  · simp only [wit_a] at hn; omega

/-- shape S2 - `red('a') + green('́')`, columns 0..0 (the whole width): the run starting exactly at the slice
    end is skipped, the accent of the kept 'a' is lost (also for `slice(None, None)`). -/
theorem C10_D30_witness_end : ¬ C10_slice_full_statement := by
  intro hfull
  obtain ⟨r, hr, hrel⟩ := hfull exEnv [⟨['a'], {fg := some 1}⟩, ⟨['́'], {fg := some 2}⟩] 0 1
    (sane_of_list _ (by decide))
  have hval : widthAwareSlice exEnv [⟨['a'], {fg := some 1}⟩, ⟨['́'], {fg := some 2}⟩]
      (.slice (some ((0 : Nat) : Int)) (some ((1 : Nat) : Int)) false)
      = .ok [⟨['a'], {fg := some 1}⟩] := (isOk_iff _ _).mp (by decide +kernel)
  rw [hval] at hr
  injection hr with hr
  subst hr
  have hc : cells [⟨['a'], {fg := some 1}⟩, ⟨['́'], {fg := some 2}⟩]
      = [('a', {fg := some 1}), ('́', {fg := some 2})] := rfl
  have hc2 : cells [⟨['a'], {fg := some 1}⟩] = [('a', {fg := some 1})] := rfl
  rw [hc, hc2] at hrel
  rcases hrel.inv_cons with ⟨h0, _⟩ | ⟨h0, _⟩ | ⟨_, _, out', ho, h1⟩ | ⟨_, hn, _⟩
  · simp only [wit_a] at h0; omega
  · simp only [wit_a] at h0; omega
  · simp only [wit_a, List.cons.injEq, true_and] at ho h1
    subst ho
    rcases h1.inv_cons with ⟨_, hb, _⟩ | ⟨_, _, out'', ho2, _⟩ | ⟨hw, _⟩ | ⟨hw, _⟩
    · exact hb _ rfl (Or.inl ⟨by omega, by omega⟩)
    · simp at ho2
    · simp only [wit_z] at hw; omega
    · simp only [wit_z] at hw; omega
  · simp only [wit_a] at hn; omega

/-- shape S3 - `red('e') + blue('́x')`, column 1 only: the whole-run shortcut keeps the accent of the 'e' that
    lies OUTSIDE the slice (in one run it is dropped). -/
theorem C10_D30_witness_start : ¬ C10_slice_full_statement := by
  intro hfull
  obtain ⟨r, hr, hrel⟩ := hfull exEnv [⟨['e'], {fg := some 1}⟩, ⟨['́', 'x'], {fg := some 4}⟩] 1 2
    (sane_of_list _ (by decide))
  have hval : widthAwareSlice exEnv [⟨['e'], {fg := some 1}⟩, ⟨['́', 'x'], {fg := some 4}⟩]
      (.slice (some ((1 : Nat) : Int)) (some ((2 : Nat) : Int)) false)
      = .ok [⟨['́', 'x'], {fg := some 4}⟩] := (isOk_iff _ _).mp (by decide +kernel)
  have hk : keepLead exEnv [⟨['e'], {fg := some 1}⟩, ⟨['́', 'x'], {fg := some 4}⟩] 1 2 = false := by decide +kernel
  rw [hval] at hr
  injection hr with hr
  subst hr
  rw [hk] at hrel
  have hc : cells [⟨['e'], {fg := some 1}⟩, ⟨['́', 'x'], {fg := some 4}⟩]
      = [('e', {fg := some 1}), ('́', {fg := some 4}), ('x', {fg := some 4})] := rfl
  have hc2 : cells [⟨['́', 'x'], {fg := some 4}⟩] = [('́', {fg := some 4}), ('x', {fg := some 4})] := rfl
  rw [hc, hc2] at hrel
  rcases hrel.inv_cons with ⟨h0, _⟩ | ⟨h0, _⟩ | ⟨_, hin, _⟩ | ⟨_, _, out', ho, h1⟩
  · simp only [wit_e] at h0; omega
  · simp only [wit_e] at h0; omega
  · simp only [wit_e] at hin; omega
  · simp only [wit_e] at ho h1
    have h0 : colOverlap ((1 : Nat) : Int) ((2 : Nat) : Int) 0 1 = 0 := by decide
    rw [h0] at ho
    simp only [List.replicate_zero, List.nil_append] at ho
    subst ho
    rcases h1.inv_cons with ⟨_, _, h2⟩ | ⟨_, hkz, _⟩ | ⟨hw, _⟩ | ⟨hw, _⟩
    · rcases h2.inv_cons with ⟨hz, _⟩ | ⟨hz, _⟩ | ⟨_, _, o2, ho2, _⟩ | ⟨_, hn, _⟩
      · simp only [wit_x] at hz; omega
      · simp only [wit_x] at hz; omega
      · simp at ho2
      · simp only [wit_x] at hn; omega
    · rcases hkz _ rfl with ⟨h3, _⟩ | ⟨h3, _⟩ <;> omega
    · simp only [wit_z] at hw; omega
    · simp only [wit_z] at hw; omega

/-- shape S4 - `red('́') + 'a'`, the whole string requested: the run without columns at column 0 is skipped, while
    the same text in one run comes back complete. -/
theorem C10_D30_witness_lead : ¬ C10_slice_full_statement := by
  intro hfull
  obtain ⟨r, hr, hrel⟩ := hfull exEnv [⟨['́'], {fg := some 1}⟩, ⟨['a'], {}⟩] 0 1
    (sane_of_list _ (by decide))
  have hval : widthAwareSlice exEnv [⟨['́'], {fg := some 1}⟩, ⟨['a'], {}⟩]
      (.slice (some ((0 : Nat) : Int)) (some ((1 : Nat) : Int)) false)
      = .ok [⟨['a'], {}⟩] := (isOk_iff _ _).mp (by decide +kernel)
  have hk : keepLead exEnv [⟨['́'], {fg := some 1}⟩, ⟨['a'], {}⟩] 0 1 = true := by decide +kernel
  rw [hval] at hr
  injection hr with hr
  subst hr
  rw [hk] at hrel
  have hc : cells [⟨['́'], {fg := some 1}⟩, ⟨['a'], {}⟩] = [('́', {fg := some 1}), ('a', {})] := rfl
  have hc2 : cells [⟨['a'], {}⟩] = [('a', {})] := rfl
  rw [hc, hc2] at hrel
  rcases hrel.inv_cons with ⟨_, hb, _⟩ | ⟨_, _, out', ho, _⟩ | ⟨hw, _⟩ | ⟨hw, _⟩
  · exact hb _ rfl (Or.inr ⟨rfl, rfl⟩)
  · simp at ho
  · simp only [wit_z] at hw; omega
  · simp only [wit_z] at hw; omega

/-- The width of the slice is the number of requested columns that exist (`W` = width of `f`). -/
theorem C10_slice_width (u : UEnv) (f : FmtStr) (a b : Nat) (hs : u.sane (text f))
    (hsp : u.wcwidth ' ' = 1) (hab : a ≤ b) :
    ∃ r, widthAwareSlice u f (.slice (some a) (some b) false) = .ok r ∧
      fmtWidth u r = .ok (min (b : Int) (colWidth u (text f)) - min (a : Int) (colWidth u (text f))) := by
  obtain ⟨r, hr, hrel⟩ := C10_slice_columns_partial u f a b hs
  refine ⟨r, hr, ?_⟩
  have hsf : u.sane ((cells f).map Prod.fst) := by rw [← text_eq_cells]; exact hs
  have hw := hrel.width hsf hsp (by omega)
  have hW : cellsWidth u (cells f) = colWidth u (text f) := by simp [cellsWidth, ← text_eq_cells]
  have hWr : cellsWidth u (cells r) = colWidth u (text r) := by simp [cellsWidth, ← text_eq_cells]
  have hn := colWidth_nonneg hs
  -- the result is sane too: its characters are characters of f or spaces
  have hsr : u.sane (text r) := by
    rw [text_eq_cells]
    exact SliceRel.sane_out hrel hsf hsp
  rw [fmtWidth_eq hsr, ← hWr, hw, hW]
  congr 1
  omega

/-! ### non-vacuity: a three-run string (one run empty) with wide and combining characters -/

example : exEnv.sane (text exF) ∧ exEnv.wcwidth ' ' = 1 := by
  refine ⟨?_, by decide⟩
  intro c hc
  simp [text, exF] at hc
  rcases hc with rfl | rfl | rfl | rfl | rfl <;> decide
example : fmtWidth exEnv exF = .ok 6 := by rfl
example : widthAwareSlice exEnv exF (.slice (some 2) (some 4) false)
    = .ok [⟨[' '], {fg := some 1}⟩, ⟨[], {}⟩, ⟨[' '], {bold := some true}⟩] := (isOk_iff _ _).mp (by decide +kernel)
example : widthAwareSlice exEnv exF (.slice (some 2) (some 2) false) = .ok [⟨[], {fg := some 1}⟩] := (isOk_iff _ _).mp (by decide +kernel)
example : widthAwareSlice exEnv exF (.slice (some 1) (some 6) false)
    = .ok [⟨['Ｅ'], {fg := some 1}⟩, ⟨[], {}⟩, ⟨['́', 'Ｅ', 'b'], {bold := some true}⟩] := (isOk_iff _ _).mp (by decide +kernel)


/-! ### the column view of DESIGN section 3 -/

/-- one terminal column: a narrow character, or the left / right half of a double-width one -/
inductive ColCell
  | narrow (c : Char) (a : Atts) | left (c : Char) (a : Atts) | right (c : Char) (a : Atts)
  deriving DecidableEq, Repr

/-- column-expanded view: zero-width characters occupy no column -/
def cols (u : UEnv) : List Cell → List ColCell
  | [] => []
  | (c, a) :: rest =>
    if u.wcwidth c = 1 then .narrow c a :: cols u rest
    else if u.wcwidth c = 2 then .left c a :: .right c a :: cols u rest
    else cols u rest

/-- an orphaned right half at the start / left half at the end becomes a space with the same formatting -/
def cutHead : List ColCell → List ColCell
  | .right _ a :: rest => .narrow ' ' a :: rest
  | l => l
def cutLast : List ColCell → List ColCell
  | [] => []
  | [.left _ a] => [.narrow ' ' a]
  | [y] => [y]
  | y :: z :: rest => y :: cutLast (z :: rest)

def C10_cols_full_statement : Prop :=
  ∀ (u : UEnv) (f : FmtStr) (a b : Nat), u.sane (text f) → u.wcwidth ' ' = 1 → a ≤ b →
    ∃ r, widthAwareSlice u f (.slice (some a) (some b) false) = .ok r ∧
      cols u (cells r) = cutHead (cutLast (((cols u (cells f)).take b).drop a))


/-! ### proof of the column view from `SliceRel` -/

/-- what the window [a, b) shows of the cells `l` laid out from column `col` -/
def window (u : UEnv) (a b : Nat) : Nat → List Cell → List ColCell
  | _, [] => []
  | col, (c, tt) :: rest =>
    if u.wcwidth c = 1 then
      (if a ≤ col ∧ col < b then [ColCell.narrow c tt] else []) ++ window u a b (col + 1) rest
    else if u.wcwidth c = 2 then
      (if a ≤ col ∧ col + 1 < b then [ColCell.left c tt, ColCell.right c tt]
       else if (a ≤ col ∧ col < b) ∨ (a ≤ col + 1 ∧ col + 1 < b) then [ColCell.narrow ' ' tt]
       else []) ++ window u a b (col + 2) rest
    else window u a b col rest

private theorem cols_replicate_space (u : UEnv) (hsp : u.wcwidth ' ' = 1) (n : Nat) (tt : Atts) (out : List Cell) :
    cols u (List.replicate n (' ', tt) ++ out) = List.replicate n (ColCell.narrow ' ' tt) ++ cols u out := by
  induction n with
  | zero => simp
  | succ k ih => simp [List.replicate_succ, cols, hsp, ih]

theorem SliceRel.window {u : UEnv} {a b : Nat} {colI : Int} {l out : List Cell}
    (h : SliceRel u strict a b colI l out) (hsp : u.wcwidth ' ' = 1) (hs : u.sane (l.map Prod.fst)) :
    ∀ col : Nat, colI = col → cols u out = window u a b col l := by
  induction h with
  | nil col => intro c _; rfl
  | @zdrop colI x rest out hz _ _ ih =>
    intro col hc
    simp only [List.map_cons] at hs
    obtain ⟨c, tt⟩ := x
    simp only [Curtsies.window]
    have h0 : u.wcwidth c = 0 := hz
    rw [if_neg (by omega), if_neg (by omega)]
    exact ih (UEnv.sane_cons hs).2 col hc
  | @zkeep colI x rest out hz _ _ _ _ ih =>
    intro col hc
    simp only [List.map_cons] at hs
    obtain ⟨c, tt⟩ := x
    have h0 : u.wcwidth c = 0 := hz
    simp only [Curtsies.window, cols]
    rw [if_neg (by omega), if_neg (by omega), if_neg (by omega), if_neg (by omega)]
    exact ih (UEnv.sane_cons hs).2 col hc
  | @inside colI x rest out hw ha hb _ ih =>
    intro col hc
    simp only [List.map_cons] at hs
    obtain ⟨c, tt⟩ := x
    have hx := (UEnv.sane_cons hs).1
    simp only [] at hx hw ha hb
    simp only [Curtsies.window, cols]
    by_cases h1 : u.wcwidth c = 1
    · rw [if_pos h1, if_pos h1, if_pos (by omega)]
      rw [h1] at ih
      rw [ih (UEnv.sane_cons hs).2 (col + 1) (by omega)]; rfl
    · have h2 : u.wcwidth c = 2 := by omega
      rw [if_neg h1, if_pos h2, if_neg h1, if_pos h2, if_pos (by omega)]
      rw [h2] at ih
      rw [ih (UEnv.sane_cons hs).2 (col + 2) (by omega)]; rfl
  | @cut colI x rest out hw hn _ ih =>
    intro col hc
    simp only [List.map_cons] at hs
    obtain ⟨c, tt⟩ := x
    have hx := (UEnv.sane_cons hs).1
    simp only [] at hx hw hn
    rw [cols_replicate_space u hsp]
    simp only [Curtsies.window]
    by_cases h1 : u.wcwidth c = 1
    · rw [if_pos h1, if_neg (by omega)]
      rw [h1] at ih
      rw [ih (UEnv.sane_cons hs).2 (col + 1) (by omega)]
      have : colOverlap a b colI (u.wcwidth c) = 0 := by unfold colOverlap; omega
      rw [this]; rfl
    · have h2 : u.wcwidth c = 2 := by omega
      rw [if_neg h1, if_pos h2, if_neg (by omega)]
      rw [h2] at ih
      rw [ih (UEnv.sane_cons hs).2 (col + 2) (by omega)]
      by_cases h3 : (a ≤ col ∧ col < b) ∨ (a ≤ col + 1 ∧ col + 1 < b)
      · rw [if_pos h3]
        have : colOverlap a b colI (u.wcwidth c) = 1 := by unfold colOverlap; omega
        rw [this]; rfl
      · rw [if_neg h3]
        have : colOverlap a b colI (u.wcwidth c) = 0 := by unfold colOverlap; omega
        rw [this]; rfl


/-- does not start with a right half -/
def NR (X : List ColCell) : Prop := ∀ c a r, X ≠ ColCell.right c a :: r

private theorem cols_NR (u : UEnv) (l : List Cell) : NR (cols u l) := by
  induction l with
  | nil => intro c a r h; cases h
  | cons x rest ih =>
    obtain ⟨ch, tt⟩ := x
    intro c a r
    simp only [cols]
    split
    · intro h; cases h
    · split
      · intro h; cases h
      · exact ih c a r

private theorem NR_take {X : List ColCell} (h : NR X) (k : Nat) : NR (X.take k) := by
  intro c a r hk
  cases X with
  | nil => simp at hk
  | cons y Y =>
    cases k with
    | zero => simp at hk
    | succ k =>
      simp only [List.take_succ_cons, List.cons.injEq] at hk
      exact h c a Y (by rw [hk.1])

private theorem cutLast_cons (y : ColCell) {X : List ColCell} (h : X ≠ []) : cutLast (y :: X) = y :: cutLast X := by
  cases X with
  | nil => exact absurd rfl h
  | cons z Z => cases y <;> simp [cutLast]

private theorem NR_cutLast {X : List ColCell} (h : NR X) : NR (cutLast X) := by
  cases X with
  | nil => exact h
  | cons y Y =>
    cases Y with
    | nil =>
      cases y with
      | narrow c a => exact h
      | left c a => intro c' a' r hh; simp [cutLast] at hh
      | right c a => exact absurd rfl (h c a [])
    | cons z Z =>
      rw [cutLast_cons y (by simp)]
      intro c a r hh
      simp only [List.cons.injEq] at hh
      exact h c a (z :: Z) (by rw [hh.1])

private theorem cutHead_NR {X : List ColCell} (h : NR X) : cutHead X = X := by
  cases X with
  | nil => rfl
  | cons y Y =>
    cases y with
    | narrow c a => rfl
    | left c a => rfl
    | right c a => exact absurd rfl (h c a Y)

private theorem window_empty (u : UEnv) (a b : Nat) (l : List Cell) (col : Nat) (h : b ≤ col) :
    window u a b col l = [] := by
  induction l generalizing col with
  | nil => rfl
  | cons x rest ih =>
    obtain ⟨c, tt⟩ := x
    simp only [window]
    split
    · rw [if_neg (by omega), ih (col + 1) (by omega)]; rfl
    · split
      · rw [if_neg (by omega), if_neg (by omega), ih (col + 2) (by omega)]; rfl
      · exact ih col h

private theorem take_drop_skip {α} (y : α) (C : List α) (a b col : Nat) (h1 : col < a) (h2 : a ≤ b) :
    ((y :: C).take (b - col)).drop (a - col) = (C.take (b - (col + 1))).drop (a - (col + 1)) := by
  have e1 : b - col = (b - (col + 1)) + 1 := by omega
  have e2 : a - col = (a - (col + 1)) + 1 := by omega
  rw [e1, e2, List.take_succ_cons, List.drop_succ_cons]

private theorem take_drop_keep {α} (y : α) (C : List α) (a b col : Nat) (h1 : a ≤ col) (h2 : col < b) :
    ((y :: C).take (b - col)).drop (a - col) = y :: (C.take (b - (col + 1))).drop (a - (col + 1)) := by
  have e1 : b - col = (b - (col + 1)) + 1 := by omega
  have e2 : a - col = 0 := by omega
  have e3 : a - (col + 1) = 0 := by omega
  rw [e1, e2, e3, List.take_succ_cons]; rfl

private theorem window_eq (u : UEnv) (a b : Nat) (hab : a ≤ b) (l : List Cell) (col : Nat) :
    window u a b col l = cutHead (cutLast (((cols u l).take (b - col)).drop (a - col))) := by
  induction l generalizing col with
  | nil => simp [window, cols, cutLast, cutHead]
  | cons x rest ih =>
    obtain ⟨c, tt⟩ := x
    simp only [window, cols]
    have hNR : ∀ k, NR ((cols u rest).take k) := fun k => NR_take (cols_NR u rest) k
    by_cases h1 : u.wcwidth c = 1
    · rw [if_pos h1, if_pos h1]
      by_cases hlt : col < a
      · rw [if_neg (by omega), take_drop_skip _ _ _ _ _ hlt hab, ← ih (col + 1)]; rfl
      · by_cases hb : col < b
        · rw [if_pos (by omega), take_drop_keep _ _ _ _ _ (by omega) hb, ih (col + 1)]
          have e3 : a - (col + 1) = 0 := by omega
          rw [e3, List.drop_zero, cutHead_NR (NR_cutLast (hNR _))]
          by_cases hX : (cols u rest).take (b - (col + 1)) = []
          · rw [hX]; rfl
          · rw [cutLast_cons _ hX]; rfl
        · rw [if_neg (by omega), window_empty u a b rest (col + 1) (by omega)]
          have : b - col = 0 := by omega
          rw [this]; simp [cutLast, cutHead]
    · rw [if_neg h1, if_neg h1]
      by_cases h2 : u.wcwidth c = 2
      · rw [if_pos h2, if_pos h2]
        have e2 : col + 1 + 1 = col + 2 := rfl
        by_cases hA : col + 1 < a
        · rw [if_neg (by omega), if_neg (by omega)]
          rw [take_drop_skip _ _ _ _ _ (by omega) hab, take_drop_skip _ _ a b (col + 1) hA hab, e2,
            ← ih (col + 2)]; rfl
        · by_cases hB : col + 1 = a
          · by_cases hC : b = a
            · rw [if_neg (by omega), if_neg (by omega), window_empty u a b rest (col + 2) (by omega)]
              have e3 : b - col = 1 := by omega
              have e4 : a - col = 1 := by omega
              rw [e3, e4]; simp [cutLast, cutHead]
            · rw [if_neg (by omega), if_pos (by omega)]
              rw [take_drop_skip _ _ _ _ _ (by omega) hab,
                take_drop_keep _ _ a b (col + 1) (by omega) (by omega), e2, ih (col + 2)]
              have e3 : a - (col + 2) = 0 := by omega
              rw [e3, List.drop_zero, cutHead_NR (NR_cutLast (hNR _))]
              by_cases hX : (cols u rest).take (b - (col + 2)) = []
              · rw [hX]; simp [cutLast, cutHead]
              · rw [cutLast_cons _ hX]; simp [cutHead]
          · by_cases hb0 : b ≤ col
            · rw [if_neg (by omega), if_neg (by omega), window_empty u a b rest (col + 2) (by omega)]
              have : b - col = 0 := by omega
              rw [this]; simp [cutLast, cutHead]
            · by_cases hb1 : b = col + 1
              · rw [if_neg (by omega), if_pos (by omega), window_empty u a b rest (col + 2) (by omega)]
                have e3 : b - col = 1 := by omega
                have e4 : a - col = 0 := by omega
                rw [e3, e4]; simp [cutLast, cutHead]
              · rw [if_pos (by omega)]
                rw [take_drop_keep _ _ _ _ _ (by omega) (by omega)]
                have e3 : a - (col + 1) = 0 := by omega
                have e5 : b - (col + 1) = (b - (col + 2)) + 1 := by omega
                rw [e3, List.drop_zero, e5, List.take_succ_cons, ih (col + 2)]
                have e6 : a - (col + 2) = 0 := by omega
                rw [e6, List.drop_zero, cutHead_NR (NR_cutLast (hNR _))]
                by_cases hX : (cols u rest).take (b - (col + 2)) = []
                · rw [hX]; simp [cutLast, cutHead]
                · rw [cutLast_cons _ (by simp), cutLast_cons _ hX]; simp [cutHead]
      · rw [if_neg h2, if_neg h2]
        exact ih col


/-- The column view: the columns of the slice are columns a..b-1 of `f`, an orphaned half of a double-width
    character replaced by a space with that character's formatting. -/
theorem C10_cols : C10_cols_full_statement := by
  intro u f a b hs hsp hab
  obtain ⟨r, hr, hrel⟩ := C10_slice_columns_partial u f a b hs
  refine ⟨r, hr, ?_⟩
  have hsf : u.sane ((cells f).map Prod.fst) := by rw [← text_eq_cells]; exact hs
  rw [hrel.window hsp hsf 0 rfl, window_eq u a b hab (cells f) 0]
  simp

end Curtsies
