/-
  C10 - width and width_aware_slice measure and cut by terminal columns.

  For EVERY Unicode environment `u` (the library's `wcwidth`), under the sanity hypothesis `u.sane (text f)`
  (every character of the string has width 0, 1 or 2 - exactly what the library's own guard
  `wcswidth(self.s) != -1` establishes for the real `wcwidth`, whose only other value is -1; `C10_guard`
  shows the code raises ValueError otherwise):

  * `C10_width`, `C10_offset`: `.width` / `width_at_offset(n)` are the column sums.
  * The slicing clause is the per-character column-interval relation `SliceRel u strict a b`: walking the
    characters of `f` with their column intervals [col, col+w), a character wholly inside [a, b) is kept with its
    formatting; any other character of non-zero width is replaced by as many spaces (with ITS formatting) as it has
    columns inside the range (one for a double-width character cut by an edge, none for a character outside); a
    zero-width character is never invented, moved or restyled, may only be kept when its column is in [a, b], and
    - `strict = true` - MUST be kept when its column is strictly inside (a, b) (at col = a or col = b either
    outcome is allowed: it combines with a character that may lie outside).
    - `C10_slice_full_statement` (strict, every run layout) is FALSE for the code: finding D30, `C10_D30_witness`
      (a zero-width character that starts a later, right-cut run is dropped).
    - `C10_slice_partial`: the strict statement on the complement of the footprint (`D30Free`; sufficient:
      no run after the first begins with a zero-width character, `D30Free_of_tail`).
    - `C10_slice_columns_partial`: the non-strict statement for EVERY run layout, all `a b : Nat`.
  * `C10_slice_width`: hence the width of the result is the number of requested columns that exist.
  * `C10_cols : C10_cols_full_statement`: the flattened column view of DESIGN section 3 (`cols`: a double-width
    character fills a left and a right column, zero-width characters none): the columns of the result are columns
    a..b-1 of `f` with an orphaned half replaced by a space of the same formatting. Derived from `SliceRel` (non-strict: it does not depend on zero-width characters).
-/
import Curtsies.Proofs.Width
namespace Curtsies

/-! ### specification side -/

/-- columns occupied by a list of cells -/
def cellsWidth (u : UEnv) (l : List Cell) : Int := colWidth u (l.map Prod.fst)

def colOverlap (a b col w : Int) : Nat := (min (col + w) b - max col a).toNat

inductive SliceRel (u : UEnv) (strict : Bool) (a b : Int) : Int → List Cell → List Cell → Prop
  | nil (col : Int) : SliceRel u strict a b col [] []
  | zdrop {col : Int} {x : Cell} {rest out : List Cell} :
      u.wcwidth x.1 = 0 → (strict = true → col ≤ a ∨ b ≤ col) →
      SliceRel u strict a b col rest out → SliceRel u strict a b col (x :: rest) out
  | zkeep {col : Int} {x : Cell} {rest out : List Cell} :
      u.wcwidth x.1 = 0 → a ≤ col → col ≤ b → SliceRel u strict a b col rest out →
      SliceRel u strict a b col (x :: rest) (x :: out)
  | inside {col : Int} {x : Cell} {rest out : List Cell} :
      0 < u.wcwidth x.1 → a ≤ col → col + u.wcwidth x.1 ≤ b →
      SliceRel u strict a b (col + u.wcwidth x.1) rest out → SliceRel u strict a b col (x :: rest) (x :: out)
  | cut {col : Int} {x : Cell} {rest out : List Cell} :
      0 < u.wcwidth x.1 → ¬ (a ≤ col ∧ col + u.wcwidth x.1 ≤ b) →
      SliceRel u strict a b (col + u.wcwidth x.1) rest out →
      SliceRel u strict a b col (x :: rest) (List.replicate (colOverlap a b col (u.wcwidth x.1)) (' ', x.2) ++ out)

/-! ### proofs -/
variable {strict : Bool}

private theorem intervalOverlap_cut (cs w a b col0 : Int) (hcs : 0 ≤ cs) (hw : w = 1 ∨ w = 2) :
    ∃ n, intervalOverlap cs (cs + w) (max 0 (a - col0)) (b - col0) = .ok n ∧
      n.toNat = colOverlap a b (col0 + cs) w := by
  unfold intervalOverlap colOverlap
  split
  · exact ⟨_, rfl, by omega⟩
  · split
    · exact ⟨_, rfl, by omega⟩
    · split
      · exact ⟨_, rfl, by omega⟩
      · split
        · exact ⟨_, rfl, by omega⟩
        · exfalso; omega

private theorem wasLoop_rel (u : UEnv) (atts : Atts) (a b col0 : Int) (s : Text) (cs : Int)
    (hs : u.sane s) (hcs : 0 ≤ cs)
    (hlead : strict = true → a < col0 → cs = 0 → ∀ ch, s.head? = some ch → u.wcwidth ch ≠ 0) :
    ∃ r, wasLoop u (max 0 (a - col0)) (b - col0) cs s = .ok r ∧
      SliceRel u strict a b (col0 + cs) (s.map fun ch => (ch, atts)) (r.map fun ch => (ch, atts)) := by
  induction s generalizing cs with
  | nil => exact ⟨[], rfl, .nil _⟩
  | cons c rest ih =>
    have ⟨hw, hrest⟩ := UEnv.sane_cons hs
    obtain ⟨r, hr, hrel⟩ := ih (cs + u.wcwidth c) hrest (by omega)
      (fun hst ha h0 => absurd (by omega : u.wcwidth c = 0) (hlead hst ha (by omega) c rfl))
    have hcol : col0 + (cs + u.wcwidth c) = col0 + cs + u.wcwidth c := by omega
    rw [hcol] at hrel
    unfold wasLoop
    simp only []
    by_cases h1 : cs = max 0 (a - col0) ∧ cs + u.wcwidth c = max 0 (a - col0)
    · rw [if_pos h1]
      have hz : u.wcwidth c = 0 := by omega
      rw [hz] at hrel
      simp only [Int.add_zero] at hrel
      refine ⟨r, hr, .zdrop hz (fun hst => ?_) hrel⟩
      by_cases ha : a < col0
      · exact absurd hz (hlead hst ha (by omega) c rfl)
      · left; omega
    · rw [if_neg h1]
      by_cases h2 : cs ≥ max 0 (a - col0) ∧ cs + u.wcwidth c ≤ b - col0
      · rw [if_pos h2, hr]
        refine ⟨c :: r, rfl, ?_⟩
        by_cases hz : u.wcwidth c = 0
        · rw [hz] at hrel
          simp only [Int.add_zero] at hrel
          exact .zkeep hz (by omega) (by omega) hrel
        · exact .inside (x := (c, atts)) (by show 0 < u.wcwidth c; omega) (by omega)
            (by show col0 + cs + u.wcwidth c ≤ b; omega) hrel
      · rw [if_neg h2]
        by_cases hz : u.wcwidth c = 0
        · have : intervalOverlap cs (cs + u.wcwidth c) (max 0 (a - col0)) (b - col0) = .ok 0 := by
            unfold intervalOverlap
            rw [if_pos (by omega)]
          rw [this, hr]
          refine ⟨r, by simp [bind, Except.bind, pure, Except.pure], ?_⟩
          rw [hz] at hrel
          simp only [Int.add_zero] at hrel
          exact .zdrop hz (fun _ => by omega) hrel
        · obtain ⟨n, hn, hn2⟩ := intervalOverlap_cut cs (u.wcwidth c) a b col0 hcs (by omega)
          rw [hn, hr]
          refine ⟨List.replicate n.toNat ' ' ++ r, by simp [bind, Except.bind, pure, Except.pure], ?_⟩
          rw [hn2, List.map_append, List.map_replicate]
          exact .cut (x := (c, atts)) (by show 0 < u.wcwidth c; omega)
            (by show ¬ (a ≤ col0 + cs ∧ col0 + cs + u.wcwidth c ≤ b); omega) hrel


@[simp] theorem cellsWidth_nil (u : UEnv) : cellsWidth u [] = 0 := rfl
@[simp] theorem cellsWidth_cons (u : UEnv) (x : Cell) (l : List Cell) :
    cellsWidth u (x :: l) = u.wcwidth x.1 + cellsWidth u l := by simp [cellsWidth]
@[simp] theorem cellsWidth_append (u : UEnv) (l m : List Cell) :
    cellsWidth u (l ++ m) = cellsWidth u l + cellsWidth u m := by simp [cellsWidth]

private theorem chunk_cells_fst (c : Chunk) : c.cells.map Prod.fst = c.s := by
  simp [Chunk.cells, Function.comp_def]

theorem SliceRel.all_inside (u : UEnv) (a b : Int) (l : List Cell) (col : Int)
    (hs : u.sane (l.map Prod.fst)) (h1 : a ≤ col) (h2 : col + cellsWidth u l ≤ b) :
    SliceRel u strict a b col l l := by
  induction l generalizing col with
  | nil => exact .nil _
  | cons x rest ih =>
    simp only [List.map_cons] at hs
    have ⟨hw, hrest⟩ := UEnv.sane_cons hs
    have hn := colWidth_nonneg hrest
    simp only [cellsWidth_cons] at h2
    have hn' : 0 ≤ cellsWidth u rest := hn
    by_cases hz : u.wcwidth x.1 = 0
    · exact .zkeep hz h1 (by omega) (ih col hrest h1 (by omega))
    · exact .inside (by omega) h1 (by omega) (ih _ hrest (by omega) (by omega))

theorem SliceRel.all_outside (u : UEnv) (a b : Int) (l : List Cell) (col : Int)
    (hs : u.sane (l.map Prod.fst)) (h : col + cellsWidth u l ≤ a ∨ b ≤ col) :
    SliceRel u strict a b col l [] := by
  induction l generalizing col with
  | nil => exact .nil _
  | cons x rest ih =>
    simp only [List.map_cons] at hs
    have ⟨hw, hrest⟩ := UEnv.sane_cons hs
    have hn : 0 ≤ cellsWidth u rest := colWidth_nonneg hrest
    simp only [cellsWidth_cons] at h
    by_cases hz : u.wcwidth x.1 = 0
    · exact .zdrop hz (fun _ => by omega) (ih col hrest (by omega))
    · have h0 : colOverlap a b col (u.wcwidth x.1) = 0 := by unfold colOverlap; omega
      have := SliceRel.cut (u := u) (a := a) (b := b) (col := col) (x := x) (by omega) (by omega)
        (ih (col + u.wcwidth x.1) hrest (by omega))
      rw [h0] at this
      simpa using this

theorem SliceRel.append {u : UEnv} {a b : Int} {l1 o1 : List Cell} {col : Int}
    (h1 : SliceRel u strict a b col l1 o1) {l2 o2 : List Cell}
    (h2 : SliceRel u strict a b (col + cellsWidth u l1) l2 o2) : SliceRel u strict a b col (l1 ++ l2) (o1 ++ o2) := by
  induction h1 with
  | nil col => simpa using h2
  | zdrop hz hb _ ih =>
    simp only [cellsWidth_cons, hz, Int.zero_add] at h2
    exact .zdrop hz hb (ih h2)
  | zkeep hz ha hb _ ih =>
    simp only [cellsWidth_cons, hz, Int.zero_add] at h2
    exact .zkeep hz ha hb (ih h2)
  | inside hw ha hb _ ih =>
    simp only [cellsWidth_cons, ← Int.add_assoc] at h2
    exact .inside hw ha hb (ih h2)
  | cut hw hn _ ih =>
    simp only [cellsWidth_cons, ← Int.add_assoc] at h2
    rw [List.append_assoc]
    exact .cut hw hn (ih h2)

/-- The complement of the footprint of finding D30: no run that starts strictly inside the requested columns
    `(a, b)` and is cut by the right edge (`b` before its end) begins with a zero-width character.
    `counter` is the column at which the first run of the list starts. -/
def D30Free (u : UEnv) (a b : Int) : Int → FmtStr → Prop
  | _, [] => True
  | counter, c :: rest =>
    (a < counter ∧ counter < b ∧ b < counter + colWidth u c.s →
      ∀ ch, c.s.head? = some ch → u.wcwidth ch ≠ 0) ∧
    D30Free u a b (counter + colWidth u c.s) rest

private theorem wasChunkLoop_rel (u : UEnv) (start stop : Int) (f : FmtStr) (counter : Int)
    (hs : u.sane (text f)) (hc : 0 ≤ counter)
    (hfree : strict = true → D30Free u start stop counter f) :
    ∃ parts, wasChunkLoop u start stop counter f = .ok parts ∧
      SliceRel u strict start stop counter (cells f) (cells parts) := by
  induction f generalizing counter with
  | nil => exact ⟨[], rfl, .nil _⟩
  | cons c rest ih =>
    rw [text_cons] at hs
    have ⟨h1, h2⟩ := UEnv.sane_append.mp hs
    have hcw := colWidth_nonneg h1
    have hcs : u.sane (c.cells.map Prod.fst) := by rw [chunk_cells_fst]; exact h1
    have hcwid : cellsWidth u c.cells = colWidth u c.s := by simp [cellsWidth, chunk_cells_fst]
    -- the part contributed by this chunk
    have hpart : ∃ part, wasChunkPart u start stop counter c (colWidth u c.s) = .ok part ∧
        SliceRel u strict start stop counter c.cells (cells part) := by
      unfold wasChunkPart
      simp only []
      by_cases hcond : start < counter + colWidth u c.s ∧ stop > counter
      · rw [if_pos hcond]
        by_cases hwhole : min (stop - counter) (colWidth u c.s) - max 0 (start - counter) = colWidth u c.s
        · rw [if_pos hwhole]
          refine ⟨[c], rfl, ?_⟩
          simp only [cells_cons, cells_nil, List.append_nil]
          exact SliceRel.all_inside u _ _ _ _ hcs (by omega) (by rw [hcwid]; omega)
        · rw [if_neg hwhole]
          obtain ⟨r, hr, hrel⟩ := wasLoop_rel (strict := strict) u c.atts start stop counter c.s 0 h1
            (Int.le_refl 0) (fun hst ha _ => (hfree hst).1 ⟨ha, by omega, by omega⟩)
          refine ⟨[⟨r, c.atts⟩], by simp [widthAwareSliceStr, hr, bind, Except.bind, pure, Except.pure], ?_⟩
          simp only [cells_cons, cells_nil, List.append_nil, Int.add_zero] at hrel ⊢
          exact hrel
      · rw [if_neg hcond]
        refine ⟨[], rfl, ?_⟩
        exact SliceRel.all_outside u _ _ _ _ hcs (by rw [hcwid]; omega)
    obtain ⟨part, hp, hprel⟩ := hpart
    unfold wasChunkLoop
    simp only [chunkWidth_eq h1, hp, bind, Except.bind]
    by_cases hb : stop < counter + colWidth u c.s
    · rw [if_pos hb]
      refine ⟨part, rfl, ?_⟩
      have hout : SliceRel u strict start stop (counter + cellsWidth u c.cells) (cells rest) [] := by
        apply SliceRel.all_outside
        · rw [← text_eq_cells]; exact h2
        · rw [hcwid]; omega
      have := SliceRel.append hprel hout
      simpa using this
    · rw [if_neg hb]
      obtain ⟨parts, hps, hrel⟩ := ih (counter + colWidth u c.s) h2 (by omega) (fun hst => (hfree hst).2)
      rw [hps]
      refine ⟨part ++ parts, rfl, ?_⟩
      rw [cells_cons, cells_append]
      apply SliceRel.append hprel
      rw [hcwid]; exact hrel


/-! ### corollary: the width of a slice -/

private theorem cellsWidth_replicate (u : UEnv) (hsp : u.wcwidth ' ' = 1) (n : Nat) (a : Atts) :
    cellsWidth u (List.replicate n (' ', a)) = n := by
  induction n with
  | zero => simp
  | succ k ih => simp [List.replicate_succ, ih, hsp]; omega

theorem SliceRel.width {u : UEnv} {a b col : Int} {l out : List Cell} (h : SliceRel u strict a b col l out)
    (hs : u.sane (l.map Prod.fst)) (hsp : u.wcwidth ' ' = 1) (hab : a ≤ b) :
    cellsWidth u out = max 0 (min b (col + cellsWidth u l) - max a col) := by
  induction h with
  | nil col => simp; omega
  | zdrop hz _ _ ih =>
    simp only [List.map_cons] at hs
    have := ih (UEnv.sane_cons hs).2
    simp only [cellsWidth_cons, hz]; omega
  | zkeep hz ha hb _ ih =>
    simp only [List.map_cons] at hs
    have := ih (UEnv.sane_cons hs).2
    simp only [cellsWidth_cons, hz]; omega
  | @inside col x rest out hw ha hb _ ih =>
    simp only [List.map_cons] at hs
    have := ih (UEnv.sane_cons hs).2
    have hn : 0 ≤ cellsWidth u rest := colWidth_nonneg (UEnv.sane_cons hs).2
    simp only [cellsWidth_cons]; omega
  | @cut col x rest out hw hn _ ih =>
    simp only [List.map_cons] at hs
    have := ih (UEnv.sane_cons hs).2
    have hn : 0 ≤ cellsWidth u rest := colWidth_nonneg (UEnv.sane_cons hs).2
    have hx := (UEnv.sane_cons hs).1
    simp only [cellsWidth_append, cellsWidth_replicate u hsp, cellsWidth_cons, colOverlap]
    omega

/-- every character of the result is a character of the source or a replacement space -/
theorem SliceRel.sane_out {u : UEnv} {a b col : Int} {l out : List Cell} (h : SliceRel u strict a b col l out)
    (hs : u.sane (l.map Prod.fst)) (hsp : u.wcwidth ' ' = 1) : u.sane (out.map Prod.fst) := by
  induction h with
  | nil col => exact hs
  | zdrop hz _ _ ih => simp only [List.map_cons] at hs; exact ih (UEnv.sane_cons hs).2
  | zkeep hz ha hb _ ih =>
    simp only [List.map_cons] at hs ⊢
    intro c hc
    rcases List.mem_cons.mp hc with rfl | hc
    · exact (UEnv.sane_cons hs).1
    · exact ih (UEnv.sane_cons hs).2 c hc
  | inside hw ha hb _ ih =>
    simp only [List.map_cons] at hs ⊢
    intro c hc
    rcases List.mem_cons.mp hc with rfl | hc
    · exact (UEnv.sane_cons hs).1
    · exact ih (UEnv.sane_cons hs).2 c hc
  | cut hw hn _ ih =>
    simp only [List.map_cons] at hs
    simp only [List.map_append, List.map_replicate]
    intro c hc
    rcases List.mem_append.mp hc with hc | hc
    · have := (List.mem_replicate.mp hc).2
      rw [this]; omega
    · exact ih (UEnv.sane_cons hs).2 c hc

/-! ### the property theorems -/

/-- `f.width` is the number of terminal columns `f` occupies. -/
theorem C10_width (u : UEnv) (f : FmtStr) (hs : u.sane (text f)) :
    fmtWidth u f = .ok (colWidth u (text f)) := fmtWidth_eq hs

/-- `f.width_at_offset(n)` is the width of the first `n` characters (every `n`, also past the end). -/
theorem C10_offset (u : UEnv) (f : FmtStr) (n : Nat) (hs : u.sane (text f)) :
    widthAtOffset u f n = .ok (colWidth u ((text f).take n)) := by
  have h := UEnv.sane_take hs n
  have := colWidth_nonneg h
  simp only [widthAtOffset, wcswidthN, wcswidth_eq h]
  rw [if_neg (by omega)]

theorem wcswidthLoop_neg (u : UEnv) (s : Text) (acc : Int) (h : ∃ c ∈ s, u.wcwidth c < 0) :
    wcswidthLoop u acc s = -1 := by
  induction s generalizing acc with
  | nil => simp at h
  | cons c rest ih =>
    unfold wcswidthLoop
    by_cases hc : u.wcwidth c < 0
    · rw [if_pos hc]
    · rw [if_neg hc]
      apply ih
      obtain ⟨d, hd, hd2⟩ := h
      rcases List.mem_cons.mp hd with rfl | hd
      · exact absurd hd2 hc
      · exact ⟨d, hd, hd2⟩

/-- Outside the sanity hypothesis nothing is computed: a character of negative width (cwcwidth's -1 for
    control characters) makes `width_aware_slice` raise ValueError, for every index. -/
theorem C10_guard (u : UEnv) (f : FmtStr) (idx : Index) (h : ∃ c ∈ text f, u.wcwidth c < 0) :
    widthAwareSlice u f idx = .error .valueError := by
  simp [widthAwareSlice, wcswidth, wcswidthLoop_neg u _ 0 h]

private theorem slice_rel (u : UEnv) (f : FmtStr) (a b : Nat) (hs : u.sane (text f))
    (hfree : strict = true → D30Free u a b 0 f) :
    ∃ r, widthAwareSlice u f (.slice (some a) (some b) false) = .ok r ∧
      SliceRel u strict a b 0 (cells f) (cells r) := by
  obtain ⟨parts, hp, hrel⟩ := wasChunkLoop_rel (strict := strict) u a b f 0 hs (Int.le_refl 0) hfree
  have hw : wcswidth u (text f) ≠ -1 := by
    rw [wcswidth_eq hs]; have := colWidth_nonneg hs; omega
  refine ⟨if parts.isEmpty then emptyFmt else parts, ?_, ?_⟩
  · have hn : normalizeSlice (colWidth u (text f)).toNat (.slice (some (a : Int)) (some (b : Int)) false)
        = .ok (a, b) := by
      simp [normalizeSlice]
      constructor <;> omega
    simp only [widthAwareSlice, if_neg hw, fmtWidth_eq hs, bind, Except.bind, hn, hp, pure, Except.pure]
  · by_cases he : parts.isEmpty
    · rw [if_pos he]
      have : parts = [] := List.isEmpty_iff.mp he
      rw [this] at hrel
      exact hrel
    · rw [if_neg he]; exact hrel

/-- FULL statement of the slicing clause (`strict = true`: a zero-width character strictly inside the requested
    columns must be kept). It is FALSE for the code - finding D30, `C10_D30_witness`. -/
def C10_slice_full_statement : Prop :=
  ∀ (u : UEnv) (f : FmtStr) (a b : Nat), u.sane (text f) →
    ∃ r, widthAwareSlice u f (.slice (some a) (some b) false) = .ok r ∧
      SliceRel u true a b 0 (cells f) (cells r)

/-- The full statement holds on the complement of the footprint of D30 (`D30Free`: no run that starts strictly
    inside the requested columns and is cut by the right edge begins with a zero-width character). -/
theorem C10_slice_partial (u : UEnv) (f : FmtStr) (a b : Nat) (hs : u.sane (text f))
    (hfree : D30Free u a b 0 f) :
    ∃ r, widthAwareSlice u f (.slice (some a) (some b) false) = .ok r ∧
      SliceRel u true a b 0 (cells f) (cells r) := slice_rel u f a b hs (fun _ => hfree)

/-- Everything except the must-keep rule for zero-width characters holds for EVERY run layout (`strict = false`:
    a zero-width character may be kept, if it sits inside [a, b], or dropped): columns, formatting, replacement
    spaces, order, nothing invented. -/
theorem C10_slice_columns_partial (u : UEnv) (f : FmtStr) (a b : Nat) (hs : u.sane (text f)) :
    ∃ r, widthAwareSlice u f (.slice (some a) (some b) false) = .ok r ∧
      SliceRel u false a b 0 (cells f) (cells r) := slice_rel u f a b hs (fun h => by cases h)

/-- A simple sufficient condition for `D30Free`: no run after the first begins with a zero-width character. -/
theorem D30Free_of_no_leading_zw (u : UEnv) (a b : Int) (f : FmtStr) (counter : Int)
    (h : ∀ c ∈ f, ∀ ch, c.s.head? = some ch → u.wcwidth ch ≠ 0) : D30Free u a b counter f := by
  induction f generalizing counter with
  | nil => trivial
  | cons c rest ih => exact ⟨fun _ => h c (by simp), ih _ (fun d hd => h d (by simp [hd]))⟩

theorem D30Free_of_tail (u : UEnv) (a : Nat) (b : Int) (f : FmtStr)
    (h : ∀ c ∈ f.tail, ∀ ch, c.s.head? = some ch → u.wcwidth ch ≠ 0) : D30Free u a b 0 f := by
  cases f with
  | nil => trivial
  | cons c rest => exact ⟨fun hc => by omega, D30Free_of_no_leading_zw u a b rest _ h⟩

/-- one-step inversion of `SliceRel` -/
theorem SliceRel.inv_cons {u : UEnv} {a b col : Int} {x : Cell} {rest out : List Cell}
    (h : SliceRel u strict a b col (x :: rest) out) :
    (u.wcwidth x.1 = 0 ∧ (strict = true → col ≤ a ∨ b ≤ col) ∧ SliceRel u strict a b col rest out) ∨
    (u.wcwidth x.1 = 0 ∧ ∃ out', out = x :: out' ∧ SliceRel u strict a b col rest out') ∨
    (0 < u.wcwidth x.1 ∧ ∃ out', out = x :: out' ∧ SliceRel u strict a b (col + u.wcwidth x.1) rest out') ∨
    (0 < u.wcwidth x.1 ∧ ¬ (a ≤ col ∧ col + u.wcwidth x.1 ≤ b)) := by
  cases h with
  | zdrop hz hb hr => exact Or.inl ⟨hz, hb, hr⟩
  | zkeep hz _ _ hr => exact Or.inr (Or.inl ⟨hz, _, rfl, hr⟩)
  | inside hw _ _ hr => exact Or.inr (Or.inr (Or.inl ⟨hw, _, rfl, hr⟩))
  | cut hw hn _ => exact Or.inr (Or.inr (Or.inr ⟨hw, hn⟩))

/-- Finding D30, machine-checked on the model (the harness replays the same input on the real code each run):
    `fmtstr('a') + red('\u0301bcc')` sliced to columns 0..2 loses the combining character although it sits
    strictly inside the requested columns (column 1); the same text in one run keeps it. -/
theorem C10_D30_witness : ¬ C10_slice_full_statement := by
  intro hfull
  have hs : exEnv.sane (text [⟨['a'], {}⟩, ⟨['́', 'b', 'c', 'c'], {fg := some 1}⟩]) := by
    intro c hc
    simp [text] at hc
    rcases hc with rfl | rfl | rfl | rfl <;> decide
  obtain ⟨r, hr, hrel⟩ := hfull exEnv [⟨['a'], {}⟩, ⟨['́', 'b', 'c', 'c'], {fg := some 1}⟩] 0 3 hs
  have hval : widthAwareSlice exEnv [⟨['a'], {}⟩, ⟨['́', 'b', 'c', 'c'], {fg := some 1}⟩]
      (.slice (some ((0 : Nat) : Int)) (some ((3 : Nat) : Int)) false)
      = .ok [⟨['a'], {}⟩, ⟨['b', 'c'], {fg := some 1}⟩] := (isOk_iff _ _).mp (by decide +kernel)
  rw [hval] at hr
  injection hr with hr
  subst hr
  have hc : cells [⟨['a'], {}⟩, ⟨['́', 'b', 'c', 'c'], {fg := some 1}⟩]
      = [('a', {}), ('́', {fg := some 1}), ('b', {fg := some 1}), ('c', {fg := some 1}), ('c', {fg := some 1})] := rfl
  have hc2 : cells [⟨['a'], {}⟩, ⟨['b', 'c'], {fg := some 1}⟩]
      = [('a', {}), ('b', {fg := some 1}), ('c', {fg := some 1})] := rfl
  rw [hc, hc2] at hrel
  have wa : exEnv.wcwidth 'a' = 1 := by decide
  have wz : exEnv.wcwidth '́' = 0 := by decide
  rcases hrel.inv_cons with ⟨h0, _⟩ | ⟨h0, _⟩ | ⟨_, out', ho, h1⟩ | ⟨_, hn⟩
  · simp only [wa] at h0; omega
  · simp only [wa] at h0; omega
  · simp only [wa, List.cons.injEq, true_and] at ho h1
    subst ho
    rcases h1.inv_cons with ⟨_, hb, _⟩ | ⟨_, out'', ho2, _⟩ | ⟨hw, _⟩ | ⟨hw, _⟩
    · have := hb rfl; omega
    · simp at ho2
    · simp only [wz] at hw; omega
    · simp only [wz] at hw; omega
  · simp only [wa] at hn; omega

/-- The width of the slice is the number of requested columns that exist (`W` = width of `f`). -/
theorem C10_slice_width (u : UEnv) (f : FmtStr) (a b : Nat) (hs : u.sane (text f))
    (hsp : u.wcwidth ' ' = 1) (hab : a ≤ b) :
    ∃ r, widthAwareSlice u f (.slice (some a) (some b) false) = .ok r ∧
      fmtWidth u r = .ok (min (b : Int) (colWidth u (text f)) - min (a : Int) (colWidth u (text f))) := by
  obtain ⟨r, hr, hrel⟩ := C10_slice_columns_partial u f a b hs
  refine ⟨r, hr, ?_⟩
  have hsf : u.sane ((cells f).map Prod.fst) := by rw [← text_eq_cells]; exact hs
  have hw := hrel.width hsf hsp (by omega)
  have hW : cellsWidth u (cells f) = colWidth u (text f) := by simp [cellsWidth, ← text_eq_cells]
  have hWr : cellsWidth u (cells r) = colWidth u (text r) := by simp [cellsWidth, ← text_eq_cells]
  have hn := colWidth_nonneg hs
  -- the result is sane too: its characters are characters of f or spaces
  have hsr : u.sane (text r) := by
    rw [text_eq_cells]
    exact SliceRel.sane_out hrel hsf hsp
  rw [fmtWidth_eq hsr, ← hWr, hw, hW]
  congr 1
  omega

/-- non-vacuity of `C10_slice_partial`: a second run that begins with a narrow character -/
example : exEnv.sane (text [⟨['a', 'Ｅ'], {fg := some 1}⟩, ⟨['b', '́', 'c'], {bold := some true}⟩]) ∧
    D30Free exEnv ((1 : Nat) : Int) 4 0 [⟨['a', 'Ｅ'], {fg := some 1}⟩, ⟨['b', '́', 'c'], {bold := some true}⟩] := by
  refine ⟨?_, D30Free_of_tail _ _ _ _ ?_⟩
  · intro c hc
    simp [text] at hc
    rcases hc with rfl | rfl | rfl | rfl | rfl <;> decide
  · intro c hc ch hch
    simp at hc; subst hc
    simp at hch; subst hch
    decide

/-! ### non-vacuity: a three-run string (one run empty) with wide and combining characters -/

example : exEnv.sane (text exF) ∧ exEnv.wcwidth ' ' = 1 := by
  refine ⟨?_, by decide⟩
  intro c hc
  simp [text, exF] at hc
  rcases hc with rfl | rfl | rfl | rfl | rfl <;> decide
example : fmtWidth exEnv exF = .ok 6 := by rfl
example : widthAwareSlice exEnv exF (.slice (some 2) (some 4) false)
    = .ok [⟨[' '], {fg := some 1}⟩, ⟨[], {}⟩, ⟨[' '], {bold := some true}⟩] := (isOk_iff _ _).mp (by decide +kernel)
example : widthAwareSlice exEnv exF (.slice (some 2) (some 2) false) = .ok [⟨[], {fg := some 1}⟩] := (isOk_iff _ _).mp (by decide +kernel)
example : widthAwareSlice exEnv exF (.slice (some 1) (some 6) false)
    = .ok [⟨['Ｅ'], {fg := some 1}⟩, ⟨[], {}⟩, ⟨['́', 'Ｅ', 'b'], {bold := some true}⟩] := (isOk_iff _ _).mp (by decide +kernel)


/-! ### the column view of DESIGN section 3 -/

/-- one terminal column: a narrow character, or the left / right half of a double-width one -/
inductive ColCell
  | narrow (c : Char) (a : Atts) | left (c : Char) (a : Atts) | right (c : Char) (a : Atts)
  deriving DecidableEq, Repr

/-- column-expanded view: zero-width characters occupy no column -/
def cols (u : UEnv) : List Cell → List ColCell
  | [] => []
  | (c, a) :: rest =>
    if u.wcwidth c = 1 then .narrow c a :: cols u rest
    else if u.wcwidth c = 2 then .left c a :: .right c a :: cols u rest
    else cols u rest

/-- an orphaned right half at the start / left half at the end becomes a space with the same formatting -/
def cutHead : List ColCell → List ColCell
  | .right _ a :: rest => .narrow ' ' a :: rest
  | l => l
def cutLast : List ColCell → List ColCell
  | [] => []
  | [.left _ a] => [.narrow ' ' a]
  | [y] => [y]
  | y :: z :: rest => y :: cutLast (z :: rest)

def C10_cols_full_statement : Prop :=
  ∀ (u : UEnv) (f : FmtStr) (a b : Nat), u.sane (text f) → u.wcwidth ' ' = 1 → a ≤ b →
    ∃ r, widthAwareSlice u f (.slice (some a) (some b) false) = .ok r ∧
      cols u (cells r) = cutHead (cutLast (((cols u (cells f)).take b).drop a))


/-! ### proof of the column view from `SliceRel` -/

/-- what the window [a, b) shows of the cells `l` laid out from column `col` -/
def window (u : UEnv) (a b : Nat) : Nat → List Cell → List ColCell
  | _, [] => []
  | col, (c, tt) :: rest =>
    if u.wcwidth c = 1 then
      (if a ≤ col ∧ col < b then [ColCell.narrow c tt] else []) ++ window u a b (col + 1) rest
    else if u.wcwidth c = 2 then
      (if a ≤ col ∧ col + 1 < b then [ColCell.left c tt, ColCell.right c tt]
       else if (a ≤ col ∧ col < b) ∨ (a ≤ col + 1 ∧ col + 1 < b) then [ColCell.narrow ' ' tt]
       else []) ++ window u a b (col + 2) rest
    else window u a b col rest

private theorem cols_replicate_space (u : UEnv) (hsp : u.wcwidth ' ' = 1) (n : Nat) (tt : Atts) (out : List Cell) :
    cols u (List.replicate n (' ', tt) ++ out) = List.replicate n (ColCell.narrow ' ' tt) ++ cols u out := by
  induction n with
  | zero => simp
  | succ k ih => simp [List.replicate_succ, cols, hsp, ih]

theorem SliceRel.window {u : UEnv} {a b : Nat} {colI : Int} {l out : List Cell}
    (h : SliceRel u strict a b colI l out) (hsp : u.wcwidth ' ' = 1) (hs : u.sane (l.map Prod.fst)) :
    ∀ col : Nat, colI = col → cols u out = window u a b col l := by
  induction h with
  | nil col => intro c _; rfl
  | @zdrop colI x rest out hz _ _ ih =>
    intro col hc
    simp only [List.map_cons] at hs
    obtain ⟨c, tt⟩ := x
    simp only [Curtsies.window]
    have h0 : u.wcwidth c = 0 := hz
    rw [if_neg (by omega), if_neg (by omega)]
    exact ih (UEnv.sane_cons hs).2 col hc
  | @zkeep colI x rest out hz _ _ _ ih =>
    intro col hc
    simp only [List.map_cons] at hs
    obtain ⟨c, tt⟩ := x
    have h0 : u.wcwidth c = 0 := hz
    simp only [Curtsies.window, cols]
    rw [if_neg (by omega), if_neg (by omega), if_neg (by omega), if_neg (by omega)]
    exact ih (UEnv.sane_cons hs).2 col hc
  | @inside colI x rest out hw ha hb _ ih =>
    intro col hc
    simp only [List.map_cons] at hs
    obtain ⟨c, tt⟩ := x
    have hx := (UEnv.sane_cons hs).1
    simp only [] at hx hw ha hb
    simp only [Curtsies.window, cols]
    by_cases h1 : u.wcwidth c = 1
    · rw [if_pos h1, if_pos h1, if_pos (by omega)]
      rw [h1] at ih
      rw [ih (UEnv.sane_cons hs).2 (col + 1) (by omega)]; rfl
    · have h2 : u.wcwidth c = 2 := by omega
      rw [if_neg h1, if_pos h2, if_neg h1, if_pos h2, if_pos (by omega)]
      rw [h2] at ih
      rw [ih (UEnv.sane_cons hs).2 (col + 2) (by omega)]; rfl
  | @cut colI x rest out hw hn _ ih =>
    intro col hc
    simp only [List.map_cons] at hs
    obtain ⟨c, tt⟩ := x
    have hx := (UEnv.sane_cons hs).1
    simp only [] at hx hw hn
    rw [cols_replicate_space u hsp]
    simp only [Curtsies.window]
    by_cases h1 : u.wcwidth c = 1
    · rw [if_pos h1, if_neg (by omega)]
      rw [h1] at ih
      rw [ih (UEnv.sane_cons hs).2 (col + 1) (by omega)]
      have : colOverlap a b colI (u.wcwidth c) = 0 := by unfold colOverlap; omega
      rw [this]; rfl
    · have h2 : u.wcwidth c = 2 := by omega
      rw [if_neg h1, if_pos h2, if_neg (by omega)]
      rw [h2] at ih
      rw [ih (UEnv.sane_cons hs).2 (col + 2) (by omega)]
      by_cases h3 : (a ≤ col ∧ col < b) ∨ (a ≤ col + 1 ∧ col + 1 < b)
      · rw [if_pos h3]
        have : colOverlap a b colI (u.wcwidth c) = 1 := by unfold colOverlap; omega
        rw [this]; rfl
      · rw [if_neg h3]
        have : colOverlap a b colI (u.wcwidth c) = 0 := by unfold colOverlap; omega
        rw [this]; rfl


/-- does not start with a right half -/
def NR (X : List ColCell) : Prop := ∀ c a r, X ≠ ColCell.right c a :: r

private theorem cols_NR (u : UEnv) (l : List Cell) : NR (cols u l) := by
  induction l with
  | nil => intro c a r h; cases h
  | cons x rest ih =>
    obtain ⟨ch, tt⟩ := x
    intro c a r
    simp only [cols]
    split
    · intro h; cases h
    · split
      · intro h; cases h
      · exact ih c a r

private theorem NR_take {X : List ColCell} (h : NR X) (k : Nat) : NR (X.take k) := by
  intro c a r hk
  cases X with
  | nil => simp at hk
  | cons y Y =>
    cases k with
    | zero => simp at hk
    | succ k =>
      simp only [List.take_succ_cons, List.cons.injEq] at hk
      exact h c a Y (by rw [hk.1])

private theorem cutLast_cons (y : ColCell) {X : List ColCell} (h : X ≠ []) : cutLast (y :: X) = y :: cutLast X := by
  cases X with
  | nil => exact absurd rfl h
  | cons z Z => cases y <;> simp [cutLast]

private theorem NR_cutLast {X : List ColCell} (h : NR X) : NR (cutLast X) := by
  cases X with
  | nil => exact h
  | cons y Y =>
    cases Y with
    | nil =>
      cases y with
      | narrow c a => exact h
      | left c a => intro c' a' r hh; simp [cutLast] at hh
      | right c a => exact absurd rfl (h c a [])
    | cons z Z =>
      rw [cutLast_cons y (by simp)]
      intro c a r hh
      simp only [List.cons.injEq] at hh
      exact h c a (z :: Z) (by rw [hh.1])

private theorem cutHead_NR {X : List ColCell} (h : NR X) : cutHead X = X := by
  cases X with
  | nil => rfl
  | cons y Y =>
    cases y with
    | narrow c a => rfl
    | left c a => rfl
    | right c a => exact absurd rfl (h c a Y)

private theorem window_empty (u : UEnv) (a b : Nat) (l : List Cell) (col : Nat) (h : b ≤ col) :
    window u a b col l = [] := by
  induction l generalizing col with
  | nil => rfl
  | cons x rest ih =>
    obtain ⟨c, tt⟩ := x
    simp only [window]
    split
    · rw [if_neg (by omega), ih (col + 1) (by omega)]; rfl
    · split
      · rw [if_neg (by omega), if_neg (by omega), ih (col + 2) (by omega)]; rfl
      · exact ih col h

private theorem take_drop_skip {α} (y : α) (C : List α) (a b col : Nat) (h1 : col < a) (h2 : a ≤ b) :
    ((y :: C).take (b - col)).drop (a - col) = (C.take (b - (col + 1))).drop (a - (col + 1)) := by
  have e1 : b - col = (b - (col + 1)) + 1 := by omega
  have e2 : a - col = (a - (col + 1)) + 1 := by omega
  rw [e1, e2, List.take_succ_cons, List.drop_succ_cons]

private theorem take_drop_keep {α} (y : α) (C : List α) (a b col : Nat) (h1 : a ≤ col) (h2 : col < b) :
    ((y :: C).take (b - col)).drop (a - col) = y :: (C.take (b - (col + 1))).drop (a - (col + 1)) := by
  have e1 : b - col = (b - (col + 1)) + 1 := by omega
  have e2 : a - col = 0 := by omega
  have e3 : a - (col + 1) = 0 := by omega
  rw [e1, e2, e3, List.take_succ_cons]; rfl

private theorem window_eq (u : UEnv) (a b : Nat) (hab : a ≤ b) (l : List Cell) (col : Nat) :
    window u a b col l = cutHead (cutLast (((cols u l).take (b - col)).drop (a - col))) := by
  induction l generalizing col with
  | nil => simp [window, cols, cutLast, cutHead]
  | cons x rest ih =>
    obtain ⟨c, tt⟩ := x
    simp only [window, cols]
    have hNR : ∀ k, NR ((cols u rest).take k) := fun k => NR_take (cols_NR u rest) k
    by_cases h1 : u.wcwidth c = 1
    · rw [if_pos h1, if_pos h1]
      by_cases hlt : col < a
      · rw [if_neg (by omega), take_drop_skip _ _ _ _ _ hlt hab, ← ih (col + 1)]; rfl
      · by_cases hb : col < b
        · rw [if_pos (by omega), take_drop_keep _ _ _ _ _ (by omega) hb, ih (col + 1)]
          have e3 : a - (col + 1) = 0 := by omega
          rw [e3, List.drop_zero, cutHead_NR (NR_cutLast (hNR _))]
          by_cases hX : (cols u rest).take (b - (col + 1)) = []
          · rw [hX]; rfl
          · rw [cutLast_cons _ hX]; rfl
        · rw [if_neg (by omega), window_empty u a b rest (col + 1) (by omega)]
          have : b - col = 0 := by omega
          rw [this]; simp [cutLast, cutHead]
    · rw [if_neg h1, if_neg h1]
      by_cases h2 : u.wcwidth c = 2
      · rw [if_pos h2, if_pos h2]
        have e2 : col + 1 + 1 = col + 2 := rfl
        by_cases hA : col + 1 < a
        · rw [if_neg (by omega), if_neg (by omega)]
          rw [take_drop_skip _ _ _ _ _ (by omega) hab, take_drop_skip _ _ a b (col + 1) hA hab, e2,
            ← ih (col + 2)]; rfl
        · by_cases hB : col + 1 = a
          · by_cases hC : b = a
            · rw [if_neg (by omega), if_neg (by omega), window_empty u a b rest (col + 2) (by omega)]
              have e3 : b - col = 1 := by omega
              have e4 : a - col = 1 := by omega
              rw [e3, e4]; simp [cutLast, cutHead]
            · rw [if_neg (by omega), if_pos (by omega)]
              rw [take_drop_skip _ _ _ _ _ (by omega) hab,
                take_drop_keep _ _ a b (col + 1) (by omega) (by omega), e2, ih (col + 2)]
              have e3 : a - (col + 2) = 0 := by omega
              rw [e3, List.drop_zero, cutHead_NR (NR_cutLast (hNR _))]
              by_cases hX : (cols u rest).take (b - (col + 2)) = []
              · rw [hX]; simp [cutLast, cutHead]
              · rw [cutLast_cons _ hX]; simp [cutHead]
          · by_cases hb0 : b ≤ col
            · rw [if_neg (by omega), if_neg (by omega), window_empty u a b rest (col + 2) (by omega)]
              have : b - col = 0 := by omega
              rw [this]; simp [cutLast, cutHead]
            · by_cases hb1 : b = col + 1
              · rw [if_neg (by omega), if_pos (by omega), window_empty u a b rest (col + 2) (by omega)]
                have e3 : b - col = 1 := by omega
                have e4 : a - col = 0 := by omega
                rw [e3, e4]; simp [cutLast, cutHead]
              · rw [if_pos (by omega)]
                rw [take_drop_keep _ _ _ _ _ (by omega) (by omega)]
                have e3 : a - (col + 1) = 0 := by omega
                have e5 : b - (col + 1) = (b - (col + 2)) + 1 := by omega
                rw [e3, List.drop_zero, e5, List.take_succ_cons, ih (col + 2)]
                have e6 : a - (col + 2) = 0 := by omega
                rw [e6, List.drop_zero, cutHead_NR (NR_cutLast (hNR _))]
                by_cases hX : (cols u rest).take (b - (col + 2)) = []
                · rw [hX]; simp [cutLast, cutHead]
                · rw [cutLast_cons _ (by simp), cutLast_cons _ hX]; simp [cutHead]
      · rw [if_neg h2, if_neg h2]
        exact ih col


/-- The column view: the columns of the slice are columns a..b-1 of `f`, an orphaned half of a double-width
    character replaced by a space with that character's formatting. -/
theorem C10_cols : C10_cols_full_statement := by
  intro u f a b hs hsp hab
  obtain ⟨r, hr, hrel⟩ := C10_slice_columns_partial u f a b hs
  refine ⟨r, hr, ?_⟩
  have hsf : u.sane ((cells f).map Prod.fst) := by rw [← text_eq_cells]; exact hs
  rw [hrel.window hsp hsf 0 rfl, window_eq u a b hab (cells f) 0]
  simp

end Curtsies
