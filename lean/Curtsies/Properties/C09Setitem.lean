/-
  C09 (extension) - `FmtStr.setitem(startindex, fs)`, the shim "for easily converting old __setitem__ calls" over
  `setslice_with_length` (an anchor of C09; `Splice.setitemOp` in Model/SpliceOp.lean, tied per run).
-/
import Curtsies.Proofs.FSArray
namespace Curtsies
open FSArray Splice

/-- `f.setitem(i, x)` is `f.setslice_with_length(i, i + 1, x, len(f))`. -/
theorem C09_setitem (md : Nat) (f : FmtStr) (startindex : Nat) (fs : Operand) :
    setitemOp md f startindex fs = setsliceOp md f startindex (startindex + 1) fs (len f) := rfl

/-- Replacing one character: for `i < len(f)` and a one-character value (FmtStr, or a plain str without `ESC [`),
    `f.setitem(i, x)` is `f` with character `i` replaced by `x`'s, every other character keeping its formatting;
    the length is unchanged. -/
theorem C09_setitem_replace_partial (md : Nat) (f : FmtStr) (i : Nat) (x : Operand) (hi : i < len f)
    (h1 : x.rawLen = 1) (hesc : x.EscFree) :
    ∃ r, setitemOp md f i x = .ok r ∧ cells r = (cells f).take i ++ x.cells ++ (cells f).drop (i + 1) ∧
      len r = len f := by
  obtain ⟨r, hr, hc⟩ := setsliceOp_ok md f x i (i + 1) (len f) (by omega) (by omega) (Nat.le_refl _) (by omega)
    (NoEsc_of_EscFree x hesc)
  have hF : (cells f).length = len f := cells_length f
  have hX : x.cells.length = 1 := by rw [cells_rawLen, h1]
  have hcells : cells r = (cells f).take i ++ x.cells ++ (cells f).drop (i + 1) := by
    rw [hc]
    unfold setCells
    have h0 : ¬ (cells f).length < i := by omega
    simp only [if_neg h0, hX]
    by_cases h2 : (cells f).length > i + 1
    · rw [if_pos h2]; simp
    · rw [if_neg h2]
  refine ⟨r, hr, hcells, ?_⟩
  rw [← cells_length r, hcells]
  simp only [List.length_append, List.length_take, List.length_drop, hF, hX]
  omega

/-- A value longer than one character is rejected when characters follow position `i` (AssertionError) - `setitem`
    never changes the length of a string it does not extend. -/
theorem C09_setitem_reject_partial (md : Nat) (f : FmtStr) (i : Nat) (x : Operand) (hi : i + 1 < len f)
    (h1 : x.rawLen > 1) (hesc : x.EscFree) : ∃ e, setitemOp md f i x = .error e :=
  setsliceOp_reject md f x i (i + 1) (len f) (by omega) (by omega) (NoEsc_of_EscFree x hesc) (Or.inl hi)

example : ((setitemOp 4300 [⟨['a', 'b'], { fg := some 1 }⟩, ⟨['c'], {}⟩] 1 (.str ['X'])).toOption.map cells)
    = some [('a', { fg := some 1 }), ('X', {}), ('c', {})] := by decide +kernel

end Curtsies
