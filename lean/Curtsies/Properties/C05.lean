/-
  C05 - Parsing a FmtStr's terminal string gives the same FmtStr back.

  * C05_parse_is_terminal   GENERAL statement: for every string of the grammar (text | ESC [ p1;...;pn m)* - text
      free of ESC and 0x9b (newlines, tabs, any other character allowed), each parameter list drawn from the
      supported codes 0,1,2,3,4,5,7,30-37,39,40-47,49, possibly empty (`ESC[m`), each parameter ANY decimal
      spelling of its code (leading zeros allowed: `ESC[01;31m`, `ESC[39;49;00m` as pygments prints them) within
      CPython's int(str) digit limit `md` (a model parameter; `C05_roundtrip_live` instantiates the live value) -
      `FmtStr.from_str` returns, and gives every character exactly the formatting the independent terminal
      reader `Spec.display` (Spec/Sgr.lean) shows it with (`effCells`: colours, and each style on/off).
  * C05_render_in_grammar   `str(f)` is such a string (run by run: opening codes, text, closing codes).
  * C05_roundtrip           `from_str(str(f))` has the same characters and the same effective formatting on every
      character as `f`, for every FmtStr whose text is free of ESC/0x9b (every attribute dict, explicit False
      included; empty runs; no runs). Uses C01_display (what the terminal shows for `str(f)`).
  * C05_roundtrip_text      ... in particular the same text.
  * C05_tables              the regenerated tables of /repo (number -> colour name -> number, number -> style) are
      the constants the model uses; the name -> number tables `parse_args` applies are their inverses.

  "Same formatting" is stated on effective formatting (`Atts.eff`): an explicit `bold=False` in `f` and an absent
  key display identically and `str(f)` does not distinguish them, so the parsed FmtStr has the key absent.
-/
import Curtsies.Proofs.EscSgr
import Curtsies.Properties.C01
import Curtsies.Generated.Sgr
import Curtsies.Generated.EscParse
namespace Curtsies
open Spec

/-! ### the grammar and the theorems -/

/-- One piece of a string of the grammar `(text | ESC [ p1;...;pn m)*`; a parameter is a digit string. -/
inductive SItem
  | text (t : Text)
  | sgr (ps : List Text)

/-- text: free of ESC and 0x9b; sgr: every parameter a non-empty string of ASCII digits, not longer than
    the int(str) limit, whose value is one of the supported codes 0,1,2,3,4,5,7,30-37,39,40-47,49
    (the list may be empty: `ESC[m`). -/
def SItem.Valid (md : Nat) : SItem → Prop
  | .text t => NoIntro t
  | .sgr ps => ∀ p ∈ ps, DigStr p ∧ LenOK md p ∧ intVal p ∈ supported

def SItem.print : SItem → Text
  | .text t => t
  | .sgr ps => [ESC, '['] ++ joinSemi ps ++ ['m']

/-- the string -/
def printS (l : List SItem) : Text := l.flatMap SItem.print

private theorem print_sgr (ps : List Text) : SItem.print (.sgr ps) = csiSeq false ps [] 'm' := by
  simp [SItem.print, csiSeq, csiIntro]

private theorem effCells_of_cells {f g : FmtStr} {t : Text} {cur : Atts}
    (h : cells f = t.map (fun ch => (ch, cur)) ++ cells g) :
    effCells f = t.map (fun ch => (ch, cur.eff)) ++ effCells g := by
  simp [effCells, h, Function.comp_def]

/-- The parser, started with any running format `cur`, and the terminal, started in the graphic state
    `cur.eff`, agree on every character of a grammar string. -/
private theorem parse_is_feed (md : Nat) (items : List SItem) (hv : ∀ i ∈ items, i.Valid md) :
    ∃ its, parseLoop md (printS items) = .ok its ∧
      ∀ cur : Atts, effCells (fromStrLoop cur its) = (feed .ground cur.eff (printS items)).cells := by
  induction items with
  | nil => exact ⟨[], by simp [printS, parseLoop_nil], fun cur => by simp [printS, fromStrLoop, effCells, feed]⟩
  | cons it rest ih =>
    obtain ⟨its0, hp0, hc0⟩ := ih (fun i hi => hv i (by simp [hi]))
    have hit := hv it (by simp)
    cases it with
    | text t =>
      obtain ⟨its', hp, hc⟩ := (parseLoop_append_free md (t := t) hit (printS rest)).2 its0 hp0
      refine ⟨its', by simpa [printS, SItem.print] using hp, fun cur => ?_⟩
      rw [effCells_of_cells (hc cur), hc0 cur]
      simp only [printS, List.flatMap_cons, SItem.print]
      rw [feed_text t cur.eff _ hit]
    | sgr ps =>
      have hd : ∀ p ∈ ps, DigStr p := fun p hp => (hit p hp).1
      have hl : ∀ p ∈ ps, LenOK md p := fun p hp => (hit p hp).2.1
      have hs : ∀ p ∈ ps, intVal p ∈ supported := fun p hp => (hit p hp).2.2
      have hsup : ∀ n ∈ ps.map intVal, n ∈ supported := by
        intro n hn
        obtain ⟨p, hp, rfl⟩ := List.mem_map.mp hn
        exact hs p hp
      refine ⟨((sgrValues (ps.map intVal)).flatMap fun n => updsOfValue (.int n)).map .upd ++ its0, ?_, fun cur => ?_⟩
      · simp only [printS, List.flatMap_cons, print_sgr]
        rw [parseLoop_csiSeq md false hd (by simp) (by decide), postNumbers_join hd hl]
        simp only []
        rw [tokenItems_sgr hs]
        simp only [printS] at hp0
        rw [hp0]
      · simp only [printS, List.flatMap_cons, print_sgr]
        rw [fromStrLoop_upds, hc0, feed_sgrSeq _ hd, upds_are_applySgrs _ (sgrValues_supported hsup)]
        rfl

private theorem plain_noIntro (md : Nat) (items : List SItem) (hv : ∀ i ∈ items, i.Valid md)
    (h : hasEscBracket (printS items) = false) : NoIntro (printS items) := by
  induction items with
  | nil => intro x hx; simp [printS] at hx
  | cons it rest ih =>
    have hit := hv it (by simp)
    cases it with
    | text t =>
      simp only [printS, List.flatMap_cons, SItem.print] at h ih ⊢
      intro x hx
      rcases List.mem_append.mp hx with hx | hx
      · exact hit x hx
      · exact ih (fun i hi => hv i (by simp [hi])) (hasEscBracket_append_false h) x hx
    | sgr ps =>
      simp only [printS, List.flatMap_cons, SItem.print] at h
      have := hasEscBracket_of_infix [] (joinSemi ps ++ ['m'] ++ List.flatMap SItem.print rest)
      simp only [List.nil_append, List.cons_append, List.append_assoc] at h this
      rw [this] at h; cases h

/-- Parsing any text interleaved with supported SGR sequences (single or combined parameters, `ESC[m`,
    resets in any order) yields for every character the formatting an ANSI terminal displays it with. -/
theorem C05_parse_is_terminal (md : Nat) (items : List SItem) (hv : ∀ i ∈ items, i.Valid md) :
    ∃ f, fromStr md (printS items) = .ok f ∧ effCells f = (display (printS items)).cells := by
  unfold fromStr
  split
  · obtain ⟨its, hp, hc⟩ := parse_is_feed md items hv
    exact ⟨fromStrLoop {} its, by simp only [parse, hp], hc {}⟩
  · rename_i hb
    refine ⟨_, rfl, ?_⟩
    have hn := plain_noIntro md items hv (by simpa using hb)
    have := feed_text (printS items) {} [] hn
    simp only [List.append_nil] at this
    simp [display, this, feed, effCells, Chunk.cells, Atts.eff, flag]

/-- `str(f)` is a string of the grammar: run by run, single-parameter sequences, the text, sequences. -/
def itemsOf (f : FmtStr) : List SItem :=
  f.flatMap fun c => (openCodes c.atts).map (fun n => SItem.sgr [dec n]) ++ [SItem.text c.s] ++
    (closeCodes c.atts).map (fun n => SItem.sgr [dec n])

private theorem print_codes (l : List Nat) : (l.map fun n => SItem.sgr [dec n]).flatMap SItem.print = l.flatMap seq := by
  induction l with
  | nil => rfl
  | cons n l ih =>
    simp only [List.map_cons, List.flatMap_cons, ih]
    simp [SItem.print, joinSemi, seq, dec]

private theorem sgr_dec_valid {md : Nat} (hmd : md = 0 ∨ 2 ≤ md) {n : Nat} (hn : n ∈ supported) :
    (SItem.sgr [dec n]).Valid md := by
  intro p hp
  simp only [List.mem_singleton] at hp
  subst hp
  obtain ⟨h1, h2, h3⟩ := dec_ok n hn
  refine ⟨h1, ?_, by rw [h2]; exact hn⟩
  rcases hmd with h | h
  · exact .inl h
  · exact .inr (by omega)

theorem C05_render_in_grammar (md : Nat) (hmd : md = 0 ∨ 2 ≤ md) (f : FmtStr)
    (h : ∀ ch ∈ text f, ch ≠ ESC ∧ ch ≠ CSI8) :
    render f = printS (itemsOf f) ∧ ∀ i ∈ itemsOf f, i.Valid md := by
  constructor
  · induction f with
    | nil => rfl
    | cons c f ih =>
      have := ih (fun ch hch => h ch (by simp [text] at hch ⊢; exact .inr hch))
      simp only [render, printS, itemsOf, List.flatMap_cons, List.flatMap_append, print_codes] at this ⊢
      rw [colorStr_eq, this]
      simp [SItem.print]
  · intro i hi
    simp only [itemsOf, List.mem_flatMap, List.mem_append, List.mem_map, List.mem_singleton] at hi
    obtain ⟨c, hc, hi⟩ := hi
    rcases hi with (⟨n, hn, rfl⟩ | rfl) | ⟨n, hn, rfl⟩
    · exact sgr_dec_valid hmd (openCodes_supported _ n hn)
    · intro x hx; exact h x (by simp only [text, List.mem_flatMap]; exact ⟨c, hc, hx⟩)
    · exact sgr_dec_valid hmd (closeCodes_supported _ n hn)

/-- `FmtStr.from_str(str(f))` has the same characters as `f` and the same formatting on every character
    (`md`: the int(str) digit limit; any value that admits two-digit numbers). -/
theorem C05_roundtrip (md : Nat) (hmd : md = 0 ∨ 2 ≤ md) (f : FmtStr) (h : ∀ ch ∈ text f, ch ≠ ESC ∧ ch ≠ CSI8) :
    ∃ g, fromStr md (render f) = .ok g ∧ effCells g = effCells f := by
  obtain ⟨hr, hv⟩ := C05_render_in_grammar md hmd f h
  obtain ⟨g, hg, hc⟩ := C05_parse_is_terminal md (itemsOf f) hv
  rw [← hr] at hg hc
  exact ⟨g, hg, by rw [hc, C01_display f h]⟩

/-- ... in particular the same text. -/
theorem C05_roundtrip_text (md : Nat) (hmd : md = 0 ∨ 2 ≤ md) (f : FmtStr)
    (h : ∀ ch ∈ text f, ch ≠ ESC ∧ ch ≠ CSI8) :
    ∃ g, fromStr md (render f) = .ok g ∧ text g = text f := by
  obtain ⟨g, hg, hc⟩ := C05_roundtrip md hmd f h
  refine ⟨g, hg, ?_⟩
  have := congrArg (List.map Prod.fst) hc
  simpa [effCells, ← text_eq_cells, Function.comp_def, text_eq_cells] using this

/-- The round trip with the digit limit of the live interpreter (regenerated on every run). -/
theorem C05_roundtrip_live (f : FmtStr) (h : ∀ ch ∈ text f, ch ≠ ESC ∧ ch ≠ CSI8) :
    ∃ g, fromStr Generated.intMaxStrDigits (render f) = .ok g ∧ effCells g = effCells f :=
  C05_roundtrip _ (by decide) f h

def styleName : Style → String
  | .bold => "bold" | .dark => "dark" | .italic => "italic" | .underline => "underline"
  | .blink => "blink" | .invert => "invert"

/-- The live tables: `FG/BG_NUMBER_TO_COLOR` cover exactly the codes 30+i / 40+i, `NUMBER_TO_STYLE` is the
    model's `numberToStyle`, the reset constants are the model's, and `FG_COLORS`/`BG_COLORS`/`STYLES`
    (which `parse_args` uses to turn the names back into numbers) map every name the parser produces back to its
    number (the name tables may hold further names - aliases - that the parser never produces). -/
theorem C05_tables :
    Generated.fgNumberToColor.map Prod.fst = (List.finRange 8).map fgCode ∧
    Generated.bgNumberToColor.map Prod.fst = (List.finRange 8).map bgCode ∧
    (∀ p ∈ Generated.fgNumberToColor, Generated.fgColors.lookup p.2 = some p.1) ∧
    (∀ p ∈ Generated.bgNumberToColor, Generated.bgColors.lookup p.2 = some p.1) ∧
    Generated.numberToStyle.map (fun p => (numberToStyle p.1).map styleName) =
      Generated.numberToStyle.map (fun p => some p.2) ∧
    (List.range 110).filter (fun n => (numberToStyle n).isSome) = Generated.numberToStyle.map Prod.fst ∧
    Generated.numberToStyle.map (fun p => (p.2, p.1)) = Generated.styles ∧
    Generated.resetAll = RESET_ALL ∧ Generated.resetFg = RESET_FG ∧ Generated.resetBg = RESET_BG := by
  decide +kernel

/-- Non-vacuity: "a\n" ESC[01;31;44m "b" ESC[m ESC[39;49;00m "c" is a grammar string (pygments spellings). -/
example : ∀ i ∈ [SItem.text ['a', '\n'], .sgr [['0', '1'], ['3', '1'], ['4', '4']], .text ['b'], .sgr [],
    .sgr [['3', '9'], ['4', '9'], ['0', '0']], .text ['c']], i.Valid 4300 := by
  intro i hi
  simp only [List.mem_cons, List.mem_nil_iff, or_false] at hi
  rcases hi with rfl | rfl | rfl | rfl | rfl | rfl <;>
    simp [SItem.Valid, NoIntro, supported, DigStr, LenOK, intVal] <;> decide

end Curtsies
