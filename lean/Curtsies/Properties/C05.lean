/-
  C05 - Parsing a FmtStr's terminal string gives the same FmtStr back.

  * C05_parse_is_terminal   GENERAL statement: for every string of the grammar (text | ESC [ p1;...;pn m)* - text
      free of ESC and 0x9b (newlines, tabs, any other character allowed), each parameter list drawn from the
      supported codes 0,1,2,3,4,5,7,30-37,39,40-47,49, possibly empty (`ESC[m`), parameters printed in decimal -
      `FmtStr.from_str` returns, and gives every character exactly the formatting the independent terminal
      reader `Spec.display` (Spec/Sgr.lean) shows it with (`effCells`: colours, and each style on/off).
  * C05_render_in_grammar   `str(f)` is such a string (run by run: opening codes, text, closing codes).
  * C05_roundtrip           `from_str(str(f))` has the same characters and the same effective formatting on every
      character as `f`, for every FmtStr whose text is free of ESC/0x9b (every attribute dict, explicit False
      included; empty runs; no runs). Uses C01_display (what the terminal shows for `str(f)`).
  * C05_roundtrip_text      ... in particular the same text.
  * C05_tables              the regenerated tables of /repo (number -> colour name -> number, number -> style) are
      the constants the model uses; the name -> number tables `parse_args` applies are their inverses.

  "Same formatting" is stated on effective formatting (`Atts.eff`): an explicit `bold=False` in `f` and an absent
  key display identically and `str(f)` does not distinguish them, so the parsed FmtStr has the key absent.
-/
import Curtsies.Proofs.EscSgr
import Curtsies.Properties.C01
import Curtsies.Generated.Sgr
namespace Curtsies
open Spec

/-! ### the grammar and the theorems -/

/-- One piece of a string of the grammar `(text | ESC [ p1;...;pn m)*`. -/
inductive SItem
  | text (t : Text)
  | sgr (ps : List Nat)

/-- text: free of ESC and 0x9b; sgr: every parameter one of the supported codes
    0,1,2,3,4,5,7,30-37,39,40-47,49 (the list may be empty: `ESC[m`). -/
def SItem.Valid : SItem → Prop
  | .text t => NoIntro t
  | .sgr ps => ∀ n ∈ ps, n ∈ supported

def SItem.print : SItem → Text
  | .text t => t
  | .sgr ps => [ESC, '['] ++ joinSemi (ps.map dec) ++ ['m']

/-- the string -/
def printS (l : List SItem) : Text := l.flatMap SItem.print

private theorem print_sgr (ps : List Nat) : SItem.print (.sgr ps) = csiSeq (ps.map dec) [] 'm' := by
  simp [SItem.print, csiSeq]

private theorem digStr_decs {ps : List Nat} (h : ∀ n ∈ ps, n ∈ supported) : ∀ p ∈ ps.map dec, DigStr p := by
  intro p hp
  obtain ⟨n, hn, rfl⟩ := List.mem_map.mp hp
  exact (dec_ok n (h n hn)).1

private theorem effCells_of_cells {f g : FmtStr} {t : Text} {cur : Atts}
    (h : cells f = t.map (fun ch => (ch, cur)) ++ cells g) :
    effCells f = t.map (fun ch => (ch, cur.eff)) ++ effCells g := by
  simp [effCells, h, Function.comp_def]

/-- The parser, started with any running format `cur`, and the terminal, started in the graphic state
    `cur.eff`, agree on every character of a grammar string. -/
private theorem parse_is_feed (items : List SItem) (hv : ∀ i ∈ items, i.Valid) :
    ∃ its, parseLoop (printS items) = .ok its ∧
      ∀ cur : Atts, effCells (fromStrLoop cur its) = (feed .ground cur.eff (printS items)).cells := by
  induction items with
  | nil => exact ⟨[], by simp [printS, parseLoop_nil], fun cur => by simp [printS, fromStrLoop, effCells, feed]⟩
  | cons it rest ih =>
    obtain ⟨its0, hp0, hc0⟩ := ih (fun i hi => hv i (by simp [hi]))
    have hit := hv it (by simp)
    cases it with
    | text t =>
      obtain ⟨its', hp, hc⟩ := (parseLoop_append_free (t := t) hit (printS rest)).2 its0 hp0
      refine ⟨its', by simpa [printS, SItem.print] using hp, fun cur => ?_⟩
      rw [effCells_of_cells (hc cur), hc0 cur]
      simp only [printS, List.flatMap_cons, SItem.print]
      rw [feed_text t cur.eff _ hit]
    | sgr ps =>
      have hd := digStr_decs hit
      refine ⟨((sgrValues ps).flatMap fun n => updsOfValue (.int n)).map .upd ++ its0, ?_, fun cur => ?_⟩
      · simp only [printS, List.flatMap_cons, print_sgr]
        rw [parseLoop_csiSeq hd (by simp) (by decide), tokenItems_sgr hit]
        simp only [printS] at hp0
        rw [hp0]
      · simp only [printS, List.flatMap_cons, print_sgr]
        rw [fromStrLoop_upds, hc0, feed_sgrSeq _ hd, map_intOf_dec hit,
          upds_are_applySgrs _ (sgrValues_supported hit)]
        rfl

private theorem plain_noIntro (items : List SItem) (hv : ∀ i ∈ items, i.Valid)
    (h : hasEscBracket (printS items) = false) : NoIntro (printS items) := by
  induction items with
  | nil => intro x hx; simp [printS] at hx
  | cons it rest ih =>
    have hit := hv it (by simp)
    cases it with
    | text t =>
      simp only [printS, List.flatMap_cons, SItem.print] at h ih ⊢
      intro x hx
      rcases List.mem_append.mp hx with hx | hx
      · exact hit x hx
      · exact ih (fun i hi => hv i (by simp [hi])) (hasEscBracket_append_false h) x hx
    | sgr ps =>
      simp only [printS, List.flatMap_cons, SItem.print] at h
      have := hasEscBracket_of_infix [] (joinSemi (ps.map dec) ++ ['m'] ++ List.flatMap SItem.print rest)
      simp only [List.nil_append, List.cons_append, List.append_assoc] at h this
      rw [this] at h; cases h

/-- Parsing any text interleaved with supported SGR sequences (single or combined parameters, `ESC[m`,
    resets in any order) yields for every character the formatting an ANSI terminal displays it with. -/
theorem C05_parse_is_terminal (items : List SItem) (hv : ∀ i ∈ items, i.Valid) :
    ∃ f, fromStr (printS items) = .ok f ∧ effCells f = (display (printS items)).cells := by
  unfold fromStr
  split
  · obtain ⟨its, hp, hc⟩ := parse_is_feed items hv
    exact ⟨fromStrLoop {} its, by simp only [parse, hp], hc {}⟩
  · rename_i hb
    refine ⟨_, rfl, ?_⟩
    have hn := plain_noIntro items hv (by simpa using hb)
    have := feed_text (printS items) {} [] hn
    simp only [List.append_nil] at this
    simp [display, this, feed, effCells, Chunk.cells, Atts.eff, flag]

/-- `str(f)` is a string of the grammar: run by run, single-parameter sequences, the text, sequences. -/
def itemsOf (f : FmtStr) : List SItem :=
  f.flatMap fun c => (openCodes c.atts).map (fun n => SItem.sgr [n]) ++ [SItem.text c.s] ++
    (closeCodes c.atts).map (fun n => SItem.sgr [n])

private theorem print_codes (l : List Nat) : (l.map fun n => SItem.sgr [n]).flatMap SItem.print = l.flatMap seq := by
  induction l with
  | nil => rfl
  | cons n l ih => simp [SItem.print, joinSemi, seq, dec, ih]

theorem C05_render_in_grammar (f : FmtStr) (h : ∀ ch ∈ text f, ch ≠ ESC ∧ ch ≠ CSI8) :
    render f = printS (itemsOf f) ∧ ∀ i ∈ itemsOf f, i.Valid := by
  constructor
  · induction f with
    | nil => rfl
    | cons c f ih =>
      have := ih (fun ch hch => h ch (by simp [text] at hch ⊢; exact .inr hch))
      simp only [render, printS, itemsOf, List.flatMap_cons, List.flatMap_append, print_codes] at this ⊢
      rw [colorStr_eq, this]
      simp [SItem.print]
  · intro i hi
    simp only [itemsOf, List.mem_flatMap, List.mem_append, List.mem_map, List.mem_singleton] at hi
    obtain ⟨c, hc, hi⟩ := hi
    rcases hi with (⟨n, hn, rfl⟩ | rfl) | ⟨n, hn, rfl⟩
    · intro m hm; simp at hm; rw [hm]; exact openCodes_supported _ n hn
    · intro x hx; exact h x (by simp only [text, List.mem_flatMap]; exact ⟨c, hc, hx⟩)
    · intro m hm; simp at hm; rw [hm]; exact closeCodes_supported _ n hn

/-- `FmtStr.from_str(str(f))` has the same characters as `f` and the same formatting on every character. -/
theorem C05_roundtrip (f : FmtStr) (h : ∀ ch ∈ text f, ch ≠ ESC ∧ ch ≠ CSI8) :
    ∃ g, fromStr (render f) = .ok g ∧ effCells g = effCells f := by
  obtain ⟨hr, hv⟩ := C05_render_in_grammar f h
  obtain ⟨g, hg, hc⟩ := C05_parse_is_terminal (itemsOf f) hv
  rw [← hr] at hg hc
  exact ⟨g, hg, by rw [hc, C01_display f h]⟩

/-- ... in particular the same text. -/
theorem C05_roundtrip_text (f : FmtStr) (h : ∀ ch ∈ text f, ch ≠ ESC ∧ ch ≠ CSI8) :
    ∃ g, fromStr (render f) = .ok g ∧ text g = text f := by
  obtain ⟨g, hg, hc⟩ := C05_roundtrip f h
  refine ⟨g, hg, ?_⟩
  have := congrArg (List.map Prod.fst) hc
  simpa [effCells, ← text_eq_cells, Function.comp_def, text_eq_cells] using this


def styleName : Style → String
  | .bold => "bold" | .dark => "dark" | .italic => "italic" | .underline => "underline"
  | .blink => "blink" | .invert => "invert"

/-- The live tables: `FG/BG_NUMBER_TO_COLOR` cover exactly the codes 30+i / 40+i, `NUMBER_TO_STYLE` is the
    model's `numberToStyle`, the reset constants are the model's, and `FG_COLORS`/`BG_COLORS`/`STYLES`
    (which `parse_args` uses to turn the names back into numbers) are the inverse tables. -/
theorem C05_tables :
    Generated.fgNumberToColor.map Prod.fst = (List.finRange 8).map fgCode ∧
    Generated.bgNumberToColor.map Prod.fst = (List.finRange 8).map bgCode ∧
    Generated.fgNumberToColor.map (fun p => (p.2, p.1)) = Generated.fgColors ∧
    Generated.bgNumberToColor.map (fun p => (p.2, p.1)) = Generated.bgColors ∧
    Generated.numberToStyle.map (fun p => (numberToStyle p.1).map styleName) =
      Generated.numberToStyle.map (fun p => some p.2) ∧
    (List.range 110).filter (fun n => (numberToStyle n).isSome) = Generated.numberToStyle.map Prod.fst ∧
    Generated.numberToStyle.map (fun p => (p.2, p.1)) = Generated.styles ∧
    Generated.resetAll = RESET_ALL ∧ Generated.resetFg = RESET_FG ∧ Generated.resetBg = RESET_BG := by
  decide +kernel

/-- Non-vacuity: "a\n" ESC[1;31;44m "b" ESC[m ESC[39m "c" is a grammar string. -/
example : ∀ i ∈ [SItem.text ['a', '\n'], .sgr [1, 31, 44], .text ['b'], .sgr [], .sgr [39], .text ['c']],
    i.Valid := by
  intro i hi
  simp only [List.mem_cons, List.mem_nil_iff, or_false] at hi
  rcases hi with rfl | rfl | rfl | rfl | rfl | rfl <;> simp [SItem.Valid, NoIntro, supported] <;> decide

end Curtsies
