/-
  C17 - fmtstr accepts any string: never raises, never loses ordinary text.

  Model: `fromStr : Text → Except PyErr FmtStr` (Model/EscParse.lean) mirrors `FmtStr.from_str`, with
  `parse` / `peel_off_esc_code` / `token_type` / `remove_ansi`; `fmtstrOf s a` mirrors `fmtstr(s, **a)`.
  The theorems quantify over EVERY `s : List Char` (every Python str without lone surrogates).

  * C17_total     never raises (the model can express KeyError/ValueError escaping; the theorem shows none does).
  * C17_plain     no "ESC[" substring (in particular: no escape sequence at all, C17_plain_spec) ⇒ verbatim, one
                  unformatted run.
  * C17_sub       the result's text is s with characters removed (List.Sublist: nothing added or reordered).
  * C17_keeps     every character that the independent ECMA-48 scanner (Spec/EscScan.lean) does not claim for an
                  escape sequence is kept.
  * C17_numeric   for strings of the grammar (text | ESC [ (d+(;d+)*)? I* F)* the text is exactly the texts.
                  The grammar is the statement's "ordinary numeric CSI sequences": 7-bit introducer `ESC [`,
                  parameters that are non-empty decimal numbers separated by single ';', intermediates
                  0x20-0x2f, any final byte 0x40-0x7e (SGR supported or not, cursor movement, erasing ...).
                  It deliberately EXCLUDES (the code treats them differently, without losing ordinary text):
                  empty parameters (`ESC[;m` → ";m" stays as text), private-parameter sequences (`ESC[?25l` →
                  "?25l" stays), and strings whose only sequences use the 8-bit CSI 0x9b (returned verbatim
                  because the code parses only when "ESC[" occurs).
  * C17_fmtstr    `fmtstr(s, **atts)` returns too, with the same text.
-/
import Curtsies.Proofs.EscParse
import Curtsies.Proofs.EscGrammar
namespace Curtsies
open Spec

/-- `fmtstr(s)` / `FmtStr.from_str(s)` never raise. -/
theorem C17_total (s : Text) : ∃ f, fromStr s = .ok f := by
  obtain ⟨f, h, _⟩ := fromStr_strips s
  exact ⟨f, h⟩

private theorem hasEscBracket_infix {s : Text} (h : hasEscBracket s = true) : [ESC, '['] <:+: s := by
  induction s with
  | nil => simp [hasEscBracket] at h
  | cons a r ih =>
    cases r with
    | nil => simp [hasEscBracket] at h
    | cons b r =>
      simp only [hasEscBracket, Bool.or_eq_true, Bool.and_eq_true, beq_iff_eq] at h
      rcases h with ⟨rfl, rfl⟩ | h
      · exact ⟨[], r, rfl⟩
      · obtain ⟨x, y, hxy⟩ := ih h
        exact ⟨a :: x, y, by simp [← hxy]⟩

/-- Text without the two-character substring ESC '[' comes back verbatim as one unformatted run. -/
theorem C17_plain (s : Text) (h : ¬ [ESC, '['] <:+: s) : fromStr s = .ok [⟨s, {}⟩] := by
  unfold fromStr
  rw [if_neg (fun hb => h (hasEscBracket_infix hb))]

private theorem marks_false_noesc (s : Text) (h : ∀ m ∈ marksFrom .ground s, m = false) : ∀ c ∈ s, c ≠ ESC := by
  induction s with
  | nil => simp
  | cons c r ih =>
    have h0 := h (scanStep .ground c).1 (by simp [marksFrom])
    have hc : c ≠ ESC := by
      intro hc; subst hc
      rw [scan_esc] at h0; cases h0
    have hst : (scanStep .ground c).2 = .ground := by
      simp only [scanStep, groundStep] at h0 ⊢
      split at h0
      · cases h0
      · split at h0
        · cases h0
        · rename_i h1 h2; simp [h1, h2]
    intro x hx
    rcases List.mem_cons.mp hx with rfl | hx
    · exact hc
    · refine ih (fun m hm => h m ?_) x hx
      simp only [marksFrom, hst]
      exact List.mem_cons_of_mem _ hm

/-- "Text containing no escape sequence comes back verbatim and unformatted", with "no escape sequence"
    read off the independent scanner: no character of `s` is claimed by an escape sequence. -/
theorem C17_plain_spec (s : Text) (h : ∀ m ∈ marks s, m = false) : fromStr s = .ok [⟨s, {}⟩] := by
  apply C17_plain
  rintro ⟨x, y, hxy⟩
  exact marks_false_noesc s h ESC (by rw [← hxy]; simp) rfl

/-- The result's text is `s` with characters removed - never added or reordered. -/
theorem C17_sub (s : Text) (f : FmtStr) (h : fromStr s = .ok f) : (text f).Sublist s := by
  obtain ⟨f', h', hs⟩ := fromStr_strips s
  rw [h] at h'; cases h'
  exact hs.sublist

/-- Every character that is not part of an escape sequence (ECMA-48 scanner) is kept, in order. -/
theorem C17_keeps (s : Text) (f : FmtStr) (h : fromStr s = .ok f) : (ordinary s).Sublist (text f) := by
  obtain ⟨f', h', hs⟩ := fromStr_strips s
  rw [h] at h'; cases h'
  exact hs.keeps .ground

/-- `fmtstr(s, **atts)`: returns as well, with the text of `from_str(s)`. -/
theorem C17_fmtstr (s : Text) (a : Atts) :
    ∃ f g, fromStr s = .ok f ∧ fmtstrOf s a = .ok g ∧ text g = text f := by
  obtain ⟨f, h⟩ := C17_total s
  refine ⟨f, copyWithNewAtts f a, h, by simp [fmtstrOf, h], ?_⟩
  simp only [text, copyWithNewAtts, List.flatMap_map]

/-- The hypotheses of C17_plain / C17_keeps are met non-trivially: a string with a newline and an 8-bit CSI
    has no "ESC[" ; in "a ESC[1m b ESC c" the scanner claims exactly the two sequences. -/
example : ¬ [ESC, '['] <:+: ['a', '\n', CSI8, '1', 'm'] := by decide
example : ordinary ['a', ESC, '[', '1', 'm', 'b', '\n', ESC, 'c', 'd'] = ['a', 'b', '\n', 'd'] := by decide

/-- One piece of a string of the numeric-CSI grammar: ordinary text, or `ESC [ p1;...;pn I* F`. -/
inductive NItem
  | text (t : Text)
  | csi (ps : List Text) (is : Text) (c : Char)

/-- text: free of ESC and 0x9b. csi: every parameter a non-empty string of ASCII digits (possibly no
    parameter at all), intermediates in 0x20-0x2f, final byte in 0x40-0x7e. -/
def NItem.Valid : NItem → Prop
  | .text t => NoIntro t
  | .csi ps is c => (∀ p ∈ ps, DigStr p) ∧ (∀ x ∈ is, isIntermed x = true) ∧ isFinal c = true

def NItem.print : NItem → Text
  | .text t => t
  | .csi ps is c => csiSeq ps is c

def NItem.strip : NItem → Text
  | .text t => t
  | .csi _ _ _ => []

/-- the string -/
def printN (l : List NItem) : Text := l.flatMap NItem.print
/-- the string without its control sequences -/
def stripN (l : List NItem) : Text := l.flatMap NItem.strip

private theorem numeric_parse (items : List NItem) (hv : ∀ i ∈ items, i.Valid) :
    ∀ its, parseLoop (printN items) = .ok its → itemsText its = stripN items := by
  induction items with
  | nil =>
    intro its h
    simp only [printN, List.flatMap_nil, parseLoop_nil] at h
    cases h; rfl
  | cons it rest ih =>
    have ih := ih (fun i hi => hv i (by simp [hi]))
    have hit := hv it (by simp)
    intro its h
    cases it with
    | text t =>
      simp only [printN, stripN, List.flatMap_cons, NItem.print, NItem.strip] at h ⊢
      obtain ⟨h1, h2⟩ := parseLoop_append_free (t := t) hit (List.flatMap NItem.print rest)
      cases hR : parseLoop (List.flatMap NItem.print rest) with
      | error e => rw [h1 e hR] at h; cases h
      | ok its0 =>
        obtain ⟨its', hp, hc⟩ := h2 its0 hR
        rw [hp] at h; cases h
        have := congrArg (List.map Prod.fst) (hc {})
        rw [← text_eq_cells, text_fromStrLoop, List.map_append, ← text_eq_cells, text_fromStrLoop] at this
        rw [this, ih its0 hR]
        simp [stripN, Function.comp_def]
    | csi ps is c =>
      obtain ⟨hps, hi, hc⟩ := hit
      simp only [printN, stripN, List.flatMap_cons, NItem.print, NItem.strip, List.nil_append] at h ⊢
      rw [parseLoop_csiSeq hps hi hc] at h
      cases hT : tokenItems (some (csiToken ps is c)) with
      | error e => rw [hT] at h; cases h
      | ok toks =>
        rw [hT] at h
        simp only [] at h
        cases hR : parseLoop (List.flatMap NItem.print rest) with
        | error e => rw [hR] at h; cases h
        | ok more =>
          rw [hR] at h; cases h
          rw [itemsText_append, tokenItems_text hT, List.nil_append]
          exact ih more hR

private theorem numeric_removeAnsi (items : List NItem) (hv : ∀ i ∈ items, i.Valid) :
    removeAnsi (printN items) = stripN items := by
  unfold removeAnsi
  induction items with
  | nil => rfl
  | cons it rest ih =>
    have ih := ih (fun i hi => hv i (by simp [hi]))
    have hit := hv it (by simp)
    cases it with
    | text t =>
      simp only [printN, stripN, List.flatMap_cons, NItem.print, NItem.strip] at ih ⊢
      rw [removeAnsiAux_append_free hit, ih]
    | csi ps is c =>
      obtain ⟨hps, hi, hc⟩ := hit
      simp only [printN, stripN, List.flatMap_cons, NItem.print, NItem.strip, List.nil_append] at ih ⊢
      rw [removeAnsiAux_csiSeq hps hi hc, ih]

private theorem numeric_plain (items : List NItem) (h : hasEscBracket (printN items) = false) :
    printN items = stripN items := by
  induction items with
  | nil => rfl
  | cons it rest ih =>
    cases it with
    | text t =>
      simp only [printN, stripN, List.flatMap_cons, NItem.print, NItem.strip] at h ih ⊢
      rw [ih (hasEscBracket_append_false h)]
    | csi ps is c =>
      simp only [printN, List.flatMap_cons, NItem.print, csiSeq] at h
      have := hasEscBracket_of_infix [] (joinSemi ps ++ is ++ [c] ++ List.flatMap NItem.print rest)
      simp only [List.nil_append, List.cons_append, List.append_assoc] at h this
      rw [this] at h; cases h

/-- When the escape sequences are ordinary numeric CSI sequences - colours and styles supported or not,
    cursor movement, erasing: any parameters, intermediates and final byte - the result's text is exactly
    `s` without them. -/
theorem C17_numeric (items : List NItem) (hv : ∀ i ∈ items, i.Valid) (f : FmtStr)
    (h : fromStr (printN items) = .ok f) : text f = stripN items := by
  unfold fromStr at h
  split at h
  · cases hP : parse (printN items) with
    | ok its =>
      rw [hP] at h; cases h
      rw [text_fromStrLoop]
      exact numeric_parse items hv its hP
    | error e =>
      have := parse_error hP
      subst this
      rw [hP] at h; cases h
      simpa [text] using numeric_removeAnsi items hv
  · rename_i hb
    cases h
    simpa [text] using numeric_plain items (by simpa using hb)

/-- Non-vacuity: "a\n" ESC[38;5;196m "x" ESC[2A ESC[K ESC[1 q "end" is in the grammar. -/
example : ∀ i ∈ [NItem.text ['a', '\n'], .csi [['3', '8'], ['5'], ['1', '9', '6']] [] 'm', .text ['x'],
    .csi [['2']] [] 'A', .csi [] [] 'K', .csi [['1']] [' '] 'q', .text ['e', 'n', 'd']], i.Valid := by
  intro i hi
  simp only [List.mem_cons, List.mem_nil_iff, or_false] at hi
  rcases hi with rfl | rfl | rfl | rfl | rfl | rfl | rfl <;>
    simp [NItem.Valid, NoIntro, DigStr] <;> decide

end Curtsies
