/-
  C17 - fmtstr accepts any string: never raises, never loses ordinary text.

  Model: `fromStr md : Text → Except PyErr FmtStr` (Model/EscParse.lean) mirrors `FmtStr.from_str`, with
  `parse` / `peel_off_esc_code` / `token_type` / `remove_ansi`; `fmtstrOf md s a` mirrors `fmtstr(s, **a)`.
  `md` is CPython's int(str) digit limit (a parameter; the driver uses the live interpreter's value).
  The theorems quantify over EVERY `s : List Char` (every Python str without lone surrogates) and every `md`.

  * C17_total     never raises (the model can express KeyError/ValueError escaping; the theorem shows none does).
  * C17_plain     no "ESC[" substring (in particular: no escape sequence at all, C17_plain_spec) ⇒ verbatim, one
                  unformatted run.
  * C17_strips    POSITIONAL statement: the result's text is `s` with some substrings deleted, each of which is
                  a complete escape sequence `ESC [ P* I* F`, `0x9b P* I* F` or `ESC Fe` (`Strips`, `IsSeq` in
                  Proofs/EscParse.lean). C17_sub and C17_keeps are its value-level consequences.
  * C17_keeps_positional   the same against the INDEPENDENT scanner: every deleted position is one that
                  Spec/EscScan.lean claims for an escape sequence (`Spec.Aligned (marks s) s (text f)`).
  * C17_sub       the result's text is s with characters removed (List.Sublist: nothing added or reordered).
  * C17_keeps     every character that the independent ECMA-48 scanner (Spec/EscScan.lean) does not claim for an
                  escape sequence is kept.
  * C17_numeric_full_statement   clause 4 at full strength, over the WIDE grammar
                  (text | (ESC [ | 0x9b) (d*(;d*)*) I* F)*  - 7-bit or 8-bit introducer, parameters possibly empty.
                  It is FALSE for the code as it is (open finding D28, `C17_D28_witness*`):
                    - a string whose sequences all use the 8-bit introducer contains no "ESC[" and takes the
                      fast path of from_str: it is returned verbatim (`0x9b 31 m x`);
                    - a sequence with an empty parameter (`ESC[;5H`, `ESC[1;;3A`) is not matched by the numbers
                      group `(?:[0-9]+;)*(?:[0-9]+)?`; only `ESC[` is peeled and ";5H" stays in the text.
  * C17_numeric_partial   what holds: all parameters non-empty, and either no 8-bit sequence or at least one
                  "ESC[" in the string (then 8-bit sequences are parsed/stripped like 7-bit ones). The two
                  hypotheses are exactly the complement of D28's two shapes.
  * C17_fmtstr    `fmtstr(s, **atts)` returns too, with the same text.
-/
import Curtsies.Proofs.EscParse
import Curtsies.Proofs.EscGrammar
namespace Curtsies
open Spec

/-- `fmtstr(s)` / `FmtStr.from_str(s)` never raise. -/
theorem C17_total (md : Nat) (s : Text) : ∃ f, fromStr md s = .ok f := by
  obtain ⟨f, h, _⟩ := fromStr_strips md s
  exact ⟨f, h⟩

private theorem hasEscBracket_infix {s : Text} (h : hasEscBracket s = true) : [ESC, '['] <:+: s := by
  induction s with
  | nil => simp [hasEscBracket] at h
  | cons a r ih =>
    cases r with
    | nil => simp [hasEscBracket] at h
    | cons b r =>
      simp only [hasEscBracket, Bool.or_eq_true, Bool.and_eq_true, beq_iff_eq] at h
      rcases h with ⟨rfl, rfl⟩ | h
      · exact ⟨[], r, rfl⟩
      · obtain ⟨x, y, hxy⟩ := ih h
        exact ⟨a :: x, y, by simp [← hxy]⟩

/-- Text without the two-character substring ESC '[' comes back verbatim as one unformatted run. -/
theorem C17_plain (md : Nat) (s : Text) (h : ¬ [ESC, '['] <:+: s) : fromStr md s = .ok [⟨s, {}⟩] := by
  unfold fromStr
  rw [if_neg (fun hb => h (hasEscBracket_infix hb))]

private theorem marks_false_noesc (s : Text) (h : ∀ m ∈ marksFrom .ground s, m = false) : ∀ c ∈ s, c ≠ ESC := by
  induction s with
  | nil => simp
  | cons c r ih =>
    have h0 := h (scanStep .ground c).1 (by simp [marksFrom])
    have hc : c ≠ ESC := by
      intro hc; subst hc
      rw [scan_esc] at h0; cases h0
    have hst : (scanStep .ground c).2 = .ground := by
      simp only [scanStep, groundStep] at h0 ⊢
      split at h0
      · cases h0
      · split at h0
        · cases h0
        · rename_i h1 h2; simp [h1, h2]
    intro x hx
    rcases List.mem_cons.mp hx with rfl | hx
    · exact hc
    · refine ih (fun m hm => h m ?_) x hx
      simp only [marksFrom, hst]
      exact List.mem_cons_of_mem _ hm

/-- "Text containing no escape sequence comes back verbatim and unformatted", with "no escape sequence"
    read off the independent scanner: no character of `s` is claimed by an escape sequence. -/
theorem C17_plain_spec (md : Nat) (s : Text) (h : ∀ m ∈ marks s, m = false) : fromStr md s = .ok [⟨s, {}⟩] := by
  apply C17_plain
  rintro ⟨x, y, hxy⟩
  exact marks_false_noesc s h ESC (by rw [← hxy]; simp) rfl

/-- Positional form: the result's text is `s` with some complete escape sequences cut out, everything
    else in place. -/
theorem C17_strips (md : Nat) (s : Text) (f : FmtStr) (h : fromStr md s = .ok f) : Strips s (text f) := by
  obtain ⟨f', h', hs⟩ := fromStr_strips md s
  rw [h] at h'; cases h'
  exact hs

/-- The result's text is `s` with characters removed - never added or reordered. -/
theorem C17_sub (md : Nat) (s : Text) (f : FmtStr) (h : fromStr md s = .ok f) : (text f).Sublist s :=
  (C17_strips md s f h).sublist

/-- Every character that is not part of an escape sequence (ECMA-48 scanner) is kept, in order. -/
theorem C17_keeps (md : Nat) (s : Text) (f : FmtStr) (h : fromStr md s = .ok f) :
    (ordinary s).Sublist (text f) :=
  (C17_strips md s f h).keeps .ground

/-- Positional form of C17_sub + C17_keeps against the independent scanner: the result's text is `s` with
    some characters deleted, and every deleted character is at a position the scanner claims for an escape
    sequence (`Spec.Aligned`). (A value-level Sublist could not tell an ordinary `m` from the `m` of `ESC[31m`.) -/
theorem C17_keeps_positional (md : Nat) (s : Text) (f : FmtStr) (h : fromStr md s = .ok f) :
    Aligned (marks s) s (text f) :=
  (C17_strips md s f h).aligned .ground

/-- `fmtstr(s, **atts)`: returns as well, with the text of `from_str(s)`. -/
theorem C17_fmtstr (md : Nat) (s : Text) (a : Atts) :
    ∃ f g, fromStr md s = .ok f ∧ fmtstrOf md s a = .ok g ∧ text g = text f := by
  obtain ⟨f, h⟩ := C17_total md s
  refine ⟨f, copyWithNewAtts f a, h, by simp [fmtstrOf, h], ?_⟩
  simp only [text, copyWithNewAtts, List.flatMap_map]

/-- The hypotheses of C17_plain / C17_keeps are met non-trivially: a string with a newline and an 8-bit CSI
    has no "ESC[" ; in "a ESC[1m b ESC c" the scanner claims exactly the two sequences. -/
example : ¬ [ESC, '['] <:+: ['a', '\n', CSI8, '1', 'm'] := by decide
example : ordinary ['a', ESC, '[', '1', 'm', 'b', '\n', ESC, 'c', 'd'] = ['a', 'b', '\n', 'd'] := by decide

/-- One piece of a string of the numeric-CSI grammar: ordinary text, or `CSI p1;...;pn I* F` with the
    7-bit (`ESC [`) or 8-bit (`0x9b`) introducer. -/
inductive NItem
  | text (t : Text)
  | csi (eight : Bool) (ps : List Text) (is : Text) (c : Char)

/-- The wide grammar of the statement. text: free of ESC and 0x9b. csi: every parameter a (possibly EMPTY)
    string of ASCII digits, intermediates in 0x20-0x2f, final byte in 0x40-0x7e. -/
def NItem.Wide : NItem → Prop
  | .text t => NoIntro t
  | .csi _ ps is c => (∀ p ∈ ps, ∀ x ∈ p, isDigit x = true) ∧ (∀ x ∈ is, isIntermed x = true) ∧ isFinal c = true

/-- The grammar of the proved part: as `Wide`, with every parameter NON-EMPTY (there may be no parameter). -/
def NItem.Valid : NItem → Prop
  | .text t => NoIntro t
  | .csi _ ps is c => (∀ p ∈ ps, DigStr p) ∧ (∀ x ∈ is, isIntermed x = true) ∧ isFinal c = true

def NItem.eightBit : NItem → Bool
  | .text _ => false
  | .csi eight _ _ _ => eight

def NItem.print : NItem → Text
  | .text t => t
  | .csi eight ps is c => csiSeq eight ps is c

def NItem.strip : NItem → Text
  | .text t => t
  | .csi _ _ _ _ => []

/-- the string -/
def printN (l : List NItem) : Text := l.flatMap NItem.print
/-- the string without its control sequences -/
def stripN (l : List NItem) : Text := l.flatMap NItem.strip

/-- Clause 4 at full strength: for every string of the wide grammar the result's text is exactly the string
    without its control sequences. NOT a theorem: see `C17_D28_witness`. -/
def C17_numeric_full_statement (md : Nat) : Prop :=
  ∀ items : List NItem, (∀ i ∈ items, i.Wide) → ∀ f, fromStr md (printN items) = .ok f → text f = stripN items

private theorem numeric_parse (md : Nat) (items : List NItem) (hv : ∀ i ∈ items, i.Valid) :
    ∀ its, parseLoop md (printN items) = .ok its → itemsText its = stripN items := by
  induction items with
  | nil =>
    intro its h
    simp only [printN, List.flatMap_nil, parseLoop_nil] at h
    cases h; rfl
  | cons it rest ih =>
    have ih := ih (fun i hi => hv i (by simp [hi]))
    have hit := hv it (by simp)
    intro its h
    cases it with
    | text t =>
      simp only [printN, stripN, List.flatMap_cons, NItem.print, NItem.strip] at h ⊢
      obtain ⟨h1, h2⟩ := parseLoop_append_free md (t := t) hit (List.flatMap NItem.print rest)
      cases hR : parseLoop md (List.flatMap NItem.print rest) with
      | error e => rw [h1 e hR] at h; cases h
      | ok its0 =>
        obtain ⟨its', hp, hc⟩ := h2 its0 hR
        rw [hp] at h; cases h
        have := congrArg (List.map Prod.fst) (hc {})
        rw [← text_eq_cells, text_fromStrLoop, List.map_append, ← text_eq_cells, text_fromStrLoop] at this
        rw [this, ih its0 hR]
        simp [stripN, Function.comp_def]
    | csi eight ps is c =>
      obtain ⟨hps, hi, hc⟩ := hit
      simp only [printN, stripN, List.flatMap_cons, NItem.print, NItem.strip, List.nil_append] at h ⊢
      rw [parseLoop_csiSeq md eight hps hi hc] at h
      cases hN : postNumbers md (joinSemi ps) with
      | error e => rw [hN] at h; cases h
      | ok v =>
        rw [hN] at h
        simp only [] at h
        cases hT : tokenItems (some { rawToken eight ps is c with numbers := some v }) with
        | error e => rw [hT] at h; cases h
        | ok toks =>
          rw [hT] at h
          simp only [] at h
          cases hR : parseLoop md (List.flatMap NItem.print rest) with
          | error e => rw [hR] at h; cases h
          | ok more =>
            rw [hR] at h; cases h
            rw [itemsText_append, tokenItems_text hT, List.nil_append]
            exact ih more hR

private theorem numeric_removeAnsi (items : List NItem) (hv : ∀ i ∈ items, i.Valid) :
    removeAnsi (printN items) = stripN items := by
  unfold removeAnsi
  induction items with
  | nil => rfl
  | cons it rest ih =>
    have ih := ih (fun i hi => hv i (by simp [hi]))
    have hit := hv it (by simp)
    cases it with
    | text t =>
      simp only [printN, stripN, List.flatMap_cons, NItem.print, NItem.strip] at ih ⊢
      rw [removeAnsiAux_append_free hit, ih]
    | csi eight ps is c =>
      obtain ⟨hps, hi, hc⟩ := hit
      simp only [printN, stripN, List.flatMap_cons, NItem.print, NItem.strip, List.nil_append] at ih ⊢
      rw [removeAnsiAux_csiSeq eight hps hi hc, ih]

private theorem numeric_plain (items : List NItem) (h7 : ∀ i ∈ items, i.eightBit = false)
    (h : hasEscBracket (printN items) = false) : printN items = stripN items := by
  induction items with
  | nil => rfl
  | cons it rest ih =>
    have ih := ih (fun i hi => h7 i (by simp [hi]))
    have hit := h7 it (by simp)
    cases it with
    | text t =>
      simp only [printN, stripN, List.flatMap_cons, NItem.print, NItem.strip] at h ih ⊢
      rw [ih (hasEscBracket_append_false h)]
    | csi eight ps is c =>
      simp only [NItem.eightBit] at hit
      subst hit
      simp only [printN, List.flatMap_cons, NItem.print, csiSeq, csiIntro] at h
      have := hasEscBracket_of_infix [] (joinSemi ps ++ is ++ [c] ++ List.flatMap NItem.print rest)
      simp only [List.nil_append, List.cons_append, List.append_assoc] at h this
      simp only [Bool.false_eq_true, if_false, List.cons_append, List.nil_append] at h
      rw [this] at h; cases h

/-- When the escape sequences are ordinary numeric CSI sequences - colours and styles supported or not,
    cursor movement, erasing: any non-empty parameters, intermediates and final byte - the result's text is
    exactly `s` without them, PROVIDED the string has no 8-bit sequence or contains "ESC[" somewhere.
    Missing for the full statement: 8-bit-only strings and empty parameters (finding D28). -/
theorem C17_numeric_partial (md : Nat) (items : List NItem) (hv : ∀ i ∈ items, i.Valid)
    (hfast : (∀ i ∈ items, i.eightBit = false) ∨ [ESC, '['] <:+: printN items)
    (f : FmtStr) (h : fromStr md (printN items) = .ok f) : text f = stripN items := by
  unfold fromStr at h
  split at h
  · cases hP : parse md (printN items) with
    | ok its =>
      rw [hP] at h; cases h
      rw [text_fromStrLoop]
      exact numeric_parse md items hv its hP
    | error e =>
      have := parse_error hP
      subst this
      rw [hP] at h; cases h
      simpa [text] using numeric_removeAnsi items hv
  · rename_i hb
    cases h
    rcases hfast with h7 | ⟨a, b, hab⟩
    · simpa [text] using numeric_plain items h7 (by simpa using hb)
    · have := hasEscBracket_of_infix a b
      simp only [List.append_assoc, List.cons_append, List.nil_append] at hab
      rw [hab] at this
      exact absurd this hb

/-- D28, first shape: `0x9b 31 m x` (a complete 8-bit SGR sequence, no "ESC[" in the string) comes back
    verbatim - the full statement fails in the model exactly as in the code. -/
theorem C17_D28_witness (md : Nat) : ¬ C17_numeric_full_statement md := by
  intro hfull
  have hw : ∀ i ∈ [NItem.csi true [['3', '1']] [] 'm', .text ['x']], i.Wide := by
    intro i hi
    simp only [List.mem_cons, List.mem_nil_iff, or_false] at hi
    rcases hi with rfl | rfl <;> simp [NItem.Wide, NoIntro] <;> decide
  have := hfull _ hw [⟨[CSI8, '3', '1', 'm', 'x'], {}⟩] (by
    unfold fromStr
    rw [if_neg (by decide)]
    rfl)
  revert this
  decide

/-- D28, second shape: `ESC [ ; 5 H x` (cursor to row 1, column 5) leaves ";5H" in the text. -/
theorem C17_D28_witness_empty_param (md : Nat) : ¬ C17_numeric_full_statement md := by
  intro hfull
  have hw : ∀ i ∈ [NItem.csi false [[], ['5']] [] 'H', .text ['x']], i.Wide := by
    intro i hi
    simp only [List.mem_cons, List.mem_nil_iff, or_false] at hi
    rcases hi with rfl | rfl <;> simp [NItem.Wide, NoIntro] <;> decide
  have hp1 : peelMatch [ESC, '[', ';', '5', 'H', 'x'] =
      ([], some ⟨[ESC], none, [], '[', [ESC, '[']⟩, [';', '5', 'H', 'x']) := by decide
  have hp2 : peelMatch [';', '5', 'H', 'x'] = ([';', '5', 'H', 'x'], none, []) := by decide
  have hparse : parse md [ESC, '[', ';', '5', 'H', 'x'] = .ok [.str [';', '5', 'H', 'x']] := by
    unfold parse
    rw [parseLoop_eq]
    simp only [peel, hp1, postToken, tokenItems, tokenType]
    rw [if_neg (by decide), if_neg (by decide)]
    simp only []
    rw [parseLoop_eq]
    simp only [peel, hp2, postToken, tokenItems, parseLoop_nil]
    rfl
  have := hfull _ hw [⟨[';', '5', 'H', 'x'], {}⟩] (by
    unfold fromStr
    rw [if_pos (by decide)]
    show (match parse md [ESC, '[', ';', '5', 'H', 'x'] with
      | .ok items => _ | .error .valueError => _ | .error e => _) = _
    rw [hparse]
    rfl)
  revert this
  decide

/-- Non-vacuity of C17_numeric_partial: "a\n" ESC[38;5;196m "x" 0x9b 2 A ESC[K ESC[1 q "end" is in the proved
    grammar and contains "ESC[" (so its 8-bit sequence is covered). -/
example : (∀ i ∈ [NItem.text ['a', '\n'], .csi false [['3', '8'], ['5'], ['1', '9', '6']] [] 'm', .text ['x'],
    .csi true [['2']] [] 'A', .csi false [] [] 'K', .csi false [['1']] [' '] 'q', .text ['e', 'n', 'd']], i.Valid) ∧
    [ESC, '['] <:+: printN [NItem.text ['a', '\n'], .csi false [['3', '8'], ['5'], ['1', '9', '6']] [] 'm',
      .text ['x'], .csi true [['2']] [] 'A', .csi false [] [] 'K', .csi false [['1']] [' '] 'q',
      .text ['e', 'n', 'd']] := by
  constructor
  · intro i hi
    simp only [List.mem_cons, List.mem_nil_iff, or_false] at hi
    rcases hi with rfl | rfl | rfl | rfl | rfl | rfl | rfl <;>
      simp [NItem.Valid, NoIntro, DigStr] <;> decide
  · decide

end Curtsies
