/-
  C04 - FSArray region assignment composites exactly the assigned block.

  Statement level: `grid a r c` is what cell (r, c) of the array shows - the stored cell `(character, attribute
  dict)`, and `blankCell` (an unformatted space, which is also what `setslice_with_length` pads with) beyond the
  stored end of a row and below the last row. `C04_paint g r0 r1 c0 c1 block` is the picture the property asks
  for: the region shows the block rows padded with blanks, every other cell is `g`.

  What is proved (model = Model/FSArray.lean + Model/SpliceOp.lean, tied to the code per run; `md` is the parser
  model's CPython digit-limit parameter, irrelevant here):
    C04_init               FSArray(n, w, *args): n blank rows, WF
    C04_assign_partial     a block that fits (right row count, no row longer than the region or reaching past the
                           width - the region itself may extend beyond the right edge -, str rows ESC-free):
                           succeeds, the new grid is `C04_paint`, height = max old r1, no row wider than the array
    C04_width_invariant    EVERY a[r, c] = value (any subscripts, any value, any outcome) keeps all rows <= width
    C04_error_unchanged    EVERY a[r, c] = value that raises leaves every cell as it was
    C04_height             EVERY a[r0:r1, c] = value leaves max(height, r1) rows - also when it raises (the code
                           extends before validating; "changes no cell" is read on `grid`)
    C04_reject_partial     ill-fitting blocks raise and change nothing - except the D19 footprint
    C04_int_subscript      a[r, c] = v is the region r:r+1, c:c+1; C04_assign_int_partial / C04_reject_int_partial /
                           C04_int_col_out_of_range
    C04_empty_region_noop  a region of no rows or no columns (outside the statement): no error, no cell changes
    C04_history            induction over assignment sequences; per-step hypotheses are predicates on the inputs
    C04_read / C04_read_cells / C04_read_row / C04_read_rows, C04_fsarray_partial / _reject / _auto_partial
  The full statement `C04_full_statement` (every block, plain-str rows verbatim and unformatted) is refuted for the
  model (= the code) by `C04_D19_witness` (over-long row spilling into blank cells) and `C04_D27_witness` (a str row
  containing an SGR sequence is parsed and measured raw; `C04_D27_fsarray` for `fsarray`).

  Hypotheses (the statement's domain): row subscripts `r0:r1` with explicit `0 <= r0 <= r1`, or ints; columns
  `0 <= c0 <= c1`, `c0 <= width` - the region may reach past the right edge: `C04_assign_partial` asks `c0 + len <= width`
  of every row, `C04_reject_partial` rejects a row with `c0 + len > width`; `C04_full_statement`, `C04_history` and
  the reads keep `c1 <= width` (a region starting beyond the right edge is outside: the text is silent there); for the rejection clause the region is NON-EMPTY
  (`r0 < r1`, `c0 < c1`): a zero-area region has no cells a block could be composited into, the statement requires
  no error there (the code returns early, as numpy-style semantics do) - only "no cell changes", which
  `C04_empty_region_noop` proves; a `str` value only for regions of at most one column (the code rejects it
  otherwise). `_partial` theorems carry `Operand.EscFree` for plain-str rows (complement of D27's footprint) and,
  for rejection, the complement of D19's footprint.
-/
import Curtsies.Model.FSArray
import Curtsies.Proofs.FSArray
namespace Curtsies
open FSArray Splice

def C04_paint (g : Nat → Nat → Cell) (r0 r1 c0 c1 : Nat) (block : List (List Cell)) : Nat → Nat → Cell :=
  fun r c => if r0 ≤ r ∧ r < r1 ∧ c0 ≤ c ∧ c < c1 then padCell ((block[r - r0]?).getD []) (c - c0) else g r c

/-- "never makes a row wider than the array": for EVERY subscript and value, whatever the outcome. -/
theorem C04_width_invariant (md : Nat) (a : FSArr) (r c : Index) (value : Block) (hw : WF a) :
    WF (a.setRegion md r c value).1 ∧ (a.setRegion md r c value).1.numColumns = a.numColumns := by
  rcases setRegion_cases md a r c value with h | ⟨h, hh⟩ | ⟨rs, cs, new, _, hnew, hst⟩
  · rw [h]; exact ⟨hw, rfl⟩
  · rw [hh]; exact ⟨WF_extended a h hw, rfl⟩
  · rw [hst]
    refine ⟨?_, rfl⟩
    intro f hf
    have hwe := WF_extended a rs.2 hw
    simp only [List.mem_append] at hf
    rcases hf with (hf | hf) | hf
    · exact hwe f (List.mem_of_mem_take hf)
    · exact setRows_len_le _ _ _ _ _ _ _ hnew f hf
    · exact hwe f (List.mem_of_mem_drop hf)

/-- "raises an error and changes no cell": for EVERY subscript and value, an exception leaves every cell as it
    was (the rows may have been extended with blank rows first; they show blank, as the cells below the array did). -/
theorem C04_error_unchanged (md : Nat) (a : FSArr) (r c : Index) (value : Block) (e : PyErr)
    (he : (a.setRegion md r c value).2 = .error e) (r' c' : Nat) :
    grid (a.setRegion md r c value).1 r' c' = grid a r' c' := by
  rcases setRegion_error md a r c value e he with h | ⟨h, hh⟩
  · rw [h]
  · rw [hh, grid_extended]



/-- Region assignment with a block that fits: `a[r0:r1, c0:c1] = block` succeeds; the region shows the block rows
    padded with blanks and every other cell is as it was (`C04_paint`); the array has grown to `max height r1`
    rows; no row is wider than the array; the width is unchanged. -/
theorem C04_assign_partial (md : Nat) (a : FSArr) (r0 r1 c0 c1 : Nat) (value : Block)
    (hw : WF a) (hr : r0 ≤ r1) (hc : c0 ≤ c1) (hW : ∀ it ∈ value.items, c0 + it.rawLen ≤ a.numColumns)
    (hrows : value.items.length = r1 - r0) (hfit : ∀ it ∈ value.items, it.rawLen ≤ c1 - c0)
    (hstr : ¬ (value.isStr = true ∧ c1 - c0 > 1)) (hesc : ∀ it ∈ value.items, it.EscFree) :
    ∃ a', a.setRegion md (.slice (some (r0 : Int)) (some (r1 : Int))) (.slice (some (c0 : Int)) (some (c1 : Int))) value
        = (a', .ok ()) ∧
      (∀ r c, grid a' r c = C04_paint (grid a) r0 r1 c0 c1 (value.items.map Operand.cells) r c) ∧
      a'.rows.length = max a.rows.length r1 ∧ WF a' ∧ a'.numColumns = a.numColumns := by
  have hinv := C04_width_invariant md a (.slice (some (r0 : Int)) (some (r1 : Int)))
    (.slice (some (c0 : Int)) (some (c1 : Int))) value hw
  suffices key : ∃ a', a.setRegion md (.slice (some (r0 : Int)) (some (r1 : Int)))
        (.slice (some (c0 : Int)) (some (c1 : Int))) value = (a', .ok ()) ∧
      (∀ r c, grid a' r c = C04_paint (grid a) r0 r1 c0 c1 (value.items.map Operand.cells) r c) ∧
      a'.rows.length = max a.rows.length r1 by
    obtain ⟨a', heq, hg, hl⟩ := key
    rw [heq] at hinv
    exact ⟨a', heq, hg, hl, hinv.1, hinv.2⟩
  clear hinv
  unfold FSArr.setRegion
  rw [normalizeSlice_nat, normalizeSlice_nat]
  simp only []
  have hext : ({ a with rows := a.rows ++ List.replicate (r1 - a.rows.length) (blankRow a.blankAtts) } : FSArr)
      = a.extended r1 := rfl
  rw [hext]
  have hrows1 : (a.extended r1).rows = a.rows ++ List.replicate (r1 - a.rows.length) (blankRow a.blankAtts) := rfl
  rw [← hrows1]
  by_cases he : (slicesize (c0, c1) = 0 ∨ slicesize (r0, r1) = 0)
  · rw [if_pos he]
    simp only [slicesize] at he
    refine ⟨_, rfl, ?_, extended_length a r1⟩
    intro r c
    have : ¬ (r0 ≤ r ∧ r < r1 ∧ c0 ≤ c ∧ c < c1) := by omega
    rw [grid_extended, C04_paint, if_neg this]
  · rw [if_neg he]
    simp only [slicesize] at he
    have h2 : ¬ (slicesize (c0, c1) > 1 ∧ value.isStr = true) := by
      intro ⟨h, hs⟩; simp only [slicesize] at h; exact hstr ⟨hs, by omega⟩
    have h3 : ¬ (slicesize (r0, r1) ≠ (value.items.length : Int)) := by simp only [slicesize]; omega
    rw [if_neg h2, if_neg h3]
    have hlen1 : r1 ≤ (a.extended r1).rows.length := by rw [extended_length]; omega
    have hsl := listSlice_length (a.extended r1).rows r0 r1 hr hlen1
    obtain ⟨new, hnew, hnl, hcell⟩ := setRows_ok md c0 c1 a.numColumns hc
      (listSlice (a.extended r1).rows (r0, r1)) value.items hW
      (fun f hf => WF_extended a r1 hw f (by
        simp only [listSlice] at hf
        exact List.mem_of_mem_take (List.mem_of_mem_drop hf)))
      hfit (fun v hv => NoEsc_of_EscFree v (hesc v hv))
      (by rw [hsl, hrows])
    simp only [hnew]
    refine ⟨_, rfl, ?_, ?_⟩
    · intro r c
      have hnl' : new.length = r1 - r0 := by rw [hnl, hsl]
      simp only [grid]
      rw [replaced_get _ _ r0 r1 hr hlen1 hnl' r]
      by_cases hin : r0 ≤ r ∧ r < r1
      · rw [if_pos hin]
        have hlt : r < (a.extended r1).rows.length := by omega
        have hi : r - r0 < value.items.length := by omega
        obtain ⟨rr, hrr, hcr⟩ := hcell (r - r0) ((a.extended r1).rows[r]) (value.items[r - r0])
          (by rw [listSlice_get _ _ _ _ (by omega)]
              have : r0 + (r - r0) = r := by omega
              rw [this, List.getElem?_eq_getElem hlt])
          (List.getElem?_eq_getElem hi)
        rw [hrr]
        simp only [rowCell, hcr]
        rw [padCell_setCells _ _ _ _ hc (by rw [cells_rawLen]; exact hfit _ (List.getElem_mem hi))]
        have hg : grid a r c = padCell (cells (a.extended r1).rows[r]) c := by
          rw [← grid_extended a r1 r c]
          simp only [grid, List.getElem?_eq_getElem hlt, rowCell]
        simp only [C04_paint]
        by_cases hcc : c0 ≤ c ∧ c < c1
        · have : r0 ≤ r ∧ r < r1 ∧ c0 ≤ c ∧ c < c1 := ⟨hin.1, hin.2, hcc.1, hcc.2⟩
          rw [if_pos hcc, if_pos this, List.getElem?_map, List.getElem?_eq_getElem hi]
          rfl
        · have : ¬ (r0 ≤ r ∧ r < r1 ∧ c0 ≤ c ∧ c < c1) := by omega
          rw [if_neg hcc, if_neg this, hg]
      · rw [if_neg hin]
        have : ¬ (r0 ≤ r ∧ r < r1 ∧ c0 ≤ c ∧ c < c1) := by omega
        simp only [C04_paint, if_neg this]
        rw [← grid_extended a r1 r c]
        simp only [grid]
    · simp only [List.length_append, List.length_take, List.length_drop, hnl, hsl, extended_length]
      omega


/-- A block that does not fit its region (`hr`, `hc`: the region has cells - the statement's domain) is rejected -
    the call raises and no cell changes - when it has the wrong number of rows, or some row `i` is longer than
    the region and either the existing row `r0+i` continues past the region (`AssertionError`: it would reach
    into existing content) or `c0 + len` exceeds the array's width (`ValueError`). Missing from the full statement
    (`C04_full_statement`): over-long rows meeting an existing row that ends at or before `c1` while the result
    fits the width (finding D19, `C04_D19_witness`). -/
theorem C04_reject_partial (md : Nat) (a : FSArr) (r0 r1 c0 c1 : Nat) (value : Block)
    (hr : r0 < r1) (hc : c0 < c1)
    (hbad : value.items.length ≠ r1 - r0 ∨
      ∃ (i : Nat) (it : Operand), value.items[i]? = some it ∧ it.rawLen > c1 - c0 ∧ it.EscFree ∧
        (rowLen a (r0 + i) > c1 ∨ c0 + it.rawLen > a.numColumns)) :
    ∃ e, (a.setRegion md (.slice (some (r0 : Int)) (some (r1 : Int))) (.slice (some (c0 : Int)) (some (c1 : Int))) value).2
        = .error e ∧
      ∀ r c, grid (a.setRegion md (.slice (some (r0 : Int)) (some (r1 : Int)))
        (.slice (some (c0 : Int)) (some (c1 : Int))) value).1 r c = grid a r c := by
  suffices key : ∃ e, (a.setRegion md (.slice (some (r0 : Int)) (some (r1 : Int)))
      (.slice (some (c0 : Int)) (some (c1 : Int))) value).2 = .error e by
    obtain ⟨e, he⟩ := key
    exact ⟨e, he, C04_error_unchanged md a _ _ value e he⟩
  unfold FSArr.setRegion
  rw [normalizeSlice_nat, normalizeSlice_nat]
  simp only []
  have he : ¬ (slicesize (c0, c1) = 0 ∨ slicesize (r0, r1) = 0) := by simp only [slicesize]; omega
  rw [if_neg he]
  split
  · exact ⟨_, rfl⟩
  · split
    · exact ⟨_, rfl⟩
    · rename_i hcount
      simp only [slicesize, Decidable.not_not] at hcount
      rcases hbad with hbad | ⟨i, it, hit, hlen, hitesc, hwhy⟩
      · omega
      · have hi : i < value.items.length := by
          rcases Nat.lt_or_ge i value.items.length with h | h
          · exact h
          · rw [List.getElem?_eq_none h] at hit; cases hit
        have hrows1 : (a.extended r1).rows = a.rows ++ List.replicate (r1 - a.rows.length) (blankRow a.blankAtts) := rfl
        rw [← hrows1]
        have hlen1 : r1 ≤ (a.extended r1).rows.length := by rw [extended_length]; omega
        have hlt : r0 + i < (a.extended r1).rows.length := by omega
        have hf : (listSlice (a.extended r1).rows (r0, r1))[i]? = some ((a.extended r1).rows[r0 + i]) := by
          rw [listSlice_get _ _ _ _ (by omega), List.getElem?_eq_getElem hlt]
        have hfl := extended_get a r1 (r0 + i) _ (List.getElem?_eq_getElem hlt)
        obtain ⟨e1, he1⟩ := setsliceOp_reject md ((a.extended r1).rows[r0 + i]) it c0 c1 a.numColumns
          (Nat.le_of_lt hc) hlen (NoEsc_of_EscFree it hitesc) (by rw [hfl]; exact hwhy)
        obtain ⟨e', he'⟩ := setRows_error md c0 c1 a.numColumns (listSlice (a.extended r1).rows (r0, r1))
          value.items i _ it e1 hf hit he1
        simp only [he']
        exact ⟨_, rfl⟩

/-- The property's assignment clauses as one statement over ALL region assignments with `0 ≤ r0 ≤ r1`,
    `0 ≤ c0 ≤ c1 ≤ width`: a fitting block is composited exactly; any other block, on a region that has cells, raises
    and changes nothing. It is FALSE for the code as it is (`C04_D19_witness`); what holds is `C04_assign` (the first
    half, in full), `C04_width_invariant` and `C04_error_unchanged` (for every call), and `C04_reject_partial`. -/
def C04_full_statement : Prop :=
  ∀ (md : Nat) (a : FSArr) (r0 r1 c0 c1 : Nat) (value : Block), WF a → r0 ≤ r1 → c0 ≤ c1 → c1 ≤ a.numColumns →
    ¬ (value.isStr = true ∧ c1 - c0 > 1) →
    let res := a.setRegion md (.slice (some (r0 : Int)) (some (r1 : Int))) (.slice (some (c0 : Int)) (some (c1 : Int))) value
    let fits := value.items.length = r1 - r0 ∧ ∀ it ∈ value.items, it.cells.length ≤ c1 - c0
    (fits → res.2 = .ok () ∧
      (∀ r c, grid res.1 r c = C04_paint (grid a) r0 r1 c0 c1 (value.items.map Operand.cells) r c) ∧
      res.1.rows.length = max a.rows.length r1 ∧ WF res.1) ∧
    (¬ fits → r0 < r1 → c0 < c1 → (∃ e, res.2 = .error e) ∧ ∀ r c, grid res.1 r c = grid a r c)

/-- D19 at a concrete point: blank 1x3 array, `a[0:1, 0:1] = ['xz']` succeeds and cell (0,1), outside the region,
    changes from blank to 'z'. -/
theorem C04_D19_cell :
    ((FSArr.init 1 3 {}).setRegion 4300 (.slice (some 0) (some 1)) (.slice (some 0) (some 1))
        ⟨false, [.str ['x', 'z']]⟩).2 = .ok () ∧
    grid ((FSArr.init 1 3 {}).setRegion 4300 (.slice (some 0) (some 1)) (.slice (some 0) (some 1))
        ⟨false, [.str ['x', 'z']]⟩).1 0 1 = ('z', {}) ∧
    grid (FSArr.init 1 3 {}) 0 1 = blankCell := by decide +kernel

/-- The model violates the full statement at that point. -/
theorem C04_D19_witness : ¬ C04_full_statement := by
  intro h
  have hwf : WF (FSArr.init 1 3 {}) := by
    intro f hf
    simp only [FSArr.init, List.mem_replicate] at hf
    rw [hf.2]; decide
  have := (h 4300 (FSArr.init 1 3 {}) 0 1 0 1 ⟨false, [.str ['x', 'z']]⟩ hwf (by decide) (by decide)
    (by decide) (by decide)).2 (by decide) (by decide) (by decide)
  obtain ⟨⟨e, he⟩, _⟩ := this
  have hok := C04_D19_cell.1
  simp only [Int.natCast_zero, Int.natCast_one] at he
  rw [hok] at he
  cases he

/-- D27 at a concrete point: blank 1x12 array, `a[0:1, 0:12] = ['\x1b[31mxy\x1b[39m']` - a plain str of twelve
    characters for a region of twelve columns - succeeds and cell (0,0) shows a RED 'x', not the str's first character
    (ESC) unformatted: `setslice_with_length` measures the raw str, `splice` parses it. -/
theorem C04_D27_cell :
    ((FSArr.init 1 12 {}).setRegion 4300 (.slice (some ((0 : Nat) : Int)) (some ((1 : Nat) : Int)))
        (.slice (some ((0 : Nat) : Int)) (some ((12 : Nat) : Int)))
        ⟨false, [.str [ESC, '[', '3', '1', 'm', 'x', 'y', ESC, '[', '3', '9', 'm']]⟩).2 = .ok () ∧
    grid ((FSArr.init 1 12 {}).setRegion 4300 (.slice (some ((0 : Nat) : Int)) (some ((1 : Nat) : Int)))
        (.slice (some ((0 : Nat) : Int)) (some ((12 : Nat) : Int)))
        ⟨false, [.str [ESC, '[', '3', '1', 'm', 'x', 'y', ESC, '[', '3', '9', 'm']]⟩).1 0 0
      = ('x', { fg := some 1 }) := by decide +kernel

/-- The model violates the full statement at that point too. -/
theorem C04_D27_witness : ¬ C04_full_statement := by
  intro h
  have hwf : WF (FSArr.init 1 12 {}) := by
    intro f hf
    simp only [FSArr.init, List.mem_replicate] at hf
    rw [hf.2]; decide
  have := (h 4300 (FSArr.init 1 12 {}) 0 1 0 12
    ⟨false, [.str [ESC, '[', '3', '1', 'm', 'x', 'y', ESC, '[', '3', '9', 'm']]⟩ hwf (by decide) (by decide)
    (by decide) (by decide)).1 (by decide)
  have h2 := this.2.1 0 0
  rw [C04_D27_cell.2] at h2
  revert h2
  decide +kernel

/-- Regions without cells (`r0 = r1` or `c0 = c1`) are outside the statement: the code returns before looking at
    the value (after extending the rows), whatever the block is. No error is required there, only that no cell
    changes - which holds for every value. -/
theorem C04_empty_region_noop (md : Nat) (a : FSArr) (r0 r1 c0 c1 : Nat) (value : Block) (h : r0 = r1 ∨ c0 = c1) :
    (a.setRegion md (.slice (some (r0 : Int)) (some (r1 : Int))) (.slice (some (c0 : Int)) (some (c1 : Int))) value).2
        = .ok () ∧
      ∀ r c, grid (a.setRegion md (.slice (some (r0 : Int)) (some (r1 : Int)))
        (.slice (some (c0 : Int)) (some (c1 : Int))) value).1 r c = grid a r c := by
  unfold FSArr.setRegion
  rw [normalizeSlice_nat, normalizeSlice_nat]
  simp only []
  have he : (slicesize (c0, c1) = 0 ∨ slicesize (r0, r1) = 0) := by simp only [slicesize]; omega
  rw [if_pos he]
  exact ⟨rfl, fun r c => grid_extended a r1 r c⟩

/-- A region reaching past the right edge (`c1 > width`): a row that stays inside is composited, a row that would
    reach past the width is rejected; a zero-width array takes only empty rows. -/
example :
    ((FSArr.init 1 4 {}).setRegion 4300 (.slice (some 0) (some 1)) (.slice (some 2) (some 8)) ⟨false, [.str ['X', 'Y']]⟩).2 = .ok () ∧
    ((FSArr.init 1 4 {}).setRegion 4300 (.slice (some 0) (some 1)) (.slice (some 2) (some 8)) ⟨false, [.str ['X', 'Y']]⟩).1.rows.map cells
      = [[(' ', {}), (' ', {}), ('X', {}), ('Y', {})]] ∧
    ((FSArr.init 1 4 {}).setRegion 4300 (.slice (some 0) (some 1)) (.slice (some 4) (some 6)) ⟨false, [.str ['x', 'y']]⟩).2
      = .error .valueError ∧
    ((FSArr.init 1 0 {}).setRegion 4300 (.slice (some 0) (some 1)) (.slice (some 0) (some 3)) ⟨false, [.str ['a', 'b', 'c']]⟩).2
      = .error .valueError ∧
    ((FSArr.init 1 0 {}).setRegion 4300 (.slice (some 0) (some 1)) (.slice (some 0) (some 3)) ⟨false, [.str []]⟩).2 = .ok () := by
  decide +kernel

/-- Non-vacuity of `C04_assign_partial` / `C04_reject_partial`: a 2x3 array whose first row is 'abc', then
    `a[0:2, 1:2] = [bold 'X', '']`: both rows fit; and `a[0:1, 0:1] = ['xz']` on that array is rejected. -/
example :
    let a : FSArr := ⟨[[⟨['a', 'b', 'c'], {}⟩], blankRow {}], 3, {}⟩
    (a.setRegion 4300 (.slice (some 0) (some 2)) (.slice (some 1) (some 2))
        ⟨false, [.fmt [⟨['X'], { bold := some true }⟩], .str []]⟩).2 = .ok () ∧
    (a.setRegion 4300 (.slice (some 0) (some 2)) (.slice (some 1) (some 2))
        ⟨false, [.fmt [⟨['X'], { bold := some true }⟩], .str []]⟩).1.rows.map cells
      = [[('a', {}), ('X', { bold := some true }), ('c', {})], [(' ', {})]] ∧
    (a.setRegion 4300 (.slice (some 0) (some 1)) (.slice (some 0) (some 1))
        ⟨false, [.str ['x', 'z']]⟩).2 = .error .assertionError := by decide +kernel

/-- Reading a region back: `a[r0:r1, c0:c1]` returns one FmtStr per stored row `r0 ≤ r < min r1 height`, whose cells
    are exactly the stored cells of that row in columns `c0 ≤ c < c1` (rows shorter than `c1` are not padded:
    the stored prefix). -/
theorem C04_read (a : FSArr) (r0 r1 c0 c1 : Nat) :
    ∃ l, a.getitem2 (.slice (some (r0 : Int)) (some (r1 : Int))) (.slice (some (c0 : Int)) (some (c1 : Int))) = .ok l ∧
      l.map cells = ((a.rows.take r1).drop r0).map fun f => ((cells f).take c1).drop c0 := by
  refine ⟨(listSlice a.rows (r0, r1)).map (fun fs => getslice fs c0 c1),
    by simp only [FSArr.getitem2, normalizeSlice_nat, bind, Except.bind, pure, Except.pure], ?_⟩
  have : (cells ∘ fun fs => getslice fs c0 c1) = fun f => ((cells f).take c1).drop c0 := by
    funext f; simp [getslice_cells]
  simp only [listSlice, List.map_map, this]

/-- The same on cells: cell `j` of returned row `i` is what the grid shows at `(r0+i, c0+j)`. -/
theorem C04_read_cells (a : FSArr) (r0 r1 c0 c1 : Nat) :
    ∃ l, a.getitem2 (.slice (some (r0 : Int)) (some (r1 : Int))) (.slice (some (c0 : Int)) (some (c1 : Int))) = .ok l ∧
      l.length = min r1 a.rows.length - r0 ∧
      ∀ i j, i < l.length → j < c1 - c0 →
        padCell ((l.map cells)[i]?.getD []) j = grid a (r0 + i) (c0 + j) := by
  obtain ⟨l, h1, h2⟩ := C04_read a r0 r1 c0 c1
  have hlen : l.length = min r1 a.rows.length - r0 := by
    have := congrArg List.length h2
    simpa using this
  refine ⟨l, h1, hlen, ?_⟩
  intro i j hi hj
  rw [h2]
  have hlt : r0 + i < a.rows.length := by omega
  simp only [List.getElem?_map, List.getElem?_drop, List.getElem?_take, grid, padCell, rowCell]
  have : r0 + i < r1 := by omega
  rw [if_pos this, List.getElem?_eq_getElem hlt]
  simp only [Option.map_some, Option.getD_some]
  rw [List.getElem?_drop, List.getElem?_take, if_pos (by omega)]

/-- Reading a row: `a[i]` for `0 ≤ i < height` is the stored row; otherwise IndexError. -/
theorem C04_read_row (a : FSArr) (i : Nat) :
    a.getitem1 (.int (i : Int)) =
      match a.rows[i]? with
      | some f => .ok (.row f)
      | none => .error .indexError := by
  unfold FSArr.getitem1
  simp only []
  have h0 : ¬ ((i : Int) < 0) := by omega
  rw [if_neg h0]
  by_cases h : i < a.rows.length
  · have : ¬ ((i : Int) < 0 ∨ (i : Int) ≥ (a.rows.length : Int)) := by omega
    rw [if_neg this]
    simp [List.getElem?_eq_getElem h]
  · have : ((i : Int) < 0 ∨ (i : Int) ≥ (a.rows.length : Int)) := by omega
    rw [if_pos this, List.getElem?_eq_none (by omega)]

/-- `fsarray(strings, width, *args)` when every item fits and no plain-str item contains `ESC [` (complement of
    finding D27): an array of `len(strings)` rows and `width` columns whose rows show exactly the items - a FmtStr
    as it is, a plain str with the formatting the extra arguments denote (`itemCells`). -/
theorem C04_fsarray_partial (md : Nat) (strings : List Operand) (w : Nat) (atts : Atts)
    (hfit : ∀ s ∈ strings, s.rawLen ≤ w) (hesc : ∀ s ∈ strings, s.EscFree) :
    ∃ arr, fsarray md strings (some w) atts = .ok arr ∧ arr.numColumns = w ∧
      arr.rows.map cells = strings.map (itemCells atts) ∧ WF arr := by
  obtain ⟨rows, h1, h2⟩ := fsarrayRows_ok md w atts strings strings.length rfl
    (fun s hs => NoEsc_of_EscFree s (hesc s hs)) hfit
  have hany : strings.any (fun s => decide (s.rawLen > w)) = false := by
    simp only [List.any_eq_false, decide_eq_true_eq]; intro s hs; have := hfit s hs; omega
  refine ⟨{ FSArr.init strings.length w atts with rows := rows }, ?_, rfl, h2, ?_⟩
  · simp [fsarray, hany, FSArr.init, h1]
  · intro f hf
    simp only [FSArr.init]
    have hm : cells f ∈ rows.map cells := List.mem_map_of_mem hf
    rw [h2] at hm
    obtain ⟨s, hs, hsc⟩ := List.mem_map.mp hm
    have : len f = s.rawLen := by
      rw [← cells_length, ← hsc]
      cases s with
      | str t => simp [itemCells, Operand.rawLen]
      | fmt g => simp only [itemCells, Operand.rawLen]; exact cells_length g
    rw [this]; exact hfit s hs

/-- `fsarray(strings, width)` with an item longer than `width` raises ValueError (for a str: its raw length). -/
theorem C04_fsarray_reject (md : Nat) (strings : List Operand) (w : Nat) (atts : Atts) (s : Operand)
    (hs : s ∈ strings) (hlong : s.rawLen > w) : fsarray md strings (some w) atts = .error .valueError := by
  have hany : strings.any (fun s => decide (s.rawLen > w)) = true := by
    simp only [List.any_eq_true, decide_eq_true_eq]; exact ⟨s, hs, hlong⟩
  simp [fsarray, hany]

/-- `fsarray(strings)` without a width: the width is the longest item. -/
theorem C04_fsarray_auto_partial (md : Nat) (strings : List Operand) (atts : Atts) (hesc : ∀ s ∈ strings, s.EscFree) :
    ∃ arr, fsarray md strings none atts = .ok arr ∧ arr.rows.map cells = strings.map (itemCells atts) ∧ WF arr ∧
      (∀ s ∈ strings, s.rawLen ≤ arr.numColumns) ∧
      (strings ≠ [] → ∃ s ∈ strings, s.rawLen = arr.numColumns) ∧ (strings = [] → arr.numColumns = 0) := by
  have hmax : ∀ (l : List Nat) (init : Nat), init ≤ l.foldl max init ∧ (∀ x ∈ l, x ≤ l.foldl max init) ∧
      (l.foldl max init = init ∨ l.foldl max init ∈ l) := by
    intro l
    induction l with
    | nil => intro init; simp
    | cons y ys ih =>
      intro init
      have := ih (max init y)
      simp only [List.foldl_cons, List.mem_cons]
      refine ⟨by omega, ?_, ?_⟩
      · rintro x (rfl | hx)
        · omega
        · exact this.2.1 x hx
      · rcases this.2.2 with h | h
        · rw [h]
          rcases Nat.le_total init y with h' | h'
          · right; left; omega
          · left; omega
        · right; right; exact h
  have hm := hmax (strings.map Operand.rawLen) 0
  have hfit : ∀ s ∈ strings, s.rawLen ≤ (strings.map Operand.rawLen).foldl max 0 :=
    fun s hs => hm.2.1 _ (List.mem_map_of_mem hs)
  obtain ⟨arr, h1, h2, h3, h4⟩ := C04_fsarray_partial md strings _ atts hfit hesc
  have hany : strings.any (fun s => decide (s.rawLen > (strings.map Operand.rawLen).foldl max 0)) = false := by
    simp only [List.any_eq_false, decide_eq_true_eq]; intro s hs; have := hfit s hs; omega
  refine ⟨arr, ?_, h3, h4, by rw [h2]; exact hfit, ?_, ?_⟩
  · simp only [fsarray, hany] at h1 ⊢
    exact h1
  · intro hne
    rw [h2]
    rcases hm.2.2 with h | h
    · cases strings with
      | nil => exact absurd rfl hne
      | cons s rest =>
        have hs := hfit s (by simp)
        exact ⟨s, by simp, by omega⟩
    · obtain ⟨s, hs, hsl⟩ := List.mem_map.mp h
      exact ⟨s, hs, hsl⟩
  · intro he; rw [h2, he]; rfl

/-- D27 for `fsarray`: `fsarray(['\x1b[31mxy\x1b[39m'])` is 12 columns wide (the raw length of the str) and its row
    shows two RED cells - not the str's twelve characters, unformatted. -/
theorem C04_D27_fsarray :
    ((fsarray 4300 [.str [ESC, '[', '3', '1', 'm', 'x', 'y', ESC, '[', '3', '9', 'm']] none {}).toOption.map
        fun a => (a.numColumns, a.rows.map cells))
      = some (12, [[('x', { fg := some 1 }), ('y', { fg := some 1 })]]) := by decide +kernel

/-- `FSArray(num_rows, num_columns, *args)`: `num_rows` rows, all blank, none wider than the array. -/
theorem C04_init (n w : Nat) (atts : Atts) :
    WF (FSArr.init n w atts) ∧ (FSArr.init n w atts).rows.length = n ∧ (FSArr.init n w atts).numColumns = w ∧
      ∀ r c, grid (FSArr.init n w atts) r c = blankCell := by
  refine ⟨?_, by simp [FSArr.init], rfl, ?_⟩
  · intro f hf
    simp only [FSArr.init, List.mem_replicate] at hf
    rw [hf.2]; simp [blankRow]
  · intro r c
    simp only [grid, FSArr.init, List.getElem?_replicate]
    split
    · rename_i f hf
      split at hf
      · cases hf; exact rowCell_blankRow atts c
      · cases hf
    · rfl

/-- Height, for EVERY value and column subscript, also when the call raises: after `a[r0:r1, c] = value` the array
    has `max height r1` rows. The code extends `rows` with blank rows BEFORE it validates, so a rejected assignment
    can leave the array taller; "changes no cell" (`C04_error_unchanged`) is read on `grid`, where the new rows show
    what the cells below the array showed before: blank. -/
theorem C04_height (md : Nat) (a : FSArr) (r0 r1 : Nat) (c : Index) (value : Block) (hr : r0 ≤ r1) :
    (a.setRegion md (.slice (some (r0 : Int)) (some (r1 : Int))) c value).1.rows.length = max a.rows.length r1 := by
  unfold FSArr.setRegion
  rw [normalizeSlice_nat]
  simp only []
  have hext : ({ a with rows := a.rows ++ List.replicate (r1 - a.rows.length) (blankRow a.blankAtts) } : FSArr)
      = a.extended r1 := rfl
  rw [hext]
  have hrows1 : (a.extended r1).rows = a.rows ++ List.replicate (r1 - a.rows.length) (blankRow a.blankAtts) := rfl
  rw [← hrows1]
  have hE := extended_length a r1
  split
  · exact hE
  · split
    · exact hE
    · split
      · exact hE
      · split
        · exact hE
        · rename_i hcount
          split
          · exact hE
          · rename_i new hnew
            have hlen1 : r1 ≤ (a.extended r1).rows.length := by rw [hE]; omega
            have hsl := listSlice_length (a.extended r1).rows r0 r1 hr hlen1
            have hn := setRows_length _ _ _ _ _ _ _ hnew
            simp only [slicesize, Decidable.not_not] at hcount
            simp only [List.length_append, List.length_take, List.length_drop, hn, hsl, hE]
            omega

theorem FSArray.ns_int (L i : Nat) (h : i < L) : normalizeSlice L (.int (i : Int)) = .ok (i, i + 1) := by
  unfold normalizeSlice; simp only []; grind

/-- Int subscripts: `a[r, c] = value` (`0 ≤ r`, `0 ≤ c < width`) is the assignment to the one-cell region
    `a[r:r+1, c:c+1]` - so `C04_assign_partial`, `C04_reject_partial`, `C04_height`, ... apply with `r1 = r0+1`,
    `c1 = c0+1` (see the two corollaries). `r < sys.maxsize` is `normalize_slice(sys.maxsize, r)`'s range check. -/
theorem C04_int_subscript (md : Nat) (a : FSArr) (r c : Nat) (value : Block) (hr : r < maxsize)
    (hc : c < a.numColumns) :
    a.setRegion md (.int (r : Int)) (.int (c : Int)) value =
      a.setRegion md (.slice (some (r : Int)) (some ((r + 1 : Nat) : Int)))
        (.slice (some (c : Int)) (some ((c + 1 : Nat) : Int))) value := by
  unfold FSArr.setRegion
  rw [FSArray.ns_int _ _ hr, FSArray.ns_int _ _ hc, normalizeSlice_nat, normalizeSlice_nat]

/-- `a[r, c] = value` with a column outside the array raises IndexError and changes no cell. -/
theorem C04_int_col_out_of_range (md : Nat) (a : FSArr) (r c : Nat) (value : Block) (hr : r < maxsize)
    (hc : a.numColumns ≤ c) :
    (a.setRegion md (.int (r : Int)) (.int (c : Int)) value).2 = .error .indexError ∧
      ∀ r' c', grid (a.setRegion md (.int (r : Int)) (.int (c : Int)) value).1 r' c' = grid a r' c' := by
  have h : (a.setRegion md (.int (r : Int)) (.int (c : Int)) value).2 = .error .indexError := by
    unfold FSArr.setRegion
    rw [FSArray.ns_int _ _ hr]
    have : normalizeSlice a.numColumns (.int (c : Int)) = .error .indexError := by
      unfold normalizeSlice; simp only []; grind
    simp only [this]
  exact ⟨h, C04_error_unchanged md a _ _ value _ h⟩

/-- `a[r, c] = value` with one item of at most one character (e.g. `a[r, c] = 'x'`): cell (r, c) shows it (blank for
    an empty item), every other cell is unchanged, the array has `max height (r+1)` rows. -/
theorem C04_assign_int_partial (md : Nat) (a : FSArr) (r c : Nat) (value : Block) (it : Operand)
    (hw : WF a) (hr : r < maxsize) (hc : c < a.numColumns) (hitems : value.items = [it]) (hfit : it.rawLen ≤ 1)
    (hesc : it.EscFree) :
    ∃ a', a.setRegion md (.int (r : Int)) (.int (c : Int)) value = (a', .ok ()) ∧
      (∀ r' c', grid a' r' c' = C04_paint (grid a) r (r + 1) c (c + 1) [it.cells] r' c') ∧
      a'.rows.length = max a.rows.length (r + 1) ∧ WF a' ∧ a'.numColumns = a.numColumns := by
  rw [C04_int_subscript md a r c value hr hc]
  have := C04_assign_partial md a r (r + 1) c (c + 1) value hw (by omega) (by omega)
    (by rw [hitems]; intro x hx; simp at hx; subst hx; omega)
    (by rw [hitems]; simp) (by rw [hitems]; simpa using hfit) (by omega) (by rw [hitems]; simpa using hesc)
  rw [hitems] at this
  simpa using this

/-- `a[r, c] = value` is rejected - raises, no cell changes - when the value has not exactly one item, or its item
    is longer than one character and the existing row continues past column `c` or `c + len` exceeds the width. -/
theorem C04_reject_int_partial (md : Nat) (a : FSArr) (r c : Nat) (value : Block)
    (hr : r < maxsize) (hc : c < a.numColumns)
    (hbad : value.items.length ≠ 1 ∨
      ∃ (it : Operand), value.items[0]? = some it ∧ it.rawLen > 1 ∧ it.EscFree ∧
        (rowLen a r > c + 1 ∨ c + it.rawLen > a.numColumns)) :
    ∃ e, (a.setRegion md (.int (r : Int)) (.int (c : Int)) value).2 = .error e ∧
      ∀ r' c', grid (a.setRegion md (.int (r : Int)) (.int (c : Int)) value).1 r' c' = grid a r' c' := by
  rw [C04_int_subscript md a r c value hr hc]
  apply C04_reject_partial md a r (r + 1) c (c + 1) value (by omega) (by omega)
  rcases hbad with h | ⟨it, h1, h2, h3, h4⟩
  · left; omega
  · right; exact ⟨0, it, h1, by omega, h3, by simpa using h4⟩

/-- Reading rows: `a[r0:r1]` is the list of stored rows `r0 ≤ r < min r1 height`. -/
theorem C04_read_rows (a : FSArr) (r0 r1 : Nat) :
    a.getitem1 (.slice (some (r0 : Int)) (some (r1 : Int))) = .ok (.rows ((a.rows.take r1).drop r0)) := by
  simp only [FSArr.getitem1, normalizeSlice_nat, bind, Except.bind, pure, Except.pure, listSlice]

/-- One region assignment `a[r0:r1, c0:c1] = value` of a history. -/
structure C04_Asg where
  r0 : Nat
  r1 : Nat
  c0 : Nat
  c1 : Nat
  value : Block

/-- Inside the statement's domain for an array of width `W`. -/
def C04_Asg.valid (W : Nat) (s : C04_Asg) : Prop :=
  s.r0 ≤ s.r1 ∧ s.c0 ≤ s.c1 ∧ s.c1 ≤ W ∧ ¬ (s.value.isStr = true ∧ s.c1 - s.c0 > 1)

/-- The block fits the region (decidable form). -/
def C04_Asg.fits (s : C04_Asg) : Bool :=
  decide (s.value.items.length = s.r1 - s.r0) && s.value.items.all fun it => decide (it.rawLen ≤ s.c1 - s.c0)

/-- The block does not fit, the region has cells, and the case is not in D19's footprint: exactly the hypotheses of
    `C04_reject_partial` for the array `a` the assignment meets (a predicate on the INPUT: the block, the region and
    the stored lengths of the rows it meets - not on the outcome). -/
def C04_Asg.rejectable (a : FSArr) (s : C04_Asg) : Prop :=
  s.r0 < s.r1 ∧ s.c0 < s.c1 ∧
    (s.value.items.length ≠ s.r1 - s.r0 ∨
      ∃ (i : Nat) (it : Operand), s.value.items[i]? = some it ∧ it.rawLen > s.c1 - s.c0 ∧ it.EscFree ∧
        (rowLen a (s.r0 + i) > s.c1 ∨ s.c0 + it.rawLen > a.numColumns))

def C04_call (md : Nat) (a : FSArr) (s : C04_Asg) : FSArr × Except PyErr Unit :=
  a.setRegion md (.slice (some (s.r0 : Int)) (some (s.r1 : Int))) (.slice (some (s.c0 : Int)) (some (s.c1 : Int))) s.value

/-- The array after a history (exceptions are caught by the caller; the array lives on). -/
def C04_run (md : Nat) (a : FSArr) (hist : List C04_Asg) : FSArr := hist.foldl (fun a s => (C04_call md a s).1) a

/-- The picture the property prescribes after a history: fitting blocks are painted, the others change nothing. -/
def C04_specGrid (g : Nat → Nat → Cell) : List C04_Asg → Nat → Nat → Cell
  | [] => g
  | s :: rest =>
    C04_specGrid (if s.fits then C04_paint g s.r0 s.r1 s.c0 s.c1 (s.value.items.map Operand.cells) else g) rest

/-- The height the property prescribes: every assignment (accepted or rejected) reaches down to its `r1`. -/
def C04_specHeight (h : Nat) : List C04_Asg → Nat
  | [] => h
  | s :: rest => C04_specHeight (max h s.r1) rest

/-- Histories: after any sequence of region assignments in the statement's domain, each of which EITHER fits its
    region (with ESC-free str rows), OR has a region without cells, OR is `rejectable` (does not fit, outside D19's
    footprint) - all three are predicates on the inputs and the array met, none on the call's outcome - the array
    shows exactly the prescribed picture, has the prescribed height, no row is wider than the array and the width is
    unchanged. (Steps in the footprint of D19 or D27 satisfy none of the three.) -/
theorem C04_history (md : Nat) (a : FSArr) (hist : List C04_Asg) (hw : WF a)
    (hv : ∀ s ∈ hist, s.valid a.numColumns)
    (hs : ∀ (pre post : List C04_Asg) (s : C04_Asg), hist = pre ++ s :: post →
      (s.fits = true ∧ ∀ it ∈ s.value.items, it.EscFree) ∨ (s.r0 = s.r1 ∨ s.c0 = s.c1) ∨
        s.rejectable (C04_run md a pre)) :
    (∀ r c, grid (C04_run md a hist) r c = C04_specGrid (grid a) hist r c) ∧
    (C04_run md a hist).rows.length = C04_specHeight a.rows.length hist ∧
    WF (C04_run md a hist) ∧ (C04_run md a hist).numColumns = a.numColumns := by
  induction hist generalizing a with
  | nil => exact ⟨fun _ _ => rfl, rfl, hw, rfl⟩
  | cons s rest ih =>
    have hvs := hv s (by simp)
    have hinv := C04_width_invariant md a (.slice (some (s.r0 : Int)) (some (s.r1 : Int)))
      (.slice (some (s.c0 : Int)) (some (s.c1 : Int))) s.value hw
    have hheight := C04_height md a s.r0 s.r1 (.slice (some (s.c0 : Int)) (some (s.c1 : Int))) s.value hvs.1
    have hgrid : grid (C04_call md a s).1 =
        (if s.fits then C04_paint (grid a) s.r0 s.r1 s.c0 s.c1 (s.value.items.map Operand.cells)
         else grid a) := by
      funext r c
      have hcase := hs [] rest s rfl
      by_cases hf : s.fits = true
      · rw [if_pos hf]
        rcases hcase with ⟨_, hesc⟩ | hempty | hrej
        · simp only [C04_Asg.fits, Bool.and_eq_true, decide_eq_true_eq, List.all_eq_true] at hf
          obtain ⟨a', h1, h2, _⟩ := C04_assign_partial md a s.r0 s.r1 s.c0 s.c1 s.value hw hvs.1 hvs.2.1
            (fun it hit => by have := hf.2 it hit; have := hvs.2.2.1; have := hvs.2.1; omega)
            hf.1 (fun it hit => hf.2 it hit) hvs.2.2.2 hesc
          simp only [C04_call, h1, h2]
        · -- a region without cells: nothing is painted, nothing changes
          have h0 := (C04_empty_region_noop md a s.r0 s.r1 s.c0 s.c1 s.value hempty).2 r c
          have : ¬ (s.r0 ≤ r ∧ r < s.r1 ∧ s.c0 ≤ c ∧ c < s.c1) := by omega
          simp only [C04_call, h0, C04_paint, if_neg this]
        · -- fits and rejectable exclude each other
          exfalso
          simp only [C04_Asg.fits, Bool.and_eq_true, decide_eq_true_eq, List.all_eq_true] at hf
          obtain ⟨_, _, hbad⟩ := hrej
          rcases hbad with hbad | ⟨i, it, hit, hlen, _, _⟩
          · exact hbad hf.1
          · have hi : i < s.value.items.length := by
              rcases Nat.lt_or_ge i s.value.items.length with h | h
              · exact h
              · rw [List.getElem?_eq_none h] at hit; cases hit
            have hmem : it ∈ s.value.items := by
              rw [List.getElem?_eq_getElem hi] at hit
              cases hit; exact List.getElem_mem hi
            have := hf.2 it hmem
            omega
      · rw [if_neg hf]
        rcases hcase with ⟨h, _⟩ | h | hrej
        · exact absurd h hf
        · exact (C04_empty_region_noop md a s.r0 s.r1 s.c0 s.c1 s.value h).2 r c
        · obtain ⟨h1, h2, hbad⟩ := hrej
          obtain ⟨e, _, hun⟩ := C04_reject_partial md a s.r0 s.r1 s.c0 s.c1 s.value h1 h2 hbad
          exact hun r c
    have := ih (C04_call md a s).1 hinv.1
      (fun t ht => by
        have := hv t (by simp [ht])
        simpa only [C04_call, hinv.2] using this)
      (fun pre post t h => by
        have := hs (s :: pre) post t (by simp [h])
        simpa only [C04_run, List.foldl_cons] using this)
    refine ⟨?_, ?_, this.2.2.1, ?_⟩
    · intro r c
      have h1 := this.1 r c
      simp only [C04_run, List.foldl_cons, C04_specGrid] at h1 ⊢
      rw [h1, hgrid]
    · have h2 := this.2.1
      simp only [C04_run, List.foldl_cons, C04_specHeight] at h2 ⊢
      rw [h2]
      simp only [C04_call, hheight]
    · have h2 := this.2.2.2
      simp only [C04_run, List.foldl_cons] at h2 ⊢
      rw [h2]; exact hinv.2

/-- Non-vacuity of `C04_history`: a fitting assignment followed by a rejectable one (and it is rejected) on a 2x3
    array. -/
example :
    let s1 : C04_Asg := ⟨0, 2, 0, 3, ⟨false, [.str ['a', 'b', 'c'], .str ['d']]⟩⟩
    let s2 : C04_Asg := ⟨0, 1, 0, 1, ⟨false, [.str ['x', 'z']]⟩⟩
    s1.fits = true ∧ s2.fits = false ∧
    (C04_call 4300 (C04_run 4300 (FSArr.init 2 3 {}) [s1]) s2).2 = .error .assertionError ∧
    (C04_run 4300 (FSArr.init 2 3 {}) [s1, s2]).rows.map cells = [[('a', {}), ('b', {}), ('c', {})], [('d', {})]] := by
  decide +kernel
example : (⟨0, 1, 0, 1, ⟨false, [.str ['x', 'z']]⟩⟩ : C04_Asg).rejectable
    (C04_run 4300 (FSArr.init 2 3 {}) [⟨0, 2, 0, 3, ⟨false, [.str ['a', 'b', 'c'], .str ['d']]⟩⟩]) :=
  ⟨by decide, by decide, Or.inr ⟨0, .str ['x', 'z'], rfl, by decide,
    (by show ¬ [ESC, '['] <:+: ['x', 'z']; decide), Or.inl (by decide +kernel)⟩⟩

end Curtsies
