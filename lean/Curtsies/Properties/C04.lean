/-
  C04 - FSArray region assignment composites exactly the assigned block.

  Statement level: `grid a r c` is what cell (r, c) of the array shows - the stored cell `(character, attribute
  dict)`, and `blankCell` (an unformatted space, which is also what `setslice_with_length` pads with) beyond the
  stored end of a row and below the last row. `C04_paint g r0 r1 c0 c1 block` is the picture the property asks
  for: the region shows the block rows padded with blanks, every other cell is `g`.

  What is proved (model = Model/FSArray.lean, tied to the code per run):
    C04_assign           a block that fits (right row count, no row longer than the region): succeeds, the new grid is
                         `C04_paint`, height = max old r1, no row wider than the array         [full strength]
    C04_width_invariant  EVERY a[r, c] = value (any subscripts, any value, any outcome) keeps all rows <= width
    C04_error_unchanged  EVERY a[r, c] = value that raises leaves every cell as it was
    C04_reject_partial   ill-fitting blocks raise and change nothing - except the D19 footprint
    C04_empty_region_noop  a region of no rows or no columns (outside the statement): no error, no cell changes
    C04_history          induction over assignment sequences
    C04_read / C04_read_cells / C04_read_row, C04_fsarray / _reject / _auto
  The full statement `C04_full_statement` is refuted for the model (= the code) by `C04_D19_witness`.

  Hypotheses (the statement's domain): row subscripts `r0:r1` with explicit `0 <= r0 <= r1` (`a[r, c]` with ints is the
  region `r:r+1, c:c+1`; `normalizeSlice_int`-style facts in C06); columns `0 <= c0 <= c1 <= width` (the text is silent
  beyond the width); for the rejection clause the region is NON-EMPTY (`r0 < r1`, `c0 < c1`): a zero-area region has
  no cells a block could be composited into, the statement requires no error there (the code returns early, as
  numpy-style semantics do) - only "no cell changes", which `C04_empty_region_noop` proves; a `str` value only for regions of at most one column (the code rejects it otherwise);
  `str` rows are ESC-free (carried as `fmtstr(s)` = one unformatted run, C17).
-/
import Curtsies.Model.FSArray
import Curtsies.Proofs.FSArray
namespace Curtsies
open FSArray

def C04_paint (g : Nat → Nat → Cell) (r0 r1 c0 c1 : Nat) (block : List (List Cell)) : Nat → Nat → Cell :=
  fun r c => if r0 ≤ r ∧ r < r1 ∧ c0 ≤ c ∧ c < c1 then padCell ((block[r - r0]?).getD []) (c - c0) else g r c

/-- "never makes a row wider than the array": for EVERY subscript and value, whatever the outcome. -/
theorem C04_width_invariant (a : FSArr) (r c : Index) (value : Block) (hw : WF a) :
    WF (a.setRegion r c value).1 ∧ (a.setRegion r c value).1.numColumns = a.numColumns := by
  rcases setRegion_cases a r c value with h | ⟨h, hh⟩ | ⟨rs, cs, new, _, hnew, hst⟩
  · rw [h]; exact ⟨hw, rfl⟩
  · rw [hh]; exact ⟨WF_extended a h hw, rfl⟩
  · rw [hst]
    refine ⟨?_, rfl⟩
    intro f hf
    have hwe := WF_extended a rs.2 hw
    simp only [List.mem_append] at hf
    rcases hf with (hf | hf) | hf
    · exact hwe f (List.mem_of_mem_take hf)
    · exact setRows_len_le _ _ _ _ _ _ hnew f hf
    · exact hwe f (List.mem_of_mem_drop hf)

/-- "raises an error and changes no cell": for EVERY subscript and value, an exception leaves every cell as it
    was (the rows may have been extended with blank rows first; they show blank, as the cells below the array did). -/
theorem C04_error_unchanged (a : FSArr) (r c : Index) (value : Block) (e : PyErr)
    (he : (a.setRegion r c value).2 = .error e) (r' c' : Nat) :
    grid (a.setRegion r c value).1 r' c' = grid a r' c' := by
  rcases setRegion_error a r c value e he with h | ⟨h, hh⟩
  · rw [h]
  · rw [hh, grid_extended]



/-- Region assignment with a block that fits: `a[r0:r1, c0:c1] = block` succeeds; the region shows the block rows
    padded with blanks and every other cell is as it was (`C04_paint`); the array has grown to `max height r1`
    rows; no row is wider than the array; the width is unchanged. -/
theorem C04_assign (a : FSArr) (r0 r1 c0 c1 : Nat) (value : Block)
    (hw : WF a) (hr : r0 ≤ r1) (hc : c0 ≤ c1) (hW : c1 ≤ a.numColumns)
    (hrows : value.items.length = r1 - r0) (hfit : ∀ it ∈ value.items, len it.2 ≤ c1 - c0)
    (hstr : ¬ (value.isStr = true ∧ c1 - c0 > 1)) :
    ∃ a', a.setRegion (.slice (some (r0 : Int)) (some (r1 : Int))) (.slice (some (c0 : Int)) (some (c1 : Int))) value
        = (a', .ok ()) ∧
      (∀ r c, grid a' r c = C04_paint (grid a) r0 r1 c0 c1 (value.items.map fun it => cells it.2) r c) ∧
      a'.rows.length = max a.rows.length r1 ∧ WF a' ∧ a'.numColumns = a.numColumns := by
  have hinv := C04_width_invariant a (.slice (some (r0 : Int)) (some (r1 : Int)))
    (.slice (some (c0 : Int)) (some (c1 : Int))) value hw
  suffices key : ∃ a', a.setRegion (.slice (some (r0 : Int)) (some (r1 : Int)))
        (.slice (some (c0 : Int)) (some (c1 : Int))) value = (a', .ok ()) ∧
      (∀ r c, grid a' r c = C04_paint (grid a) r0 r1 c0 c1 (value.items.map fun it => cells it.2) r c) ∧
      a'.rows.length = max a.rows.length r1 by
    obtain ⟨a', heq, hg, hl⟩ := key
    rw [heq] at hinv
    exact ⟨a', heq, hg, hl, hinv.1, hinv.2⟩
  clear hinv
  unfold FSArr.setRegion
  rw [normalizeSlice_nat, normalizeSlice_nat]
  simp only []
  have hext : ({ a with rows := a.rows ++ List.replicate (r1 - a.rows.length) (blankRow a.blankAtts) } : FSArr)
      = a.extended r1 := rfl
  rw [hext]
  have hrows1 : (a.extended r1).rows = a.rows ++ List.replicate (r1 - a.rows.length) (blankRow a.blankAtts) := rfl
  rw [← hrows1]
  by_cases he : (slicesize (c0, c1) = 0 ∨ slicesize (r0, r1) = 0)
  · rw [if_pos he]
    simp only [slicesize] at he
    refine ⟨_, rfl, ?_, extended_length a r1⟩
    intro r c
    have : ¬ (r0 ≤ r ∧ r < r1 ∧ c0 ≤ c ∧ c < c1) := by omega
    rw [grid_extended, C04_paint, if_neg this]
  · rw [if_neg he]
    simp only [slicesize] at he
    have h2 : ¬ (slicesize (c0, c1) > 1 ∧ value.isStr = true) := by
      intro ⟨h, hs⟩; simp only [slicesize] at h; exact hstr ⟨hs, by omega⟩
    have h3 : ¬ (slicesize (r0, r1) ≠ (value.items.length : Int)) := by simp only [slicesize]; omega
    rw [if_neg h2, if_neg h3]
    have hlen1 : r1 ≤ (a.extended r1).rows.length := by rw [extended_length]; omega
    have hsl := listSlice_length (a.extended r1).rows r0 r1 hr hlen1
    obtain ⟨new, hnew, hnl, hcell⟩ := setRows_ok c0 c1 a.numColumns hc hW
      (listSlice (a.extended r1).rows (r0, r1)) (value.items.map (·.2))
      (fun f hf => WF_extended a r1 hw f (by
        simp only [listSlice] at hf
        exact List.mem_of_mem_take (List.mem_of_mem_drop hf)))
      (fun v hv => by
        obtain ⟨it, hit, rfl⟩ := List.mem_map.mp hv
        exact hfit it hit)
      (by rw [hsl, List.length_map, hrows])
    simp only [hnew]
    refine ⟨_, rfl, ?_, ?_⟩
    · intro r c
      have hnl' : new.length = r1 - r0 := by rw [hnl, hsl]
      simp only [grid]
      rw [replaced_get _ _ r0 r1 hr hlen1 hnl' r]
      by_cases hin : r0 ≤ r ∧ r < r1
      · rw [if_pos hin]
        have hlt : r < (a.extended r1).rows.length := by omega
        have hi : r - r0 < value.items.length := by omega
        obtain ⟨rr, hrr, hcr⟩ := hcell (r - r0) ((a.extended r1).rows[r]) (value.items[r - r0]).2
          (by rw [listSlice_get _ _ _ _ (by omega)]
              have : r0 + (r - r0) = r := by omega
              rw [this, List.getElem?_eq_getElem hlt])
          (by rw [List.getElem?_map, List.getElem?_eq_getElem hi]; rfl)
        rw [hrr]
        simp only [rowCell, hcr]
        rw [padCell_setCells _ _ _ _ hc (by rw [cells_length]; exact hfit _ (List.getElem_mem hi))]
        have hg : grid a r c = padCell (cells (a.extended r1).rows[r]) c := by
          rw [← grid_extended a r1 r c]
          simp only [grid, List.getElem?_eq_getElem hlt, rowCell]
        simp only [C04_paint]
        by_cases hcc : c0 ≤ c ∧ c < c1
        · have : r0 ≤ r ∧ r < r1 ∧ c0 ≤ c ∧ c < c1 := ⟨hin.1, hin.2, hcc.1, hcc.2⟩
          rw [if_pos hcc, if_pos this, List.getElem?_map, List.getElem?_eq_getElem hi]
          rfl
        · have : ¬ (r0 ≤ r ∧ r < r1 ∧ c0 ≤ c ∧ c < c1) := by omega
          rw [if_neg hcc, if_neg this, hg]
      · rw [if_neg hin]
        have : ¬ (r0 ≤ r ∧ r < r1 ∧ c0 ≤ c ∧ c < c1) := by omega
        simp only [C04_paint, if_neg this]
        rw [← grid_extended a r1 r c]
        simp only [grid]
    · simp only [List.length_append, List.length_take, List.length_drop, hnl, hsl, extended_length]
      omega


/-- A block that does not fit its region (`hr`, `hc`: the region has cells - the statement's domain) is rejected -
    the call raises and no cell changes - when it has the wrong number of rows, or some row `i` is longer than
    the region and either the existing row `r0+i` continues past the region (`AssertionError`: it would reach
    into existing content) or `c0 + len` exceeds the array's width (`ValueError`). Missing from the full statement
    (`C04_full_statement`): over-long rows meeting an existing row that ends at or before `c1` while the result
    fits the width (finding D19, `C04_D19_witness`). -/
theorem C04_reject_partial (a : FSArr) (r0 r1 c0 c1 : Nat) (value : Block)
    (hr : r0 < r1) (hc : c0 < c1)
    (hbad : value.items.length ≠ r1 - r0 ∨
      ∃ (i : Nat) (it : Bool × FmtStr), value.items[i]? = some it ∧ len it.2 > c1 - c0 ∧
        (rowLen a (r0 + i) > c1 ∨ c0 + len it.2 > a.numColumns)) :
    ∃ e, (a.setRegion (.slice (some (r0 : Int)) (some (r1 : Int))) (.slice (some (c0 : Int)) (some (c1 : Int))) value).2
        = .error e ∧
      ∀ r c, grid (a.setRegion (.slice (some (r0 : Int)) (some (r1 : Int)))
        (.slice (some (c0 : Int)) (some (c1 : Int))) value).1 r c = grid a r c := by
  suffices key : ∃ e, (a.setRegion (.slice (some (r0 : Int)) (some (r1 : Int)))
      (.slice (some (c0 : Int)) (some (c1 : Int))) value).2 = .error e by
    obtain ⟨e, he⟩ := key
    exact ⟨e, he, C04_error_unchanged a _ _ value e he⟩
  unfold FSArr.setRegion
  rw [normalizeSlice_nat, normalizeSlice_nat]
  simp only []
  have he : ¬ (slicesize (c0, c1) = 0 ∨ slicesize (r0, r1) = 0) := by simp only [slicesize]; omega
  rw [if_neg he]
  split
  · exact ⟨_, rfl⟩
  · split
    · exact ⟨_, rfl⟩
    · rename_i hcount
      simp only [slicesize, Decidable.not_not] at hcount
      rcases hbad with hbad | ⟨i, it, hit, hlen, hwhy⟩
      · omega
      · have hi : i < value.items.length := by
          rcases Nat.lt_or_ge i value.items.length with h | h
          · exact h
          · rw [List.getElem?_eq_none h] at hit; cases hit
        have hrows1 : (a.extended r1).rows = a.rows ++ List.replicate (r1 - a.rows.length) (blankRow a.blankAtts) := rfl
        rw [← hrows1]
        have hlen1 : r1 ≤ (a.extended r1).rows.length := by rw [extended_length]; omega
        have hlt : r0 + i < (a.extended r1).rows.length := by omega
        have hf : (listSlice (a.extended r1).rows (r0, r1))[i]? = some ((a.extended r1).rows[r0 + i]) := by
          rw [listSlice_get _ _ _ _ (by omega), List.getElem?_eq_getElem hlt]
        have hfl := extended_get a r1 (r0 + i) _ (List.getElem?_eq_getElem hlt)
        obtain ⟨e1, he1⟩ := setslice_reject ((a.extended r1).rows[r0 + i]) it.2 c0 c1 a.numColumns
          (Nat.le_of_lt hc) hlen (by rw [hfl]; exact hwhy)
        obtain ⟨e', he'⟩ := setRows_error c0 c1 a.numColumns (listSlice (a.extended r1).rows (r0, r1))
          (value.items.map (·.2)) i _ it.2 e1 hf (by rw [List.getElem?_map, hit]; rfl) he1
        simp only [he']
        exact ⟨_, rfl⟩

/-- The property's assignment clauses as one statement over ALL region assignments with `0 ≤ r0 ≤ r1`,
    `0 ≤ c0 ≤ c1 ≤ width`: a fitting block is composited exactly; any other block, on a region that has cells, raises
    and changes nothing. It is FALSE for the code as it is (`C04_D19_witness`); what holds is `C04_assign` (the first
    half, in full), `C04_width_invariant` and `C04_error_unchanged` (for every call), and `C04_reject_partial`. -/
def C04_full_statement : Prop :=
  ∀ (a : FSArr) (r0 r1 c0 c1 : Nat) (value : Block), WF a → r0 ≤ r1 → c0 ≤ c1 → c1 ≤ a.numColumns →
    ¬ (value.isStr = true ∧ c1 - c0 > 1) →
    let res := a.setRegion (.slice (some (r0 : Int)) (some (r1 : Int))) (.slice (some (c0 : Int)) (some (c1 : Int))) value
    let fits := value.items.length = r1 - r0 ∧ ∀ it ∈ value.items, len it.2 ≤ c1 - c0
    (fits → res.2 = .ok () ∧
      (∀ r c, grid res.1 r c = C04_paint (grid a) r0 r1 c0 c1 (value.items.map fun it => cells it.2) r c) ∧
      res.1.rows.length = max a.rows.length r1 ∧ WF res.1) ∧
    (¬ fits → r0 < r1 → c0 < c1 → (∃ e, res.2 = .error e) ∧ ∀ r c, grid res.1 r c = grid a r c)

/-- D19 at a concrete point: blank 1x3 array, `a[0:1, 0:1] = ['xz']` succeeds and cell (0,1), outside the region,
    changes from blank to 'z'. -/
theorem C04_D19_cell :
    ((FSArr.init 1 3 {}).setRegion (.slice (some 0) (some 1)) (.slice (some 0) (some 1))
        ⟨false, [(true, [⟨['x', 'z'], {}⟩])]⟩).2 = .ok () ∧
    grid ((FSArr.init 1 3 {}).setRegion (.slice (some 0) (some 1)) (.slice (some 0) (some 1))
        ⟨false, [(true, [⟨['x', 'z'], {}⟩])]⟩).1 0 1 = ('z', {}) ∧
    grid (FSArr.init 1 3 {}) 0 1 = blankCell := by decide +kernel

/-- The model violates the full statement at that point. -/
theorem C04_D19_witness : ¬ C04_full_statement := by
  intro h
  have hwf : WF (FSArr.init 1 3 {}) := by
    intro f hf
    simp only [FSArr.init, List.mem_replicate] at hf
    rw [hf.2]; decide
  have := (h (FSArr.init 1 3 {}) 0 1 0 1 ⟨false, [(true, [⟨['x', 'z'], {}⟩])]⟩ hwf (by decide) (by decide)
    (by decide) (by decide)).2 (by decide) (by decide) (by decide)
  obtain ⟨⟨e, he⟩, _⟩ := this
  have hok := C04_D19_cell.1
  simp only [Int.natCast_zero, Int.natCast_one] at he
  rw [hok] at he
  cases he

/-- Regions without cells (`r0 = r1` or `c0 = c1`) are outside the statement: the code returns before looking at
    the value (after extending the rows), whatever the block is. No error is required there, only that no cell
    changes - which holds for every value. -/
theorem C04_empty_region_noop (a : FSArr) (r0 r1 c0 c1 : Nat) (value : Block) (h : r0 = r1 ∨ c0 = c1) :
    (a.setRegion (.slice (some (r0 : Int)) (some (r1 : Int))) (.slice (some (c0 : Int)) (some (c1 : Int))) value).2
        = .ok () ∧
      ∀ r c, grid (a.setRegion (.slice (some (r0 : Int)) (some (r1 : Int)))
        (.slice (some (c0 : Int)) (some (c1 : Int))) value).1 r c = grid a r c := by
  unfold FSArr.setRegion
  rw [normalizeSlice_nat, normalizeSlice_nat]
  simp only []
  have he : (slicesize (c0, c1) = 0 ∨ slicesize (r0, r1) = 0) := by simp only [slicesize]; omega
  rw [if_pos he]
  exact ⟨rfl, fun r c => grid_extended a r1 r c⟩

/-- Non-vacuity of `C04_assign` / `C04_reject_partial`: a 2x3 array whose first row is 'abc', then
    `a[0:2, 1:2] = [bold 'X', '']`: both rows fit; and `a[0:1, 0:1] = ['xz']` on that array is rejected. -/
example :
    let a : FSArr := ⟨[[⟨['a', 'b', 'c'], {}⟩], blankRow {}], 3, {}⟩
    (a.setRegion (.slice (some 0) (some 2)) (.slice (some 1) (some 2))
        ⟨false, [(false, [⟨['X'], { bold := some true }⟩]), (true, [⟨[], {}⟩])]⟩).2 = .ok () ∧
    (a.setRegion (.slice (some 0) (some 2)) (.slice (some 1) (some 2))
        ⟨false, [(false, [⟨['X'], { bold := some true }⟩]), (true, [⟨[], {}⟩])]⟩).1.rows.map cells
      = [[('a', {}), ('X', { bold := some true }), ('c', {})], [(' ', {})]] ∧
    (a.setRegion (.slice (some 0) (some 1)) (.slice (some 0) (some 1))
        ⟨false, [(true, [⟨['x', 'z'], {}⟩])]⟩).2 = .error .assertionError := by decide +kernel

/-- Reading a region back: `a[r0:r1, c0:c1]` returns one FmtStr per stored row `r0 ≤ r < min r1 height`, whose cells
    are exactly the stored cells of that row in columns `c0 ≤ c < c1` (rows shorter than `c1` are not padded:
    the stored prefix). -/
theorem C04_read (a : FSArr) (r0 r1 c0 c1 : Nat) :
    ∃ l, a.getitem2 (.slice (some (r0 : Int)) (some (r1 : Int))) (.slice (some (c0 : Int)) (some (c1 : Int))) = .ok l ∧
      l.map cells = ((a.rows.take r1).drop r0).map fun f => ((cells f).take c1).drop c0 := by
  refine ⟨(listSlice a.rows (r0, r1)).map (fun fs => getslice fs c0 c1),
    by simp only [FSArr.getitem2, normalizeSlice_nat, bind, Except.bind, pure, Except.pure], ?_⟩
  have : (cells ∘ fun fs => getslice fs c0 c1) = fun f => ((cells f).take c1).drop c0 := by
    funext f; simp [getslice_cells]
  simp only [listSlice, List.map_map, this]

/-- The same on cells: cell `j` of returned row `i` is what the grid shows at `(r0+i, c0+j)`. -/
theorem C04_read_cells (a : FSArr) (r0 r1 c0 c1 : Nat) :
    ∃ l, a.getitem2 (.slice (some (r0 : Int)) (some (r1 : Int))) (.slice (some (c0 : Int)) (some (c1 : Int))) = .ok l ∧
      l.length = min r1 a.rows.length - r0 ∧
      ∀ i j, i < l.length → j < c1 - c0 →
        padCell ((l.map cells)[i]?.getD []) j = grid a (r0 + i) (c0 + j) := by
  obtain ⟨l, h1, h2⟩ := C04_read a r0 r1 c0 c1
  have hlen : l.length = min r1 a.rows.length - r0 := by
    have := congrArg List.length h2
    simpa using this
  refine ⟨l, h1, hlen, ?_⟩
  intro i j hi hj
  rw [h2]
  have hlt : r0 + i < a.rows.length := by omega
  simp only [List.getElem?_map, List.getElem?_drop, List.getElem?_take, grid, padCell, rowCell]
  have : r0 + i < r1 := by omega
  rw [if_pos this, List.getElem?_eq_getElem hlt]
  simp only [Option.map_some, Option.getD_some]
  rw [List.getElem?_drop, List.getElem?_take, if_pos (by omega)]

/-- Reading a row: `a[i]` for `0 ≤ i < height` is the stored row; otherwise IndexError. -/
theorem C04_read_row (a : FSArr) (i : Nat) :
    a.getitem1 (.int (i : Int)) =
      match a.rows[i]? with
      | some f => .ok (.row f)
      | none => .error .indexError := by
  unfold FSArr.getitem1
  simp only []
  have h0 : ¬ ((i : Int) < 0) := by omega
  rw [if_neg h0]
  by_cases h : i < a.rows.length
  · have : ¬ ((i : Int) < 0 ∨ (i : Int) ≥ (a.rows.length : Int)) := by omega
    rw [if_neg this]
    simp [List.getElem?_eq_getElem h]
  · have : ((i : Int) < 0 ∨ (i : Int) ≥ (a.rows.length : Int)) := by omega
    rw [if_pos this, List.getElem?_eq_none (by omega)]

/-- `fsarray(strings, width)` when every string fits: an array of `len(strings)` rows and `width` columns whose
    rows show exactly the strings (`str` items come converted by `fmtstr(s, *args)`). -/
theorem C04_fsarray (strings : List FmtStr) (w : Nat) (atts : Atts) (hfit : ∀ s ∈ strings, len s ≤ w) :
    ∃ arr, fsarray strings (some w) atts = .ok arr ∧ arr.numColumns = w ∧
      arr.rows.map cells = strings.map cells ∧ WF arr := by
  obtain ⟨rows, h1, h2⟩ := fsarrayRows_ok w atts strings strings.length rfl hfit
  have hany : strings.any (fun s => decide (len s > w)) = false := by
    simp only [List.any_eq_false, decide_eq_true_eq]; intro s hs; have := hfit s hs; omega
  refine ⟨{ FSArr.init strings.length w atts with rows := rows }, ?_, rfl, h2, ?_⟩
  · simp [fsarray, hany, FSArr.init, h1]
  · intro f hf
    simp only [FSArr.init]
    have hm : cells f ∈ rows.map cells := List.mem_map_of_mem hf
    rw [h2] at hm
    obtain ⟨s, hs, hsc⟩ := List.mem_map.mp hm
    have : len f = len s := by rw [← cells_length, ← cells_length, hsc]
    rw [this]; exact hfit s hs

/-- `fsarray(strings, width)` with a string longer than `width` raises ValueError. -/
theorem C04_fsarray_reject (strings : List FmtStr) (w : Nat) (atts : Atts) (s : FmtStr) (hs : s ∈ strings)
    (hlong : len s > w) : fsarray strings (some w) atts = .error .valueError := by
  have hany : strings.any (fun s => decide (len s > w)) = true := by
    simp only [List.any_eq_true, decide_eq_true_eq]; exact ⟨s, hs, hlong⟩
  simp [fsarray, hany]

/-- `fsarray(strings)` without a width: the width is the longest string. -/
theorem C04_fsarray_auto (strings : List FmtStr) (atts : Atts) :
    ∃ arr, fsarray strings none atts = .ok arr ∧ arr.rows.map cells = strings.map cells ∧ WF arr ∧
      ∀ s ∈ strings, len s ≤ arr.numColumns := by
  have hmax : ∀ (l : List Nat) (init : Nat), init ≤ l.foldl max init ∧ ∀ x ∈ l, x ≤ l.foldl max init := by
    intro l
    induction l with
    | nil => intro init; simp
    | cons y ys ih =>
      intro init
      have := ih (max init y)
      simp only [List.foldl_cons, List.mem_cons]
      refine ⟨by omega, ?_⟩
      rintro x (rfl | hx)
      · omega
      · exact this.2 x hx
  have hfit : ∀ s ∈ strings, len s ≤ (strings.map len).foldl max 0 :=
    fun s hs => (hmax (strings.map len) 0).2 _ (List.mem_map_of_mem hs)
  obtain ⟨arr, h1, h2, h3, h4⟩ := C04_fsarray strings _ atts hfit
  refine ⟨arr, ?_, h3, h4, by rw [h2]; exact hfit⟩
  have hany : strings.any (fun s => decide (len s > (strings.map len).foldl max 0)) = false := by
    simp only [List.any_eq_false, decide_eq_true_eq]; intro s hs; have := hfit s hs; omega
  simp only [fsarray, hany] at h1 ⊢
  exact h1

/-- One region assignment `a[r0:r1, c0:c1] = value` of a history. -/
structure C04_Asg where
  r0 : Nat
  r1 : Nat
  c0 : Nat
  c1 : Nat
  value : Block

/-- Inside the statement's domain for an array of width `W`. -/
def C04_Asg.valid (W : Nat) (s : C04_Asg) : Prop :=
  s.r0 ≤ s.r1 ∧ s.c0 ≤ s.c1 ∧ s.c1 ≤ W ∧ ¬ (s.value.isStr = true ∧ s.c1 - s.c0 > 1)

/-- The block fits the region (decidable form). -/
def C04_Asg.fits (s : C04_Asg) : Bool :=
  decide (s.value.items.length = s.r1 - s.r0) && s.value.items.all fun it => decide (len it.2 ≤ s.c1 - s.c0)

def C04_call (a : FSArr) (s : C04_Asg) : FSArr × Except PyErr Unit :=
  a.setRegion (.slice (some (s.r0 : Int)) (some (s.r1 : Int))) (.slice (some (s.c0 : Int)) (some (s.c1 : Int))) s.value

/-- The array after a history (exceptions are caught by the caller; the array lives on). -/
def C04_run (a : FSArr) (hist : List C04_Asg) : FSArr := hist.foldl (fun a s => (C04_call a s).1) a

/-- The picture the property prescribes after a history: fitting blocks are painted, the others change nothing. -/
def C04_specGrid (g : Nat → Nat → Cell) : List C04_Asg → Nat → Nat → Cell
  | [] => g
  | s :: rest =>
    C04_specGrid (if s.fits then C04_paint g s.r0 s.r1 s.c0 s.c1 (s.value.items.map fun it => cells it.2) else g) rest

/-- Histories: after any sequence of region assignments, each of which fits its region, has a region without cells,
    or raises, the array
    shows exactly the prescribed picture, no row is wider than the array and the width is unchanged.
    (That an ill-fitting block does raise is `C04_reject_partial`; where it does not - D19 - the hypothesis
    fails for that step.) -/
theorem C04_history (a : FSArr) (hist : List C04_Asg) (hw : WF a)
    (hv : ∀ s ∈ hist, s.valid a.numColumns)
    (hs : ∀ (pre post : List C04_Asg) (s : C04_Asg), hist = pre ++ s :: post →
      s.fits = true ∨ (s.r0 = s.r1 ∨ s.c0 = s.c1) ∨ ∃ e, (C04_call (C04_run a pre) s).2 = .error e) :
    (∀ r c, grid (C04_run a hist) r c = C04_specGrid (grid a) hist r c) ∧
    WF (C04_run a hist) ∧ (C04_run a hist).numColumns = a.numColumns := by
  induction hist generalizing a with
  | nil => exact ⟨fun _ _ => rfl, hw, rfl⟩
  | cons s rest ih =>
    have hvs := hv s (by simp)
    have hinv := C04_width_invariant a (.slice (some (s.r0 : Int)) (some (s.r1 : Int)))
      (.slice (some (s.c0 : Int)) (some (s.c1 : Int))) s.value hw
    have hgrid : grid (C04_call a s).1 =
        (if s.fits then C04_paint (grid a) s.r0 s.r1 s.c0 s.c1 (s.value.items.map fun it => cells it.2)
         else grid a) := by
      funext r c
      by_cases hf : s.fits = true
      · rw [if_pos hf]
        simp only [C04_Asg.fits, Bool.and_eq_true, decide_eq_true_eq, List.all_eq_true] at hf
        obtain ⟨a', h1, h2, _⟩ := C04_assign a s.r0 s.r1 s.c0 s.c1 s.value hw hvs.1 hvs.2.1 hvs.2.2.1 hf.1
          (fun it hit => hf.2 it hit) hvs.2.2.2
        simp only [C04_call, h1, h2]
      · rw [if_neg hf]
        rcases hs [] rest s rfl with h | h | ⟨e, he⟩
        · exact absurd h hf
        · exact (C04_empty_region_noop a s.r0 s.r1 s.c0 s.c1 s.value h).2 r c
        · exact C04_error_unchanged a _ _ s.value e he r c
    have := ih (C04_call a s).1 hinv.1
      (fun t ht => by
        have := hv t (by simp [ht])
        simpa only [C04_call, hinv.2] using this)
      (fun pre post t h => by
        have := hs (s :: pre) post t (by simp [h])
        simpa only [C04_run, List.foldl_cons] using this)
    refine ⟨?_, this.2.1, ?_⟩
    · intro r c
      have h1 := this.1 r c
      simp only [C04_run, List.foldl_cons, C04_specGrid] at h1 ⊢
      rw [h1, hgrid]
    · have h2 := this.2.2
      simp only [C04_run, List.foldl_cons] at h2 ⊢
      rw [h2]; exact hinv.2

/-- Non-vacuity of `C04_history`: a fitting assignment followed by a rejected one on a 2x3 array. -/
example :
    let s1 : C04_Asg := ⟨0, 2, 0, 3, ⟨false, [(true, [⟨['a', 'b', 'c'], {}⟩]), (true, [⟨['d'], {}⟩])]⟩⟩
    let s2 : C04_Asg := ⟨0, 1, 0, 1, ⟨false, [(true, [⟨['x', 'z'], {}⟩])]⟩⟩
    s1.fits = true ∧ s2.fits = false ∧
    (C04_call (C04_run (FSArr.init 2 3 {}) [s1]) s2).2 = .error .assertionError ∧
    (C04_run (FSArr.init 2 3 {}) [s1, s2]).rows.map cells = [[('a', {}), ('b', {}), ('c', {})], [('d', {})]] := by
  decide +kernel

end Curtsies
