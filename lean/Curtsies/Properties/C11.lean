/-
  C11 - width_aware_splitlines wraps to the column limit without losing anything.

  For every Unicode environment `u`, every FmtStr `f` whose characters have width 0, 1 or 2 (`u.sane`, what the
  library's guard checks) and every `columns ≥ 2`:

  * `C11_wrap`: the model terminates within its fuel, raises nothing, and its lines are related to the cells of
    `f` by `Lines` (below): consecutive non-empty segments of `f`, each exactly `columns` wide except possibly the
    last, where a segment one column short that is followed by a double-width character gets one padding space
    with that character's formatting. Placement of zero-width characters at a line boundary is left open by the
    relation (the code lets a combining character stay on a full line only when it is in the same run).
  * `C11_line_bounds`, `C11_line_width`: no line is empty or wider than `columns`; every line but the last is
    exactly `columns` wide (also as `fmtWidth` of the model's lines).
  * `C11_nothing_lost`: the cells of `f` are a subsequence of the concatenated lines.
  * `C11_guard_columns`, `C11_guard_width`: `columns < 2` or a character of negative width raise ValueError.
  * `C11_empty`: `FmtStr()` without runs gives no lines.
-/
import Curtsies.Properties.C10
namespace Curtsies

/-! ### specification side -/

/-- cells of a text all carrying the same attributes -/
def mkCells (s : Text) (a : Atts) : List Cell := s.map fun ch => (ch, a)

/-- `Lines u columns l out`: `out` is `l` cut into consecutive lines for a terminal `columns` wide.
    * `line`: a non-empty segment no wider than `columns` - exactly `columns` wide unless it is the last;
    * `padded`: a segment one column short of the limit followed by a double-width character `c`: the line is
      the segment plus ONE space formatted like `c`, and `c` starts the next line.
    Nothing else can be added, dropped, reordered or restyled: the segments concatenate to `l`. -/
inductive Lines (u : UEnv) (columns : Int) : List Cell → List (List Cell) → Prop
  | nil : Lines u columns [] []
  | line {seg rest : List Cell} {out : List (List Cell)} :
      seg ≠ [] → cellsWidth u seg ≤ columns → (rest ≠ [] → cellsWidth u seg = columns) →
      Lines u columns rest out → Lines u columns (seg ++ rest) (seg :: out)
  | padded {seg rest : List Cell} {c : Char} {a : Atts} {out : List (List Cell)} :
      cellsWidth u seg = columns - 1 → u.wcwidth c = 2 →
      Lines u columns ((c, a) :: rest) out →
      Lines u columns (seg ++ (c, a) :: rest) ((seg ++ [(' ', a)]) :: out)

/-! ### proofs -/

private theorem wcswidth_single {u : UEnv} {c : Char} (h : u.wcwidth c = 0 ∨ u.wcwidth c = 1 ∨ u.wcwidth c = 2) :
    wcswidth u [c] = u.wcwidth c := by
  simp only [wcswidth, wcswidthLoop]
  rw [if_neg (by omega)]; omega

private theorem requestLoop_spec (u : UEnv) (s : Text) (atts : Atts) (m : Int) (start : Nat)
    (rest pre : List Char) (i : Nat) (width : Int) (hi : i = pre.length)
    (hs : s = pre ++ rest) (hsane : u.sane s) (hstart : start ≤ pre.length) (hne : rest ≠ [])
    (hwid : width = colWidth u (pre.drop start)) (hwm : width ≤ m) :
    ∃ w ch taken remaining,
      requestLoop u s atts m start s.length rest i width
        = .ok (w, ch, i + taken.length, width + colWidth u taken) ∧
      rest = taken ++ remaining ∧ ch.atts = atts ∧
      ((ch.s = pre.drop start ++ taken ∧ w = width + colWidth u taken ∧ w ≤ m ∧
          (remaining ≠ [] → w = m) ∧ (taken = [] → m ≤ width))
       ∨ (ch.s = pre.drop start ++ taken ++ [' '] ∧ w = width + colWidth u taken + 1 ∧ w = m ∧
          ∃ c rem', remaining = c :: rem' ∧ u.wcwidth c = 2)) := by
  induction rest generalizing pre i width with
  | nil => exact absurd rfl hne
  | cons c rest' ih =>
    subst hi
    have hc : u.wcwidth c = 0 ∨ u.wcwidth c = 1 ∨ u.wcwidth c = 2 := hsane c (by rw [hs]; simp)
    have htake : (s.take pre.length).drop start = pre.drop start := by
      rw [hs, List.take_left']; rfl
    unfold requestLoop
    simp only [wcswidth_single hc]
    by_cases h1 : width + u.wcwidth c > m
    · rw [if_pos h1]
      by_cases h2 : width < m
      · rw [if_pos h2, if_neg (by omega), if_neg (by omega)]
        refine ⟨width + 1, ⟨pre.drop start ++ [' '], atts⟩, [], c :: rest', ?_, rfl, rfl, Or.inr ?_⟩
        · simp [htake]
        · refine ⟨by simp, by simp, by omega, c, rest', rfl, by omega⟩
      · rw [if_neg h2]
        refine ⟨width, ⟨pre.drop start, atts⟩, [], c :: rest', ?_, rfl, rfl, Or.inl ?_⟩
        · simp [htake]
        · refine ⟨by simp, by simp, by omega, fun _ => by omega, fun _ => by omega⟩
    · rw [if_neg h1]
      have hlen : s.length = pre.length + 1 + rest'.length := by rw [hs]; simp; omega
      have hpre' : (pre ++ [c]).drop start = pre.drop start ++ [c] :=
        List.drop_append_of_le_length hstart
      by_cases h3 : pre.length + 1 = s.length
      · rw [if_pos h3]
        have hr : rest' = [] := List.eq_nil_of_length_eq_zero (by omega)
        subst hr
        have htake2 : (s.take (pre.length + 1)).drop start = pre.drop start ++ [c] := by
          rw [List.take_of_length_le (by omega), hs, hpre']
        refine ⟨width + u.wcwidth c, ⟨pre.drop start ++ [c], atts⟩, [c], [], ?_, rfl, rfl, Or.inl ?_⟩
        · simp [htake2]
        · refine ⟨rfl, by simp, by omega, fun h => absurd rfl h, fun h => by simp at h⟩
      · rw [if_neg h3]
        have hne' : rest' ≠ [] := by
          intro h; subst h; simp at hlen; omega
        have := ih (pre ++ [c]) (pre.length + 1) (width + u.wcwidth c) (by simp) (by rw [hs]; simp) (by simp; omega) hne'
          (by rw [hpre', colWidth_append, hwid]; simp) (by omega)
        obtain ⟨w, ch, taken, remaining, hreq, hrest, hatts, hcase⟩ := this
        refine ⟨w, ch, c :: taken, remaining, ?_, by rw [hrest]; rfl, hatts, ?_⟩
        · rw [hreq]
          simp only [List.length_cons, colWidth_cons]
          rw [show pre.length + (taken.length + 1) = pre.length + 1 + taken.length by omega,
            show width + (u.wcwidth c + colWidth u taken) = width + u.wcwidth c + colWidth u taken by omega]
        · rw [hpre'] at hcase
          rcases hcase with ⟨e1, e2, e3, e4, _⟩ | ⟨e1, e2, e3, e4⟩
          · refine Or.inl ⟨by rw [e1]; simp, by rw [e2]; simp; omega, e3, e4, fun h => by simp at h⟩
          · refine Or.inr ⟨by rw [e1]; simp, by rw [e2]; simp; omega, e3, e4⟩


private theorem drop_add_of_eq_append {α} {s t r : List α} {o : Nat} (h : s.drop o = t ++ r) :
    s.drop (o + t.length) = r := by
  rw [← List.drop_drop, h, List.drop_left']; rfl

private theorem request_spec (u : UEnv) (sp : Splitter) (m : Int) (hm : 1 ≤ m) (hsane : u.sane sp.chunk.s)
    (ho : sp.internalOffset ≤ sp.chunk.s.length) (hlt : sp.internalOffset ≠ sp.chunk.s.length) :
    ∃ w ch sp' taken remaining,
      sp.request u m = .ok (some (w, ch), sp') ∧ sp'.chunk = sp.chunk ∧
      sp'.internalOffset = sp.internalOffset + taken.length ∧
      sp.chunk.s.drop sp.internalOffset = taken ++ remaining ∧ ch.atts = sp.chunk.atts ∧
      ((ch.s = taken ∧ w = colWidth u taken ∧ w ≤ m ∧ (remaining ≠ [] → w = m) ∧ taken ≠ [])
       ∨ (ch.s = taken ++ [' '] ∧ w = colWidth u taken + 1 ∧ w = m ∧
          ∃ c rem', remaining = c :: rem' ∧ u.wcwidth c = 2)) := by
  have hpl : (sp.chunk.s.take sp.internalOffset).length = sp.internalOffset := by
    simp [List.length_take]; omega
  have hne : sp.chunk.s.drop sp.internalOffset ≠ [] := by
    intro h
    have := congrArg List.length h
    simp at this; omega
  have := requestLoop_spec u sp.chunk.s sp.chunk.atts m sp.internalOffset
    (sp.chunk.s.drop sp.internalOffset) (sp.chunk.s.take sp.internalOffset) sp.internalOffset 0 hpl.symm
    (List.take_append_drop _ _).symm hsane (by omega) hne
    (by rw [List.drop_eq_nil_of_le (by omega)]; rfl) (by omega)
  obtain ⟨w, ch, taken, remaining, hreq, hrest, hatts, hcase⟩ := this
  have hd : (sp.chunk.s.take sp.internalOffset).drop sp.internalOffset = [] :=
    List.drop_eq_nil_of_le (by omega)
  rw [hd] at hcase
  simp only [List.nil_append, Int.zero_add] at hcase hreq
  refine ⟨w, ch, (⟨sp.chunk, sp.internalOffset + taken.length, sp.internalWidth + colWidth u taken⟩ : Splitter),
    taken, remaining, ?_, rfl, rfl, hrest, hatts, ?_⟩
  · unfold Splitter.request
    rw [if_neg (by omega), if_neg hlt, hreq]
  · rcases hcase with ⟨e1, e2, e3, e4, e5⟩ | h
    · exact Or.inl ⟨e1, e2, e3, e4, fun h => by have := e5 h; omega⟩
    · exact Or.inr h

@[simp] private theorem cellsWidth_mkCells (u : UEnv) (s : Text) (a : Atts) :
    cellsWidth u (mkCells s a) = colWidth u s := by
  simp [cellsWidth, mkCells, Function.comp_def]
private theorem mkCells_append (s t : Text) (a : Atts) : mkCells (s ++ t) a = mkCells s a ++ mkCells t a := by
  simp [mkCells]
private theorem cells_snoc (cur : List Chunk) (ch : Chunk) : cells (cur ++ [ch]) = cells cur ++ mkCells ch.s ch.atts := by
  simp [mkCells, Chunk.cells]

private theorem wasplitInner_spec (u : UEnv) (columns : Int) (hcol : 2 ≤ columns) (fuel : Nat) (sp : Splitter)
    (cur : List Chunk) (wol : Int) (hsane : u.sane sp.chunk.s)
    (ho : sp.internalOffset ≤ sp.chunk.s.length) (hwol : wol = cellsWidth u (cells cur))
    (hw0 : 0 ≤ wol) (hw1 : wol < columns) (hcur : ∀ c ∈ cur, c.s ≠ [])
    (hfuel : 2 * (sp.chunk.s.length - sp.internalOffset) + 1 ≤ fuel ∧
      (0 < wol → 2 * (sp.chunk.s.length - sp.internalOffset) + 2 ≤ fuel)) :
    ∃ ls col' wol', wasplitInner u columns fuel sp cur wol = some (.ok (ls, col', wol')) ∧
      wol' = cellsWidth u (cells col') ∧ 0 ≤ wol' ∧ wol' < columns ∧ (∀ c ∈ col', c.s ≠ []) ∧
      ∀ rest out, Lines u columns (cells col' ++ rest) out →
        Lines u columns (cells cur ++ (mkCells (sp.chunk.s.drop sp.internalOffset) sp.chunk.atts ++ rest))
          (ls.map cells ++ out) := by
  induction fuel generalizing sp cur wol with
  | zero => omega
  | succ fuel ih =>
    have hfuel1 := hfuel.1
    unfold wasplitInner
    by_cases hend : sp.internalOffset = sp.chunk.s.length
    · have : sp.request u (columns - wol) = .ok (none, sp) := by
        unfold Splitter.request
        rw [if_neg (by omega), if_pos hend]
      rw [this]
      refine ⟨[], cur, wol, rfl, hwol, hw0, hw1, hcur, ?_⟩
      intro rest out h
      rw [hend, List.drop_length]
      simpa [mkCells] using h
    · obtain ⟨w, ch, sp', taken, remaining, hreq, hchunk, hoff, hdrop, hatts, hcase⟩ :=
        request_spec u sp (columns - wol) (by omega) hsane ho hend
      rw [hreq]
      simp only []
      have hlen : sp.internalOffset + taken.length + remaining.length = sp.chunk.s.length := by
        have := congrArg List.length hdrop
        clear hcase
        simp at this; omega
      have hdrop' : sp'.chunk.s.drop sp'.internalOffset = remaining := by
        rw [hchunk, hoff]; exact drop_add_of_eq_append hdrop
      have hsane' : u.sane sp'.chunk.s := by rw [hchunk]; exact hsane
      have ho' : sp'.internalOffset ≤ sp'.chunk.s.length := by clear hcase; rw [hchunk, hoff]; omega
      have hst : u.sane taken := by
        have : u.sane (taken ++ remaining) := by rw [← hdrop]; exact UEnv.sane_drop hsane _
        exact (UEnv.sane_append.mp this).1
      have htw := colWidth_nonneg hst
      rcases hcase with ⟨e1, e2, e3, e4, e5⟩ | ⟨e1, e2, e3, c, rem', e4, e5⟩
      · -- no padding
        have hch : ch = ⟨taken, sp.chunk.atts⟩ := by cases ch; simp_all
        by_cases hfull : wol + w = columns
        · rw [if_pos hfull]
          have hf : 2 * (sp'.chunk.s.length - sp'.internalOffset) + 1 ≤ fuel ∧
              ((0:Int) < 0 → 2 * (sp'.chunk.s.length - sp'.internalOffset) + 2 ≤ fuel) := by
            have : 0 < taken.length := List.length_pos_iff.mpr e5
            clear e4
            rw [hchunk, hoff]; refine ⟨by omega, fun h => by omega⟩
          obtain ⟨ls, col', wol', hrun, i1, i2, i3, i4, i5⟩ :=
            ih sp' [] 0 hsane' ho' (by simp) (Int.le_refl 0) (by omega) (by simp) hf
          rw [hrun]
          refine ⟨(cur ++ [ch]) :: ls, col', wol', rfl, i1, i2, i3, i4, ?_⟩
          intro rest out h
          have := i5 rest out h
          rw [hdrop'] at this
          simp only [cells_nil, List.nil_append] at this
          rw [hdrop, mkCells_append, List.map_cons, List.cons_append, cells_snoc, hch]
          simp only []
          rw [List.append_assoc, ← List.append_assoc (cells cur)]
          rw [hchunk] at this
          refine Lines.line ?_ ?_ ?_ this
          · intro h0
            have := congrArg List.length h0
            simp [mkCells] at this
            exact e5 this.2
          · simp [← hwol]; omega
          · intro _; simp [← hwol]; omega
        · rw [if_neg hfull]
          have hrem : remaining = [] := by
            by_cases h : remaining = []
            · exact h
            · have := e4 h; omega
          have hf : 2 * (sp'.chunk.s.length - sp'.internalOffset) + 1 ≤ fuel ∧
              (0 < wol + w → 2 * (sp'.chunk.s.length - sp'.internalOffset) + 2 ≤ fuel) := by
            have : 0 < taken.length := List.length_pos_iff.mpr e5
            clear e4
            rw [hchunk, hoff]; subst hrem; simp at hlen
            refine ⟨by omega, fun h => by omega⟩
          have hcw : wol + w = cellsWidth u (cells (cur ++ [ch])) := by
            rw [cells_snoc, hch]; simp [← hwol, e2]
          obtain ⟨ls, col', wol', hrun, i1, i2, i3, i4, i5⟩ :=
            ih sp' (cur ++ [ch]) (wol + w) hsane' ho' hcw (by omega) (by omega)
              (by intro c hc
                  rcases List.mem_append.mp hc with hc | hc
                  · exact hcur c hc
                  · simp at hc; subst hc; rw [e1]; exact e5) hf
          rw [hrun]
          refine ⟨ls, col', wol', rfl, i1, i2, i3, i4, ?_⟩
          intro rest out h
          have := i5 rest out h
          rw [hdrop', hrem] at this
          rw [hdrop, hrem, List.append_nil]
          rw [cells_snoc, hch] at this
          simp only [mkCells, List.map_nil, List.nil_append] at this ⊢
          rw [List.append_assoc] at this
          exact this
      · -- a double-width character does not fit: padding
        have hch : ch = ⟨taken ++ [' '], sp.chunk.atts⟩ := by cases ch; simp_all
        have hfull : wol + w = columns := by omega
        rw [if_pos hfull]
        have hf : 2 * (sp'.chunk.s.length - sp'.internalOffset) + 1 ≤ fuel ∧
            ((0:Int) < 0 → 2 * (sp'.chunk.s.length - sp'.internalOffset) + 2 ≤ fuel) := by
          have hflag : taken.length = 0 → 0 < wol := by
            intro h0
            have : taken = [] := List.eq_nil_of_length_eq_zero h0
            subst this; simp at e2; omega
          rw [hchunk, hoff]
          refine ⟨?_, fun h => by omega⟩
          by_cases h0 : taken.length = 0
          · have := hfuel.2 (hflag h0); omega
          · omega
        obtain ⟨ls, col', wol', hrun, i1, i2, i3, i4, i5⟩ :=
          ih sp' [] 0 hsane' ho' (by simp) (Int.le_refl 0) (by omega) (by simp) hf
        rw [hrun]
        refine ⟨(cur ++ [ch]) :: ls, col', wol', rfl, i1, i2, i3, i4, ?_⟩
        intro rest out h
        have := i5 rest out h
        rw [hdrop', e4] at this
        simp only [cells_nil, List.nil_append, mkCells, List.map_cons, List.cons_append] at this
        rw [hdrop, e4, mkCells_append, List.map_cons, List.cons_append, cells_snoc, hch]
        simp only [mkCells_append]
        have e : cells cur ++ (mkCells taken sp.chunk.atts ++ mkCells [' '] sp.chunk.atts)
            = (cells cur ++ mkCells taken sp.chunk.atts) ++ [(' ', sp.chunk.atts)] := by
          simp [mkCells]
        rw [e]
        have e' : cells cur ++ ((mkCells taken sp.chunk.atts ++ mkCells (c :: rem') sp.chunk.atts) ++ rest)
            = (cells cur ++ mkCells taken sp.chunk.atts) ++ (c, sp.chunk.atts) :: (List.map (fun ch => (ch, sp.chunk.atts)) rem' ++ rest) := by
          simp [mkCells]
        rw [e']
        rw [hchunk] at this
        refine Lines.padded ?_ e5 this
        simp [← hwol]; omega


private theorem cells_eq_nil_of_nonempty {cur : List Chunk} (hcur : ∀ c ∈ cur, c.s ≠ []) (h : cells cur = []) :
    cur = [] := by
  cases cur with
  | nil => rfl
  | cons c rest =>
    exfalso
    simp only [cells_cons, List.append_eq_nil_iff] at h
    have : c.s = [] := by
      have := congrArg List.length h.1
      simpa using this
    exact hcur c (by simp) this

private theorem wasplitOuter_spec (u : UEnv) (columns : Int) (hcol : 2 ≤ columns) (chunks cur : List Chunk)
    (wol : Int) (hsane : u.sane (text chunks)) (hwol : wol = cellsWidth u (cells cur))
    (hw0 : 0 ≤ wol) (hw1 : wol < columns) (hcur : ∀ c ∈ cur, c.s ≠ []) :
    ∃ lines, wasplitOuter u columns chunks cur wol = some (.ok lines) ∧
      Lines u columns (cells cur ++ cells chunks) (lines.map cells) := by
  induction chunks generalizing cur wol with
  | nil =>
    unfold wasplitOuter
    by_cases he : cur.isEmpty
    · rw [if_pos he]
      have : cur = [] := List.isEmpty_iff.mp he
      subst this
      exact ⟨[], rfl, Lines.nil⟩
    · rw [if_neg he]
      refine ⟨[cur], rfl, ?_⟩
      have hne : cells cur ≠ [] := fun h => he (by rw [cells_eq_nil_of_nonempty hcur h]; rfl)
      have := Lines.line (u := u) (columns := columns) (seg := cells cur) (rest := []) hne
        (by omega) (fun h => absurd rfl h) Lines.nil
      simpa using this
  | cons c rest ih =>
    rw [text_cons] at hsane
    have ⟨h1, h2⟩ := UEnv.sane_append.mp hsane
    obtain ⟨ls, col', wol', hrun, i1, i2, i3, i4, i5⟩ :=
      wasplitInner_spec u columns hcol (2 * c.s.length + 2) (Splitter.reinit c) cur wol h1
        (Nat.zero_le _) hwol hw0 hw1 hcur
        (by simp only [Splitter.reinit]; refine ⟨by omega, fun _ => by omega⟩)
    obtain ⟨lines, hl, hrel⟩ := ih col' wol' h2 i1 i2 i3 i4
    unfold wasplitOuter
    rw [hrun]
    simp only [hl]
    refine ⟨ls ++ lines, rfl, ?_⟩
    have := i5 (cells rest) (lines.map cells) hrel
    simp only [Splitter.reinit, List.drop_zero] at this
    rw [List.map_append, cells_cons]
    exact this


/-! ### consequences of `Lines` -/

theorem Lines.nil_out {u : UEnv} {columns : Int} {l : List Cell} {out : List (List Cell)}
    (h : Lines u columns l out) (hl : l = []) : out = [] := by
  cases h with
  | nil => rfl
  | line h1 _ _ _ => simp at hl; exact absurd hl.1 h1
  | padded _ _ _ => simp at hl

theorem Lines.bounds {u : UEnv} {columns : Int} {l : List Cell} {out : List (List Cell)}
    (h : Lines u columns l out) (hsp : u.wcwidth ' ' = 1) :
    (∀ x ∈ out, x ≠ [] ∧ cellsWidth u x ≤ columns) ∧ (∀ x ∈ out.dropLast, cellsWidth u x = columns) := by
  induction h with
  | nil => simp
  | @line seg rest out h1 h2 h3 hrest ih =>
    refine ⟨?_, ?_⟩
    · intro x hx
      rcases List.mem_cons.mp hx with rfl | hx
      · exact ⟨h1, h2⟩
      · exact ih.1 x hx
    · cases out with
      | nil => simp
      | cons y ys =>
        intro x hx
        rw [List.dropLast_cons_cons] at hx
        rcases List.mem_cons.mp hx with rfl | hx
        · apply h3
          intro hr
          have := hrest.nil_out hr
          simp at this
        · exact ih.2 x hx
  | @padded seg rest c a out h1 h2 hrest ih =>
    have hw : cellsWidth u (seg ++ [(' ', a)]) = columns := by simp [hsp]; omega
    refine ⟨?_, ?_⟩
    · intro x hx
      rcases List.mem_cons.mp hx with rfl | hx
      · exact ⟨by simp, by omega⟩
      · exact ih.1 x hx
    · cases out with
      | nil => simp
      | cons y ys =>
        intro x hx
        rw [List.dropLast_cons_cons] at hx
        rcases List.mem_cons.mp hx with rfl | hx
        · exact hw
        · exact ih.2 x hx

theorem Lines.sublist {u : UEnv} {columns : Int} {l : List Cell} {out : List (List Cell)}
    (h : Lines u columns l out) : List.Sublist l out.flatten := by
  induction h with
  | nil => simp
  | line _ _ _ _ ih => simp only [List.flatten_cons]; exact List.Sublist.append (List.Sublist.refl _) ih
  | padded _ _ _ ih =>
    simp only [List.flatten_cons, List.append_assoc]
    exact List.Sublist.append (List.Sublist.refl _) (List.Sublist.cons _ ih)

theorem Lines.sane_out {u : UEnv} {columns : Int} {l : List Cell} {out : List (List Cell)}
    (h : Lines u columns l out) (hs : u.sane (l.map Prod.fst)) (hsp : u.wcwidth ' ' = 1) :
    ∀ x ∈ out, u.sane (x.map Prod.fst) := by
  induction h with
  | nil => simp
  | line _ _ _ _ ih =>
    rw [List.map_append] at hs
    have ⟨a1, a2⟩ := UEnv.sane_append.mp hs
    intro x hx
    rcases List.mem_cons.mp hx with rfl | hx
    · exact a1
    · exact ih a2 x hx
  | padded _ _ _ ih =>
    rw [List.map_append] at hs
    have ⟨a1, a2⟩ := UEnv.sane_append.mp hs
    intro x hx
    rcases List.mem_cons.mp hx with rfl | hx
    · rw [List.map_append]
      exact UEnv.sane_append.mpr ⟨a1, by intro c hc; simp at hc; subst hc; omega⟩
    · exact ih a2 x hx

/-! ### the property theorems -/

/-- Main theorem: for `columns ≥ 2` and characters of width 0/1/2 the splitter terminates, raises nothing, and
    cuts the cells of `f` into lines as `Lines` describes. -/
theorem C11_wrap (u : UEnv) (f : FmtStr) (columns : Int) (hcol : 2 ≤ columns) (hs : u.sane (text f)) :
    ∃ lines, widthAwareSplitlines u f columns = some (.ok lines) ∧
      Lines u columns (cells f) (lines.map cells) := by
  have hw : wcswidth u (text f) ≠ -1 := by
    rw [wcswidth_eq hs]; have := colWidth_nonneg hs; omega
  unfold widthAwareSplitlines
  rw [if_neg (by omega), if_neg hw]
  by_cases he : f.isEmpty
  · rw [if_pos he]
    have : f = [] := List.isEmpty_iff.mp he
    subst this
    exact ⟨[], rfl, Lines.nil⟩
  · rw [if_neg he]
    obtain ⟨lines, h1, h2⟩ := wasplitOuter_spec u columns hcol f [] 0 hs (by simp) (Int.le_refl 0)
      (by omega) (by simp)
    exact ⟨lines, h1, by simpa using h2⟩

/-- No line is empty, none is wider than `columns`, every line but the last is exactly `columns` wide. -/
theorem C11_line_bounds (u : UEnv) (f : FmtStr) (columns : Int) (hcol : 2 ≤ columns) (hs : u.sane (text f))
    (hsp : u.wcwidth ' ' = 1) :
    ∃ lines, widthAwareSplitlines u f columns = some (.ok lines) ∧
      (∀ l ∈ lines, 0 < len l ∧ cellsWidth u (cells l) ≤ columns) ∧
      (∀ l ∈ lines.dropLast, cellsWidth u (cells l) = columns) := by
  obtain ⟨lines, h1, h2⟩ := C11_wrap u f columns hcol hs
  have hb := h2.bounds hsp
  refine ⟨lines, h1, ?_, ?_⟩
  · intro l hl
    have := hb.1 (cells l) (List.mem_map.mpr ⟨l, hl, rfl⟩)
    refine ⟨?_, this.2⟩
    rw [← cells_length]
    exact List.length_pos_iff.mpr this.1
  · intro l hl
    apply hb.2
    rw [← List.map_dropLast]
    exact List.mem_map.mpr ⟨l, hl, rfl⟩

/-- The same bounds through the library's own `.width` of each line (which does not raise). -/
theorem C11_line_width (u : UEnv) (f : FmtStr) (columns : Int) (hcol : 2 ≤ columns) (hs : u.sane (text f))
    (hsp : u.wcwidth ' ' = 1) :
    ∃ lines, widthAwareSplitlines u f columns = some (.ok lines) ∧
      (∀ l ∈ lines, ∃ w, fmtWidth u l = .ok w ∧ w ≤ columns) ∧
      (∀ l ∈ lines.dropLast, fmtWidth u l = .ok columns) := by
  obtain ⟨lines, h1, h2⟩ := C11_wrap u f columns hcol hs
  have hb := h2.bounds hsp
  have hsf : u.sane ((cells f).map Prod.fst) := by rw [← text_eq_cells]; exact hs
  have hso := h2.sane_out hsf hsp
  have hwid : ∀ l ∈ lines, fmtWidth u l = .ok (cellsWidth u (cells l)) := by
    intro l hl
    have : u.sane (text l) := by
      rw [text_eq_cells]; exact hso (cells l) (List.mem_map.mpr ⟨l, hl, rfl⟩)
    rw [fmtWidth_eq this]; simp [cellsWidth, ← text_eq_cells]
  refine ⟨lines, h1, ?_, ?_⟩
  · intro l hl
    exact ⟨_, hwid l hl, (hb.1 (cells l) (List.mem_map.mpr ⟨l, hl, rfl⟩)).2⟩
  · intro l hl
    rw [hwid l ((List.dropLast_sublist lines).subset hl)]
    congr 1
    apply hb.2
    rw [← List.map_dropLast]
    exact List.mem_map.mpr ⟨l, hl, rfl⟩

/-- Nothing is lost or reordered: the cells of `f` (characters with their formatting) are a subsequence of the
    concatenated lines (the only extra cells are the padding spaces, by `Lines`). -/
theorem C11_nothing_lost (u : UEnv) (f : FmtStr) (columns : Int) (hcol : 2 ≤ columns) (hs : u.sane (text f)) :
    ∃ lines, widthAwareSplitlines u f columns = some (.ok lines) ∧
      List.Sublist (cells f) (lines.flatMap cells) := by
  obtain ⟨lines, h1, h2⟩ := C11_wrap u f columns hcol hs
  refine ⟨lines, h1, ?_⟩
  have := h2.sublist
  simpa [List.flatMap] using this

/-- `columns < 2` raises ValueError. -/
theorem C11_guard_columns (u : UEnv) (f : FmtStr) (columns : Int) (h : columns < 2) :
    widthAwareSplitlines u f columns = some (.error .valueError) := by
  simp [widthAwareSplitlines, h]

/-- `FmtStr()` without runs gives no lines. -/
theorem C11_empty (u : UEnv) (columns : Int) (h : 2 ≤ columns) :
    widthAwareSplitlines u [] columns = some (.ok []) := by
  unfold widthAwareSplitlines
  rw [if_neg (by omega), if_neg (by simp [text, wcswidth, wcswidthLoop])]
  rfl


/-- A character of negative width (cwcwidth's -1 for control characters) raises ValueError. -/
theorem C11_guard_width (u : UEnv) (f : FmtStr) (columns : Int) (h : ∃ c ∈ text f, u.wcwidth c < 0) :
    widthAwareSplitlines u f columns = some (.error .valueError) := by
  unfold widthAwareSplitlines
  by_cases hc : columns < 2
  · rw [if_pos hc]
  · rw [if_neg hc, if_pos (by simp [wcswidth, wcswidthLoop_neg u _ 0 h])]

/-! ### non-vacuity: wide character pushed to the next line with a padding space in ITS formatting; a combining
    character in a new run after a full line opens the last line; an empty run in the middle -/

example : exEnv.sane (text exF) ∧ exEnv.wcwidth ' ' = 1 := by
  refine ⟨?_, by decide⟩
  intro c hc
  simp [text, exF] at hc
  rcases hc with rfl | rfl | rfl | rfl | rfl <;> decide

example : (match widthAwareSplitlines exEnv exF 2 with
    | some (.ok ls) => ls == [[⟨['a', ' '], {fg := some 1}⟩], [⟨['Ｅ'], {fg := some 1}⟩],
                              [⟨['́', 'Ｅ'], {bold := some true}⟩], [⟨['b'], {bold := some true}⟩]]
    | _ => false) = true := by decide +kernel

example : (match widthAwareSplitlines exEnv exF 3 with
    | some (.ok ls) => ls == [[⟨['a', 'Ｅ'], {fg := some 1}⟩], [⟨['́', 'Ｅ', 'b'], {bold := some true}⟩]]
    | _ => false) = true := by decide +kernel

end Curtsies
