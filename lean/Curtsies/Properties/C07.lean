/-
  C07 - CursorAwareWindow keeps history intact and accounts for every scroll.

  `C07.full t` = scrollback ++ screen rows: everything the user can scroll through, top to bottom.
  `C07.Rel win t`: the window's origin `top_usable_row` is a screen row, the main screen is active, cached lines are
  ESC-free, and (when the size is the one last rendered at and the cache is non-empty) every row from the origin down
  shows what the cache says.

  FINDING D41 (open): the property's quantifier puts no bound on the row lengths and the docstring says a too wide array
  is rendered anyway - but a row longer than the terminal wraps and, on the bottom row, scrolls the screen by lines
  the window does not count.  `C07_render_full_statement` / `C07_history_full_statement` (no bound) are REFUTED:
  `C07_D41_witness` (decide on model + terminal spec: 3x3, cursor on row 2, ['abcde'] -> one line scrolled, 0 returned,
  top_usable_row still 2), `C07_D41_refutes`, `C07_D41_history_refutes`.  The theorems below carry the complement of
  the finding's footprint, `len l ≤ t.w` for every row, hence the names `_partial`.
  C07_render_partial   (PROVED) one render from any related state, ALL arrays whose rows fit the width; the clauses are the fields of
      `C07.RenderPost`: (a)+(b) `shown`: `full` afterwards is `full` before cut at the window's first row, followed by the
      array's rows (padded) and blanks — so content above the window only ever moves up into scrollback and is never
      altered; (c) `scrolled`: scrollback grew by exactly max 0 (len array - rows available); (d) `returned` = rows
      pushed off the top; (e) `origin`; (f) `cursorRow/cursorCol/noPendingWrap/lastRow`: cursor on the cell cursor_pos
      designates and `_last_cursor_row` equal to the terminal's cursor row; (g) `rel`: `Rel` again.
  C07_history_partial  (PROVED) after EVERY render of any sequence of renders all clauses of `C07.RenderPost` hold for it, and
      everything above the window's first row at the start (scrollback and screen rows) is still there unaltered
      (`C07_run_rel`: `Rel` is maintained along the way).
  C07_then_diff (PROVED) composition with C18: after a render the window knows the terminal's cursor row; if the content
      then moves by k rows, `_get_cursor_vertical_diff_once` accounts for exactly k.
  C07_enter    (PROVED) `__enter__`: the terminal's own answer to ESC[6n, parsed by get_cursor_position (C18_parse with
      the decimal round trip C18_decimal), makes top_usable_row the terminal's cursor row; `C07_enter_rel`: the entered
      window is related to the terminal (cursor on a screen row, main screen), so `C07_render_partial` applies to its first render.
  C07_exit     (PROVED) `__exit__` (keep_last_line on/off) alters only rows from the cursor row down (below it with
      keep_last_line); on the bottom row with keep_last_line the screen scrolls one line and nothing is lost.
  C07_accounting, C07_render_fits, C07_history_fits, C07_scroll_step,
  C07_scroll_iter: the building blocks proved first (model-level accounting for all arrays, the fitting case,
      one scroll_down / one loop iteration on the terminal spec); kept, they are now special cases of the above.

  Hypotheses: rows `Printable` (no control character; one column each - the domain of the terminal spec's `put`) and at
  most as wide as the terminal (`len l ≤ t.w`: NOT in the property's quantifier, which is silent on row lengths; wider
  rows wrap and cause a scroll the window does not count); the terminal is in its default graphic state when a render
  starts (`t.g = {}`, proved again at its end); cursor_pos designates a row of the array (a column beyond the last one
  is clamped by the terminal: `cursorCol`).  The terminal has at most 1000001 rows (`t.location(x=0, y=1000000)` must reach the bottom row); array rows
  ESC-free and at most as wide as the terminal (the docstring: wider rows are "rendered anyway");
  cursor_pos designates a cell of the array; default background when the render starts.
-/
import Curtsies.Proofs.Window
import Curtsies.Properties.C18
namespace Curtsies
open Window Spec Spec.Terminal

namespace C07

/-- a row as the terminal shows it: `w` cells, blanks after the content -/
def padRow (w : Nat) (cs : List TCell) : List TCell := (List.range w).map fun c => cs[c]?.getD blank

/-- scrollback ++ screen: everything the user can scroll through -/
def full (t : Term) : List (List TCell) := t.scrollback ++ t.screen

structure Rel (win : CAWin) (t : Term) : Prop where
  esc : CacheEsc win.cache
  top : 0 ≤ win.top ∧ win.top < t.h
  main : t.alt = none
  coh : win.lastH = some t.h → win.lastW = some t.w → Coherent win.cache t win.top.toNat

/-- cell (i, c) of the array as a terminal shows it; blank outside the array -/
def cellOf (arr : List FmtStr) (i c : Nat) : TCell :=
  match arr[i]? with
  | some l => (effCells l)[c]?.getD blank
  | none => blank

def isLf : TermOp → Bool
  | .lf => true
  | _ => false

def lfCount (ops : List TermOp) : Nat := (ops.filter isLf).length

end C07
open C07

theorem renderCursorAware_eq (win : CAWin) (h w : Nat) (arr : List FmtStr) (pos : Nat × Nat) :
    renderCursorAware win h w arr pos =
      let win0 : CAWin := if win.lastH ≠ some h ∨ win.lastW ≠ some w
        then { win with cache := [], lastH := some h, lastW := some w } else win
      let rowsForUse := pyRange win0.top h
      let shared := min arr.length rowsForUse.length
      let c1 := contentLoop win0.cache w id (rowsForUse.take shared) (arr.take shared) []
      let c2 := blankLoop win0.cache (rowsForUse.drop shared) c1.1
      let c3 := scrollLoop h (arr.drop shared) win0.top 0 c2.1
      let lastRow : Int := max 0 ((pos.1 : Int) - c3.2.1 + c3.1)
      ({ win0 with cache := c3.2.2.1, top := c3.1, lastCursorRow := some lastRow, lastCursorCol := some (pos.2 : Int) },
       (if !win.hideCursor then [TermOp.hide] else []) ++ c1.2 ++ c2.2 ++ c3.2.2.2 ++ [.cup lastRow.toNat pos.2] ++
         (if !win0.hideCursor then [TermOp.show] else []), c3.2.1) := by
  rfl

/-! ### accounting (all arrays) -/

theorem C07.lfCount_append (a b : List TermOp) : lfCount (a ++ b) = lfCount a + lfCount b := by
  simp [lfCount, List.filter_append]

theorem C07.lfCount_content (old : RowCache) (w : Nat) (clip : FmtStr → FmtStr) :
    ∀ (lines : List FmtStr) (rows : List Int) (cur : RowCache), lfCount (contentLoop old w clip rows lines cur).2 = 0 := by
  intro lines
  induction lines with
  | nil => intro rows cur; rw [contentLoop_nil]; rfl
  | cons l ls ih =>
    intro rows cur
    cases rows with
    | nil => rfl
    | cons r rs =>
      rw [contentLoop_cons, lfCount_append, ih]
      by_cases h : lineEq (clip l) (old.get r) = true
      · rw [if_pos h]; rfl
      · rw [if_neg h]
        by_cases h2 : len (clip l) < w <;> simp [writeLine, h2, lfCount, isLf, TermOp.putStr]

theorem C07.lfCount_blank (old : RowCache) :
    ∀ (rows : List Int) (cur : RowCache), lfCount (blankLoop old rows cur).2 = 0 := by
  intro rows
  induction rows with
  | nil => intro cur; rfl
  | cons r rs ih =>
    intro cur
    rw [blankLoop_cons]
    by_cases h : (!old.isEmpty && !old.has r) = true
    · rw [if_pos h]; exact ih cur
    · rw [if_neg h, lfCount_append, ih]; simp [writeBlank, lfCount, isLf]

theorem scrollLoop_cons (h : Nat) (line : FmtStr) (lines : List FmtStr) (top off : Int) (cur : RowCache) :
    scrollLoop h (line :: lines) top off cur =
      let top1 := if top > 0 then top - 1 else top
      let off1 := if top > 0 then off else off + 1
      let cur1 := RowCache.set (cur.map fun (k, v) => (k - 1, v)) ((h : Int) - 1) (some line)
      let r := scrollLoop h lines top1 off1 cur1
      (r.1, r.2.1, r.2.2.1, (scrollDown ++ [.cup ((h : Int) - 1).toNat 0, .putStr (render line)]) ++ r.2.2.2) := by
  by_cases h0 : top > 0 <;> (rw [scrollLoop]; simp [h0])

theorem C07.scrollLoop_accounting (h : Nat) :
    ∀ (lines : List FmtStr) (top off : Int) (cur : RowCache), 0 ≤ top →
      (scrollLoop h lines top off cur).1 = ((top.toNat - lines.length : Nat) : Int) ∧
      (scrollLoop h lines top off cur).2.1 = off + ((lines.length - top.toNat : Nat) : Int) ∧
      lfCount (scrollLoop h lines top off cur).2.2.2 = lines.length := by
  intro lines
  induction lines with
  | nil => intro top off cur ht; simp [scrollLoop, lfCount]; omega
  | cons l ls ih =>
    intro top off cur ht
    rw [scrollLoop_cons]
    simp only []
    by_cases h0 : top > 0
    · simp only [if_pos h0]
      obtain ⟨a, b, c⟩ := ih (top - 1) off (RowCache.set (cur.map fun (k, v) => (k - 1, v)) ((h : Int) - 1) (some l)) (by omega)
      refine ⟨by rw [a]; simp only [List.length_cons]; omega, by rw [b]; simp only [List.length_cons]; omega, ?_⟩
      rw [lfCount_append, c]
      have : lfCount (scrollDown ++ [.cup ((h : Int) - 1).toNat 0, .putStr (render l)]) = 1 := rfl
      rw [this]; simp only [List.length_cons]; omega
    · simp only [if_neg h0]
      obtain ⟨a, b, c⟩ := ih top (off + 1) (RowCache.set (cur.map fun (k, v) => (k - 1, v)) ((h : Int) - 1) (some l)) ht
      refine ⟨by rw [a]; simp only [List.length_cons]; omega, by rw [b]; simp only [List.length_cons]; omega, ?_⟩
      rw [lfCount_append, c]
      have : lfCount (scrollDown ++ [.cup ((h : Int) - 1).toNat 0, .putStr (render l)]) = 1 := rfl
      rw [this]; simp only [List.length_cons]; omega

/-- (c), (d), (e), (f) at the level of what the model returns and writes, for EVERY array and origin on the screen:
    with `avail` rows from the origin down, `scrolls = len array - avail` line feeds are emitted (each on the bottom
    row: C07_scroll_ops), the origin moves up by `scrolls` but not above row 0, the rows that no longer fit
    (`pushed = scrolls - origin`) are returned, and the final cursor move goes to row `origin' + cursor row - pushed`
    (row 0 if that cell was pushed off), which is what `_last_cursor_row` records. -/
theorem C07_accounting (win : CAWin) (h w : Nat) (arr : List FmtStr) (pos : Nat × Nat)
    (htop : 0 ≤ win.top ∧ win.top ≤ h) :
    let res := renderCursorAware win h w arr pos
    let avail := h - win.top.toNat
    let scrolls := arr.length - avail
    let pushed := scrolls - win.top.toNat
    res.2.2 = (pushed : Int) ∧
    res.1.top = ((win.top.toNat - scrolls : Nat) : Int) ∧
    res.1.lastCursorRow = some ((res.1.top.toNat + pos.1 - pushed : Nat) : Int) ∧
    lfCount res.2.1 = scrolls ∧
    ∃ before, res.2.1 = before ++ [.cup (res.1.top.toNat + pos.1 - pushed) pos.2] ++
      (if !win.hideCursor then [TermOp.show] else []) := by
  rw [renderCursorAware_eq]
  simp only []
  generalize hwin0 : (if win.lastH ≠ some h ∨ win.lastW ≠ some w
        then ({ win with cache := [], lastH := some h, lastW := some w } : CAWin) else win) = win0
  have e1 : win0.top = win.top := by rw [← hwin0]; split <;> rfl
  have e2 : win0.hideCursor = win.hideCursor := by rw [← hwin0]; split <;> rfl
  have hl : (pyRange win0.top h).length = h - win.top.toNat := by
    rw [e1]; simp [pyRange]; omega
  rw [hl]
  have hd : (arr.drop (min arr.length (h - win.top.toNat))).length = arr.length - (h - win.top.toNat) := by
    rw [List.length_drop]; omega
  obtain ⟨a, b, c⟩ := scrollLoop_accounting h (arr.drop (min arr.length (h - win.top.toNat))) win0.top 0
    (blankLoop win0.cache ((pyRange win0.top h).drop (min arr.length (h - win.top.toNat)))
      (contentLoop win0.cache w id ((pyRange win0.top h).take (min arr.length (h - win.top.toNat)))
        (arr.take (min arr.length (h - win.top.toNat))) []).1).1 (by rw [e1]; exact htop.1)
  generalize scrollLoop h (arr.drop (min arr.length (h - win.top.toNat))) win0.top 0
    (blankLoop win0.cache ((pyRange win0.top h).drop (min arr.length (h - win.top.toNat)))
      (contentLoop win0.cache w id ((pyRange win0.top h).take (min arr.length (h - win.top.toNat)))
        (arr.take (min arr.length (h - win.top.toNat))) []).1).1 = c3 at a b c
  rw [hd] at a b c
  rw [e1] at a b
  have hrow : max 0 ((pos.1 : Int) - c3.2.1 + c3.1) =
      ((c3.1.toNat + pos.1 - (arr.length - (h - win.top.toNat) - win.top.toNat) : Nat) : Int) := by
    rw [a, b]; omega
  refine ⟨by rw [b]; omega, a, by rw [hrow], ?_, ?_⟩
  · simp only [lfCount_append, lfCount_content, lfCount_blank, c]
    cases win.hideCursor <;> cases win0.hideCursor <;> simp [lfCount, isLf]
  · rw [hrow, e2, Int.toNat_natCast]
    exact ⟨_, rfl⟩

/-! ### the render that fits (no scroll), on the terminal spec -/

theorem C07_render_fits (u : UEnv) (win : CAWin) (t : Term) (arr : List FmtStr) (pos : Nat × Nat)
    (hrel : Rel win t) (hbg : t.g = {}) (hrows0 : ∀ l ∈ arr, Glyphs u l ∧ len l ≤ t.w)
    (hfits : arr.length ≤ t.h - win.top.toNat)
    (hpos : (pos.1 < arr.length ∨ (arr = [] ∧ pos.1 = 0)) ∧ pos.2 < t.w) :
    -- (a) rows above the window's first row and the scrollback are untouched
    (∀ r c, r < win.top.toNat → (exec t (renderCursorAware win t.h t.w arr pos).2.1).grid r c = t.grid r c) ∧
    (exec t (renderCursorAware win t.h t.w arr pos).2.1).scrollback = t.scrollback ∧
    -- (b) from the window's first row down: the array, then blanks
    (∀ i c, win.top.toNat + i < t.h → c < t.w →
      (exec t (renderCursorAware win t.h t.w arr pos).2.1).grid (win.top.toNat + i) c = C07.cellOf arr i c) ∧
    -- (c)(d)(e) nothing scrolled, 0 returned, origin unchanged
    (renderCursorAware win t.h t.w arr pos).2.2 = 0 ∧
    (renderCursorAware win t.h t.w arr pos).1.top = win.top ∧
    -- (f) the cursor
    (exec t (renderCursorAware win t.h t.w arr pos).2.1).r = win.top.toNat + pos.1 ∧
    (exec t (renderCursorAware win t.h t.w arr pos).2.1).c = pos.2 ∧
    (exec t (renderCursorAware win t.h t.w arr pos).2.1).pw = false ∧
    (renderCursorAware win t.h t.w arr pos).1.lastCursorRow = some ((win.top.toNat + pos.1 : Nat) : Int) ∧
    (exec t (renderCursorAware win t.h t.w arr pos).2.1).cursorVisible =
      (if win.hideCursor then t.cursorVisible else true) ∧
    (exec t (renderCursorAware win t.h t.w arr pos).2.1).h = t.h ∧
    (exec t (renderCursorAware win t.h t.w arr pos).2.1).w = t.w ∧
    (exec t (renderCursorAware win t.h t.w arr pos).2.1).g = {} ∧
    -- (g)
    Rel (renderCursorAware win t.h t.w arr pos).1 (exec t (renderCursorAware win t.h t.w arr pos).2.1) := by
  have hrows : ∀ l ∈ arr, EscFree l ∧ len l ≤ t.w := fun l hl => ⟨(hrows0 l hl).1.1.escFree, (hrows0 l hl).2⟩
  rw [renderCursorAware_eq]
  simp only []
  generalize hk : win.top.toNat = k at hfits ⊢
  have htopk : win.top = (k : Int) := by have := hrel.top.1; omega
  have hkh : k < t.h := by have := hrel.top.2; omega
  generalize hwin0 : (if win.lastH ≠ some t.h ∨ win.lastW ≠ some t.w
        then ({ win with cache := [], lastH := some t.h, lastW := some t.w } : CAWin) else win) = win0
  have e1 : win0.top = (k : Int) := by rw [← hwin0, ← htopk]; split <;> rfl
  have hhide : win0.hideCursor = win.hideCursor := by rw [← hwin0]; split <;> rfl
  have hsize : win0.lastH = some t.h ∧ win0.lastW = some t.w := by
    rw [← hwin0]
    by_cases hc : win.lastH ≠ some t.h ∨ win.lastW ≠ some t.w
    · rw [if_pos hc]; exact ⟨rfl, rfl⟩
    · rw [if_neg hc]
      exact ⟨Classical.not_not.mp fun h => hc (Or.inl h), Classical.not_not.mp fun h => hc (Or.inr h)⟩
  have hold : CacheEsc win0.cache := by
    rw [← hwin0]
    by_cases hc : win.lastH ≠ some t.h ∨ win.lastW ≠ some t.w
    · rw [if_pos hc]; intro _ _ h; simp [get_nil] at h
    · rw [if_neg hc]; exact hrel.esc
  generalize hpre : exec t (if (!win.hideCursor) = true then [TermOp.hide] else []) = t0
  have f0 : t0.h = t.h ∧ t0.w = t.w ∧ t0.scrollback = t.scrollback ∧ t0.g = t.g ∧ t0.grid = t.grid ∧
      t0.alt = t.alt ∧ t0.cursorVisible = (if win.hideCursor then t.cursorVisible else false) := by
    rw [← hpre]; cases win.hideCursor <;> simp [Term.step]
  obtain ⟨f0h, f0w, f0sb, f0g, f0grid, f0alt, f0vis⟩ := f0
  have hcoh0 : Coherent win0.cache t0 k := by
    rw [← hwin0]
    by_cases hc : win.lastH ≠ some t.h ∨ win.lastW ≠ some t.w
    · rw [if_pos hc]; intro h; exact absurd rfl h
    · rw [if_neg hc]
      have := hrel.coh (Classical.not_not.mp fun h => hc (Or.inl h)) (Classical.not_not.mp fun h => hc (Or.inr h))
      rw [hk] at this
      intro hne row h1 h2
      exact Shows.congr f0w (fun c => by rw [f0grid]) (this hne row h1 (by rw [← f0h]; exact h2))
  -- the row lists
  have hrows' : pyRange win0.top (t.h : Int) = intRows k (t.h - k) := by rw [e1, pyRange_eq]
  have hshared : min arr.length (pyRange win0.top (t.h : Int)).length = arr.length := by
    rw [hrows', intRows_length]; omega
  rw [hshared, hrows', intRows_take k (t.h - k) arr.length hfits, intRows_drop, List.take_length, List.drop_length]
  have p1 := contentLoop_spec win0.cache t.w id hold arr k arr.length [] t0 f0w (Nat.le_refl _) (by rw [f0h]; omega)
    (by rw [f0g]; exact hbg) (fun l hl => hrows l hl) hcoh0
  generalize (contentLoop win0.cache t.w id (intRows k arr.length) arr []) = c1 at p1
  rw [exec_append, exec_append, exec_append, exec_append, exec_append, hpre]
  generalize exec t0 c1.2 = t1 at p1
  have hcoh1 : Coherent win0.cache t1 (k + arr.length) := by
    intro hne row h1 h2
    have := hcoh0 hne row (by omega) (by rw [← p1.frame.h]; exact h2)
    exact Shows.congr p1.frame.w (p1.others row (Or.inr h1)) this
  have p2 := blankLoop_spec win0.cache (t.h - k - arr.length) (k + arr.length) c1.1 t1
    (fun _ => by rw [p1.frame.h, f0h]; omega) p1.bg hcoh1
  generalize (blankLoop win0.cache (intRows (k + arr.length) (t.h - k - arr.length)) c1.1) = c2 at p2
  generalize exec t1 c2.2 = t2 at p2
  have h2h : t2.h = t.h := by rw [p2.frame.h, p1.frame.h, f0h]
  have h2w : t2.w = t.w := by rw [p2.frame.w, p1.frame.w, f0w]
  -- no scroll
  have hs : scrollLoop t.h [] win0.top 0 c2.1 = (win0.top, 0, c2.1, []) := rfl
  rw [hs]
  simp only [exec_nil, e1]
  have hlast : max (0 : Int) ((pos.1 : Int) - 0 + (k : Int)) = ((k + pos.1 : Nat) : Int) := by omega
  rw [hlast, Int.toNat_natCast]
  have hshow : ∀ i, k + i < t.h → Shows t2 (k + i) (match arr[i]? with | some l => effCells l | none => []) := by
    intro i hi
    by_cases hin : i < arr.length
    · rw [List.getElem?_eq_getElem hin]
      exact Shows.congr p2.frame.w (p2.others (k + i) (Or.inl (by omega))) (p1.shows i hin)
    · rw [List.getElem?_eq_none (by omega)]
      exact p2.shows (k + i) (by omega) (by omega)
  have hcacheIn : ∀ i (hi : i < arr.length), c2.1.get ((k + i : Nat) : Int) = some (some arr[i]) := by
    intro i hi
    rw [p2.cacheOut _ (Or.inl (by omega))]
    exact p1.cacheIn i hi
  have hcacheOut : ∀ row : Int, (row < (k : Int) ∨ ((k + arr.length : Nat) : Int) ≤ row) →
      c2.1.get row = some none ∨ c2.1.get row = none := by
    intro row hrow
    have hc1 : c1.1.get row = none := by rw [p1.cacheOut row hrow]; rfl
    by_cases hin : ((k + arr.length : Nat) : Int) ≤ row ∧ row < (t.h : Int)
    · obtain ⟨r, rfl⟩ : ∃ r : Nat, row = (r : Int) := ⟨row.toNat, by omega⟩
      rcases p2.cacheIn r (by omega) (by omega) with h | h
      · exact Or.inl h
      · exact Or.inr (by rw [h, hc1])
    · exact Or.inr (by rw [p2.cacheOut row (by omega), hc1])
  generalize hfin : exec (exec t2 [TermOp.cup (k + pos.1) pos.2]) (if (!win0.hideCursor) = true then [TermOp.show] else []) = t3
  have f3 : t3.h = t2.h ∧ t3.w = t2.w ∧ t3.scrollback = t2.scrollback ∧ t3.g = t2.g ∧ t3.grid = t2.grid ∧
      t3.alt = t2.alt ∧ t3.r = min (k + pos.1) (t2.h - 1) ∧ t3.c = min pos.2 (t2.w - 1) ∧ t3.pw = false ∧
      t3.cursorVisible = (if win0.hideCursor then t2.cursorVisible else true) := by
    rw [← hfin]; cases win0.hideCursor <;> simp [Term.step]
  obtain ⟨f3h, f3w, f3sb, f3g, f3grid, f3alt, f3r, f3c, f3pw, f3vis⟩ := f3
  have hposr : k + pos.1 < t.h := by
    rcases hpos.1 with h | ⟨_, h⟩ <;> omega
  refine ⟨?_, by rw [f3sb, p2.frame.sb, p1.frame.sb, f0sb], ?_, by first | rfl | trivial, htopk.symm,
    by rw [f3r, h2h]; omega, by rw [f3c, h2w]; have := hpos.2; omega, f3pw, by first | rfl | trivial, ?_, by rw [f3h, h2h], by rw [f3w, h2w],
    by rw [f3g]; exact p2.bg, ?_⟩
  · intro r c hr
    rw [f3grid, p2.others r (Or.inl (by omega)) c, p1.others r (Or.inl hr) c, f0grid]
  · intro i c hi hc
    rw [f3grid, hshow i hi c (by rw [h2w]; exact hc)]
    unfold C07.cellOf
    cases arr[i]? <;> rfl
  · rw [f3vis, p2.frame.vis, p1.frame.vis, f0vis, hhide]
    cases win.hideCursor <;> simp
  · refine ⟨?_, ?_, ?_, ?_⟩
    · intro row l hget
      simp only at hget
      by_cases hin : (k : Int) ≤ row ∧ row < ((k + arr.length : Nat) : Int)
      · obtain ⟨i, rfl⟩ : ∃ i : Nat, row = ((k + i : Nat) : Int) := ⟨(row - k).toNat, by omega⟩
        have hi : i < arr.length := by omega
        rw [hcacheIn i hi] at hget
        cases hget
        exact (hrows _ (List.getElem_mem hi)).1
      · rcases hcacheOut row (by omega) with h | h <;> rw [h] at hget <;> cases hget
    · simp only [f3h, h2h]; exact ⟨by omega, by omega⟩
    · rw [f3alt, p2.frame.alt, p1.frame.alt, f0alt]; exact hrel.main
    · intro _ _ _ row hrow1 hrow2
      simp only [Int.toNat_natCast] at hrow1 hrow2 ⊢
      rw [f3h, h2h] at hrow2
      refine Shows.congr (t := t2) f3w (fun c => by rw [f3grid]) ?_
      obtain ⟨i, rfl⟩ : ∃ i, row = k + i := ⟨row - k, by omega⟩
      have := hshow i hrow2
      unfold cacheCells
      by_cases hi : i < arr.length
      · rw [hcacheIn i hi]
        rw [List.getElem?_eq_getElem hi] at this
        exact this
      · rw [List.getElem?_eq_none (by omega)] at this
        rcases hcacheOut ((k + i : Nat) : Int) (by omega) with h | h <;> rw [h] <;> exact this

/-! ### histories of fitting renders -/

def C07.run : CAWin → Term → List (List FmtStr × (Nat × Nat)) → CAWin × Term
  | win, t, [] => (win, t)
  | win, t, (arr, pos) :: rest =>
    C07.run (renderCursorAware win t.h t.w arr pos).1 (exec t (renderCursorAware win t.h t.w arr pos).2.1) rest

def C07.ValidFits (u : UEnv) : CAWin → Term → List (List FmtStr × (Nat × Nat)) → Prop
  | _, _, [] => True
  | win, t, (arr, pos) :: rest =>
    (∀ l ∈ arr, Glyphs u l ∧ len l ≤ t.w) ∧ arr.length ≤ t.h - win.top.toNat ∧
    ((pos.1 < arr.length ∨ (arr = [] ∧ pos.1 = 0)) ∧ pos.2 < t.w) ∧
    C07.ValidFits u (renderCursorAware win t.h t.w arr pos).1 (exec t (renderCursorAware win t.h t.w arr pos).2.1) rest

/-- Over any sequence of renders that fit below the window's origin: the relation is maintained, the origin never
    moves, nothing scrolls, and every cell above the origin keeps its content throughout. -/
theorem C07_history_fits (u : UEnv) (steps : List (List FmtStr × (Nat × Nat))) :
    ∀ (win : CAWin) (t : Term), Rel win t → t.g = {} → C07.ValidFits u win t steps →
      Rel (C07.run win t steps).1 (C07.run win t steps).2 ∧ (C07.run win t steps).2.g = {} ∧
      (C07.run win t steps).1.top = win.top ∧ (C07.run win t steps).2.scrollback = t.scrollback ∧
      (C07.run win t steps).2.h = t.h ∧
      ∀ r c, r < win.top.toNat → (C07.run win t steps).2.grid r c = t.grid r c := by
  induction steps with
  | nil => intro win t hr hb _; exact ⟨hr, hb, rfl, rfl, rfl, fun _ _ _ => rfl⟩
  | cons st rest ih =>
    intro win t hr hb hv
    obtain ⟨arr, pos⟩ := st
    obtain ⟨h1, h2, h3, h4⟩ := hv
    have r := C07_render_fits u win t arr pos hr hb h1 h2 h3
    obtain ⟨ra, rsb, _, _, rtop, _, _, _, _, _, rh, _, rbg, rrel⟩ := r
    obtain ⟨i1, i2, i3, i4, i5, i6⟩ := ih _ _ rrel rbg h4
    refine ⟨i1, i2, by rw [C07.run, i3, rtop], by rw [C07.run, i4, rsb], by rw [C07.run, i5, rh], ?_⟩
    intro r c hr'
    rw [C07.run, i6 r c (by rw [rtop]; exact hr'), ra r c hr']

/-- non-vacuity: a 3x3 screen with a line of prior output, the window entered on row 1 -/
example : Rel { top := 1 } { h := 3, w := 3, r := 1, grid := fun r _ => if r = 0 then ('$', {}) else blank } :=
  ⟨fun _ _ h => by simp [get_nil] at h, by decide, rfl, fun h => by simp at h⟩


/-! ### the scroll loop on the terminal spec: one iteration -/

/-- One `scroll_down` on the terminal spec (main screen, default background, at most 1000001 rows — the constant in
    `t.location(x=0, y=1000000)`): the top row goes to scrollback, every row moves up, the bottom row is blank, and
    cursor, pending wrap and graphic state are exactly as before.  In terms of `full`: one blank row is appended. -/
theorem C07_scroll_step (t : Term) (hh : 0 < t.h) (hmax : t.h ≤ 1000001) (hmain : t.alt = none)
    (hbg : t.g = {}) (hr : t.r < t.h) (hc : t.c < t.w) :
    (exec t scrollDown).scrollback = t.scrollback ++ [t.row 0] ∧
    (∀ r c, (exec t scrollDown).grid r c = if r + 1 < t.h then t.grid (r + 1) c else blank) ∧
    (exec t scrollDown).r = t.r ∧ (exec t scrollDown).c = t.c ∧ (exec t scrollDown).pw = t.pw ∧
    (exec t scrollDown).g = t.g ∧ (exec t scrollDown).h = t.h ∧ (exec t scrollDown).w = t.w ∧
    (exec t scrollDown).alt = t.alt ∧ (exec t scrollDown).cursorVisible = t.cursorVisible := by
  have a1 : min 1000000 (t.h - 1) = t.h - 1 := by omega
  have a2 : ¬ (t.h - 1 + 1 < t.h) := by omega
  have a3 : min t.r (t.h - 1) = t.r := by omega
  have a4 : min t.c (t.w - 1) = t.c := by omega
  have a5 : (' ', ({ bg := t.g.bg } : Eff)) = blank := by rw [hbg]; rfl
  simp [scrollDown, Term.step, Term.index, Term.scrollUp, Term.erased, Term.row, a1, a2, a3, a4, a5, hmain]

/-- One iteration of the scroll loop on the terminal spec: `scroll_down`, move to the bottom row, write the line
    (no clear needed: the row just scrolled in is blank).  Every row moves up one, the old top row is appended to the
    scrollback, and the bottom row shows the line. -/
theorem C07_scroll_iter (t : Term) (line : FmtStr) (hh : 0 < t.h) (hmax : t.h ≤ 1000001) (hmain : t.alt = none)
    (hbg : t.g = {}) (hr : t.r < t.h) (hc : t.c < t.w) (hesc : EscFree line) (hlen : len line ≤ t.w) :
    let t' := exec t (scrollDown ++ [.cup ((t.h : Int) - 1).toNat 0, .putStr (render line)])
    t'.scrollback = t.scrollback ++ [t.row 0] ∧
    (∀ r c, r < t.h → c < t.w → t'.grid r c = if r + 1 < t.h then t.grid (r + 1) c else (effCells line)[c]?.getD blank) ∧
    t'.h = t.h ∧ t'.w = t.w ∧ t'.alt = t.alt ∧ t'.cursorVisible = t.cursorVisible ∧ t'.g = {} := by
  intro t'
  obtain ⟨s1, s2, _, _, _, _, s7, s8, s9, s10⟩ := C07_scroll_step t hh hmax hmain hbg hr hc
  have e : t' = exec (exec t scrollDown) [.cup (t.h - 1) 0, .put (effCells line) {}] := by
    show exec t _ = _
    rw [exec_append, putStr_render line hesc]
    have : ((t.h : Int) - 1).toNat = t.h - 1 := by omega
    rw [this]
  generalize exec t scrollDown = t1 at s1 s2 s7 s8 s9 s10 e
  let t2 : Term := { t1 with r := t.h - 1, c := 0, pw := false }
  have e1 : t1.step (.cup (t.h - 1) 0) = t2 := by
    have a : min (t.h - 1) (t1.h - 1) = t.h - 1 := by rw [s7]; omega
    simp [Term.step, a, t2]
  obtain ⟨f, r, gr, _⟩ := putCells (effCells line) t2 rfl (by
    show 0 + (effCells line).length ≤ t1.w
    rw [effCells_length, s8]; omega)
  have e2 : t' = { (effCells line).foldl Term.putCell t2 with g := {} } := by
    rw [e]; simp only [exec_cons, exec_nil, e1]; rfl
  rw [e2]
  refine ⟨by show ((effCells line).foldl Term.putCell t2).scrollback = _; rw [f.sb]; exact s1, ?_,
    by show ((effCells line).foldl Term.putCell t2).h = _; rw [f.h]; exact s7,
    by show ((effCells line).foldl Term.putCell t2).w = _; rw [f.w]; exact s8,
    by show ((effCells line).foldl Term.putCell t2).alt = _; rw [f.alt]; exact s9,
    by show ((effCells line).foldl Term.putCell t2).cursorVisible = _; rw [f.vis]; exact s10, rfl⟩
  intro r' c hrh hcw
  show ((effCells line).foldl Term.putCell t2).grid r' c = _
  rw [gr]
  show (if r' = t.h - 1 ∧ 0 ≤ c ∧ c < 0 + (effCells line).length then (effCells line)[c - 0]?.getD blank else t1.grid r' c) = _
  rw [s2]
  by_cases h1 : r' + 1 < t.h
  · have h2 : ¬ (r' = t.h - 1 ∧ 0 ≤ c ∧ c < 0 + (effCells line).length) := by omega
    simp only [h1, h2, if_true, if_false]
  · simp only [if_neg h1]
    by_cases h2 : c < (effCells line).length
    · rw [if_pos (by omega)]; simp
    · rw [if_neg (by omega), List.getElem?_eq_none (Nat.le_of_not_lt h2)]; rfl


/-! ### list-level lemmas for the full statement -/

namespace C07

/-- `scroll_down` without the cursor claims (no assumption on where the cursor is) -/
theorem scrollStep (t : Term) (hh : 0 < t.h) (hmax : t.h ≤ 1000001) (hmain : t.alt = none) (hbg : t.g = {}) :
    (exec t scrollDown).scrollback = t.scrollback ++ [t.row 0] ∧
    (∀ r c, (exec t scrollDown).grid r c = if r + 1 < t.h then t.grid (r + 1) c else blank) ∧
    (exec t scrollDown).g = t.g ∧ (exec t scrollDown).h = t.h ∧ (exec t scrollDown).w = t.w ∧
    (exec t scrollDown).alt = t.alt ∧ (exec t scrollDown).cursorVisible = t.cursorVisible := by
  have a1 : min 1000000 (t.h - 1) = t.h - 1 := by omega
  have a2 : ¬ (t.h - 1 + 1 < t.h) := by omega
  have a5 : (' ', ({ bg := t.g.bg } : Eff)) = blank := by rw [hbg]; rfl
  simp [scrollDown, Term.step, Term.index, Term.scrollUp, Term.erased, Term.row, a1, a2, a5, hmain]

theorem row_congr (t t' : Term) (r r' : Nat) (hw : t'.w = t.w) (h : ∀ c, c < t.w → t'.grid r' c = t.grid r c) :
    t'.row r' = t.row r := by
  unfold Term.row
  rw [hw]
  apply List.map_congr_left
  intro c hc
  exact h c (List.mem_range.mp hc)

theorem row_eq_pad (t : Term) (r : Nat) (cs : List TCell) (h : Shows t r cs) : t.row r = padRow t.w cs := by
  unfold Term.row padRow
  apply List.map_congr_left
  intro c hc
  exact h c (List.mem_range.mp hc)

theorem shows_of_row (t : Term) (r : Nat) (cs : List TCell) (h : t.row r = padRow t.w cs) : Shows t r cs := by
  intro c hc
  have := congrArg (fun l => l[c]?) h
  simp [Term.row, padRow, hc] at this
  exact this

theorem full_length (t : Term) : (full t).length = t.scrollback.length + t.h := by
  simp [full, Term.screen]

/-- list form of one iteration: one row is appended to `full` -/
theorem full_iter (t t' : Term) (cs : List TCell) (hh : 0 < t.h) (h' : t'.h = t.h) (w' : t'.w = t.w)
    (hsb : t'.scrollback = t.scrollback ++ [t.row 0])
    (hg : ∀ r c, r < t.h → c < t.w → t'.grid r c = if r + 1 < t.h then t.grid (r + 1) c else cs[c]?.getD blank) :
    full t' = full t ++ [padRow t.w cs] := by
  obtain ⟨n, hn⟩ : ∃ n, t.h = n + 1 := ⟨t.h - 1, by omega⟩
  have hrows : ∀ r, r < n → t'.row r = t.row (r + 1) := by
    intro r hr
    apply row_congr t t' (r + 1) r w'
    intro c hc
    rw [hg r c (by omega) hc, if_pos (by omega)]
  have hlast : t'.row n = padRow t.w cs := by
    rw [← w']
    apply row_eq_pad
    intro c hc
    rw [hg n c (by omega) (by rw [← w']; exact hc), if_neg (by omega)]
  have e1 : List.map t'.row (List.range (n + 1)) = List.map t'.row (List.range n) ++ [t'.row n] := by
    rw [List.range_succ]; simp
  have e2 : List.map t.row (List.range (n + 1)) = t.row 0 :: List.map (fun r => t.row (r + 1)) (List.range n) := by
    rw [List.range_succ_eq_map]; simp [List.map_map, Function.comp_def]
  have e3 : List.map t'.row (List.range n) = List.map (fun r => t.row (r + 1)) (List.range n) := by
    apply List.map_congr_left
    intro r hr
    exact hrows r (List.mem_range.mp hr)
  unfold full Term.screen
  rw [hsb, h', hn, e1, e2, e3, hlast]
  simp

/-- the cache after `{k - 1: v for k, v in current.items()}` -/
theorem get_shift (cur : RowCache) (row : Int) :
    RowCache.get (cur.map fun (k, v) => (k - 1, v)) row = cur.get (row + 1) := by
  unfold RowCache.get
  induction cur with
  | nil => rfl
  | cons p ps ih =>
    obtain ⟨k, v⟩ := p
    simp only [List.map_cons, List.lookup_cons]
    by_cases h : row = k - 1
    · have h2 : row + 1 = k := by omega
      simp [h, h2]
    · have h2 : ¬ (row + 1 = k) := by omega
      have e1 : (row == k - 1) = false := by simp [h]
      have e2 : (row + 1 == k) = false := by simp [h2]
      rw [e1, e2]; exact ih

/-- one iteration of the scroll loop, wherever the cursor is -/
theorem scrollIter (t : Term) (line : FmtStr) (hh : 0 < t.h) (hmax : t.h ≤ 1000001) (hmain : t.alt = none)
    (hbg : t.g = {}) (hesc : EscFree line) (hlen : len line ≤ t.w) :
    let t' := exec t (scrollDown ++ [.cup ((t.h : Int) - 1).toNat 0, .putStr (render line)])
    t'.scrollback = t.scrollback ++ [t.row 0] ∧
    (∀ r c, r < t.h → c < t.w → t'.grid r c = if r + 1 < t.h then t.grid (r + 1) c else (effCells line)[c]?.getD blank) ∧
    t'.h = t.h ∧ t'.w = t.w ∧ t'.alt = t.alt ∧ t'.cursorVisible = t.cursorVisible ∧ t'.g = {} := by
  intro t'
  obtain ⟨s1, s2, _, s7, s8, s9, s10⟩ := scrollStep t hh hmax hmain hbg
  have e : t' = exec (exec t scrollDown) [.cup (t.h - 1) 0, .put (effCells line) {}] := by
    show exec t _ = _
    rw [exec_append, putStr_render line hesc]
    have : ((t.h : Int) - 1).toNat = t.h - 1 := by omega
    rw [this]
  generalize exec t scrollDown = t1 at s1 s2 s7 s8 s9 s10 e
  let t2 : Term := { t1 with r := t.h - 1, c := 0, pw := false }
  have e1 : t1.step (.cup (t.h - 1) 0) = t2 := by
    have a : min (t.h - 1) (t1.h - 1) = t.h - 1 := by rw [s7]; omega
    simp [Term.step, a, t2]
  obtain ⟨f, r, gr, _⟩ := putCells (effCells line) t2 rfl (by
    show 0 + (effCells line).length ≤ t1.w
    rw [effCells_length, s8]; omega)
  have e2 : t' = { (effCells line).foldl Term.putCell t2 with g := {} } := by
    rw [e]; simp only [exec_cons, exec_nil, e1]; rfl
  rw [e2]
  refine ⟨by show ((effCells line).foldl Term.putCell t2).scrollback = _; rw [f.sb]; exact s1, ?_,
    by show ((effCells line).foldl Term.putCell t2).h = _; rw [f.h]; exact s7,
    by show ((effCells line).foldl Term.putCell t2).w = _; rw [f.w]; exact s8,
    by show ((effCells line).foldl Term.putCell t2).alt = _; rw [f.alt]; exact s9,
    by show ((effCells line).foldl Term.putCell t2).cursorVisible = _; rw [f.vis]; exact s10, rfl⟩
  intro r' c hrh hcw
  show ((effCells line).foldl Term.putCell t2).grid r' c = _
  rw [gr]
  show (if r' = t.h - 1 ∧ 0 ≤ c ∧ c < 0 + (effCells line).length then (effCells line)[c - 0]?.getD blank else t1.grid r' c) = _
  rw [s2]
  by_cases h1 : r' + 1 < t.h
  · have h2 : ¬ (r' = t.h - 1 ∧ 0 ≤ c ∧ c < 0 + (effCells line).length) := by omega
    simp only [h1, h2, if_true, if_false]
  · simp only [if_neg h1]
    by_cases h2 : c < (effCells line).length
    · rw [if_pos (by omega)]; simp
    · rw [if_neg (by omega), List.getElem?_eq_none (Nat.le_of_not_lt h2)]; rfl

/-- every screen row from `top` down shows what the cache being built says -/
def RowsShow (t : Term) (cur : RowCache) (top : Int) : Prop :=
  ∀ row : Nat, top ≤ (row : Int) → row < t.h → Shows t row (cacheCells cur (row : Int))

theorem scrollLoop_spec (h : Nat) :
    ∀ (lines : List FmtStr) (top off : Int) (cur : RowCache) (t : Term),
      t.h = h → 0 < h → h ≤ 1000001 → t.alt = none → t.g = {} → 0 ≤ top →
      (∀ l ∈ lines, EscFree l ∧ len l ≤ t.w) → CacheEsc cur → RowsShow t cur top →
      full (exec t (scrollLoop h lines top off cur).2.2.2) = full t ++ lines.map (fun l => padRow t.w (effCells l)) ∧
      (exec t (scrollLoop h lines top off cur).2.2.2).h = t.h ∧
      (exec t (scrollLoop h lines top off cur).2.2.2).w = t.w ∧
      (exec t (scrollLoop h lines top off cur).2.2.2).alt = t.alt ∧
      (exec t (scrollLoop h lines top off cur).2.2.2).cursorVisible = t.cursorVisible ∧
      (exec t (scrollLoop h lines top off cur).2.2.2).g = {} ∧
      (exec t (scrollLoop h lines top off cur).2.2.2).scrollback.length = t.scrollback.length + lines.length ∧
      CacheEsc (scrollLoop h lines top off cur).2.2.1 ∧
      RowsShow (exec t (scrollLoop h lines top off cur).2.2.2) (scrollLoop h lines top off cur).2.2.1
        (scrollLoop h lines top off cur).1 := by
  intro lines
  induction lines with
  | nil =>
    intro top off cur t _ _ _ _ hbg _ _ hesc hrs
    exact ⟨by simp [scrollLoop], rfl, rfl, rfl, rfl, hbg, rfl, hesc, hrs⟩
  | cons line rest ih =>
    intro top off cur t hth hh hmax hmain hbg htop hl hesc hrs
    subst hth
    rw [scrollLoop_cons]
    simp only []
    rw [exec_append]
    have hline := hl line List.mem_cons_self
    obtain ⟨i1, i2, i3, i4, i5, i6, i7⟩ := scrollIter t line hh hmax hmain hbg hline.1 hline.2
    have hfull := full_iter t _ (effCells line) hh i3 i4 i1 i2
    generalize exec t (scrollDown ++ [.cup ((t.h : Int) - 1).toNat 0, .putStr (render line)]) = t1
      at i1 i2 i3 i4 i5 i6 i7 hfull
    generalize htop1 : (if top > 0 then top - 1 else top) = top1
    have htop1' : 0 ≤ top1 ∧ top - 1 ≤ top1 := by
      rw [← htop1]; split <;> omega
    generalize hcur1 : RowCache.set (cur.map fun (k, v) => (k - 1, v)) ((t.h : Int) - 1) (some line) = cur1
    have hget1 : ∀ row : Int, cur1.get row = if row = (t.h : Int) - 1 then some (some line) else cur.get (row + 1) := by
      intro row; rw [← hcur1, get_set, get_shift]
    have hesc1 : CacheEsc cur1 := by
      intro row l hg
      rw [hget1] at hg
      by_cases hr : row = (t.h : Int) - 1
      · rw [if_pos hr] at hg; cases hg; exact hline.1
      · rw [if_neg hr] at hg; exact hesc _ _ hg
    have hrs1 : RowsShow t1 cur1 top1 := by
      intro row h1 h2
      rw [i3] at h2
      unfold cacheCells
      rw [hget1]
      by_cases hr : row + 1 < t.h
      · rw [if_neg (by omega)]
        have e : ((row : Int) + 1) = ((row + 1 : Nat) : Int) := by omega
        rw [e]
        have := hrs (row + 1) (by omega) hr
        unfold cacheCells at this
        intro c hc
        rw [i4] at hc
        rw [i2 row c h2 hc, if_pos hr]
        exact this c hc
      · rw [if_pos (by omega)]
        intro c hc
        rw [i4] at hc
        rw [i2 row c h2 hc, if_neg hr]
    obtain ⟨j1, j2, j3, j4, j5, j6, j7, j8, j9⟩ := ih top1 (if top > 0 then off else off + 1) cur1 t1 i3 hh hmax
      (by rw [i5]; exact hmain) i7 htop1'.1 (fun l hl' => by rw [i4]; exact hl l (List.mem_cons_of_mem _ hl')) hesc1 hrs1
    refine ⟨?_, by rw [j2, i3], by rw [j3, i4], by rw [j4, i5], by rw [j5, i6], j6, ?_, j8, j9⟩
    · rw [j1, hfull, i4]; simp
    · rw [j7, i1]; simp; omega


/-- list form of the part that fits: above row `k` nothing changed, from row `k` the lines `L`, then blanks -/
theorem full_fit (t t2 : Term) (k : Nat) (L : List FmtStr) (hk : k + L.length ≤ t.h)
    (h' : t2.h = t.h) (w' : t2.w = t.w) (hsb : t2.scrollback = t.scrollback)
    (habove : ∀ r c, r < k → t2.grid r c = t.grid r c)
    (hshow : ∀ i, k + i < t.h → Shows t2 (k + i) (match L[i]? with | some l => effCells l | none => [])) :
    full t2 = (full t).take (t.scrollback.length + k) ++ L.map (fun l => padRow t.w (effCells l)) ++
      List.replicate (t.h - k - L.length) (padRow t.w []) := by
  have hscreen : t2.screen = t.screen.take k ++ L.map (fun l => padRow t.w (effCells l)) ++
      List.replicate (t.h - k - L.length) (padRow t.w []) := by
    apply List.ext_getElem?
    intro j
    unfold Term.screen
    rw [h']
    by_cases h1 : j < k
    · have : t2.row j = t.row j := row_congr t t2 j j w' (fun c _ => habove j c h1)
      have hlen : (List.take k (List.map t.row (List.range t.h))).length = k := by simp; omega
      rw [List.append_assoc, List.getElem?_append_left (by rw [hlen]; exact h1)]
      simp [List.getElem?_take, h1, this, (by omega : j < t.h)]
    · by_cases h2 : j < k + L.length
      · obtain ⟨i, rfl⟩ : ∃ i, j = k + i := ⟨j - k, by omega⟩
        have hi : i < L.length := by omega
        have := row_eq_pad t2 (k + i) _ (hshow i (by omega))
        rw [List.getElem?_eq_getElem hi, w'] at this
        have hlen : (List.take k (List.map t.row (List.range t.h))).length = k := by simp; omega
        rw [List.append_assoc, List.getElem?_append_right (by rw [hlen]; omega), hlen,
          List.getElem?_append_left (by simp; omega)]
        simp [(by omega : k + i < t.h), this, hi]
      · by_cases h3 : j < t.h
        · obtain ⟨i, rfl⟩ : ∃ i, j = k + i := ⟨j - k, by omega⟩
          have := row_eq_pad t2 (k + i) _ (hshow i (by omega))
          rw [List.getElem?_eq_none (by omega), w'] at this
          have hlen : (List.take k (List.map t.row (List.range t.h)) ++ L.map (fun l => padRow t.w (effCells l))).length
              = k + L.length := by simp; omega
          rw [List.getElem?_append_right (by rw [hlen]; omega), hlen]
          simp [h3, this, List.getElem?_replicate]
          omega
        · have hlen : (List.take k (List.map t.row (List.range t.h)) ++ L.map (fun l => padRow t.w (effCells l)) ++
              List.replicate (t.h - k - L.length) (padRow t.w [])).length = t.h := by simp; omega
          rw [List.getElem?_eq_none (by simp; omega), List.getElem?_eq_none (by rw [hlen]; omega)]
  have e : (t.scrollback ++ t.screen).take (t.scrollback.length + k) = t.scrollback ++ t.screen.take k := by
    simp [List.take_append]
    exact List.take_of_length_le (by omega)
  unfold full
  rw [hsb, hscreen, e]
  simp [List.append_assoc]

end C07


/-! ### the full statement for one render -/

/-- clauses (a)-(g) of the property for one render with result `res = (window after, operations written, returned)` -/
structure C07.RenderPost (win : CAWin) (t : Term) (arr : List FmtStr) (pos : Nat × Nat)
    (res : CAWin × List TermOp × Int) : Prop where
  /-- (a)+(b): everything above the window's first row is still there, unaltered (in the scrollback or on screen);
      from there on the terminal shows exactly the array, then blank rows -/
  shown : full (exec t res.2.1) = (full t).take (t.scrollback.length + win.top.toNat) ++
      arr.map (fun l => padRow t.w (effCells l)) ++ List.replicate (t.h - win.top.toNat - arr.length) (padRow t.w [])
  /-- (c) it scrolled exactly as many lines as the array does not fit -/
  scrolled : (exec t res.2.1).scrollback.length = t.scrollback.length + (arr.length - (t.h - win.top.toNat))
  /-- (d) returned = array rows pushed off the top of the screen -/
  returned : res.2.2 = ((arr.length - (t.h - win.top.toNat) - win.top.toNat : Nat) : Int)
  /-- (e) the new origin -/
  origin : res.1.top = ((win.top.toNat - (arr.length - (t.h - win.top.toNat)) : Nat) : Int)
  /-- (f) the cursor is on the cell cursor_pos designates (row 0 if that row was pushed off) -/
  cursorRow : (exec t res.2.1).r = res.1.top.toNat + pos.1 - (arr.length - (t.h - win.top.toNat) - win.top.toNat)
  /-- the column is cursor_pos's column (a column beyond the last one is clamped to it by the terminal) -/
  cursorCol : (exec t res.2.1).c = min pos.2 (t.w - 1)
  noPendingWrap : (exec t res.2.1).pw = false
  lastRow : res.1.lastCursorRow = some ((exec t res.2.1).r : Int)
  visible : (exec t res.2.1).cursorVisible = (if win.hideCursor then t.cursorVisible else true)
  height : (exec t res.2.1).h = t.h
  width : (exec t res.2.1).w = t.w
  bg : (exec t res.2.1).g = {}
  /-- (g) -/
  rel : Rel res.1 (exec t res.2.1)

theorem C07.full_congr (t t' : Term) (h : t'.h = t.h) (w : t'.w = t.w) (sb : t'.scrollback = t.scrollback)
    (g : t'.grid = t.grid) : full t' = full t := by
  simp [full, Term.screen, Term.row, h, w, sb, g]

theorem C07_render_partial (u : UEnv) (win : CAWin) (t : Term) (arr : List FmtStr) (pos : Nat × Nat)
    (hrel : Rel win t) (hbg : t.g = {}) (hmax : t.h ≤ 1000001)
    (hrows0 : ∀ l ∈ arr, Glyphs u l ∧ len l ≤ t.w)
    (hpos : pos.1 < arr.length ∨ (arr = [] ∧ pos.1 = 0)) :
    RenderPost win t arr pos (renderCursorAware win t.h t.w arr pos) := by
  have hrows : ∀ l ∈ arr, EscFree l ∧ len l ≤ t.w := fun l hl => ⟨(hrows0 l hl).1.1.escFree, (hrows0 l hl).2⟩
  rw [renderCursorAware_eq]
  simp only []
  generalize hk : win.top.toNat = k
  have htopk : win.top = (k : Int) := by have := hrel.top.1; omega
  have hkh : k < t.h := by have := hrel.top.2; omega
  generalize hwin0 : (if win.lastH ≠ some t.h ∨ win.lastW ≠ some t.w
        then ({ win with cache := [], lastH := some t.h, lastW := some t.w } : CAWin) else win) = win0
  have e1 : win0.top = (k : Int) := by rw [← hwin0, ← htopk]; split <;> rfl
  have hhide : win0.hideCursor = win.hideCursor := by rw [← hwin0]; split <;> rfl
  have hsize : win0.lastH = some t.h ∧ win0.lastW = some t.w := by
    rw [← hwin0]
    by_cases hc : win.lastH ≠ some t.h ∨ win.lastW ≠ some t.w
    · rw [if_pos hc]; exact ⟨rfl, rfl⟩
    · rw [if_neg hc]
      exact ⟨Classical.not_not.mp fun h => hc (Or.inl h), Classical.not_not.mp fun h => hc (Or.inr h)⟩
  have hold : CacheEsc win0.cache := by
    rw [← hwin0]
    by_cases hc : win.lastH ≠ some t.h ∨ win.lastW ≠ some t.w
    · rw [if_pos hc]; intro _ _ h; simp [get_nil] at h
    · rw [if_neg hc]; exact hrel.esc
  generalize hpre : exec t (if (!win.hideCursor) = true then [TermOp.hide] else []) = t0
  have f0 : t0.h = t.h ∧ t0.w = t.w ∧ t0.scrollback = t.scrollback ∧ t0.g = t.g ∧ t0.grid = t.grid ∧
      t0.alt = t.alt ∧ t0.cursorVisible = (if win.hideCursor then t.cursorVisible else false) := by
    rw [← hpre]; cases win.hideCursor <;> simp [Term.step]
  obtain ⟨f0h, f0w, f0sb, f0g, f0grid, f0alt, f0vis⟩ := f0
  have hcoh0 : Coherent win0.cache t0 k := by
    rw [← hwin0]
    by_cases hc : win.lastH ≠ some t.h ∨ win.lastW ≠ some t.w
    · rw [if_pos hc]; intro h; exact absurd rfl h
    · rw [if_neg hc]
      have := hrel.coh (Classical.not_not.mp fun h => hc (Or.inl h)) (Classical.not_not.mp fun h => hc (Or.inr h))
      rw [hk] at this
      intro hne row h1 h2
      exact Shows.congr f0w (fun c => by rw [f0grid]) (this hne row h1 (by rw [← f0h]; exact h2))
  -- the row lists; `s` rows are shared between the array and the rows available
  have hrows' : pyRange win0.top (t.h : Int) = intRows k (t.h - k) := by rw [e1, pyRange_eq]
  rw [hrows', intRows_length]
  generalize hs : min arr.length (t.h - k) = s
  have hs1 : s ≤ arr.length := by omega
  have hs2 : s ≤ t.h - k := by omega
  have hs3 : s = arr.length ∨ (s = t.h - k ∧ t.h - k ≤ arr.length) := by omega
  rw [intRows_take k (t.h - k) s hs2, intRows_drop]
  have hLlen : (arr.take s).length = s := by rw [List.length_take]; omega
  have hL : ∀ l ∈ arr.take s, EscFree l ∧ len l ≤ t.w := fun l hl => hrows l (List.mem_of_mem_take hl)
  have p1 := contentLoop_spec win0.cache t.w id hold (arr.take s) k s [] t0 f0w (by rw [hLlen]; exact Nat.le_refl _)
    (by rw [f0h, hLlen]; omega) (by rw [f0g]; exact hbg) hL hcoh0
  generalize (contentLoop win0.cache t.w id (intRows k s) (arr.take s) []) = c1 at p1
  generalize ht1 : exec t0 c1.2 = t1 at p1
  have hcoh1 : Coherent win0.cache t1 (k + s) := by
    intro hne row h1 h2
    have := hcoh0 hne row (by omega) (by rw [← p1.frame.h]; exact h2)
    exact Shows.congr p1.frame.w (p1.others row (Or.inr (by rw [hLlen]; exact h1))) this
  have p2 := blankLoop_spec win0.cache (t.h - k - s) (k + s) c1.1 t1
    (fun _ => by rw [p1.frame.h, f0h]; omega) p1.bg hcoh1
  generalize (blankLoop win0.cache (intRows (k + s) (t.h - k - s)) c1.1) = c2 at p2
  generalize ht2 : exec t1 c2.2 = t2 at p2
  have h2h : t2.h = t.h := by rw [p2.frame.h, p1.frame.h, f0h]
  have h2w : t2.w = t.w := by rw [p2.frame.w, p1.frame.w, f0w]
  have h2sb : t2.scrollback = t.scrollback := by rw [p2.frame.sb, p1.frame.sb, f0sb]
  have h2alt : t2.alt = none := by rw [p2.frame.alt, p1.frame.alt, f0alt]; exact hrel.main
  have hshow : ∀ i, k + i < t.h → Shows t2 (k + i) (match (arr.take s)[i]? with | some l => effCells l | none => []) := by
    intro i hi
    by_cases hin : i < s
    · have hin' : i < (arr.take s).length := by rw [hLlen]; exact hin
      rw [List.getElem?_eq_getElem hin']
      exact Shows.congr p2.frame.w (p2.others (k + i) (Or.inl (by omega))) (p1.shows i hin')
    · rw [List.getElem?_eq_none (by rw [hLlen]; omega)]
      exact p2.shows (k + i) (by omega) (by omega)
  have hcacheIn : ∀ i (hi : i < (arr.take s).length), c2.1.get ((k + i : Nat) : Int) = some (some (arr.take s)[i]) := by
    intro i hi
    rw [p2.cacheOut _ (Or.inl (by rw [hLlen] at hi; omega))]
    exact p1.cacheIn i hi
  have hcacheOut : ∀ row : Int, (row < (k : Int) ∨ ((k + s : Nat) : Int) ≤ row) →
      c2.1.get row = some none ∨ c2.1.get row = none := by
    intro row hrow
    have hc1 : c1.1.get row = none := by rw [p1.cacheOut row (by rw [hLlen]; exact hrow)]; rfl
    by_cases hin : ((k + s : Nat) : Int) ≤ row ∧ row < (t.h : Int)
    · obtain ⟨r, rfl⟩ : ∃ r : Nat, row = (r : Int) := ⟨row.toNat, by omega⟩
      rcases p2.cacheIn r (by omega) (by omega) with h | h
      · exact Or.inl h
      · exact Or.inr (by rw [h, hc1])
    · exact Or.inr (by rw [p2.cacheOut row (by omega), hc1])
  have hesc2 : CacheEsc c2.1 := by
    intro row l hget
    by_cases hin : (k : Int) ≤ row ∧ row < ((k + s : Nat) : Int)
    · obtain ⟨i, rfl⟩ : ∃ i : Nat, row = ((k + i : Nat) : Int) := ⟨(row - k).toNat, by omega⟩
      have hi : i < (arr.take s).length := by rw [hLlen]; omega
      rw [hcacheIn i hi] at hget
      cases hget
      exact (hL _ (List.getElem_mem hi)).1
    · rcases hcacheOut row (by omega) with h | h <;> rw [h] at hget <;> cases hget
  have hrs2 : RowsShow t2 c2.1 (k : Int) := by
    intro row h1 h2
    rw [h2h] at h2
    obtain ⟨i, rfl⟩ : ∃ i, row = k + i := ⟨row - k, by omega⟩
    have := hshow i h2
    unfold cacheCells
    by_cases hi : i < s
    · have hi' : i < (arr.take s).length := by rw [hLlen]; exact hi
      rw [hcacheIn i hi']
      rw [List.getElem?_eq_getElem hi'] at this
      exact this
    · rw [List.getElem?_eq_none (by rw [hLlen]; omega)] at this
      rcases hcacheOut ((k + i : Nat) : Int) (by omega) with h | h <;> rw [h] <;> exact this
  have hfull2 := full_fit t t2 k (arr.take s) (by rw [hLlen]; omega) h2h h2w h2sb
    (fun r c hr => by rw [p2.others r (Or.inl (by omega)) c, p1.others r (Or.inl hr) c, f0grid]) hshow
  rw [hLlen] at hfull2
  -- the scroll loop
  have p3 := scrollLoop_spec t.h (arr.drop s) win0.top 0 c2.1 t2 h2h (by omega) hmax h2alt p2.bg (by rw [e1]; omega)
    (fun l hl => by rw [h2w]; exact hrows l (List.mem_of_mem_drop hl)) hesc2 (by rw [e1]; exact hrs2)
  have acc := scrollLoop_accounting t.h (arr.drop s) win0.top 0 c2.1 (by rw [e1]; omega)
  have hdl : (arr.drop s).length = arr.length - (t.h - k) := by rw [List.length_drop]; omega
  rw [hdl] at p3
  generalize scrollLoop t.h (arr.drop s) win0.top 0 c2.1 = c3 at p3 acc
  rw [hdl, e1] at acc
  obtain ⟨a1, a2, _⟩ := acc
  obtain ⟨q1, q2, q3, q4, q5, q6, q7, q8, q9⟩ := p3
  generalize ht3 : exec t2 c3.2.2.2 = t3 at q1 q2 q3 q4 q5 q6 q7 q9
  have hrow : max 0 ((pos.1 : Int) - c3.2.1 + c3.1) =
      ((c3.1.toNat + pos.1 - (arr.length - (t.h - k) - k) : Nat) : Int) := by
    rw [a1, a2]; omega
  rw [hrow, Int.toNat_natCast]
  generalize hR : c3.1.toNat + pos.1 - (arr.length - (t.h - k) - k) = R
  have hRh : R < t.h := by
    rw [← hR, a1]
    rcases hpos with h | ⟨h, h'⟩
    · omega
    · have : arr.length = 0 := by rw [h]; rfl
      omega
  clear hpos
  generalize hfin : exec (exec t3 [TermOp.cup R pos.2]) (if (!win0.hideCursor) = true then [TermOp.show] else []) = t4
  have f4 : t4.h = t3.h ∧ t4.w = t3.w ∧ t4.scrollback = t3.scrollback ∧ t4.g = t3.g ∧ t4.grid = t3.grid ∧
      t4.alt = t3.alt ∧ t4.r = min R (t3.h - 1) ∧ t4.c = min pos.2 (t3.w - 1) ∧ t4.pw = false ∧
      t4.cursorVisible = (if win0.hideCursor then t3.cursorVisible else true) := by
    rw [← hfin]; cases win0.hideCursor <;> simp [Term.step]
  obtain ⟨f4h, f4w, f4sb, f4g, f4grid, f4alt, f4r, f4c, f4pw, f4vis⟩ := f4
  have h4r : t4.r = R := by rw [f4r, q2, h2h]; omega
  have hexec : exec t ((if (!win.hideCursor) = true then [TermOp.hide] else []) ++ c1.2 ++ c2.2 ++ c3.2.2.2 ++
      [TermOp.cup R pos.2] ++ (if (!win0.hideCursor) = true then [TermOp.show] else [])) = t4 := by
    rw [exec_append, exec_append, exec_append, exec_append, exec_append, hpre, ht1, ht2, ht3]; exact hfin
  refine
    { shown := ?_, scrolled := ?_, returned := ?_, origin := ?_, cursorRow := ?_, cursorCol := ?_,
      noPendingWrap := ?_, lastRow := ?_, visible := ?_, height := ?_, width := ?_, bg := ?_, rel := ?_ }
  · dsimp only; rw [hexec, hk]
    rw [full_congr t3 t4 f4h f4w f4sb f4grid, q1, hfull2, h2w]
    rcases hs3 with h | ⟨h, h'⟩
    · subst h
      simp
    · have e0 : t.h - k - s = 0 := by rw [h]; exact Nat.sub_self _
      have e0' : t.h - k - arr.length = 0 := Nat.sub_eq_zero_of_le h'
      rw [e0, e0']
      simp only [List.replicate_zero, List.append_nil, List.append_assoc, ← List.map_append, List.take_append_drop]
  · dsimp only; rw [hexec, hk]
    rw [f4sb, q7, h2sb]
  · dsimp only; rw [hk, a2]; omega
  · dsimp only; rw [hk]; exact a1
  · dsimp only; rw [hexec, hk]
    rw [h4r, ← hR]
  · dsimp only; rw [hexec]
    rw [f4c, q3, h2w]
  · dsimp only; rw [hexec]; exact f4pw
  · dsimp only; rw [hexec]
    rw [h4r]
  · dsimp only; rw [hexec]
    rw [f4vis, q5, p2.frame.vis, p1.frame.vis, f0vis, hhide]
    cases win.hideCursor <;> simp
  · dsimp only; rw [hexec]
    rw [f4h, q2, h2h]
  · dsimp only; rw [hexec]
    rw [f4w, q3, h2w]
  · dsimp only; rw [hexec]
    rw [f4g]; exact q6
  · dsimp only; rw [hexec]
    refine ⟨q8, ?_, ?_, ?_⟩
    · show 0 ≤ c3.1 ∧ c3.1 < (t4.h : Int)
      rw [f4h, q2, h2h, a1]; omega
    · show t4.alt = none
      rw [f4alt, q4]; exact h2alt
    · intro _ _ _ row hrow1 hrow2
      simp only at hrow1 hrow2 ⊢
      rw [f4h] at hrow2
      exact Shows.congr (t := t3) f4w (fun c => by rw [f4grid]) (q9 row (by omega) hrow2)



/-! ### histories -/

/-- the property's domain for a sequence of renders: rows ESC-free and no wider than the terminal, cursor_pos on a
    cell of the array -/
def C07.ValidSeq (u : UEnv) : CAWin → Term → List (List FmtStr × (Nat × Nat)) → Prop
  | _, _, [] => True
  | win, t, (arr, pos) :: rest =>
    (∀ l ∈ arr, Glyphs u l ∧ len l ≤ t.w) ∧ (pos.1 < arr.length ∨ (arr = [] ∧ pos.1 = 0)) ∧
    C07.ValidSeq u (renderCursorAware win t.h t.w arr pos).1 (exec t (renderCursorAware win t.h t.w arr pos).2.1) rest

/-- Over ANY sequence of renders (fitting or scrolling): the relation is maintained, and everything that was above the
    window's first row at the start — scrollback and screen rows — is still there, in order and unaltered: it only
    ever moves up. -/
theorem C07_run_rel (u : UEnv) (steps more : List (List FmtStr × (Nat × Nat))) :
    ∀ (win : CAWin) (t : Term), Rel win t → t.g = {} → t.h ≤ 1000001 → C07.ValidSeq u win t (steps ++ more) →
      Rel (C07.run win t steps).1 (C07.run win t steps).2 ∧ (C07.run win t steps).2.g = {} ∧
      (C07.run win t steps).2.h = t.h ∧
      (full (C07.run win t steps).2).take (t.scrollback.length + win.top.toNat) =
        (full t).take (t.scrollback.length + win.top.toNat) ∧
      t.scrollback.length + win.top.toNat ≤
        (C07.run win t steps).2.scrollback.length + (C07.run win t steps).1.top.toNat ∧
      C07.ValidSeq u (C07.run win t steps).1 (C07.run win t steps).2 more := by
  induction steps with
  | nil => intro win t hr hb _ hv; exact ⟨hr, hb, rfl, rfl, Nat.le_refl _, hv⟩
  | cons st rest ih =>
    intro win t hr hb hmax hv
    obtain ⟨arr, pos⟩ := st
    obtain ⟨h1, h2, h3⟩ := hv
    have r := C07_render_partial u win t arr pos hr hb hmax h1 h2
    obtain ⟨i1, i2, i3, i4, i5, i6⟩ := ih _ _ r.rel r.bg (by rw [r.height]; exact hmax) h3
    have hcut : t.scrollback.length + win.top.toNat ≤ (full t).length := by
      rw [full_length]; have := hr.top.2; omega
    have hmono : t.scrollback.length + win.top.toNat ≤
        (exec t (renderCursorAware win t.h t.w arr pos).2.1).scrollback.length +
          (renderCursorAware win t.h t.w arr pos).1.top.toNat := by
      rw [r.scrolled, r.origin]; omega
    have hstep : (full (exec t (renderCursorAware win t.h t.w arr pos).2.1)).take (t.scrollback.length + win.top.toNat)
        = (full t).take (t.scrollback.length + win.top.toNat) := by
      rw [r.shown, List.append_assoc, List.take_append_of_le_length (by rw [List.length_take]; omega),
        List.take_take, Nat.min_self]
    refine ⟨i1, i2, by rw [C07.run, i3, r.height], ?_, by rw [C07.run]; omega, i6⟩
    rw [C07.run]
    have := congrArg (List.take (t.scrollback.length + win.top.toNat)) i4
    rw [List.take_take, List.take_take, Nat.min_eq_left hmono] at this
    rw [this, hstep]

/-- After EVERY render of every history of renders — whatever was rendered before, however much scrolled — all the
    clauses (a)-(g) of `C07.RenderPost` hold for that render (relative to the terminal just before it), and everything
    that was above the window's first row at the very start is still there unaltered. -/
theorem C07_history_partial (u : UEnv) (steps : List (List FmtStr × (Nat × Nat))) (arr : List FmtStr) (pos : Nat × Nat)
    (win : CAWin) (t : Term) (hrel : Rel win t) (hg : t.g = {}) (hmax : t.h ≤ 1000001)
    (hv : C07.ValidSeq u win t (steps ++ [(arr, pos)])) :
    RenderPost (C07.run win t steps).1 (C07.run win t steps).2 arr pos
      (renderCursorAware (C07.run win t steps).1 (C07.run win t steps).2.h (C07.run win t steps).2.w arr pos) ∧
    (full (C07.run win t (steps ++ [(arr, pos)])).2).take (t.scrollback.length + win.top.toNat) =
      (full t).take (t.scrollback.length + win.top.toNat) := by
  obtain ⟨i1, i2, i3, _, _, i6⟩ := C07_run_rel u steps [(arr, pos)] win t hrel hg hmax hv
  obtain ⟨h1, h2, _⟩ := i6
  refine ⟨C07_render_partial u _ _ arr pos i1 i2 (by rw [i3]; exact hmax) h1 h2, ?_⟩
  have := C07_run_rel u (steps ++ [(arr, pos)]) [] win t hrel hg hmax (by simpa using hv)
  exact this.2.2.2.1

/-- C07 and C18 composed: after a render the window knows the terminal's cursor row (`lastRow`); if the terminal
    content then moves by `k` rows (the cursor with it) the next `_get_cursor_vertical_diff_once` accounts for
    exactly `k`: (change of top_usable_row) + returned = k. -/
theorem C07_then_diff (win : CAWin) (t : Term) (arr : List FmtStr) (pos : Nat × Nat) (k : Int)
    (h : RenderPost win t arr pos (renderCursorAware win t.h t.w arr pos)) :
    ((diffOnce (renderCursorAware win t.h t.w arr pos).1
        (((exec t (renderCursorAware win t.h t.w arr pos).2.1).r : Int) + k)).1.top -
      (renderCursorAware win t.h t.w arr pos).1.top) +
    (diffOnce (renderCursorAware win t.h t.w arr pos).1
        (((exec t (renderCursorAware win t.h t.w arr pos).2.1).r : Int) + k)).2 = k := by
  have c := (C18_conserve (renderCursorAware win t.h t.w arr pos).1
    (((exec t (renderCursorAware win t.h t.w arr pos).2.1).r : Int) + k)).2
  rw [h.lastRow] at c
  simp only at c
  omega

/-! ### leaving the context -/

/-- `__exit__` touches only rows from the cursor row down (below it when keep_last_line is set); when the cursor is
    on the bottom row and keep_last_line is set the screen scrolls one line (the top row goes to scrollback, nothing
    is lost) and the new bottom row is blank. -/
theorem C07_exit (win : CAWin) (t : Term) (hr : t.r < t.h) (hbg : t.g = {}) (hmain : t.alt = none) :
    (win.keepLastLine = false →
      (exec t (cursorAwareExit win)).scrollback = t.scrollback ∧
      (∀ r c, r < t.r → (exec t (cursorAwareExit win)).grid r c = t.grid r c) ∧
      (∀ r c, t.r ≤ r → (exec t (cursorAwareExit win)).grid r c = blank)) ∧
    (win.keepLastLine = true → t.r + 1 < t.h →
      (exec t (cursorAwareExit win)).scrollback = t.scrollback ∧
      (∀ r c, r ≤ t.r → (exec t (cursorAwareExit win)).grid r c = t.grid r c) ∧
      (∀ r c, t.r < r → (exec t (cursorAwareExit win)).grid r c = blank)) ∧
    (win.keepLastLine = true → t.r + 1 = t.h →
      (exec t (cursorAwareExit win)).scrollback = t.scrollback ++ [t.row 0] ∧
      (∀ r c, r + 1 < t.h → (exec t (cursorAwareExit win)).grid r c = t.grid (r + 1) c) ∧
      (∀ r c, t.h ≤ r + 1 → (exec t (cursorAwareExit win)).grid r c = blank)) ∧
    (exec t (cursorAwareExit win)).cursorVisible = (if win.hideCursor then true else t.cursorVisible) ∧
    (exec t (cursorAwareExit win)).h = t.h ∧ (exec t (cursorAwareExit win)).w = t.w := by
  have her : (' ', ({ bg := t.g.bg } : Eff)) = blank := by rw [hbg]; rfl
  refine ⟨?_, ?_, ?_, ?_, ?_, ?_⟩
  · intro hk
    refine ⟨?_, ?_, ?_⟩
    · cases hh : win.hideCursor <;> simp [cursorAwareExit, hk, hh, Term.step]
    · intro r c hlt
      cases hh : win.hideCursor <;> simp [cursorAwareExit, hk, hh, Term.step, Term.erased] <;> (repeat' split) <;> intros <;> first | rfl | exact her | (exfalso; omega)
    · intro r c hle
      cases hh : win.hideCursor <;> simp [cursorAwareExit, hk, hh, Term.step, Term.erased, her] <;> (repeat' split) <;> intros <;> first | rfl | exact her | (exfalso; omega)
  · intro hk hlt
    refine ⟨?_, ?_, ?_⟩
    · cases hh : win.hideCursor <;> simp [cursorAwareExit, hk, hh, Term.step, Term.index, hlt]
    · intro r c hle
      cases hh : win.hideCursor <;> simp [cursorAwareExit, hk, hh, Term.step, Term.index, hlt, Term.erased] <;> (repeat' split) <;> intros <;> first | rfl | exact her | (exfalso; omega)
    · intro r c hgt
      cases hh : win.hideCursor <;> simp [cursorAwareExit, hk, hh, Term.step, Term.index, hlt, Term.erased, her] <;> (repeat' split) <;> intros <;> first | rfl | exact her | (exfalso; omega)
  · intro hk heq
    have hnlt : ¬ (t.r + 1 < t.h) := by omega
    refine ⟨?_, ?_, ?_⟩
    · cases hh : win.hideCursor <;> simp [cursorAwareExit, hk, hh, Term.step, Term.index, hnlt, Term.scrollUp, hmain]
    · intro r c hlt
      cases hh : win.hideCursor <;>
        simp [cursorAwareExit, hk, hh, Term.step, Term.index, hnlt, Term.scrollUp, Term.erased, hlt] <;> (repeat' split) <;> intros <;> first | rfl | exact her | (exfalso; omega)
    · intro r c hge
      have : ¬ (r + 1 < t.h) := by omega
      cases hh : win.hideCursor <;>
        simp [cursorAwareExit, hk, hh, Term.step, Term.index, hnlt, Term.scrollUp, Term.erased, her, this]
  · cases hh : win.hideCursor <;> cases hk : win.keepLastLine <;>
      simp [cursorAwareExit, hk, hh, Term.step, Term.index, Term.scrollUp] <;> split <;> rfl
  · cases hh : win.hideCursor <;> cases hk : win.keepLastLine <;>
      simp [cursorAwareExit, hk, hh, Term.step, Term.index, Term.scrollUp] <;> split <;> rfl
  · cases hh : win.hideCursor <;> cases hk : win.keepLastLine <;>
      simp [cursorAwareExit, hk, hh, Term.step, Term.index, Term.scrollUp] <;> split <;> rfl


/-! ### entering the context -/

theorem C07.chars_map_char (l : List Char) : C18.chars (l.map Read.char) = l := by
  induction l with
  | nil => rfl
  | cons x xs ih => simp [C18.chars, ih]

theorem C07.sane_ascii : C18.SaneDigits Spec.digitVal := ⟨by decide, by decide, by decide, by decide⟩

/-- `__enter__`: the window asks the terminal where the cursor is (`ESC[6n`); the terminal's own answer, read back
    through `get_cursor_position`, makes `top_usable_row` the terminal's cursor row (whatever that row and column are),
    leaves nothing unread and calls no callback. -/
theorem C07_enter (win : CAWin) (t : Term) (cb : Bool) :
    ∃ reply, (exec t [.dsr]).replies = t.replies ++ [reply] ∧
      (cursorAwareEnter Spec.digitVal cb win (reply.map Read.char)).map (fun x => (x.1, x.2.1)) =
        some (.ok { win with top := (t.r : Int) }, [TermOp.dsr] ++ (if win.hideCursor then [TermOp.hide] else [])) := by
  refine ⟨[Spec.ESC, '['] ++ decimal (t.r + 1) ++ [';'] ++ decimal (t.c + 1) ++ ['R'], rfl, ?_⟩
  have h1 := C18_decimal (t.r + 1)
  have h2 := C18_decimal (t.c + 1)
  have hp := C18_parse Spec.digitVal sane_ascii cb [] [Curtsies.ESC, '['] (decimal (t.r + 1)) (decimal (t.c + 1))
    (([Curtsies.ESC, '['] ++ decimal (t.r + 1) ++ [';'] ++ decimal (t.c + 1)).map Read.char) []
    (Or.inl rfl) h1.1 h2.1 (by
      intro a b c h hrs
      obtain ⟨csi, d1, d2, _, _, _, e⟩ := hrs
      have : b = [] := by
        have := congrArg List.length h
        simp at this
        cases b with
        | nil => rfl
        | cons x xs => simp at this; omega
      rw [this] at e
      have := congrArg List.length e
      simp at this)
    (by rw [chars_map_char]; simp) (by simp)
  have e : ([Spec.ESC, '['] ++ decimal (t.r + 1) ++ [';'] ++ decimal (t.c + 1) ++ ['R']).map Read.char =
      (([Curtsies.ESC, '['] ++ decimal (t.r + 1) ++ [';'] ++ decimal (t.c + 1)).map Read.char) ++ [Read.char 'R'] ++ [] := by
    simp [Spec.ESC, Curtsies.ESC]
  unfold cursorAwareEnter
  rw [e, hp, h1.2, h2.2]
  simp


/-- ... and the freshly entered window is related to the terminal: `C07_render_partial` applies to its first render. -/
theorem C07_enter_rel (win : CAWin) (t : Term) (hc : win.cache = []) (hr : t.r < t.h) (hmain : t.alt = none) :
    Rel { win with top := (t.r : Int) } (exec t ([TermOp.dsr] ++ (if win.hideCursor then [TermOp.hide] else []))) ∧
    (exec t ([TermOp.dsr] ++ (if win.hideCursor then [TermOp.hide] else []))).g = t.g ∧
    (exec t ([TermOp.dsr] ++ (if win.hideCursor then [TermOp.hide] else []))).grid = t.grid ∧
    (exec t ([TermOp.dsr] ++ (if win.hideCursor then [TermOp.hide] else []))).scrollback = t.scrollback := by
  have f : (exec t ([TermOp.dsr] ++ (if win.hideCursor then [TermOp.hide] else []))).h = t.h ∧
      (exec t ([TermOp.dsr] ++ (if win.hideCursor then [TermOp.hide] else []))).alt = t.alt ∧
      (exec t ([TermOp.dsr] ++ (if win.hideCursor then [TermOp.hide] else []))).g = t.g ∧
      (exec t ([TermOp.dsr] ++ (if win.hideCursor then [TermOp.hide] else []))).grid = t.grid ∧
      (exec t ([TermOp.dsr] ++ (if win.hideCursor then [TermOp.hide] else []))).scrollback = t.scrollback := by
    cases win.hideCursor <;> simp [Term.step]
  refine ⟨⟨?_, ?_, ?_, ?_⟩, f.2.2.1, f.2.2.2.1, f.2.2.2.2⟩
  · intro row l hget
    simp only [hc, get_nil] at hget
    cases hget
  · show (0 : Int) ≤ (t.r : Int) ∧ (t.r : Int) < _
    rw [f.1]; omega
  · rw [f.2.1]; exact hmain
  · intro _ _ hne
    exact absurd hc hne


/-! ### finding D41: rows longer than the terminal -/

/-- The property for one render as its text has it: NO bound on the row lengths ("if array received is of width too
    large, render it anyway").  FALSE of the code (finding D41, `C07_D41_witness`): a row longer than the terminal wraps
    and, on the bottom row, scrolls the screen by lines the window does not count. -/
def C07_render_full_statement : Prop :=
  ∀ (u : UEnv) (win : CAWin) (t : Term) (arr : List FmtStr) (pos : Nat × Nat),
    Rel win t → t.g = {} → t.h ≤ 1000001 → (∀ l ∈ arr, Glyphs u l) →
    (pos.1 < arr.length ∨ (arr = [] ∧ pos.1 = 0)) →
    RenderPost win t arr pos (renderCursorAware win t.h t.w arr pos)

def C07.d41Win : CAWin := { top := 2 }
def C07.d41Term : Term := { h := 3, w := 3, r := 2, grid := fun r _ => if r < 2 then ('$', {}) else blank }
def C07.d41Arr : List FmtStr := [[⟨"abcde".toList, {}⟩]]

/-- D41 on the model and the terminal spec: 3x3 terminal, two lines of earlier output, window entered on the bottom
    row; rendering the single row 'abcde' wraps after 'abc' and scrolls the screen: one line goes to the scrollback,
    yet 0 is returned and top_usable_row stays 2. -/
theorem C07_D41_witness :
    (exec d41Term (renderCursorAware d41Win 3 3 d41Arr (0, 0)).2.1).scrollback.length = 1 ∧
    (renderCursorAware d41Win 3 3 d41Arr (0, 0)).2.2 = 0 ∧
    (renderCursorAware d41Win 3 3 d41Arr (0, 0)).1.top = 2 := by
  decide +kernel

theorem C07_D41_refutes : ¬ C07_render_full_statement := by
  intro h
  have hrel : Rel d41Win d41Term := ⟨fun _ _ h => by simp [d41Win, get_nil] at h, by decide, rfl, fun h => by simp [d41Win] at h⟩
  have r := h ⟨fun _ => 1, fun _ => false⟩ d41Win d41Term d41Arr (0, 0) hrel rfl (by decide)
    (by
      intro l hl
      simp [d41Arr] at hl
      subst hl
      refine ⟨?_, fun _ _ => rfl⟩
      intro ch hch; revert ch; decide)
    (Or.inl (by decide))
  have := r.scrolled
  have w := C07_D41_witness.1
  simp only [d41Term] at this w
  rw [w] at this
  revert this
  decide

/-- the domain of a sequence of renders as the property has it: no bound on the row lengths -/
def C07.ValidSeqFull (u : UEnv) : CAWin → Term → List (List FmtStr × (Nat × Nat)) → Prop
  | _, _, [] => True
  | win, t, (arr, pos) :: rest =>
    (∀ l ∈ arr, Glyphs u l) ∧ (pos.1 < arr.length ∨ (arr = [] ∧ pos.1 = 0)) ∧
    C07.ValidSeqFull u (renderCursorAware win t.h t.w arr pos).1 (exec t (renderCursorAware win t.h t.w arr pos).2.1) rest

/-- `C07_history_partial` without the bound on the row lengths: FALSE of the code for the same reason (D41). -/
def C07_history_full_statement : Prop :=
  ∀ (u : UEnv) (steps : List (List FmtStr × (Nat × Nat))) (arr : List FmtStr) (pos : Nat × Nat) (win : CAWin) (t : Term),
    Rel win t → t.g = {} → t.h ≤ 1000001 → C07.ValidSeqFull u win t (steps ++ [(arr, pos)]) →
    RenderPost (C07.run win t steps).1 (C07.run win t steps).2 arr pos
      (renderCursorAware (C07.run win t steps).1 (C07.run win t steps).2.h (C07.run win t steps).2.w arr pos)

theorem C07_D41_history_refutes : ¬ C07_history_full_statement := fun h =>
  C07_D41_refutes fun u win t arr pos hr hg hm hrows hpos => h u [] arr pos win t hr hg hm ⟨hrows, hpos, trivial⟩

end Curtsies
