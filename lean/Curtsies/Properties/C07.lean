/-
  C07 - CursorAwareWindow keeps history intact and accounts for every scroll.

  `C07.full t` = scrollback ++ screen rows: everything the user can scroll through, top to bottom.
  `C07.Rel win t`: the window's origin `top_usable_row` is a screen row, the main screen is active, cached lines are
  ESC-free, and (when the size is the one last rendered at and the cache is non-empty) every row from the origin down
  shows what the cache says.

  C07_full_statement   the property for ONE render from any related state, all arrays: (a)+(b) `full` afterwards is
      `full` before cut at the window's first row, followed by the array's rows (padded) and blanks — so content above
      the window only ever moves up into scrollback and is never altered; (c) scrollback grew by exactly
      max 0 (len array - rows available); (d) returned = rows pushed off the top; (e) new origin; (f) cursor on the cell
      cursor_pos designates; (g) `Rel` again.   STATED, not proved as a whole (see below).
  C07_accounting       proved for ALL arrays, at the level of the model's outputs: returned value (d), new origin (e),
      `_last_cursor_row` and the final cursor move (f), and the number of line feeds emitted (c) are exactly the
      stated functions of (len array, rows available, origin).
  C07_render_fits_partial   proved: the whole of (a)-(g) on the terminal spec for every array that FITS below the origin
      (no scroll): rows above the origin and the scrollback are untouched, rows from the origin show the array, the rest
      is blank, 0 is returned, the origin stays, the cursor is on (origin + row, col), `Rel` holds again.
  C07_history_fits_partial  by induction: any sequence of fitting renders.
  C07_scroll_step_partial / C07_scroll_iter_partial   proved: on the terminal spec one `scroll_down` (decsc, cup 1000000 0,
      lf, decrc) on the main screen appends the top row to the scrollback, moves every row up, leaves a blank bottom
      row and restores cursor/pending-wrap/graphic state (needs h <= 1000001: the constant in the code); followed by
      the write on the bottom row, the bottom row shows the line.  So each iteration appends exactly one row to
      `full` and alters nothing above.
  Missing for the full statement: the induction gluing these iterations to the fitting part (the loop invariant
  "`full` = old prefix ++ array rows so far" in list form) and coherence of the re-keyed cache (`k-1`) for (g).
  The correspondence check (props/c07.py) covers that part on every run: the model's operations equal the real
  writes and the oracle checks (a)-(g) on histories with scrolling.

  Hypotheses: array rows ESC-free and at most as wide as the terminal (the docstring: wider rows are "rendered anyway");
  cursor_pos designates a cell of the array; default background when the render starts.
-/
import Curtsies.Proofs.Window
namespace Curtsies
open Window Spec Spec.Terminal

namespace C07

/-- a row as the terminal shows it: `w` cells, blanks after the content -/
def padRow (w : Nat) (cs : List TCell) : List TCell := (List.range w).map fun c => cs[c]?.getD blank

/-- scrollback ++ screen: everything the user can scroll through -/
def full (t : Term) : List (List TCell) := t.scrollback ++ t.screen

structure Rel (win : CAWin) (t : Term) : Prop where
  esc : CacheEsc win.cache
  top : 0 ≤ win.top ∧ win.top < t.h
  main : t.alt = none
  coh : win.lastH = some t.h → win.lastW = some t.w → Coherent win.cache t win.top.toNat

/-- cell (i, c) of the array as a terminal shows it; blank outside the array -/
def cellOf (arr : List FmtStr) (i c : Nat) : TCell :=
  match arr[i]? with
  | some l => (effCells l)[c]?.getD blank
  | none => blank

def isLf : TermOp → Bool
  | .lf => true
  | _ => false

def lfCount (ops : List TermOp) : Nat := (ops.filter isLf).length

end C07
open C07

/-- The property for one render, at full strength (all arrays, all related states). -/
def C07_full_statement : Prop :=
  ∀ (win : CAWin) (t : Term) (arr : List FmtStr) (pos : Nat × Nat),
    Rel win t → t.g.bg = none → (∀ l ∈ arr, EscFree l ∧ len l ≤ t.w) →
    (pos.1 < arr.length ∨ (arr = [] ∧ pos.1 = 0)) → pos.2 < t.w →
    let res := renderCursorAware win t.h t.w arr pos
    let t' := exec t res.2.1
    let avail := t.h - win.top.toNat
    let scrolls := arr.length - avail
    let pushed := scrolls - win.top.toNat
    full t' = (full t).take (t.scrollback.length + win.top.toNat) ++ arr.map (fun l => padRow t.w (effCells l))
                ++ List.replicate (avail - arr.length) (padRow t.w []) ∧
    t'.scrollback.length = t.scrollback.length + scrolls ∧
    res.2.2 = (pushed : Int) ∧
    res.1.top = ((win.top.toNat - scrolls : Nat) : Int) ∧
    t'.r = res.1.top.toNat + pos.1 - pushed ∧ t'.c = pos.2 ∧ t'.pw = false ∧
    res.1.lastCursorRow = some (t'.r : Int) ∧
    t'.cursorVisible = (if win.hideCursor then t.cursorVisible else true) ∧
    t'.h = t.h ∧ t'.w = t.w ∧ t'.g.bg = none ∧
    Rel res.1 t'

theorem renderCursorAware_eq (win : CAWin) (h w : Nat) (arr : List FmtStr) (pos : Nat × Nat) :
    renderCursorAware win h w arr pos =
      let win0 : CAWin := if win.lastH ≠ some h ∨ win.lastW ≠ some w
        then { win with cache := [], lastH := some h, lastW := some w } else win
      let rowsForUse := pyRange win0.top h
      let shared := min arr.length rowsForUse.length
      let c1 := contentLoop win0.cache w id (rowsForUse.take shared) (arr.take shared) []
      let c2 := blankLoop win0.cache (rowsForUse.drop shared) c1.1
      let c3 := scrollLoop h (arr.drop shared) win0.top 0 c2.1
      let lastRow : Int := max 0 ((pos.1 : Int) - c3.2.1 + c3.1)
      ({ win0 with cache := c3.2.2.1, top := c3.1, lastCursorRow := some lastRow, lastCursorCol := some (pos.2 : Int) },
       (if !win.hideCursor then [TermOp.hide] else []) ++ c1.2 ++ c2.2 ++ c3.2.2.2 ++ [.cup lastRow.toNat pos.2] ++
         (if !win0.hideCursor then [TermOp.show] else []), c3.2.1) := by
  rfl

/-! ### accounting (all arrays) -/

theorem C07.lfCount_append (a b : List TermOp) : lfCount (a ++ b) = lfCount a + lfCount b := by
  simp [lfCount, List.filter_append]

theorem C07.lfCount_content (old : RowCache) (w : Nat) (clip : FmtStr → FmtStr) :
    ∀ (lines : List FmtStr) (rows : List Int) (cur : RowCache), lfCount (contentLoop old w clip rows lines cur).2 = 0 := by
  intro lines
  induction lines with
  | nil => intro rows cur; rw [contentLoop_nil]; rfl
  | cons l ls ih =>
    intro rows cur
    cases rows with
    | nil => rfl
    | cons r rs =>
      rw [contentLoop_cons, lfCount_append, ih]
      by_cases h : lineEq (clip l) (old.get r) = true
      · rw [if_pos h]; rfl
      · rw [if_neg h]
        by_cases h2 : len (clip l) < w <;> simp [writeLine, h2, lfCount, isLf, TermOp.putStr]

theorem C07.lfCount_blank (old : RowCache) :
    ∀ (rows : List Int) (cur : RowCache), lfCount (blankLoop old rows cur).2 = 0 := by
  intro rows
  induction rows with
  | nil => intro cur; rfl
  | cons r rs ih =>
    intro cur
    rw [blankLoop_cons]
    by_cases h : (!old.isEmpty && !old.has r) = true
    · rw [if_pos h]; exact ih cur
    · rw [if_neg h, lfCount_append, ih]; simp [writeBlank, lfCount, isLf]

theorem scrollLoop_cons (h : Nat) (line : FmtStr) (lines : List FmtStr) (top off : Int) (cur : RowCache) :
    scrollLoop h (line :: lines) top off cur =
      let top1 := if top > 0 then top - 1 else top
      let off1 := if top > 0 then off else off + 1
      let cur1 := RowCache.set (cur.map fun (k, v) => (k - 1, v)) ((h : Int) - 1) (some line)
      let r := scrollLoop h lines top1 off1 cur1
      (r.1, r.2.1, r.2.2.1, (scrollDown ++ [.cup ((h : Int) - 1).toNat 0, .putStr (render line)]) ++ r.2.2.2) := by
  by_cases h0 : top > 0 <;> (rw [scrollLoop]; simp [h0])

theorem C07.scrollLoop_accounting (h : Nat) :
    ∀ (lines : List FmtStr) (top off : Int) (cur : RowCache), 0 ≤ top →
      (scrollLoop h lines top off cur).1 = ((top.toNat - lines.length : Nat) : Int) ∧
      (scrollLoop h lines top off cur).2.1 = off + ((lines.length - top.toNat : Nat) : Int) ∧
      lfCount (scrollLoop h lines top off cur).2.2.2 = lines.length := by
  intro lines
  induction lines with
  | nil => intro top off cur ht; simp [scrollLoop, lfCount]; omega
  | cons l ls ih =>
    intro top off cur ht
    rw [scrollLoop_cons]
    simp only []
    by_cases h0 : top > 0
    · simp only [if_pos h0]
      obtain ⟨a, b, c⟩ := ih (top - 1) off (RowCache.set (cur.map fun (k, v) => (k - 1, v)) ((h : Int) - 1) (some l)) (by omega)
      refine ⟨by rw [a]; simp only [List.length_cons]; omega, by rw [b]; simp only [List.length_cons]; omega, ?_⟩
      rw [lfCount_append, c]
      have : lfCount (scrollDown ++ [.cup ((h : Int) - 1).toNat 0, .putStr (render l)]) = 1 := rfl
      rw [this]; simp only [List.length_cons]; omega
    · simp only [if_neg h0]
      obtain ⟨a, b, c⟩ := ih top (off + 1) (RowCache.set (cur.map fun (k, v) => (k - 1, v)) ((h : Int) - 1) (some l)) ht
      refine ⟨by rw [a]; simp only [List.length_cons]; omega, by rw [b]; simp only [List.length_cons]; omega, ?_⟩
      rw [lfCount_append, c]
      have : lfCount (scrollDown ++ [.cup ((h : Int) - 1).toNat 0, .putStr (render l)]) = 1 := rfl
      rw [this]; simp only [List.length_cons]; omega

/-- (c), (d), (e), (f) at the level of what the model returns and writes, for EVERY array and origin on the screen:
    with `avail` rows from the origin down, `scrolls = len array - avail` line feeds are emitted (each on the bottom
    row: C07_scroll_ops), the origin moves up by `scrolls` but not above row 0, the rows that no longer fit
    (`pushed = scrolls - origin`) are returned, and the final cursor move goes to row `origin' + cursor row - pushed`
    (row 0 if that cell was pushed off), which is what `_last_cursor_row` records. -/
theorem C07_accounting (win : CAWin) (h w : Nat) (arr : List FmtStr) (pos : Nat × Nat)
    (htop : 0 ≤ win.top ∧ win.top ≤ h) :
    let res := renderCursorAware win h w arr pos
    let avail := h - win.top.toNat
    let scrolls := arr.length - avail
    let pushed := scrolls - win.top.toNat
    res.2.2 = (pushed : Int) ∧
    res.1.top = ((win.top.toNat - scrolls : Nat) : Int) ∧
    res.1.lastCursorRow = some ((res.1.top.toNat + pos.1 - pushed : Nat) : Int) ∧
    lfCount res.2.1 = scrolls ∧
    ∃ before, res.2.1 = before ++ [.cup (res.1.top.toNat + pos.1 - pushed) pos.2] ++
      (if !win.hideCursor then [TermOp.show] else []) := by
  rw [renderCursorAware_eq]
  simp only []
  generalize hwin0 : (if win.lastH ≠ some h ∨ win.lastW ≠ some w
        then ({ win with cache := [], lastH := some h, lastW := some w } : CAWin) else win) = win0
  have e1 : win0.top = win.top := by rw [← hwin0]; split <;> rfl
  have e2 : win0.hideCursor = win.hideCursor := by rw [← hwin0]; split <;> rfl
  have hl : (pyRange win0.top h).length = h - win.top.toNat := by
    rw [e1]; simp [pyRange]; omega
  rw [hl]
  have hd : (arr.drop (min arr.length (h - win.top.toNat))).length = arr.length - (h - win.top.toNat) := by
    rw [List.length_drop]; omega
  obtain ⟨a, b, c⟩ := scrollLoop_accounting h (arr.drop (min arr.length (h - win.top.toNat))) win0.top 0
    (blankLoop win0.cache ((pyRange win0.top h).drop (min arr.length (h - win.top.toNat)))
      (contentLoop win0.cache w id ((pyRange win0.top h).take (min arr.length (h - win.top.toNat)))
        (arr.take (min arr.length (h - win.top.toNat))) []).1).1 (by rw [e1]; exact htop.1)
  generalize scrollLoop h (arr.drop (min arr.length (h - win.top.toNat))) win0.top 0
    (blankLoop win0.cache ((pyRange win0.top h).drop (min arr.length (h - win.top.toNat)))
      (contentLoop win0.cache w id ((pyRange win0.top h).take (min arr.length (h - win.top.toNat)))
        (arr.take (min arr.length (h - win.top.toNat))) []).1).1 = c3 at a b c
  rw [hd] at a b c
  rw [e1] at a b
  have hrow : max 0 ((pos.1 : Int) - c3.2.1 + c3.1) =
      ((c3.1.toNat + pos.1 - (arr.length - (h - win.top.toNat) - win.top.toNat) : Nat) : Int) := by
    rw [a, b]; omega
  refine ⟨by rw [b]; omega, a, by rw [hrow], ?_, ?_⟩
  · simp only [lfCount_append, lfCount_content, lfCount_blank, c]
    cases win.hideCursor <;> cases win0.hideCursor <;> simp [lfCount, isLf]
  · rw [hrow, e2, Int.toNat_natCast]
    exact ⟨_, rfl⟩

/-! ### the render that fits (no scroll), on the terminal spec -/

theorem C07_render_fits_partial (win : CAWin) (t : Term) (arr : List FmtStr) (pos : Nat × Nat)
    (hrel : Rel win t) (hbg : t.g.bg = none) (hrows : ∀ l ∈ arr, EscFree l ∧ len l ≤ t.w)
    (hfits : arr.length ≤ t.h - win.top.toNat)
    (hpos : (pos.1 < arr.length ∨ (arr = [] ∧ pos.1 = 0)) ∧ pos.2 < t.w) :
    -- (a) rows above the window's first row and the scrollback are untouched
    (∀ r c, r < win.top.toNat → (exec t (renderCursorAware win t.h t.w arr pos).2.1).grid r c = t.grid r c) ∧
    (exec t (renderCursorAware win t.h t.w arr pos).2.1).scrollback = t.scrollback ∧
    -- (b) from the window's first row down: the array, then blanks
    (∀ i c, win.top.toNat + i < t.h → c < t.w →
      (exec t (renderCursorAware win t.h t.w arr pos).2.1).grid (win.top.toNat + i) c = C07.cellOf arr i c) ∧
    -- (c)(d)(e) nothing scrolled, 0 returned, origin unchanged
    (renderCursorAware win t.h t.w arr pos).2.2 = 0 ∧
    (renderCursorAware win t.h t.w arr pos).1.top = win.top ∧
    -- (f) the cursor
    (exec t (renderCursorAware win t.h t.w arr pos).2.1).r = win.top.toNat + pos.1 ∧
    (exec t (renderCursorAware win t.h t.w arr pos).2.1).c = pos.2 ∧
    (exec t (renderCursorAware win t.h t.w arr pos).2.1).pw = false ∧
    (renderCursorAware win t.h t.w arr pos).1.lastCursorRow = some ((win.top.toNat + pos.1 : Nat) : Int) ∧
    (exec t (renderCursorAware win t.h t.w arr pos).2.1).cursorVisible =
      (if win.hideCursor then t.cursorVisible else true) ∧
    (exec t (renderCursorAware win t.h t.w arr pos).2.1).h = t.h ∧
    (exec t (renderCursorAware win t.h t.w arr pos).2.1).w = t.w ∧
    (exec t (renderCursorAware win t.h t.w arr pos).2.1).g.bg = none ∧
    -- (g)
    Rel (renderCursorAware win t.h t.w arr pos).1 (exec t (renderCursorAware win t.h t.w arr pos).2.1) := by
  rw [renderCursorAware_eq]
  simp only []
  generalize hk : win.top.toNat = k at hfits ⊢
  have htopk : win.top = (k : Int) := by have := hrel.top.1; omega
  have hkh : k < t.h := by have := hrel.top.2; omega
  generalize hwin0 : (if win.lastH ≠ some t.h ∨ win.lastW ≠ some t.w
        then ({ win with cache := [], lastH := some t.h, lastW := some t.w } : CAWin) else win) = win0
  have e1 : win0.top = (k : Int) := by rw [← hwin0, ← htopk]; split <;> rfl
  have hhide : win0.hideCursor = win.hideCursor := by rw [← hwin0]; split <;> rfl
  have hsize : win0.lastH = some t.h ∧ win0.lastW = some t.w := by
    rw [← hwin0]
    by_cases hc : win.lastH ≠ some t.h ∨ win.lastW ≠ some t.w
    · rw [if_pos hc]; exact ⟨rfl, rfl⟩
    · rw [if_neg hc]
      exact ⟨Classical.not_not.mp fun h => hc (Or.inl h), Classical.not_not.mp fun h => hc (Or.inr h)⟩
  have hold : CacheEsc win0.cache := by
    rw [← hwin0]
    by_cases hc : win.lastH ≠ some t.h ∨ win.lastW ≠ some t.w
    · rw [if_pos hc]; intro _ _ h; simp [get_nil] at h
    · rw [if_neg hc]; exact hrel.esc
  generalize hpre : exec t (if (!win.hideCursor) = true then [TermOp.hide] else []) = t0
  have f0 : t0.h = t.h ∧ t0.w = t.w ∧ t0.scrollback = t.scrollback ∧ t0.g = t.g ∧ t0.grid = t.grid ∧
      t0.alt = t.alt ∧ t0.cursorVisible = (if win.hideCursor then t.cursorVisible else false) := by
    rw [← hpre]; cases win.hideCursor <;> simp [Term.step]
  obtain ⟨f0h, f0w, f0sb, f0g, f0grid, f0alt, f0vis⟩ := f0
  have hcoh0 : Coherent win0.cache t0 k := by
    rw [← hwin0]
    by_cases hc : win.lastH ≠ some t.h ∨ win.lastW ≠ some t.w
    · rw [if_pos hc]; intro h; exact absurd rfl h
    · rw [if_neg hc]
      have := hrel.coh (Classical.not_not.mp fun h => hc (Or.inl h)) (Classical.not_not.mp fun h => hc (Or.inr h))
      rw [hk] at this
      intro hne row h1 h2
      exact Shows.congr f0w (fun c => by rw [f0grid]) (this hne row h1 (by rw [← f0h]; exact h2))
  -- the row lists
  have hrows' : pyRange win0.top (t.h : Int) = intRows k (t.h - k) := by rw [e1, pyRange_eq]
  have hshared : min arr.length (pyRange win0.top (t.h : Int)).length = arr.length := by
    rw [hrows', intRows_length]; omega
  rw [hshared, hrows', intRows_take k (t.h - k) arr.length hfits, intRows_drop, List.take_length, List.drop_length]
  have p1 := contentLoop_spec win0.cache t.w id hold arr k arr.length [] t0 f0w (Nat.le_refl _) (by rw [f0h]; omega)
    (by rw [f0g]; exact hbg) (fun l hl => hrows l hl) hcoh0
  generalize (contentLoop win0.cache t.w id (intRows k arr.length) arr []) = c1 at p1
  rw [exec_append, exec_append, exec_append, exec_append, exec_append, hpre]
  generalize exec t0 c1.2 = t1 at p1
  have hcoh1 : Coherent win0.cache t1 (k + arr.length) := by
    intro hne row h1 h2
    have := hcoh0 hne row (by omega) (by rw [← p1.frame.h]; exact h2)
    exact Shows.congr p1.frame.w (p1.others row (Or.inr h1)) this
  have p2 := blankLoop_spec win0.cache (t.h - k - arr.length) (k + arr.length) c1.1 t1
    (fun _ => by rw [p1.frame.h, f0h]; omega) p1.bg hcoh1
  generalize (blankLoop win0.cache (intRows (k + arr.length) (t.h - k - arr.length)) c1.1) = c2 at p2
  generalize exec t1 c2.2 = t2 at p2
  have h2h : t2.h = t.h := by rw [p2.frame.h, p1.frame.h, f0h]
  have h2w : t2.w = t.w := by rw [p2.frame.w, p1.frame.w, f0w]
  -- no scroll
  have hs : scrollLoop t.h [] win0.top 0 c2.1 = (win0.top, 0, c2.1, []) := rfl
  rw [hs]
  simp only [exec_nil, e1]
  have hlast : max (0 : Int) ((pos.1 : Int) - 0 + (k : Int)) = ((k + pos.1 : Nat) : Int) := by omega
  rw [hlast, Int.toNat_natCast]
  have hshow : ∀ i, k + i < t.h → Shows t2 (k + i) (match arr[i]? with | some l => effCells l | none => []) := by
    intro i hi
    by_cases hin : i < arr.length
    · rw [List.getElem?_eq_getElem hin]
      exact Shows.congr p2.frame.w (p2.others (k + i) (Or.inl (by omega))) (p1.shows i hin)
    · rw [List.getElem?_eq_none (by omega)]
      exact p2.shows (k + i) (by omega) (by omega)
  have hcacheIn : ∀ i (hi : i < arr.length), c2.1.get ((k + i : Nat) : Int) = some (some arr[i]) := by
    intro i hi
    rw [p2.cacheOut _ (Or.inl (by omega))]
    exact p1.cacheIn i hi
  have hcacheOut : ∀ row : Int, (row < (k : Int) ∨ ((k + arr.length : Nat) : Int) ≤ row) →
      c2.1.get row = some none ∨ c2.1.get row = none := by
    intro row hrow
    have hc1 : c1.1.get row = none := by rw [p1.cacheOut row hrow]; rfl
    by_cases hin : ((k + arr.length : Nat) : Int) ≤ row ∧ row < (t.h : Int)
    · obtain ⟨r, rfl⟩ : ∃ r : Nat, row = (r : Int) := ⟨row.toNat, by omega⟩
      rcases p2.cacheIn r (by omega) (by omega) with h | h
      · exact Or.inl h
      · exact Or.inr (by rw [h, hc1])
    · exact Or.inr (by rw [p2.cacheOut row (by omega), hc1])
  generalize hfin : exec (exec t2 [TermOp.cup (k + pos.1) pos.2]) (if (!win0.hideCursor) = true then [TermOp.show] else []) = t3
  have f3 : t3.h = t2.h ∧ t3.w = t2.w ∧ t3.scrollback = t2.scrollback ∧ t3.g = t2.g ∧ t3.grid = t2.grid ∧
      t3.alt = t2.alt ∧ t3.r = min (k + pos.1) (t2.h - 1) ∧ t3.c = min pos.2 (t2.w - 1) ∧ t3.pw = false ∧
      t3.cursorVisible = (if win0.hideCursor then t2.cursorVisible else true) := by
    rw [← hfin]; cases win0.hideCursor <;> simp [Term.step]
  obtain ⟨f3h, f3w, f3sb, f3g, f3grid, f3alt, f3r, f3c, f3pw, f3vis⟩ := f3
  have hposr : k + pos.1 < t.h := by
    rcases hpos.1 with h | ⟨_, h⟩ <;> omega
  refine ⟨?_, by rw [f3sb, p2.frame.sb, p1.frame.sb, f0sb], ?_, by first | rfl | trivial, htopk.symm,
    by rw [f3r, h2h]; omega, by rw [f3c, h2w]; have := hpos.2; omega, f3pw, by first | rfl | trivial, ?_, by rw [f3h, h2h], by rw [f3w, h2w],
    by rw [f3g]; exact p2.bg, ?_⟩
  · intro r c hr
    rw [f3grid, p2.others r (Or.inl (by omega)) c, p1.others r (Or.inl hr) c, f0grid]
  · intro i c hi hc
    rw [f3grid, hshow i hi c (by rw [h2w]; exact hc)]
    unfold C07.cellOf
    cases arr[i]? <;> rfl
  · rw [f3vis, p2.frame.vis, p1.frame.vis, f0vis, hhide]
    cases win.hideCursor <;> simp
  · refine ⟨?_, ?_, ?_, ?_⟩
    · intro row l hget
      simp only at hget
      by_cases hin : (k : Int) ≤ row ∧ row < ((k + arr.length : Nat) : Int)
      · obtain ⟨i, rfl⟩ : ∃ i : Nat, row = ((k + i : Nat) : Int) := ⟨(row - k).toNat, by omega⟩
        have hi : i < arr.length := by omega
        rw [hcacheIn i hi] at hget
        cases hget
        exact (hrows _ (List.getElem_mem hi)).1
      · rcases hcacheOut row (by omega) with h | h <;> rw [h] at hget <;> cases hget
    · simp only [f3h, h2h]; exact ⟨by omega, by omega⟩
    · rw [f3alt, p2.frame.alt, p1.frame.alt, f0alt]; exact hrel.main
    · intro _ _ _ row hrow1 hrow2
      simp only [Int.toNat_natCast] at hrow1 hrow2 ⊢
      rw [f3h, h2h] at hrow2
      refine Shows.congr (t := t2) f3w (fun c => by rw [f3grid]) ?_
      obtain ⟨i, rfl⟩ : ∃ i, row = k + i := ⟨row - k, by omega⟩
      have := hshow i hrow2
      unfold cacheCells
      by_cases hi : i < arr.length
      · rw [hcacheIn i hi]
        rw [List.getElem?_eq_getElem hi] at this
        exact this
      · rw [List.getElem?_eq_none (by omega)] at this
        rcases hcacheOut ((k + i : Nat) : Int) (by omega) with h | h <;> rw [h] <;> exact this

/-! ### histories of fitting renders -/

def C07.run : CAWin → Term → List (List FmtStr × (Nat × Nat)) → CAWin × Term
  | win, t, [] => (win, t)
  | win, t, (arr, pos) :: rest =>
    C07.run (renderCursorAware win t.h t.w arr pos).1 (exec t (renderCursorAware win t.h t.w arr pos).2.1) rest

def C07.ValidFits : CAWin → Term → List (List FmtStr × (Nat × Nat)) → Prop
  | _, _, [] => True
  | win, t, (arr, pos) :: rest =>
    (∀ l ∈ arr, EscFree l ∧ len l ≤ t.w) ∧ arr.length ≤ t.h - win.top.toNat ∧
    ((pos.1 < arr.length ∨ (arr = [] ∧ pos.1 = 0)) ∧ pos.2 < t.w) ∧
    C07.ValidFits (renderCursorAware win t.h t.w arr pos).1 (exec t (renderCursorAware win t.h t.w arr pos).2.1) rest

/-- Over any sequence of renders that fit below the window's origin: the relation is maintained, the origin never
    moves, nothing scrolls, and every cell above the origin keeps its content throughout. -/
theorem C07_history_fits_partial (steps : List (List FmtStr × (Nat × Nat))) :
    ∀ (win : CAWin) (t : Term), Rel win t → t.g.bg = none → C07.ValidFits win t steps →
      Rel (C07.run win t steps).1 (C07.run win t steps).2 ∧ (C07.run win t steps).2.g.bg = none ∧
      (C07.run win t steps).1.top = win.top ∧ (C07.run win t steps).2.scrollback = t.scrollback ∧
      (C07.run win t steps).2.h = t.h ∧
      ∀ r c, r < win.top.toNat → (C07.run win t steps).2.grid r c = t.grid r c := by
  induction steps with
  | nil => intro win t hr hb _; exact ⟨hr, hb, rfl, rfl, rfl, fun _ _ _ => rfl⟩
  | cons st rest ih =>
    intro win t hr hb hv
    obtain ⟨arr, pos⟩ := st
    obtain ⟨h1, h2, h3, h4⟩ := hv
    have r := C07_render_fits_partial win t arr pos hr hb h1 h2 h3
    obtain ⟨ra, rsb, _, _, rtop, _, _, _, _, _, rh, _, rbg, rrel⟩ := r
    obtain ⟨i1, i2, i3, i4, i5, i6⟩ := ih _ _ rrel rbg h4
    refine ⟨i1, i2, by rw [C07.run, i3, rtop], by rw [C07.run, i4, rsb], by rw [C07.run, i5, rh], ?_⟩
    intro r c hr'
    rw [C07.run, i6 r c (by rw [rtop]; exact hr'), ra r c hr']

/-- non-vacuity: a 3x3 screen with a line of prior output, the window entered on row 1 -/
example : Rel { top := 1 } { h := 3, w := 3, r := 1, grid := fun r _ => if r = 0 then ('$', {}) else blank } :=
  ⟨fun _ _ h => by simp [get_nil] at h, by decide, rfl, fun h => by simp at h⟩


/-! ### the scroll loop on the terminal spec: one iteration -/

/-- One `scroll_down` on the terminal spec (main screen, default background, at most 1000001 rows — the constant in
    `t.location(x=0, y=1000000)`): the top row goes to scrollback, every row moves up, the bottom row is blank, and
    cursor, pending wrap and graphic state are exactly as before.  In terms of `full`: one blank row is appended. -/
theorem C07_scroll_step_partial (t : Term) (hh : 0 < t.h) (hmax : t.h ≤ 1000001) (hmain : t.alt = none)
    (hbg : t.g.bg = none) (hr : t.r < t.h) (hc : t.c < t.w) :
    (exec t scrollDown).scrollback = t.scrollback ++ [t.row 0] ∧
    (∀ r c, (exec t scrollDown).grid r c = if r + 1 < t.h then t.grid (r + 1) c else blank) ∧
    (exec t scrollDown).r = t.r ∧ (exec t scrollDown).c = t.c ∧ (exec t scrollDown).pw = t.pw ∧
    (exec t scrollDown).g = t.g ∧ (exec t scrollDown).h = t.h ∧ (exec t scrollDown).w = t.w ∧
    (exec t scrollDown).alt = t.alt ∧ (exec t scrollDown).cursorVisible = t.cursorVisible := by
  have a1 : min 1000000 (t.h - 1) = t.h - 1 := by omega
  have a2 : ¬ (t.h - 1 + 1 < t.h) := by omega
  have a3 : min t.r (t.h - 1) = t.r := by omega
  have a4 : min t.c (t.w - 1) = t.c := by omega
  have a5 : (' ', ({ bg := t.g.bg } : Eff)) = blank := by rw [hbg]; rfl
  simp [scrollDown, Term.step, Term.index, Term.scrollUp, Term.erased, Term.row, a1, a2, a3, a4, a5, hmain]

/-- One iteration of the scroll loop on the terminal spec: `scroll_down`, move to the bottom row, write the line
    (no clear needed: the row just scrolled in is blank).  Every row moves up one, the old top row is appended to the
    scrollback, and the bottom row shows the line. -/
theorem C07_scroll_iter_partial (t : Term) (line : FmtStr) (hh : 0 < t.h) (hmax : t.h ≤ 1000001) (hmain : t.alt = none)
    (hbg : t.g.bg = none) (hr : t.r < t.h) (hc : t.c < t.w) (hesc : EscFree line) (hlen : len line ≤ t.w) :
    let t' := exec t (scrollDown ++ [.cup ((t.h : Int) - 1).toNat 0, .putStr (render line)])
    t'.scrollback = t.scrollback ++ [t.row 0] ∧
    (∀ r c, r < t.h → c < t.w → t'.grid r c = if r + 1 < t.h then t.grid (r + 1) c else (effCells line)[c]?.getD blank) ∧
    t'.h = t.h ∧ t'.w = t.w ∧ t'.alt = t.alt ∧ t'.cursorVisible = t.cursorVisible ∧ t'.g.bg = none := by
  intro t'
  obtain ⟨s1, s2, _, _, _, _, s7, s8, s9, s10⟩ := C07_scroll_step_partial t hh hmax hmain hbg hr hc
  have e : t' = exec (exec t scrollDown) [.cup (t.h - 1) 0, .put (effCells line) {}] := by
    show exec t _ = _
    rw [exec_append, putStr_render line hesc]
    have : ((t.h : Int) - 1).toNat = t.h - 1 := by omega
    rw [this]
  generalize exec t scrollDown = t1 at s1 s2 s7 s8 s9 s10 e
  let t2 : Term := { t1 with r := t.h - 1, c := 0, pw := false }
  have e1 : t1.step (.cup (t.h - 1) 0) = t2 := by
    have a : min (t.h - 1) (t1.h - 1) = t.h - 1 := by rw [s7]; omega
    simp [Term.step, a, t2]
  obtain ⟨f, g, r, gr, _⟩ := putCells (effCells line) t2 rfl (by
    show 0 + (effCells line).length ≤ t1.w
    rw [effCells_length, s8]; omega)
  have e2 : t' = { (effCells line).foldl Term.putCell t2 with g := {} } := by
    rw [e]; simp only [exec_cons, exec_nil, e1]; rfl
  rw [e2]
  refine ⟨by show ((effCells line).foldl Term.putCell t2).scrollback = _; rw [f.sb]; exact s1, ?_,
    by show ((effCells line).foldl Term.putCell t2).h = _; rw [f.h]; exact s7,
    by show ((effCells line).foldl Term.putCell t2).w = _; rw [f.w]; exact s8,
    by show ((effCells line).foldl Term.putCell t2).alt = _; rw [f.alt]; exact s9,
    by show ((effCells line).foldl Term.putCell t2).cursorVisible = _; rw [f.vis]; exact s10, rfl⟩
  intro r' c hrh hcw
  show ((effCells line).foldl Term.putCell t2).grid r' c = _
  rw [gr]
  show (if r' = t.h - 1 ∧ 0 ≤ c ∧ c < 0 + (effCells line).length then (effCells line)[c - 0]?.getD blank else t1.grid r' c) = _
  rw [s2]
  by_cases h1 : r' + 1 < t.h
  · have h2 : ¬ (r' = t.h - 1 ∧ 0 ≤ c ∧ c < 0 + (effCells line).length) := by omega
    simp only [h1, h2, if_true, if_false]
  · simp only [if_neg h1]
    by_cases h2 : c < (effCells line).length
    · rw [if_pos (by omega)]; simp
    · rw [if_neg (by omega), List.getElem?_eq_none (Nat.le_of_not_lt h2)]; rfl

end Curtsies
