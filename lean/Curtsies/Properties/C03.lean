/-
  C03 - Key decoding splits any byte stream losslessly into correctly named keys.

  Model: `getKey` (events.get_key), `findKey` (the find_key loop of Input._send: pop one byte, full = nothing
  left), `segment` (find_key repeated over a buffer) in Model/Keys.lean; strict UTF-8 in Spec/Utf8.lean.
  Every theorem is stated for ARBITRARY tables `T` satisfying the decidable side conditions `T.WF`
  (Proofs/Keys.lean) and `genTables_wf` proves those for the tables regenerated from /repo on every run
  (`decide +kernel`), so editing a table re-opens the obligations.

  Hypotheses and readings, all visible in the statements:
  * bytes are `Nat`; `Recognised` (Proofs/KeysLoop.lean) is "input made of recognised sequences and validly encoded
    characters" at byte level, `C03_units_recognised` links it to concatenations of units;
  * `metaCollision`: under utf-8 a one-byte 8-bit Meta key that is a UTF-8 lead byte (RFC 3629: C2..F4) with more
    bytes buffered is not "recognised" (property text: such keys count only when they end a read); all other
    one-byte keys are recognised anywhere - for C0, C1, F5..FD the code disagrees: known finding D43
    (`d43Collision`, `runNoD43`, `C03_D43_witness`), whose complement the theorems carry as a hypothesis;
  * "reports every character as itself" is claimed for characters whose encoding is not a table key (`C03_chars`);
    the others (under latin-1 162 of 256) are reported under their table name (`C03_chars_table_key`);
  * after a key that is itself a KEYMAP_PREFIXES member (ESC, ESC ESC, ESC O, ESC [) has merged with what follows
    - which the text licenses - nothing is claimed about the table sequence that followed it (`C03_table`, third
    conjunct: the result only contains `u` and at least one more byte);
  * C03_never_fails_partial excludes exactly the footprints of known findings D12 and D43 (`runNoD12`, `runNoD43`,
    decoder-relative; `noD12` is a static over-approximation); the full statement is
    `C03_never_fails_full_statement`, refuted at a point of each footprint by `C03_D12_witness` / `C03_D43_witness`;
  * the lossless theorems speak about calls that return (`.ok`): they are conditional on the decoder not raising.
-/
import Curtsies.Model.KeysGen
import Curtsies.Proofs.Keys
import Curtsies.Proofs.KeysLoop
import Curtsies.Proofs.KeysGenCore
namespace Curtsies
open Spec.Utf8

/-! ### the regenerated tables meet the side conditions -/

set_option maxRecDepth 100000 in
theorem genTables_wf : genTables.WF where
  prefix_closed := genTables_core.prefix_closed
  prefix_sound := genTables_core.prefix_sound
  multibyte_ascii := by decide +kernel
  bytes := by decide +kernel
  max_size := genTables_core.max_size
  max_attained := by decide +kernel
  fits_utf8 := by decide +kernel
  subset := genTables_core.subset
  curtsies_lookup := genTables_core.curtsies_lookup
  esc_is_key := by decide +kernel

/-! ### (1) lossless -/

/-- One `find_key()`: the bytes consumed followed by the bytes left are the buffer, and something is consumed. -/
theorem C03_lossless (T : KeyTables) (enc : Enc) (mode : KeyMode) (buf : List Nat) (k : KeyVal)
    (consumed rest : List Nat) (h : findKey T enc mode buf = .ok (some (k, consumed, rest))) :
    consumed ++ rest = buf ∧ consumed ≠ [] := by
  have := findKeyLoop_lossless enc mode [] buf k consumed rest h
  exact ⟨by simpa using this.1, this.2.1⟩

/-- `find_key()` reports "nothing" only on an empty buffer. -/
theorem C03_lossless_none (T : KeyTables) (enc : Enc) (mode : KeyMode) (buf : List Nat)
    (h : findKey T enc mode buf = .ok none) : buf = [] := by
  suffices ∀ un cur, findKeyLoop T enc mode cur un = .ok none → un = [] from this buf [] h
  intro un
  induction un with
  | nil => intros; rfl
  | cons b rest ih =>
    intro cur h
    simp only [findKeyLoop] at h
    split at h
    · simp at h
    · simp at h
    · have := ih _ h
      subst this
      simp [findKeyLoop] at h

/-- A whole run: the consumed pieces, in order, concatenate to the stream (no byte lost, duplicated or
    reordered), and every keypress consumed at least one byte. All bytes, encodings, modes, tables. -/
theorem C03_lossless_stream (T : KeyTables) (enc : Enc) (mode : KeyMode) (n : Nat) (buf : List Nat)
    (ps : List (KeyVal × List Nat)) (h : segment T enc mode n buf = .ok ps) :
    (ps.map (·.2)).flatten = buf ∧ ∀ p ∈ ps, p.2 ≠ [] := by
  induction n generalizing buf ps with
  | zero =>
    cases buf with
    | nil => simp [segment] at h; subst h; simp
    | cons b bs => simp [segment] at h
  | succ n ih =>
    cases buf with
    | nil => simp [segment] at h; subst h; simp
    | cons b bs =>
      simp only [segment] at h
      split at h
      · simp at h
      · rename_i hf
        have := C03_lossless_none T enc mode _ hf
        simp at this
      · rename_i k c r hf
        split at h
        · simp at h
        · rename_i ps' hs
          simp at h
          subst h
          obtain ⟨h1, h2⟩ := C03_lossless T enc mode _ k c r hf
          obtain ⟨i1, i2⟩ := ih r ps' hs
          refine ⟨by simp [i1, h1], ?_⟩
          intro p hp
          simp at hp
          rcases hp with rfl | hp
          · exact h2
          · exact i2 p hp

/-- In bytes mode the key IS the consumed bytes (so the keys of a run concatenate to the stream). -/
theorem C03_lossless_bytes (T : KeyTables) (enc : Enc) (buf : List Nat) (k : KeyVal) (consumed rest : List Nat)
    (h : findKey T enc .bytes buf = .ok (some (k, consumed, rest))) : k = .bytes consumed := by
  suffices ∀ un cur, findKeyLoop T enc .bytes cur un = .ok (some (k, consumed, rest)) → k = .bytes consumed from
    this buf [] h
  intro un
  induction un with
  | nil => intro cur h; simp only [findKeyLoop] at h; split at h <;> simp at h
  | cons b r ih =>
    intro cur h
    simp only [findKeyLoop] at h
    split at h
    · simp at h
    · rename_i k' hg
      simp at h
      obtain ⟨rfl, rfl, rfl⟩ := h
      unfold getKey at hg
      simp only [keyName, Except.map] at hg
      split at hg
      · simp at hg
      · split at hg
        · simp at hg; exact hg.symm
        · split at hg
          · simp at hg
          · split at hg
            · simp at hg; exact hg.symm
            · simp at hg
    · exact ih _ h

/-! ### (3) recognised sequences arriving whole -/

/-- The one configuration the property sets aside "by design": under utf-8, a one-byte 8-bit key that is also a
    UTF-8 lead byte (RFC 3629: C2..F4), with more bytes buffered behind it. -/
def metaCollision (enc : Enc) (u rest : List Nat) : Prop :=
  enc = .utf8 ∧ rest ≠ [] ∧ ∃ b, u = [b] ∧ 0xC2 ≤ b ∧ b ≤ 0xF4

/-- Footprint of known finding D43: under utf-8, one of the one-byte keys C0, C1, F5..FD - NOT UTF-8 lead bytes,
    so the property's parenthesis does not cover them - with more bytes buffered behind it. The code treats them
    like lead bytes: it waits and then raises UnicodeDecodeError (`C03_D43_witness`). -/
def d43Collision (enc : Enc) (u rest : List Nat) : Prop :=
  enc = .utf8 ∧ rest ≠ [] ∧ ∃ b, u = [b] ∧ isD43Byte b

/-- For every entry `u` of either table, every continuation `rest`, encoding and naming mode:
    every proper prefix of `u` makes the decoder wait; then
    - if `u` ends the buffer or is not a KEYMAP_PREFIXES member: `find_key` returns `u` as ONE keypress under its
      table name (`tableName`, Proofs/Keys.lean: curtsies mode - `u` has a curtsies name and the key is it; curses
      mode - its curses name, or for curtsies-only entries the decoded bytes / `xHH`; bytes mode - the bytes),
      `rest` untouched;
    - if `u` is a KEYMAP_PREFIXES member and more bytes are buffered: the decoder keeps reading, and whatever it
      returns consumed `u` and at least one more byte (never broken up). -/
theorem C03_table (T : KeyTables) (hT : T.WF) (u : List Nat) (hu : T.isKey u = true) (enc : Enc)
    (mode : KeyMode) (rest : List Nat) (hc : ¬ metaCollision enc u rest) (hd : ¬ d43Collision enc u rest) :
    (∀ i, 1 ≤ i → i < u.length → getKey T (u.take i) enc mode false = .ok none) ∧
    ((rest = [] ∨ u ∉ T.prefixes) →
      ∃ k, findKey T enc mode (u ++ rest) = .ok (some (k, u, rest)) ∧ tableName T u enc mode k) ∧
    ((rest ≠ [] ∧ u ∈ T.prefixes) →
      findKey T enc mode (u ++ rest) = findKeyLoop T enc mode u rest ∧
      ∀ k c r, findKey T enc mode (u ++ rest) = .ok (some (k, c, r)) → ∃ m, m ≠ [] ∧ c = u ++ m) := by
  obtain ⟨hne, hb, hl, hm⟩ := isKey_entry hT hu
  have hwait : ∀ i, 1 ≤ i → i < u.length → getKey T (u.take i) enc mode false = .ok none := by
    intro i h1 h2
    obtain ⟨e, he, rfl⟩ := KeyTables.isKey_mem hu
    exact getKey_prefix hT (hT.prefix_closed e he (hm (by omega)).1 i h2 h1) enc mode
  refine ⟨hwait, ?_, ?_⟩
  · intro h
    obtain ⟨k, hk, hn⟩ := keyName_isKey hT hu enc mode
    refine ⟨k, findKey_unit enc mode u rest hne hwait k ?_, hn⟩
    rw [getKey_known hl enc mode _ (keyKnown_of_isKey hu enc), hk]; rfl
    by_cases hr : rest = []
    · left; simp [hr]
    · right
      refine ⟨h.resolve_left hr, unfinished_isKey hT hu enc ?_⟩
      rintro ⟨he, b, hb', h1, h2⟩
      by_cases h3 : 0xC2 ≤ b ∧ b ≤ 0xF4
      · exact hc ⟨he, hr, b, hb', h3⟩
      · exact hd ⟨he, hr, b, hb', by unfold isD43Byte; omega⟩
  · rintro ⟨hr, hp⟩
    have e : findKey T enc mode (u ++ rest) = findKeyLoop T enc mode u rest := by
      apply findKey_unit_wait enc mode u rest hr
      intro i h1 h2
      by_cases h3 : i < u.length
      · exact hwait i h1 h3
      · rw [List.take_of_length_le (by omega)]
        exact getKey_prefix hT hp enc mode
    refine ⟨e, ?_⟩
    intro k c r h
    rw [e] at h
    exact (findKeyLoop_lossless enc mode u rest k c r h).2.2

/-- `C03_table` for the tables regenerated from /repo. -/
theorem C03_table_generated (u : List Nat) (hu : genTables.isKey u = true) (enc : Enc) (mode : KeyMode)
    (rest : List Nat) (hc : ¬ metaCollision enc u rest) (hd : ¬ d43Collision enc u rest) :
    (∀ i, 1 ≤ i → i < u.length → getKey genTables (u.take i) enc mode false = .ok none) ∧
    ((rest = [] ∨ u ∉ genTables.prefixes) →
      ∃ k, findKey genTables enc mode (u ++ rest) = .ok (some (k, u, rest)) ∧ tableName genTables u enc mode k) ∧
    ((rest ≠ [] ∧ u ∈ genTables.prefixes) →
      findKey genTables enc mode (u ++ rest) = findKeyLoop genTables enc mode u rest ∧
      ∀ k c r, findKey genTables enc mode (u ++ rest) = .ok (some (k, c, r)) → ∃ m, m ≠ [] ∧ c = u ++ m) :=
  C03_table genTables genTables_wf u hu enc mode rest hc hd

/-- Non-vacuity: F5 (`ESC [ 1 5 ~`) followed by `a`, and ESC (a KEYMAP_PREFIXES member) alone. -/
example : findKey genTables .utf8 .curtsies ([27, 91, 49, 53, 126] ++ [97]) =
    .ok (some (.text (cpsOf "<F5>"), [27, 91, 49, 53, 126], [97])) := by decide +kernel
example : findKey genTables .utf8 .curses [27] = .ok (some (.text (cpsOf "\x1b"), [27], [])) := by decide +kernel

/-! ### (4) every character as itself -/

/-- `chr(c).encode(encoding)`: the bytes of character `c`, when the encoding has it -/
def charBytes : Enc → Nat → Option (List Nat)
  | .utf8, c => if isScalar c then some (encode c) else none
  | .latin1, c => if c < 256 then some [c] else none
  | .ascii, c => if c < 128 then some [c] else none

/-- Every Unicode scalar value whose encoding is not itself a table key (utf-8: all 1 112 064 scalar values,
    strict validity; latin-1: c < 256; ascii: c < 128), followed by ANY bytes `rest`: every proper prefix of its
    encoding makes the decoder wait, and `find_key` returns the character itself (`plainKey`: the one-character
    string `[c]`; in bytes mode its bytes), consuming exactly its encoding and leaving `rest` untouched. -/
theorem C03_chars (T : KeyTables) (hT : T.WF) (enc : Enc) (c : Nat) (bs : List Nat)
    (hbs : charBytes enc c = some bs) (hnk : T.isKey bs = false) (mode : KeyMode) (rest : List Nat) :
    (∀ i, 1 ≤ i → i < bs.length → getKey T (bs.take i) enc mode false = .ok none) ∧
    findKey T enc mode (bs ++ rest) = .ok (some (plainKey mode [c] bs, bs, rest)) := by
  have single : ∀ b : Nat, bs = [b] → decode enc [b] = some [c] →
      (∀ i, 1 ≤ i → i < bs.length → getKey T (bs.take i) enc mode false = .ok none) ∧
      findKey T enc mode (bs ++ rest) = .ok (some (plainKey mode [c] bs, bs, rest)) := by
    intro b hb hdec
    subst hb
    have hw : ∀ i, 1 ≤ i → i < [b].length → getKey T ([b].take i) enc mode false = .ok none := by
      intro i h1 h2; simp at h2; omega
    refine ⟨hw, findKey_decodable_unit enc mode rest (by have := hT.fits_utf8; simp; omega) (by simp) hdec hnk ?_ hw⟩
    intro hmem
    have := hT.esc_is_key _ hmem rfl
    rw [this] at hnk; cases hnk
  cases enc with
  | utf8 =>
    simp only [charBytes] at hbs
    split at hbs
    · rename_i hs
      cases hbs
      exact findKey_char_utf8 hT mode rest (encode_shape c hs) (by simpa using decodeOne_encode c hs []) hnk
    · cases hbs
  | latin1 =>
    simp only [charBytes] at hbs
    split at hbs
    · rename_i hc; cases hbs
      exact single c rfl (by simp [decode, decodeLatin1, hc])
    · cases hbs
  | ascii =>
    simp only [charBytes] at hbs
    split at hbs
    · rename_i hc; cases hbs
      exact single c rfl (by simp [decode, decodeAscii, hc])
    · cases hbs

/-- The other half: a character whose encoding IS a table key (control characters, space, DEL; under latin-1
    all of 0x80..0xFF - 162 of the 256 latin-1 characters in all) is reported under its TABLE name, not as itself
    (`C03_table` with a one-byte `u`; under utf-8 a multi-byte encoding is never a table key). This is the
    reading the check uses: "reports every character as itself" is claimed for characters that are not table
    keys. -/
theorem C03_chars_table_key (T : KeyTables) (hT : T.WF) (enc : Enc) (c : Nat) (bs : List Nat)
    (hbs : charBytes enc c = some bs) (hk : T.isKey bs = true) (mode : KeyMode) (rest : List Nat)
    (hc : ¬ metaCollision enc bs rest) (hd : ¬ d43Collision enc bs rest) (hp : rest = [] ∨ bs ∉ T.prefixes) :
    bs.length = 1 ∧ ∃ k, findKey T enc mode (bs ++ rest) = .ok (some (k, bs, rest)) ∧ tableName T bs enc mode k := by
  refine ⟨?_, (C03_table T hT bs hk enc mode rest hc hd).2.1 hp⟩
  cases enc with
  | utf8 =>
    simp only [charBytes] at hbs
    split at hbs
    · rename_i hs
      cases hbs
      have hshape := encode_shape c hs
      by_cases h2 : 2 ≤ (encode c).length
      · obtain ⟨b0, t, he, hb0⟩ := hshape.head_ge h2
        have := ((isKey_entry hT hk).2.2.2 h2).1
        rw [he] at this; simp at this; omega
      · have := hshape.length_le; omega
    · cases hbs
  | latin1 => simp only [charBytes] at hbs; split at hbs <;> cases hbs; rfl
  | ascii => simp only [charBytes] at hbs; split at hbs <;> cases hbs; rfl

/-- `C03_chars` for the regenerated tables. -/
theorem C03_chars_generated (enc : Enc) (c : Nat) (bs : List Nat) (hbs : charBytes enc c = some bs)
    (hnk : genTables.isKey bs = false) (mode : KeyMode) (rest : List Nat) :
    (∀ i, 1 ≤ i → i < bs.length → getKey genTables (bs.take i) enc mode false = .ok none) ∧
    findKey genTables enc mode (bs ++ rest) = .ok (some (plainKey mode [c] bs, bs, rest)) :=
  C03_chars genTables genTables_wf enc c bs hbs hnk mode rest

/-- strict UTF-8: the encoding of every scalar value is one valid character, and `decodeOne` inverts `encode` -/
theorem C03_utf8_roundtrip (c : Nat) (hs : isScalar c) (r : List Nat) :
    validChar (encode c) ∧ decodeOne (encode c ++ r) = some (c, r) :=
  ⟨validChar_encode c hs, decodeOne_encode c hs r⟩

/-- Non-vacuity: U+20AC (e2 82 ac) followed by ESC under utf-8; 'a' under ascii. -/
example : charBytes .utf8 0x20AC = some [0xE2, 0x82, 0xAC] ∧ genTables.isKey [0xE2, 0x82, 0xAC] = false ∧
    findKey genTables .utf8 .curtsies ([0xE2, 0x82, 0xAC] ++ [27]) = .ok (some (.text [0x20AC], [0xE2, 0x82, 0xAC], [27])) := by
  decide +kernel
example : charBytes .ascii 97 = some [97] ∧ genTables.isKey [97] = false := by decide +kernel

/-! ### (2) the decoder asks for more input only while the bytes can still grow -/

/-- `seq` is a proper, non-empty prefix of a table sequence: it can still grow into a recognised sequence -/
def growsIntoKey (T : KeyTables) (seq : List Nat) : Prop :=
  ∃ e ∈ T.all, ∃ i < e.1.length, 1 ≤ i ∧ e.1.take i = seq

theorem map_some_ne_none {ε α : Type} (x : Except ε α) : Except.map some x ≠ .ok none := by
  cases x <;> simp [Except.map]

/-- an unfinished utf-8 lead: what `couldBeUnfinishedUtf8` says about the first byte and the length -/
theorem unfinished_lead {seq : List Nat} (h : couldBeUnfinishedUtf8 seq = true) :
    ∃ b0 t, seq = b0 :: t ∧ 0xC0 ≤ b0 ∧ b0 ≤ 0xFD ∧
      ((b0 < 0xE0 → seq.length < 2) ∧ (0xE0 ≤ b0 → b0 < 0xF0 → seq.length < 3) ∧
       (0xF0 ≤ b0 → b0 < 0xF8 → seq.length < 4)) := by
  cases seq with
  | nil => simp [couldBeUnfinishedUtf8] at h
  | cons b0 t =>
    refine ⟨b0, t, rfl, ?_⟩
    simp only [couldBeUnfinishedUtf8, Bool.or_eq_true, Bool.and_eq_true, beq_iff_eq, decide_eq_true_eq,
      List.length_cons] at h ⊢
    omega

/-- The property's clause, for input made of recognised sequences and validly encoded characters:
    let `seq ++ ext` be such input (`Recognised`, any of the three encodings; `ext` = what has not been handed to
    the decoder yet) and let the decoder be asked about `seq` with `full` as `find_key` computes it when nothing
    is left (`ext = [] → full = true`; when bytes are left `full` is arbitrary, so both situations are covered).
    If it asks for more input (`ok none`) then `seq` is a proper prefix of a table sequence, or (utf-8 only)
    `seq` can be completed by at least one more byte to ONE strictly valid character. Under ascii and latin-1 the
    decoder therefore waits only on table prefixes. The hypothesis is about the INPUT, not about the model's own
    predicate: the proof shows that `couldBeUnfinishedUtf8` keeps `seq` inside the first character of the
    input, whose remaining bytes are the completion. `hd43` excludes exactly D43's footprint (the input starting
    with a one-byte key C0, C1, F5..FD followed by another byte), where the code does wait without a possible
    completion. -/
theorem C03_waits_only_when_growable (T : KeyTables) (hT : T.WF) (enc : Enc) (seq ext : List Nat)
    (mode : KeyMode) (full : Bool) (hrec : Recognised T enc (seq ++ ext)) (hfull : ext = [] → full = true)
    (hd43 : enc = .utf8 → headNoD43 (seq ++ ext)) (h : getKey T seq enc mode full = .ok none) :
    growsIntoKey T seq ∨ (enc = .utf8 ∧ ∃ e, e ≠ [] ∧ validChar (seq ++ e)) := by
  unfold getKey at h
  split at h
  · cases h
  · split at h
    · exact absurd h (map_some_ne_none _)
    · rename_i hfk
      split at h
      · rename_i hw
        simp only [Bool.or_eq_true] at hw
        rcases hw with hw | hw
        · left
          obtain ⟨e, he, _, i, hi, h1, h2⟩ := hT.prefix_sound seq (by simpa using hw)
          exact ⟨e, he, i, hi, h1, h2⟩
        · right
          cases enc with
          | ascii => simp [couldBeUnfinishedChar] at hw
          | latin1 =>
            have hb : ∀ b ∈ seq, b < 256 := fun b hb => hrec b (by simp [hb])
            have : decodable seq .latin1 = true := by
              simp only [decodable, decode, decodeLatin1]
              rw [if_pos (by simpa using hb)]; rfl
            simp [couldBeUnfinishedChar, this] at hw
          | utf8 =>
            refine ⟨rfl, ?_⟩
            have hu : couldBeUnfinishedUtf8 seq = true := by
              simp only [couldBeUnfinishedChar] at hw
              split at hw
              · cases hw
              · exact hw
            obtain ⟨b0, t, rfl, hlo, hhi, hlen⟩ := unfinished_lead hu
            simp only [Recognised] at hrec
            generalize hbuf : (b0 :: t) ++ ext = buf at hrec
            cases hrec with
            | nil => simp at hbuf
            | last b hk =>
              exfalso
              simp at hbuf
              obtain ⟨rfl, rfl, rfl⟩ := hbuf
              have := hfull rfl
              subst this
              simp [keyKnown_of_isKey hk] at hfk
            | key8 b r hk h128 hlead _ =>
              exfalso
              simp at hbuf
              obtain ⟨rfl, hbuf⟩ := hbuf
              by_cases hr0 : r = []
              · subst hr0
                have ht : t = [] := by cases t <;> simp_all
                have he : ext = [] := by cases ext <;> simp_all
                subst ht
                have := hfull he
                subst this
                simp [keyKnown_of_isKey hk] at hfk
              · have := hd43 rfl b0 r (by simp [hbuf]) hr0
                unfold isD43Byte at this
                omega
            | char p r hp hr =>
              have hlp : (b0 :: t).length < p.length := by
                cases hp with
                | one b _ => simp at hbuf; omega
                | two a b h0 h0' _ => simp at hbuf; have := hlen.1 (by omega); simp at this ⊢; omega
                | three a b c h0 h0' _ _ _ _ => simp at hbuf; have := hlen.2.1 (by omega) (by omega); simp at this ⊢; omega
                | four a b c d h0 h0' _ _ _ _ _ =>
                  simp at hbuf; have := hlen.2.2 (by omega) (by omega); simp at this ⊢; omega
              have hpre : p = (b0 :: t) ++ p.drop (b0 :: t).length := by
                have h1 : p.take (b0 :: t).length = b0 :: t := by
                  have e1 : List.take (b0 :: t).length (p ++ r) = List.take (b0 :: t).length p :=
                    List.take_append_of_le_length (by omega)
                  have e2 : List.take (b0 :: t).length ((b0 :: t) ++ ext) = b0 :: t := by simp
                  rw [hbuf, e1] at e2
                  exact e2
                conv => lhs; rw [← List.take_append_drop (b0 :: t).length p]
                rw [h1]
              refine ⟨p.drop (b0 :: t).length, ?_, ?_⟩
              · intro e
                have := congrArg List.length e
                simp at this; simp at hlp; omega
              · rw [← hpre]; exact hp.valid
      · split at h
        · exact absurd h (map_some_ne_none _)
        · cases h

/-- Non-vacuity: `E2 82` with `AC` still to come is recognised input on which the decoder waits (also when told
    the buffer is exhausted), and `ESC [ 1` followed by `5 ~` likewise. -/
example : Recognised genTables .utf8 ([0xE2, 0x82] ++ [0xAC]) ∧
    getKey genTables [0xE2, 0x82] .utf8 .curtsies false = .ok none ∧
    getKey genTables [0xE2, 0x82] .utf8 .curtsies true = .ok none ∧
    getKey genTables [27, 91, 49] .utf8 .curtsies false = .ok none := by
  refine ⟨?_, by decide +kernel, by decide +kernel, by decide +kernel⟩
  exact RecUtf8.char [0xE2, 0x82, 0xAC] [] (.three _ _ _ (by omega) (by omega) (by decide) (by decide)
    (by omega) (by omega)) .nil

/-- a lead byte followed by continuation bytes that are valid so far (strict UTF-8 ranges), still incomplete
    (independent of the decoder: used only for the strict-UTF-8 fact below) -/
def wellFormedSoFar : List Nat → Prop
  | [b0] => 0xC2 ≤ b0 ∧ b0 < 0xF5
  | [b0, b1] => 0xE0 ≤ b0 ∧ b0 < 0xF5 ∧ isCont b1 = true ∧ (b0 = 0xE0 → 0xA0 ≤ b1) ∧ (b0 = 0xED → b1 < 0xA0) ∧
      (b0 = 0xF0 → 0x90 ≤ b1) ∧ (b0 = 0xF4 → b1 < 0x90)
  | [b0, b1, b2] => 0xF0 ≤ b0 ∧ b0 < 0xF5 ∧ isCont b1 = true ∧ isCont b2 = true ∧
      (b0 = 0xF0 → 0x90 ≤ b1) ∧ (b0 = 0xF4 → b1 < 0x90)
  | _ => False

theorem C03_wellformed_prefix_completes (seq : List Nat) (h : wellFormedSoFar seq) :
    ∃ ext, ext ≠ [] ∧ validChar (seq ++ ext) := by
  have c80 : isCont 0x80 = true := by decide
  have cA0 : isCont 0xA0 = true := by decide
  have c90 : isCont 0x90 = true := by decide
  match seq, h with
  | [b0], h =>
    simp only [wellFormedSoFar] at h
    by_cases h1 : b0 < 0xE0
    · exact ⟨[0x80], by simp, _, decodeOne_2 b0 0x80 [] h.1 h1 c80⟩
    · by_cases h2 : b0 < 0xF0
      · by_cases e : b0 = 0xE0
        · exact ⟨[0xA0, 0x80], by simp, _, decodeOne_3 b0 0xA0 0x80 [] (by omega) h2 cA0 c80 (by omega) (by omega)⟩
        · exact ⟨[0x80, 0x80], by simp, _, decodeOne_3 b0 0x80 0x80 [] (by omega) h2 c80 c80 (by omega) (by omega)⟩
      · by_cases e : b0 = 0xF0
        · exact ⟨[0x90, 0x80, 0x80], by simp, _,
            decodeOne_4 b0 0x90 0x80 0x80 [] (by omega) h.2 c90 c80 c80 (by omega) (by omega)⟩
        · exact ⟨[0x80, 0x80, 0x80], by simp, _,
            decodeOne_4 b0 0x80 0x80 0x80 [] (by omega) h.2 c80 c80 c80 (by omega) (by omega)⟩
  | [b0, b1], h =>
    simp only [wellFormedSoFar] at h
    obtain ⟨h0, h0', i1, e1, e2, e3, e4⟩ := h
    by_cases h2 : b0 < 0xF0
    · exact ⟨[0x80], by simp, _, decodeOne_3 b0 b1 0x80 [] h0 h2 i1 c80 e1 e2⟩
    · exact ⟨[0x80, 0x80], by simp, _, decodeOne_4 b0 b1 0x80 0x80 [] (by omega) h0' i1 c80 c80 e3 e4⟩
  | [b0, b1, b2], h =>
    simp only [wellFormedSoFar] at h
    obtain ⟨h0, h0', i1, i2, e3, e4⟩ := h
    exact ⟨[0x80], by simp, _, decodeOne_4 b0 b1 b2 0x80 [] h0 h0' i1 i2 c80 e3 e4⟩

/-- The unconditional reading ("whenever the decoder waits, the bytes can be completed to a table sequence or a
    valid character", for ARBITRARY bytes) is false, as recorded in the design: under utf-8 the decoder waits on
    `E0 41`, which no continuation completes. NOT A FINDING: the witness input `E0 41` is outside the property's
    domain (its clause is about input made of recognised sequences and validly encoded characters, and `E0 41`
    is the start of neither); the statement is kept only to document why `C03_waits_only_when_growable` carries
    the `Recognised` hypothesis. -/
def C03_waits_unconditional_remark : Prop :=
  ∀ seq, getKey genTables seq .utf8 .curtsies false = .ok none →
    growsIntoKey genTables seq ∨ ∃ ext, validChar (seq ++ ext)

set_option maxRecDepth 100000 in
theorem C03_waits_unconditional_false : ¬ C03_waits_unconditional_remark := by
  intro h
  have h1 : getKey genTables [0xE0, 0x41] .utf8 .curtsies false = .ok none := by decide +kernel
  have h2 : ¬ growsIntoKey genTables [0xE0, 0x41] := by unfold growsIntoKey; decide +kernel
  rcases h _ h1 with h3 | ⟨ext, c, h3⟩
  · exact h2 h3
  · cases ext with
    | nil => simp [decodeOne] at h3
    | cons x t => simp [decodeOne, isCont] at h3

/-! ### (5) never fails on recognised input - outside known finding D12 -/

/-- FULL statement: on input made of recognised sequences and validly encoded characters (`Recognised`, byte-level,
    Proofs/KeysLoop.lean: utf-8 = valid characters and one-byte keys that are not UTF-8 lead bytes, optionally
    ended by any one-byte key; ascii = ASCII and single-byte keys; latin-1 = any bytes) decoding the whole buffer
    never fails. It is FALSE for the code as it is: known findings D12 (`C03_D12_witness`) and D43
    (`C03_D43_witness`). -/
def C03_never_fails_full_statement : Prop :=
  ∀ (enc : Enc) (mode : KeyMode) (buf : List Nat), Recognised genTables enc buf →
    ∃ ps, segment genTables enc mode buf.length buf = .ok ps

/-- What is proved: the full statement with two extra hypotheses, each EXACTLY the complement of one known
    finding's footprint, relative to the decoder's own run (Proofs/KeysLoop.lean):
    `runNoD12` - in no `find_key()` call is `get_key` handed a KEYMAP_PREFIXES member followed by a byte >= 0x80
    (utf-8 and ascii); `runNoD43` - no `find_key()` call starts on one of the one-byte keys C0, C1, F5..FD followed
    by another byte (utf-8). For arbitrary tables satisfying `WF`, any fuel >= the buffer length.
    Missing relative to the full statement: the D12 and D43 regions themselves (where the code does fail). -/
theorem C03_never_fails_partial (T : KeyTables) (hT : T.WF) (enc : Enc) (mode : KeyMode) (n : Nat) :
    ∀ buf : List Nat, buf.length ≤ n → Recognised T enc buf → (enc = .latin1 ∨ runNoD12 T enc mode n buf) →
    (enc = .utf8 → runNoD43 T enc mode n buf) →
    ∃ ps, segment T enc mode n buf = .ok ps := by
  induction n with
  | zero =>
    intro buf hl _ _ _
    have : buf = [] := List.eq_nil_of_length_eq_zero (by omega)
    subst this; exact ⟨[], rfl⟩
  | succ n ih =>
    intro buf hl hrec hno hd
    cases buf with
    | nil => exact ⟨[], rfl⟩
    | cons b bs =>
      obtain ⟨k, c, r, hf, hr⟩ := findKey_recognised hT enc mode (b :: bs) (by simp) hrec
        (hno.imp id (fun h => h.1)) (fun he => (hd he).1)
      obtain ⟨h1, h2⟩ := C03_lossless T enc mode _ k c r hf
      have hlen : r.length ≤ n := by
        have : (c ++ r).length = (b :: bs).length := by rw [h1]
        have hc : 0 < c.length := List.length_pos_iff.mpr h2
        simp at this hl; omega
      obtain ⟨ps, hps⟩ := ih r hlen hr (hno.imp id (fun h => h.2 k c r hf)) (fun he => (hd he).2 k c r hf)
      exact ⟨(k, c) :: ps, by simp [segment, hf, hps]⟩

/-- The same with STATIC, decoder-independent hypotheses: `noD12` (nowhere in the buffer is a KEYMAP_PREFIXES
    member followed by a byte >= 0x80; it over-approximates D12's footprint, e.g. `1b 5b 31 1b c3 a9` is excluded
    although it decodes - see the example below) and `noD43` (nowhere is a byte C0, C1, F5..FD followed by
    another byte; exact on recognised input). -/
theorem C03_never_fails_static (T : KeyTables) (hT : T.WF) (enc : Enc) (mode : KeyMode) (n : Nat)
    (buf : List Nat) (hl : buf.length ≤ n) (hrec : Recognised T enc buf) (hno : enc = .latin1 ∨ noD12 T buf)
    (hd : enc = .utf8 → noD43 buf) :
    ∃ ps, segment T enc mode n buf = .ok ps :=
  C03_never_fails_partial T hT enc mode n buf hl hrec (hno.imp id (runNoD12_of_noD12 enc mode n buf))
    (fun he => runNoD43_of_noD43 enc mode n buf (hd he))

/-- `C03_never_fails_partial` for the regenerated tables and the fuel the driver uses. -/
theorem C03_never_fails_generated (enc : Enc) (mode : KeyMode) (buf : List Nat)
    (hrec : Recognised genTables enc buf)
    (hno : enc = .latin1 ∨ runNoD12 genTables enc mode buf.length buf)
    (hd : enc = .utf8 → runNoD43 genTables enc mode buf.length buf) :
    ∃ ps, segment genTables enc mode buf.length buf = .ok ps :=
  C03_never_fails_partial genTables genTables_wf enc mode buf.length buf (Nat.le_refl _) hrec hno hd

/-- Known finding D43, witnessed on the model (and replayed on the real code by the harness on every run):
    0xC0 is a one-byte key (<Meta-@>) and not a UTF-8 lead byte, so `c0 41` is recognised input (<Meta-@>, 'A');
    the decoder waits on `c0` and raises UnicodeDecodeError on `c0 41`; on `f8 61` it waits even when told the
    buffer is exhausted (so `find_key` raises ValueError). The full statement is false here too. -/
theorem C03_D43_witness :
    genTables.isKey [0xC0] = true ∧ isD43Byte 0xC0 ∧ Recognised genTables .utf8 [0xC0, 0x41] ∧
    getKey genTables [0xC0] .utf8 .curtsies false = .ok none ∧
    getKey genTables [0xC0, 0x41] .utf8 .curtsies true = .error .unicodeDecodeError ∧
    getKey genTables [0xF8, 0x61] .utf8 .curtsies true = .ok none ∧
    findKey genTables .utf8 .curtsies [0xF8, 0x61] = .error .valueError ∧
    segment genTables .utf8 .curtsies 2 [0xC0, 0x41] = .error .unicodeDecodeError := by
  have hk : genTables.isKey [0xC0] = true := by decide +kernel
  refine ⟨hk, by decide, ?_, by decide +kernel, by decide +kernel, by decide +kernel, by decide +kernel,
    by decide +kernel⟩
  exact RecUtf8.key8 0xC0 [0x41] hk (by omega) (by omega) (RecUtf8.char [0x41] [] (.one _ (by omega)) .nil)

/-- Known finding D12, witnessed on the model (and replayed on the real code by the harness on every run):
    ESC (a key and a KEYMAP_PREFIXES member) followed by the 8-bit key 0xFF (<Meta-BACKSPACE>) is recognised
    input, and decoding it fails with UnicodeDecodeError under utf-8 and ascii, in `get_key` itself. So the full
    statement is false. -/
theorem C03_D12_witness :
    genTables.isKey [0x1b] = true ∧ genTables.isKey [0xff] = true ∧ [0x1b] ∈ genTables.prefixes ∧
    getKey genTables [0x1b, 0xff] .utf8 .curtsies false = .error .unicodeDecodeError ∧
    getKey genTables [0x1b, 0xff] .ascii .curtsies false = .error .unicodeDecodeError ∧
    getKey genTables [0x1b, 0xff] .utf8 .curtsies true = .error .unicodeDecodeError ∧
    findKey genTables .utf8 .curtsies [0x1b, 0xc3, 0xa9] = .error .unicodeDecodeError ∧
    ¬ C03_never_fails_full_statement := by
  have hk : genTables.isKey [0xff] = true := by decide +kernel
  refine ⟨by decide +kernel, hk, by decide +kernel, by decide +kernel, by decide +kernel, by decide +kernel,
    by decide +kernel, ?_⟩
  intro h
  have hrec : Recognised genTables .utf8 ([0x1b] ++ [0xff]) :=
    RecUtf8.char [0x1b] [0xff] (.one 0x1b (by omega)) (.last 0xff hk)
  obtain ⟨ps, hps⟩ := h .utf8 .curtsies _ hrec
  have : segment genTables .utf8 .curtsies 2 [0x1b, 0xff] = .error .unicodeDecodeError := by decide +kernel
  simp at hps
  rw [this] at hps
  cases hps

/-- The static `noD12` over-approximates: it excludes `1b 5b 31 1b c3 a9`, which decodes without failure (and on
    which the exact `runNoD12` holds, by `decide`-free inspection: the decoder's states `1b`, `1b 5b`, `1b 5b 31`
    are followed by ASCII bytes, and `c3 a9` starts a fresh call). -/
example : ¬ noD12 genTables [27, 91, 49, 27, 0xC3, 0xA9] ∧
    ∃ ps, segment genTables .utf8 .curtsies 6 [27, 91, 49, 27, 0xC3, 0xA9] = .ok ps := by
  refine ⟨?_, [(.text [27, 91, 49, 27], [27, 91, 49, 27]), (.text [0xE9], [0xC3, 0xA9])], by decide +kernel⟩
  intro h
  have := h [27, 91, 49] [27] 0xC3 [0xA9] (by simp) (by decide +kernel)
  omega

/-- Non-vacuity of `C03_never_fails_partial`: `ESC [ A`, U+00E9 and a final 0xFF form recognised input with no
    KEYMAP_PREFIXES member followed by a byte >= 0x80 ... -/
example : Recognised genTables .utf8 ([27] ++ ([91] ++ ([65] ++ ([0xC3, 0xA9] ++ [0xFF])))) :=
  .char _ _ (.one _ (by omega)) (.char _ _ (.one _ (by omega)) (.char _ _ (.one _ (by omega))
    (.char _ _ (.two _ _ (by omega) (by omega) (by decide)) (.last _ (by decide +kernel)))))
/-- ... and decodes to <UP>, U+00E9, <Meta-BACKSPACE>. -/
example : segment genTables .utf8 .curtsies 6 [27, 91, 65, 0xC3, 0xA9, 0xFF] =
    .ok [(.text (cpsOf "<UP>"), [27, 91, 65]), (.text [0xE9], [0xC3, 0xA9]), (.text (cpsOf "<Meta-BACKSPACE>"), [0xFF])] := by
  decide +kernel

/-! ### units: what "input made of recognised sequences and validly encoded characters" means -/

/-- one unit of "input made of recognised escape sequences and validly encoded characters": a table sequence or
    one valid character; under utf-8 a single-byte table key whose value is a UTF-8 lead byte (C2..F4) is not a
    unit here (it may only END the input: `final` in `C03_units_recognised`) -/
def isUnit (T : KeyTables) : Enc → List Nat → Prop
  | .utf8, u => (T.isKey u = true ∧ ∀ b, u = [b] → ¬ (0xC2 ≤ b ∧ b ≤ 0xF4)) ∨ Shape u
  | .ascii, u => T.isKey u = true ∨ ∃ b, u = [b] ∧ b < 128
  | .latin1, u => T.isKey u = true ∨ ∃ b, u = [b] ∧ b < 256

theorem recUtf8_ascii_append {T : KeyTables} (a r : List Nat) (ha : ∀ b ∈ a, b < 128) (hr : RecUtf8 T r) :
    RecUtf8 T (a ++ r) := by
  induction a with
  | nil => simpa using hr
  | cons x xs ih =>
    exact .char [x] (xs ++ r) (.one x (ha x (by simp))) (ih (fun b hb => ha b (by simp [hb])))

/-- Concatenations of units are `Recognised` (so `C03_never_fails_partial` speaks about exactly the inputs the
    property names). -/
theorem C03_units_recognised (T : KeyTables) (hT : T.WF) (enc : Enc) (units : List (List Nat)) (final : List Nat)
    (hu : ∀ u ∈ units, isUnit T enc u)
    (hf : final = [] ∨ (enc = .utf8 ∧ ∃ b, final = [b] ∧ T.isKey [b] = true)) :
    Recognised T enc (units.flatten ++ final) := by
  cases enc with
  | utf8 =>
    simp only [Recognised]
    induction units with
    | nil =>
      rcases hf with rfl | ⟨_, b, rfl, hb⟩
      · exact .nil
      · exact .last b hb
    | cons u us ih =>
      have ih := ih (fun v hv => hu v (by simp [hv]))
      simp only [List.flatten_cons, List.append_assoc]
      rcases hu u (by simp) with ⟨hk, h1⟩ | hs
      · obtain ⟨hne, _, _, hm⟩ := isKey_entry hT hk
        by_cases h2 : 2 ≤ u.length
        · exact recUtf8_ascii_append _ _ (hm h2).2 ih
        · match u, hne, h2, h1, hk with
          | [b], _, _, h1, hk =>
            by_cases hb : b < 128
            · exact recUtf8_ascii_append _ _ (by intro x hx; simp at hx; subst hx; exact hb) ih
            · exact .key8 b _ hk (by omega) (h1 b rfl) ih
          | _ :: _ :: _, _, h2, _, _ => simp at h2
      · exact .char u _ hs ih
  | ascii =>
    have hfin : final = [] := by rcases hf with h | ⟨h, _⟩; exact h; cases h
    subst hfin
    simp only [Recognised, List.append_nil, List.mem_flatten]
    rintro b ⟨u, hu', hb⟩
    rcases hu u hu' with hk | ⟨b', rfl, hb'⟩
    · obtain ⟨hne, _, _, hm⟩ := isKey_entry hT hk
      by_cases h2 : 2 ≤ u.length
      · exact Or.inl ((hm h2).2 b hb)
      · match u, hne, h2, hk, hb with
        | [x], _, _, hk, hb => simp at hb; subst hb; exact Or.inr hk
        | _ :: _ :: _, _, h2, _, _ => simp at h2
    · simp at hb; subst hb; exact Or.inl hb'
  | latin1 =>
    have hfin : final = [] := by rcases hf with h | ⟨h, _⟩; exact h; cases h
    subst hfin
    simp only [Recognised, List.append_nil, List.mem_flatten]
    rintro b ⟨u, hu', hb⟩
    rcases hu u hu' with hk | ⟨b', rfl, hb'⟩
    · exact (isKey_entry hT hk).2.1 b hb
    · simp at hb; subst hb; exact hb'

/-- Non-vacuity: F5 and the character U+20AC are units. -/
example : isUnit genTables .utf8 [27, 91, 49, 53, 126] ∧ isUnit genTables .utf8 [0xE2, 0x82, 0xAC] := by
  refine ⟨Or.inl ⟨by decide +kernel, by intro b h; cases h⟩, Or.inr ?_⟩
  exact .three _ _ _ (by omega) (by omega) (by decide) (by decide) (by omega) (by omega)

end Curtsies
