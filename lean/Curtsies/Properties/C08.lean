/-
  C08 - Input returns every byte and triggered event exactly once, in order.

  Model: Model/Input.lean (`send` mirrors `_send` / `_wait_for_read_ready_or_timeout` / `find_key` /
  `_nonblocking_read` statement by statement against an agenda of environment actions).  All theorems hold for EVERY
  key-segmentation function `gk` (events.get_key is a parameter), every byte type β (bytes cannot be invented: the
  model is parametric in β), every Params (READ_SIZE, MAX_KEYPRESS_SIZE, paste_threshold incl. None, with/without
  wake-up fd), every state and every agenda.

  THE LEDGER (`Took`): for one request, per source,
      (what the request returned) ++ (what the Input/OS still hold afterwards)
        = (what was held before) ++ (what the agenda items that fired during the request brought in)
  as LISTS (order preserved) for event_trigger events, threadsafe events, and bytes (`pend` = unprocessed ++ osbuf,
  `unget_bytes` included); as a multiset (`List.Perm`) for scheduled events (the request sorts them); as a count for
  SIGINT events; `lost` is what disappeared - only bytes can, and only when the request raises.
  `C08_exactly_once` is that statement for `send`, proved through `select` (induction on the agenda), the wait loop
  (induction on fuel), `find_key`, the paste loop and both scheduled-event checks.

  PARTIAL BY NATURE / ASSUMPTIONS: see the header of Model/Input.lean (GIL atomicity of list operations, signal
  timing, select fairness/order; preemption only inside select).
  KNOWN FINDINGS D15, D12, D35: when `find_key` raises (D15: the available bytes end inside a multi-byte keypress ->
  ValueError; D12: `get_key` itself raises UnicodeDecodeError on ESC-prefix + byte >= 0x80; D35: ... on ill-formed
  UTF-8 in mid-stream, e.g. c3 41) the bytes popped so far - in the paste branch the whole paste - are lost, valid
  ones included.  `C08_full_statement` (nothing is ever lost) is therefore false: `C08_D15_witness`,
  `C08_D12_witness`, `C08_D35_witness`.  `C08_exactly_once_partial` carries the complementary hypothesis: the request
  does not raise (every `find_key` of the request ends on a keypress boundary and `get_key` does not raise).
  `C08_no_early` (never before its time; time order; ties in trigger order - via sortedness and stability of the
  model's sort), `C08_timeout_partial`, `C08_prompt` (all six kinds of "deliverable"), the multi-request corollary
  `C08_exactly_once_history`, the paste clauses (`C08_paste_iff`, `C08_paste_fuel`), "None only when nothing is
  readable" (`C08_none_nothing_readable_partial`) and the unreachability of `Fail.outOfFuel` (`C08_wait_fuel`,
  `C08_no_out_of_fuel`) are proved further down.
-/
import Curtsies.Model.Input
namespace Curtsies
open Curtsies.Input

variable {β κ : Type}

/-! ### what the fired part of the agenda contributes to each source -/
def qOf : EnvAct β → List Ev | .trigger e => [e] | _ => []
def iOf : EnvAct β → List Ev | .tsAppend _ e => [e] | _ => []
def sOf : EnvAct β → List (Time × Ev) | .schedule t e => [(t, e)] | _ => []
def gOf (P : Params) : EnvAct β → Nat | .sigint => if P.hasWake then 1 else 0 | _ => 0
def aOf : EnvAct β → List β | .arrive bs => bs | _ => []
def uOf : EnvAct β → List β | .unget bs => bs | _ => []
def bOf : EnvAct β → List β | .arrive bs => bs | .unget bs => bs | _ => []

def envQ (ag : Agenda β) : List Ev := ag.flatMap fun x => qOf x.2
def envI (ag : Agenda β) : List Ev := ag.flatMap fun x => iOf x.2
def envS (ag : Agenda β) : List (Time × Ev) := ag.flatMap fun x => sOf x.2
def envG (P : Params) (ag : Agenda β) : Nat := (ag.map fun x => gOf P x.2).sum
def envB (ag : Agenda β) : List β := ag.flatMap fun x => bOf x.2

/-- pending bytes: what was read but not decoded, then what the OS still holds -/
def pend (st : InSt β) : List β := st.unprocessed ++ st.osbuf

/-- effect of the fired agenda items on the pending sets, nothing removed -/
structure Grew (P : Params) (st : InSt β) (fired : Agenda β) (st' : InSt β) : Prop where
  q : st'.queued = st.queued ++ envQ fired
  i : st'.interrupting = st.interrupting ++ envI fired
  s : st'.scheduled = st.scheduled ++ envS fired
  g : st'.sigints = st.sigints + envG P fired
  b : pend st' = pend st ++ envB fired
  c : st.clock ≤ st'.clock

theorem Grew.refl (P : Params) (st : InSt β) : Grew P st [] st := by
  constructor <;> simp [envQ, envI, envS, envG, envB]

theorem firstReady_none_osbuf (P : Params) (st : InSt β) (h : firstReady P st = none) : st.osbuf = [] := by
  unfold firstReady at h
  split at h
  · simp at h
  · rename_i h2
    simp at h2
    exact h2.1

theorem applyEnv_grew (P : Params) (a : EnvAct β) (st : InSt β) (t : Time) (h : st.osbuf = []) :
    Grew P st [(t, a)] (applyEnv P a st) := by
  cases a <;> constructor <;>
    simp [applyEnv, envQ, envI, envS, envG, envB, qOf, iOf, sOf, gOf, bOf, pend, h] <;>
    (try split) <;> simp_all

theorem Grew.trans {P : Params} {a b c : InSt β} {f1 f2 : Agenda β} (h1 : Grew P a f1 b) (h2 : Grew P b f2 c) :
    Grew P a (f1 ++ f2) c := by
  constructor
  · rw [h2.q, h1.q]; simp [envQ]
  · rw [h2.i, h1.i]; simp [envI]
  · rw [h2.s, h1.s]; simp [envS]
  · rw [h2.g, h1.g]; simp [envG]; omega
  · rw [h2.b, h1.b]; simp [envB]
  · exact Nat.le_trans h1.c h2.c

theorem Grew.clock {P : Params} {a b : InSt β} {f : Agenda β} (h : Grew P a f b) (k : Time) (hk : a.clock ≤ k) :
    Grew P a f { b with clock := max b.clock k } := by
  constructor
  · exact h.q
  · exact h.i
  · exact h.s
  · exact h.g
  · exact h.b
  · exact Nat.le_trans h.c (Nat.le_max_left _ _)

theorem Grew.tick (P : Params) (st : InSt β) (d : Time) : Grew P st [] { st with clock := max st.clock d } := by
  constructor <;> first | exact Nat.le_max_left _ _ | simp [envQ, envI, envS, envG, envB, pend]

theorem Grew.step (P : Params) (st : InSt β) (t : Time) (a : EnvAct β) (ho : st.osbuf = []) :
    Grew P st [(t, a)] (applyEnv P a { st with clock := max st.clock t }) := by
  have step := (applyEnv_grew P a { st with clock := max st.clock t } t ho)
  constructor
  · exact step.q
  · exact step.i
  · exact step.s
  · exact step.g
  · exact step.b
  · exact Nat.le_trans (Nat.le_max_left _ t) step.c

theorem select_grew (P : Params) (dl : Option Time) (st : InSt β) (ag : Agenda β) :
    ∃ fired, ag = fired ++ (select P dl st ag).2.2 ∧ Grew P st fired (select P dl st ag).2.1 := by
  fun_induction select P dl st ag with
  | case1 st ag r h => exact ⟨[], rfl, Grew.refl P st⟩
  | case2 st h hd => exact ⟨[], rfl, Grew.refl P st⟩
  | case3 st h d hd => exact ⟨[], rfl, Grew.tick P st d⟩
  | case4 st h t a rest hd ih =>
    subst hd
    obtain ⟨f, hf, hg⟩ := ih
    exact ⟨(t, a) :: f, by simp [← hf], (Grew.step P st t a (firstReady_none_osbuf P st h)).trans hg⟩
  | case5 st h t a rest d hd hle ih =>
    subst hd
    obtain ⟨f, hf, hg⟩ := ih
    exact ⟨(t, a) :: f, by simp [← hf], (Grew.step P st t a (firstReady_none_osbuf P st h)).trans hg⟩
  | case6 st h t a rest d hd hle => exact ⟨[], rfl, Grew.tick P st d⟩

/-! ### what a returned value takes out of the pending sets -/
def outQ : Option (Out κ β) → List Ev | some (.queued e) => [e] | _ => []
def outI : Option (Out κ β) → List Ev | some (.interrupting e) => [e] | _ => []
def outS : Option (Out κ β) → List (Time × Ev) | some (.scheduled t e) => [(t, e)] | _ => []
def outG : Option (Out κ β) → Nat | some .sigint => 1 | _ => 0
def outB : Option (Out κ β) → List β
  | some (.key _ bs) => bs | some (.paste ks) => ks.flatMap (·.2) | _ => []

/-- THE LEDGER of one request: what came out (`out`), what was lost (`lost`, bytes only) and what is still held
    (`st'`) is exactly what was held before (`st`) plus what the fired agenda items brought in; per source, in order
    (scheduled events: as a multiset - the request sorts them). -/
structure Took (P : Params) (st : InSt β) (fired : Agenda β) (out : Option (Out κ β)) (lost : List β)
    (st' : InSt β) : Prop where
  q : outQ out ++ st'.queued = st.queued ++ envQ fired
  i : outI out ++ st'.interrupting = st.interrupting ++ envI fired
  s : (outS out ++ st'.scheduled).Perm (st.scheduled ++ envS fired)
  g : outG out + st'.sigints = st.sigints + envG P fired
  b : lost ++ outB out ++ pend st' = pend st ++ envB fired
  c : st.clock ≤ st'.clock

theorem Grew.took {P : Params} {a b : InSt β} {f : Agenda β} (h : Grew P a f b) :
    Took (κ := κ) P a f none [] b :=
  ⟨by simp [outQ, h.q], by simp [outI, h.i], by simp [outS, h.s], by simp [outG, h.g], by simp [outB, h.b], h.c⟩

theorem Took.after {P : Params} {a b c : InSt β} {f1 f2 : Agenda β} {out : Option (Out κ β)} {lost : List β}
    (h1 : Grew P a f1 b) (h2 : Took P b f2 out lost c) : Took P a (f1 ++ f2) out lost c := by
  constructor
  · rw [h2.q, h1.q]; simp [envQ]
  · rw [h2.i, h1.i]; simp [envI]
  · refine h2.s.trans ?_; rw [h1.s]; simp [envS]
  · rw [h2.g, h1.g]; simp [envG]; omega
  · rw [h2.b, h1.b]; simp [envB]
  · exact Nat.le_trans h1.c h2.c

def evOf : Except Fail (Bool × Option (Out κ β)) → Option (Out κ β)
  | .ok (_, o) => o | .error _ => none

theorem waitLoop_took (P : Params) (timeout : Option Time) (t0 : Time) (f : Nat) (remaining : Option Time)
    (st : InSt β) (ag : Agenda β) :
    ∃ fired, ag = fired ++ (waitLoop (κ := κ) P timeout t0 f remaining st ag).2.2 ∧
      Took P st fired (evOf (waitLoop (κ := κ) P timeout t0 f remaining st ag).1) []
        (waitLoop (κ := κ) P timeout t0 f remaining st ag).2.1 := by
  fun_induction waitLoop (κ := κ) P timeout t0 f remaining st ag with
  | case1 x st ag => exact ⟨[], rfl, (Grew.refl P st).took⟩
  | case2 f remaining st ag st1 ag1 hs =>
    have := select_grew P (Option.map (fun x => st.clock + x) remaining) st ag
    rw [hs] at this; obtain ⟨fi, h1, h2⟩ := this
    exact ⟨fi, h1, h2.took⟩
  | case3 f remaining st ag st1 ag1 hs =>
    have := select_grew P (Option.map (fun x => st.clock + x) remaining) st ag
    rw [hs] at this; obtain ⟨fi, h1, h2⟩ := this
    exact ⟨fi, h1, h2.took⟩
  | case4 f remaining st ag st1 ag1 hs =>
    have := select_grew P (Option.map (fun x => st.clock + x) remaining) st ag
    rw [hs] at this; obtain ⟨fi, h1, h2⟩ := this
    exact ⟨fi, h1, h2.took⟩
  | case5 f remaining st ag n rest st1 ag1 hs st2 hn hg =>
    have := select_grew P (Option.map (fun x => st.clock + x) remaining) st ag
    rw [hs] at this; obtain ⟨fi, h1, h2⟩ := this
    refine ⟨fi, h1, ?_⟩
    have hpos : st1.sigints > 0 := hg
    constructor
    · simpa [evOf, outQ] using h2.q
    · simpa [evOf, outI] using h2.i
    · simpa [evOf, outS] using h2.s ▸ List.Perm.refl _
    · have hg2 : st1.sigints = st.sigints + envG P fi := h2.g; show 1 + (st1.sigints - 1) = st.sigints + envG P fi; omega
    · simpa [evOf, outB, pend] using h2.b
    · exact h2.c
  | case6 f remaining st ag n rest st1 ag1 hs st2 hn hg ih =>
    have := select_grew P (Option.map (fun x => st.clock + x) remaining) st ag
    rw [hs] at this; obtain ⟨fi, h1, h2⟩ := this
    obtain ⟨f2, h3, h4⟩ := ih
    have h2' : Grew P st fi st2 := ⟨h2.q, h2.i, h2.s, h2.g, h2.b, h2.c⟩
    exact ⟨fi ++ f2, by rw [h1, List.append_assoc, ← h3], Took.after h2' h4⟩
  | case7 f remaining st ag n rest st1 ag1 hs st2 hn ih =>
    have := select_grew P (Option.map (fun x => st.clock + x) remaining) st ag
    rw [hs] at this; obtain ⟨fi, h1, h2⟩ := this
    obtain ⟨f2, h3, h4⟩ := ih
    have h2' : Grew P st fi st2 := ⟨h2.q, h2.i, h2.s, h2.g, h2.b, h2.c⟩
    exact ⟨fi ++ f2, by rw [h1, List.append_assoc, ← h3], Took.after h2' h4⟩
  | case8 f remaining st ag i st1 ag1 hs st2 e q he =>
    have := select_grew P (Option.map (fun x => st.clock + x) remaining) st ag
    rw [hs] at this; obtain ⟨fi, h1, h2⟩ := this
    refine ⟨fi, h1, ?_⟩
    have he' : st1.interrupting = e :: q := he
    constructor
    · simpa [evOf, outQ] using h2.q
    · have := h2.i; rw [he'] at this; simpa [evOf, outI] using this
    · simpa [evOf, outS] using h2.s ▸ List.Perm.refl _
    · simpa [evOf, outG] using h2.g
    · simpa [evOf, outB, pend] using h2.b
    · exact h2.c
  | case9 f remaining st ag i st1 ag1 hs st2 he ih =>
    have := select_grew P (Option.map (fun x => st.clock + x) remaining) st ag
    rw [hs] at this; obtain ⟨fi, h1, h2⟩ := this
    obtain ⟨f2, h3, h4⟩ := ih
    have h2' : Grew P st fi st2 := ⟨h2.q, h2.i, h2.s, h2.g, h2.b, h2.c⟩
    exact ⟨fi ++ f2, by rw [h1, List.append_assoc, ← h3], Took.after h2' h4⟩

/-! ### main-thread steps (no agenda item fires) -/
structure Internal (x : InSt β) (out : Option (Out κ β)) (lost : List β) (y : InSt β) : Prop where
  q : outQ out ++ y.queued = x.queued
  i : outI out ++ y.interrupting = x.interrupting
  s : (outS out ++ y.scheduled).Perm x.scheduled
  g : outG out + y.sigints = x.sigints
  b : lost ++ outB out ++ pend y = pend x
  c : x.clock ≤ y.clock

theorem Internal.refl (st : InSt β) : Internal (κ := κ) st none [] st :=
  ⟨by simp [outQ], by simp [outI], by simp [outS], by simp [outG], by simp [outB], Nat.le_refl _⟩

theorem Took.andThen {P : Params} {a b c : InSt β} {f : Agenda β} {out : Option (Out κ β)} {lost : List β}
    (h1 : Took (κ := κ) P a f none [] b) (h2 : Internal b out lost c) : Took P a f out lost c := by
  have q1 := h1.q; have i1 := h1.i; have s1 := h1.s; have g1 := h1.g; have b1 := h1.b
  simp [outQ, outI, outS, outG, outB] at q1 i1 s1 g1 b1
  exact ⟨by rw [h2.q, q1], by rw [h2.i, i1], h2.s.trans s1, by rw [h2.g, g1], by rw [h2.b, b1],
    Nat.le_trans h1.c h2.c⟩

theorem Internal.andThen {a b c : InSt β} {out : Option (Out κ β)} {lost : List β}
    (h1 : Internal (κ := κ) a none [] b) (h2 : Internal b out lost c) : Internal a out lost c := by
  have q1 := h1.q; have i1 := h1.i; have s1 := h1.s; have g1 := h1.g; have b1 := h1.b
  simp [outQ, outI, outS, outG, outB] at q1 i1 s1 g1 b1
  exact ⟨by rw [h2.q, q1], by rw [h2.i, i1], h2.s.trans s1, by rw [h2.g, g1], by rw [h2.b, b1],
    Nat.le_trans h1.c h2.c⟩

theorem Took.before {P : Params} {a b c : InSt β} {f : Agenda β} {out : Option (Out κ β)} {lost : List β}
    (h1 : Internal (κ := κ) a none [] b) (h2 : Took P b f out lost c) : Took P a f out lost c := by
  have q1 := h1.q; have i1 := h1.i; have s1 := h1.s; have g1 := h1.g; have b1 := h1.b
  simp [outQ, outI, outS, outG, outB] at q1 i1 s1 g1 b1
  exact ⟨by rw [h2.q, q1], by rw [h2.i, i1], h2.s.trans (List.Perm.append_right _ s1), by rw [h2.g, g1],
    by rw [h2.b, b1], Nat.le_trans h1.c h2.c⟩

theorem Internal.took {P : Params} {a b : InSt β} {out : Option (Out κ β)} {lost : List β}
    (h : Internal a out lost b) : Took P a [] out lost b :=
  ⟨by simp [envQ, h.q], by simp [envI, h.i], by simpa [envS] using h.s, by simp [envG, h.g],
   by simp [envB, h.b], h.c⟩

theorem findKey_split (gk : List Nat → Bool → Except PyErr (Option κ)) (val : β → Nat) (u cur : List β) :
    (findKey gk val u cur).2.1 ++ (findKey gk val u cur).2.2 = cur ++ u := by
  induction u generalizing cur with
  | nil => unfold findKey; split <;> simp
  | cons b rest ih =>
    unfold findKey
    simp only []
    split
    · simp
    · simp
    · rw [ih]; simp

theorem findKey_none (gk : List Nat → Bool → Except PyErr (Option κ)) (val : β → Nat) (u cur : List β)
    (h : (findKey gk val u cur).1 = .ok none) : u = [] ∧ cur = [] := by
  induction u generalizing cur with
  | nil =>
    unfold findKey at h
    split at h
    · rename_i hc; exact ⟨rfl, by simpa using hc⟩
    · simp at h
  | cons b rest ih =>
    unfold findKey at h
    simp only [] at h
    split at h
    · simp at h
    · simp at h
    · have := (ih _ h).2; simp at this

theorem read_internal (P : Params) (st : InSt β) : Internal (κ := κ) st none [] (nonblockingRead P st).2 := by
  constructor <;> simp [nonblockingRead, outQ, outI, outS, outG, outB, pend]

def resOut : Except Fail (Option (Out κ β)) → Option (Out κ β)
  | .ok o => o | .error _ => none

/-- the fields a main-thread byte step never touches -/
def SameEvents (x y : InSt β) : Prop :=
  y.queued = x.queued ∧ y.interrupting = x.interrupting ∧ y.scheduled = x.scheduled ∧ y.sigints = x.sigints ∧
    y.clock = x.clock

theorem pasteLoop_ledger (P : Params) (gk : List Nat → Bool → Except PyErr (Option κ)) (val : β → Nat) :
    ∀ (f : Nat) (acc : List (κ × List β)) (st : InSt β),
      SameEvents st (pasteLoop P gk val f acc st).2 ∧
      ∃ lost, lost ++ outB (resOut (pasteLoop P gk val f acc st).1) ++ pend (pasteLoop P gk val f acc st).2
          = acc.flatMap (·.2) ++ pend st ∧
        (∀ o, (pasteLoop P gk val f acc st).1 = .ok o → lost = [] ∧ ∃ ks, o = some (.paste ks)) := by
  intro f
  induction f with
  | zero =>
    intro acc st
    exact ⟨⟨rfl, rfl, rfl, rfl, rfl⟩, acc.flatMap (·.2), by simp [pasteLoop, resOut, outB], by simp [pasteLoop]⟩
  | succ f ih =>
    intro acc st
    unfold pasteLoop
    simp only []
    generalize hst1 : (if st.unprocessed.length < P.maxKey then (nonblockingRead P st).2 else st) = st1
    have e1 : SameEvents st st1 ∧ pend st1 = pend st := by
      subst hst1; split <;> simp [SameEvents, nonblockingRead, pend]
    obtain ⟨⟨q1, i1, s1, g1, c1⟩, b1⟩ := e1
    have hs := findKey_split gk val st1.unprocessed []
    have hn := findKey_none gk val st1.unprocessed []
    generalize findKey gk val st1.unprocessed [] = r at hs hn
    obtain ⟨res, used, rest⟩ := r
    simp only [List.nil_append] at hs
    have hp : used ++ pend { st1 with unprocessed := rest } = pend st := by
      rw [← b1]; simp only [pend]; rw [← hs]; simp
    cases res with
    | error e =>
      exact ⟨⟨q1, i1, s1, g1, c1⟩, acc.flatMap (·.2) ++ used, by simp [resOut, outB, ← hp], by simp⟩
    | ok o =>
      cases o with
      | none =>
        have hu := (hn rfl).1
        have hused : used = [] := by
          have : used ++ rest = [] := by rw [hs]; exact hu
          exact (List.append_eq_nil_iff.mp this).1
        subst hused
        exact ⟨⟨q1, i1, s1, g1, c1⟩, [], by simpa [resOut, outB] using hp, by simp⟩
      | some k =>
        obtain ⟨⟨q2, i2, s2, g2, c2⟩, lost, hl, ho⟩ := ih (acc ++ [(k, used)]) { st1 with unprocessed := rest }
        refine ⟨⟨q2.trans q1, i2.trans i1, s2.trans s1, g2.trans g1, c2.trans c1⟩, lost, ?_, ho⟩
        rw [hl, ← hp]; simp

theorem byteStep {x y : InSt β} {out : Option (Out κ β)} {lost : List β} (he : SameEvents x y)
    (hb : lost ++ outB out ++ pend y = pend x) (h1 : outQ out = []) (h2 : outI out = []) (h3 : outS out = [])
    (h4 : outG out = 0) : Internal x out lost y := by
  obtain ⟨q, i, s, g, c⟩ := he
  exact ⟨by simp [h1, q], by simp [h2, i], by simp [h3, s], by simp [h4, g], hb, Nat.le_of_eq c.symm⟩

theorem sendRead_internal (P : Params) (gk : List Nat → Bool → Except PyErr (Option κ)) (val : β → Nat)
    (st : InSt β) (ag : Agenda β) :
    (sendRead P gk val st ag).2.2 = ag ∧
    ∃ lost, Internal st (resOut (sendRead P gk val st ag).1) lost (sendRead P gk val st ag).2.1 ∧
      (∀ o, (sendRead P gk val st ag).1 = .ok o → lost = []) := by
  unfold sendRead
  simp only []
  have hr : SameEvents st (nonblockingRead P st).2 ∧ pend (nonblockingRead P st).2 = pend st := by
    simp [SameEvents, nonblockingRead, pend]
  generalize (nonblockingRead P st) = nr at hr
  obtain ⟨n, st1⟩ := nr
  obtain ⟨he1, hb1⟩ := hr
  simp only [] at he1 hb1 ⊢
  split
  · exact ⟨rfl, [], byteStep he1 (by simpa [resOut, outB] using hb1) rfl rfl rfl rfl, fun _ _ => rfl⟩
  · split
    · have := pasteLoop_ledger P gk val (pasteFuel st1) [] st1
      generalize pasteLoop P gk val (pasteFuel st1) [] st1 = pr at this
      obtain ⟨res, st2⟩ := pr
      obtain ⟨he2, lost, hl, ho⟩ := this
      simp only [] at he2 hl ho ⊢
      refine ⟨by first | rfl | trivial, lost, ?_, fun o h => (ho o h).1⟩
      have he : SameEvents st st2 := by
        obtain ⟨a1, a2, a3, a4, a5⟩ := he1; obtain ⟨b1, b2, b3, b4, b5⟩ := he2
        exact ⟨b1.trans a1, b2.trans a2, b3.trans a3, b4.trans a4, b5.trans a5⟩
      have hb : lost ++ outB (resOut res) ++ pend st2 = pend st := by rw [hl, ← hb1]; simp
      cases res with
      | error e => exact byteStep he hb rfl rfl rfl rfl
      | ok o =>
        obtain ⟨_, ks, hks⟩ := ho o rfl
        subst hks
        exact byteStep he hb rfl rfl rfl rfl
    · have hs := findKey_split gk val st1.unprocessed []
      generalize findKey gk val st1.unprocessed [] = r at hs
      obtain ⟨res, used, rest⟩ := r
      simp only [List.nil_append] at hs
      have hp : used ++ pend { st1 with unprocessed := rest } = pend st := by
        rw [← hb1]; simp only [pend]; rw [← hs]; simp
      have he : SameEvents st { st1 with unprocessed := rest } := he1
      cases res with
      | error e => exact ⟨rfl, used, byteStep he (by simpa [resOut, outB] using hp) rfl rfl rfl rfl, by simp⟩
      | ok o =>
        cases o with
        | none => exact ⟨rfl, used, byteStep he (by simpa [resOut, outB] using hp) rfl rfl rfl rfl, by simp⟩
        | some k => exact ⟨rfl, [], byteStep he (by simpa [resOut, outB] using hp) rfl rfl rfl rfl, fun _ _ => rfl⟩

theorem insertSched_perm (x : Time × Ev) (l : List (Time × Ev)) : (insertSched x l).Perm (x :: l) := by
  induction l with
  | nil => exact List.Perm.refl _
  | cons y ys ih =>
    unfold insertSched
    split
    · exact List.Perm.refl _
    · exact (List.Perm.cons y ih).trans (List.Perm.swap x y ys)

theorem sortSched_perm (l : List (Time × Ev)) : (sortSched l).Perm l := by
  induction l with
  | nil => exact List.Perm.refl _
  | cons x xs ih => exact (insertSched_perm x _).trans (List.Perm.cons x ih)

/-- `self.queued_scheduled_events.sort(...)` as a step -/
theorem sort_internal (st : InSt β) : Internal (κ := κ) st none [] { st with scheduled := sortSched st.scheduled } :=
  ⟨by simp [outQ], by simp [outI], by simpa [outS] using sortSched_perm st.scheduled, by simp [outG],
   by simp [outB, pend], Nat.le_refl _⟩

theorem popSched_internal (st : InSt β) (w : Time) (e : Ev) (rest : List (Time × Ev)) (h : st.scheduled = (w, e) :: rest) :
    Internal (κ := κ) st (some (.scheduled w e)) [] { st with scheduled := rest } :=
  ⟨by simp [outQ], by simp [outI], by simp [outS, h], by simp [outG], by simp [outB, pend], Nat.le_refl _⟩

theorem sendRest_took (P : Params) (gk : List Nat → Bool → Except PyErr (Option κ)) (val : β → Nat) (wf : Nat)
    (tuc : Option Time) (st : InSt β) (ag : Agenda β) :
    ∃ fired lost, ag = fired ++ (sendRest P gk val wf tuc st ag).2.2 ∧
      Took P st fired (resOut (sendRest P gk val wf tuc st ag).1) lost (sendRest P gk val wf tuc st ag).2.1 ∧
      (∀ o, (sendRest P gk val wf tuc st ag).1 = .ok o → lost = []) := by
  unfold sendRest
  have hs := findKey_split gk val st.unprocessed []
  have hn := findKey_none gk val st.unprocessed []
  generalize findKey gk val st.unprocessed [] = r at hs hn
  obtain ⟨res, used, rest⟩ := r
  simp only [List.nil_append] at hs
  have hp : used ++ pend { st with unprocessed := rest } = pend st := by
    simp only [pend]; rw [← hs]; simp
  have he : SameEvents st { st with unprocessed := rest } := ⟨rfl, rfl, rfl, rfl, rfl⟩
  cases res with
  | error e =>
    exact ⟨[], used, rfl, (byteStep he (by simpa [resOut, outB] using hp) rfl rfl rfl rfl).took, by simp⟩
  | ok o =>
    cases o with
    | some k =>
      exact ⟨[], [], rfl, (byteStep he (by simpa [resOut, outB] using hp) rfl rfl rfl rfl).took, fun _ _ => rfl⟩
    | none =>
      have hu := (hn rfl).1
      have hused : used = [] := by
        have : used ++ rest = [] := by rw [hs]; exact hu
        exact (List.append_eq_nil_iff.mp this).1
      subst hused
      have h0 : Internal (κ := κ) st none [] { st with unprocessed := rest } :=
        byteStep he (by simpa [outB] using hp) rfl rfl rfl rfl
      simp only []
      have hw := waitLoop_took (κ := κ) P tuc st.clock wf tuc { st with unprocessed := rest } ag
      generalize waitLoop (κ := κ) P tuc st.clock wf tuc { st with unprocessed := rest } ag = wr at hw
      obtain ⟨wres, st1, ag1⟩ := wr
      obtain ⟨fired, hf, ht⟩ := hw
      simp only [] at hf ht
      have ht0 : Took P st fired (evOf wres) [] st1 := by
        have := Took.after (κ := κ) (P := P) (f1 := []) (f2 := fired) (a := st)
          (b := { st with unprocessed := rest }) ?_ ht
        · simpa using this
        · have b0 := h0.b; simp [outB] at b0
          exact ⟨by simp [envQ], by simp [envI], by simp [envS], by simp [envG], by simp [envB, b0], Nat.le_refl _⟩
      cases wres with
      | error fl => exact ⟨fired, [], hf, by simpa [resOut, evOf] using ht0, by simp⟩
      | ok pr =>
        obtain ⟨ready, ev⟩ := pr
        cases ev with
        | some ev => exact ⟨fired, [], hf, by simpa [resOut, evOf] using ht0, fun _ _ => rfl⟩
        | none =>
          simp only [evOf] at ht0
          simp only []
          unfold afterWait
          have hsort := sort_internal (κ := κ) st1
          generalize hso : sortSched st1.scheduled = so at hsort
          cases so with
          | nil =>
            simp only []
            split
            · exact ⟨fired, [], hf, by simpa [resOut] using ht0, fun _ _ => rfl⟩
            · have := sendRead_internal P gk val st1 ag1
              obtain ⟨ha, lost, hi, hl⟩ := this
              exact ⟨fired, lost, by rw [ha]; exact hf, ht0.andThen hi, hl⟩
          | cons hd srest =>
            obtain ⟨w0, e0⟩ := hd
            simp only []
            have ht1 := ht0.andThen hsort
            split
            · exact ⟨fired, [], hf, ht1.andThen (popSched_internal _ w0 e0 srest rfl), fun _ _ => rfl⟩
            · split
              · exact ⟨fired, [], hf, by simpa [resOut] using ht1, fun _ _ => rfl⟩
              · have := sendRead_internal P gk val { st1 with scheduled := (w0, e0) :: srest } ag1
                obtain ⟨ha, lost, hi, hl⟩ := this
                exact ⟨fired, lost, by rw [ha]; exact hf, ht1.andThen hi, hl⟩

/-! ### the property theorems -/

/-- LEDGER of one request, at full generality (any outcome, including exceptions): everything that was pending or
    came in while the request ran is either returned by it, still held, or - bytes only - in `lost`; nothing is
    duplicated, per-source order is kept; and a request that does not raise loses nothing. -/
theorem C08_exactly_once (P : Params) (gk : List Nat → Bool → Except PyErr (Option κ)) (val : β → Nat) (wf : Nat)
    (st : InSt β) (ag : Agenda β) (timeout : Option Time) :
    ∃ fired lost, ag = fired ++ (send P gk val wf st ag timeout).2.2 ∧
      Took P st fired (resOut (send P gk val wf st ag timeout).1) lost (send P gk val wf st ag timeout).2.1 ∧
      (∀ o, (send P gk val wf st ag timeout).1 = .ok o → lost = []) := by
  unfold send
  split
  · rename_i hg
    exact ⟨[], [], rfl, Internal.took ⟨by simp [resOut, outQ], by simp [resOut, outI], by simp [resOut, outS],
      by simp [resOut, outG]; omega, by simp [resOut, outB, pend], Nat.le_refl _⟩, fun _ _ => rfl⟩
  · split
    · rename_i e q hq
      exact ⟨[], [], rfl, Internal.took ⟨by simp [resOut, outQ, hq], by simp [resOut, outI], by simp [resOut, outS],
        by simp [resOut, outG], by simp [resOut, outB, pend], Nat.le_refl _⟩, fun _ _ => rfl⟩
    · split
      · rename_i e q hq
        exact ⟨[], [], rfl, Internal.took ⟨by simp [resOut, outQ], by simp [resOut, outI, hq], by simp [resOut, outS],
          by simp [resOut, outG], by simp [resOut, outB, pend], Nat.le_refl _⟩, fun _ _ => rfl⟩
      · have hsort := sort_internal (κ := κ) st
        generalize hso : sortSched st.scheduled = so at hsort
        cases so with
        | nil => simp only []; exact sendRest_took P gk val wf timeout st ag
        | cons hd srest =>
          obtain ⟨w, e⟩ := hd
          simp only []
          split
          · exact ⟨[], [], rfl, (hsort.andThen (popSched_internal _ w e srest rfl)).took, fun _ _ => rfl⟩
          · obtain ⟨fired, lost, hf, ht, hl⟩ := sendRest_took P gk val wf
              (some (match timeout with | none => w - st.clock | some T => min (w - st.clock) T))
              { st with scheduled := (w, e) :: srest } ag
            exact ⟨fired, lost, hf, Took.before hsort ht, hl⟩

/-- The property's first sentence at full strength: NO request ever loses a byte.
    REFUTED: `C08_full_statement_false` (from the D15 witness; D12 and D35 refute it as well). -/
def C08_full_statement : Prop :=
  ∀ (β κ : Type) (P : Params) (gk : List Nat → Bool → Except PyErr (Option κ)) (val : β → Nat) (wf : Nat)
    (st : InSt β) (ag : Agenda β) (timeout : Option Time),
    ∃ fired, ag = fired ++ (send P gk val wf st ag timeout).2.2 ∧
      Took P st fired (resOut (send P gk val wf st ag timeout).1) [] (send P gk val wf st ag timeout).2.1

/-- Exactly once, in order, never dropped - for every request that does not raise.  "Does not raise" is the
    complement of the union of three open findings, the only ways `find_key` raises: D15 (the available bytes end
    inside a multi-byte keypress -> ValueError), D12 (`get_key` raises UnicodeDecodeError on an escape-sequence prefix
    followed by a byte >= 0x80) and D35 (`get_key` raises UnicodeDecodeError on ill-formed UTF-8 in mid-stream).
    The hypothesis is an OUTCOME (the request returned); being an outcome it also excludes `get_key`'s
    `len(seq) > MAX_KEYPRESS_SIZE` ValueError (unreachable with the real tables: every proper prefix of a key and every
    unfinished UTF-8 sequence is shorter) and the paste branch's `assert`.  Input-level forms: `C08_find_key_complete`
    (a buffer that starts with a complete keypress yields exactly it, whatever follows) and, for the transcription of
    the real decoder, the witnesses and `C08_no_loss_*` in Properties/C08Real.lean. -/
theorem C08_exactly_once_partial (P : Params) (gk : List Nat → Bool → Except PyErr (Option κ)) (val : β → Nat)
    (wf : Nat) (st : InSt β) (ag : Agenda β) (timeout : Option Time) (o : Option (Out κ β))
    (h : (send P gk val wf st ag timeout).1 = .ok o) :
    ∃ fired, ag = fired ++ (send P gk val wf st ag timeout).2.2 ∧
      Took P st fired o [] (send P gk val wf st ag timeout).2.1 := by
  obtain ⟨fired, lost, hf, ht, hl⟩ := C08_exactly_once P gk val wf st ag timeout
  have := hl o h
  subst this
  rw [h] at ht
  exact ⟨fired, hf, ht⟩

/-- The blocking wait itself (`_wait_for_read_ready_or_timeout`): every agenda item that fires while the request is
    blocked lands in its queue; the only things taken out are the returned interrupting event / SIGINT event. -/
theorem C08_wait_exactly_once (P : Params) (timeout : Option Time) (t0 : Time) (f : Nat) (remaining : Option Time)
    (st : InSt β) (ag : Agenda β) :
    ∃ fired, ag = fired ++ (waitLoop (κ := κ) P timeout t0 f remaining st ag).2.2 ∧
      Took P st fired (evOf (waitLoop (κ := κ) P timeout t0 f remaining st ag).1) []
        (waitLoop (κ := κ) P timeout t0 f remaining st ag).2.1 :=
  waitLoop_took P timeout t0 f remaining st ag

/-- `find_key`: the bytes popped and the bytes left are exactly the buffer, in order; `None` only on an empty buffer
    (so a request only ever waits with nothing buffered). -/
theorem C08_find_key_exact (gk : List Nat → Bool → Except PyErr (Option κ)) (val : β → Nat) (u : List β) :
    (findKey gk val u []).2.1 ++ (findKey gk val u []).2.2 = u ∧
    ((findKey gk val u []).1 = .ok none → u = []) :=
  ⟨by simpa using findKey_split gk val u [], fun h => (findKey_none gk val u [] h).1⟩

/-- Paste: the paste loop returns ONE paste event whose keypresses hold, in order, every byte that was available
    (already read or still in the OS buffer) - or raises; it never returns anything else, and touches no event queue. -/
theorem C08_paste (P : Params) (gk : List Nat → Bool → Except PyErr (Option κ)) (val : β → Nat) (st : InSt β)
    (o : Option (Out κ β)) (h : (pasteLoop P gk val (pasteFuel st) [] st).1 = .ok o) :
    ∃ ks, o = some (.paste ks) ∧
      ks.flatMap (·.2) ++ pend (pasteLoop P gk val (pasteFuel st) [] st).2 = pend st := by
  obtain ⟨_, lost, hl, ho⟩ := pasteLoop_ledger P gk val (pasteFuel st) [] st
  obtain ⟨h1, ks, h2⟩ := ho o h
  subst h1 h2
  rw [h] at hl
  exact ⟨ks, rfl, by simpa [resOut, outB] using hl⟩

/-- Prompt (queues): a request started with a pending SIGINT event, queued event or interrupting event returns one
    of them without consuming any agenda item (no select) and without the clock moving. -/
theorem C08_prompt_events (P : Params) (gk : List Nat → Bool → Except PyErr (Option κ)) (val : β → Nat) (wf : Nat)
    (st : InSt β) (ag : Agenda β) (timeout : Option Time)
    (h : st.sigints > 0 ∨ st.queued ≠ [] ∨ st.interrupting ≠ []) :
    (∃ ev, (send P gk val wf st ag timeout).1 = .ok (some ev)) ∧ (send P gk val wf st ag timeout).2.2 = ag ∧
      (send P gk val wf st ag timeout).2.1.clock = st.clock := by
  unfold send
  split
  · exact ⟨⟨_, rfl⟩, rfl, rfl⟩
  · split
    · exact ⟨⟨_, rfl⟩, rfl, rfl⟩
    · split
      · exact ⟨⟨_, rfl⟩, rfl, rfl⟩
      · rcases h with h | h | h <;> simp_all

/-- Prompt (buffered bytes): with bytes already buffered and no queued event, a request returns a keypress made of a
    prefix of the buffer (or raises: D15/D12) without waiting. Stated for the case of no scheduled events. -/
theorem C08_prompt_buffered (P : Params) (gk : List Nat → Bool → Except PyErr (Option κ)) (val : β → Nat) (wf : Nat)
    (tuc : Option Time) (st : InSt β) (ag : Agenda β) (h : st.unprocessed ≠ []) :
    (sendRest P gk val wf tuc st ag).1 ≠ .ok none ∧ (sendRest P gk val wf tuc st ag).2.2 = ag ∧
      (sendRest P gk val wf tuc st ag).2.1.clock = st.clock := by
  unfold sendRest
  have hn := findKey_none gk val st.unprocessed []
  generalize findKey gk val st.unprocessed [] = r at hn
  obtain ⟨res, used, rest⟩ := r
  cases res with
  | error e => exact ⟨by simp, rfl, rfl⟩
  | ok o =>
    cases o with
    | some k => exact ⟨by simp, rfl, rfl⟩
    | none => exact absurd (hn rfl).1 h

/-! ### known findings: witnesses on the model -/

/-- a miniature `get_key` for utf-8: ASCII bytes are keys; e2 starts a 3-byte character, c3 a 2-byte character whose
    second byte must be a continuation byte (else UnicodeDecodeError: D35); a lone byte >= 0x80 is a Meta
    key when nothing follows (`full`); ESC followed by a byte >= 0x80 raises UnicodeDecodeError (D12) -/
def toyKey (seq : List Nat) (full : Bool) : Except PyErr (Option (List Nat)) :=
  match seq with
  | [b] => if b == 0x1b then (if full then .ok (some [b]) else .ok none)
           else if b == 0xe2 || b == 0xc3 then (if full then .ok (some [b]) else .ok none) else .ok (some [b])
  | [0x1b, b] => if b ≥ 0x80 then .error .unicodeDecodeError else .ok (some [0x1b, b])
  | [0xc3, b] => if 0x80 ≤ b && b ≤ 0xbf then .ok (some [0xc3, b]) else .error .unicodeDecodeError
  | [0xe2, _] => .ok none
  | [0xe2, b, c] => .ok (some [0xe2, b, c])
  | _ => .error .valueError

def toyParams : Params := { readSize := 1024, maxKey := 7, pasteThreshold := some 8, hasWake := true }

/-- D15 on the model: `e2 82` available at t=0, `ac` at t=1: the request raises ValueError and afterwards neither
    the Input nor the OS buffer hold the two bytes - they are lost. (replayed on the real code every run:
    script `A0:e282 A1:ac | rN`) -/
theorem C08_D15_witness :
    let r := send toyParams toyKey id 10 ({} : InSt Nat) [(0, .arrive [0xe2, 0x82]), (1, .arrive [0xac])] none
    (match r.1 with | .error (.py .valueError) => true | _ => false) = true ∧
      r.2.1.unprocessed = [] ∧ r.2.1.osbuf = [] ∧ r.2.2.length = 1 := by
  decide

/-- D12 seen from C08: Esc and the first byte of 'é' available together: UnicodeDecodeError, `1b c3` lost.
    (script `A0:1bc3a9 | r0`) -/
theorem C08_D12_witness :
    let r := send toyParams toyKey id 10 ({} : InSt Nat) [(0, .arrive [0x1b, 0xc3, 0xa9])] (some 0)
    (match r.1 with | .error (.py .unicodeDecodeError) => true | _ => false) = true ∧
      r.2.1.unprocessed = [0xa9] ∧ r.2.1.osbuf = [] := by
  decide

/-- D35 on the model: the ill-formed sequence `c3 41` ('A' after a 2-byte lead byte): UnicodeDecodeError, and the valid
    'A' is gone with the lead byte - neither the Input nor the OS buffer holds anything. (script `A0:c341 | r0`) -/
theorem C08_D35_witness :
    let r := send toyParams toyKey id 10 ({} : InSt Nat) [(0, .arrive [0xc3, 0x41])] (some 0)
    (match r.1 with | .error (.py .unicodeDecodeError) => true | _ => false) = true ∧
      r.2.1.unprocessed = [] ∧ r.2.1.osbuf = [] := by
  decide

/-- The full-strength statement is not merely unproved: it is FALSE (D15; likewise D12, D35). -/
theorem C08_full_statement_false : ¬ C08_full_statement := by
  intro h
  obtain ⟨fired, hf, ht⟩ := h Nat (List Nat) toyParams toyKey id 10 ({} : InSt Nat)
    [(0, .arrive [0xe2, 0x82]), (1, .arrive [0xac])] none
  have hw := C08_D15_witness
  simp only [] at hw
  obtain ⟨h1, h2, h3, h4⟩ := hw
  have hb := ht.b
  -- pend after = []
  have hp : pend (send toyParams toyKey id 10 ({} : InSt Nat) [(0, .arrive [0xe2, 0x82]), (1, .arrive [0xac])] none).2.1 = [] := by
    simp [pend, h2, h3]
  rw [hp] at hb
  -- the result is an error so outB = []
  have ho : outB (resOut (send toyParams toyKey id 10 ({} : InSt Nat) [(0, .arrive [0xe2, 0x82]), (1, .arrive [0xac])] none).1) = ([] : List Nat) := by
    decide
  rw [ho] at hb
  -- fired has length 1: it is the first item
  have hlen := congrArg List.length hf
  simp [h4] at hlen
  match fired, hlen with
  | [x], _ =>
    simp at hf
    have : x = (0, EnvAct.arrive [0xe2, 0x82]) := by
      have := hf.1; exact this.symm
    subst this
    simp [pend, envB, bOf] at hb

/-- Non-vacuity of `C08_exactly_once_partial`: the same bytes arriving whole come back as one keypress. -/
example : (match (send toyParams toyKey id 10 ({} : InSt Nat) [(0, .arrive [0xe2, 0x82, 0xac])] none).1 with
    | .ok (some (.key k bs)) => k == [0xe2, 0x82, 0xac] && bs == [0xe2, 0x82, 0xac] | _ => false) = true := by
  decide


/-! ## time, order and promptness -/

/-! ### stable sort facts for `sortSched` -/
def SortedW : List (Time × Ev) → Prop
  | [] => True
  | x :: xs => (∀ y ∈ xs, x.1 ≤ y.1) ∧ SortedW xs

theorem mem_insertSched (x y : Time × Ev) (l : List (Time × Ev)) : y ∈ insertSched x l ↔ y = x ∨ y ∈ l := by
  constructor
  · intro h; have := (insertSched_perm x l).mem_iff.mp h; simpa using this
  · intro h; exact (insertSched_perm x l).mem_iff.mpr (by simpa using h)

theorem insertSched_sorted (x : Time × Ev) (l : List (Time × Ev)) (h : SortedW l) : SortedW (insertSched x l) := by
  induction l with
  | nil => exact ⟨by simp, trivial⟩
  | cons y ys ih =>
    unfold insertSched
    split
    · rename_i hle
      refine ⟨?_, h⟩
      intro z hz
      rcases List.mem_cons.mp hz with hz | hz
      · subst hz; exact hle
      · exact Nat.le_trans hle (h.1 z hz)
    · rename_i hle
      refine ⟨?_, ih h.2⟩
      intro z hz
      rcases (mem_insertSched x z ys).mp hz with hz | hz
      · subst hz; exact Nat.le_of_lt (Nat.lt_of_not_le hle)
      · exact h.1 z hz

theorem sortSched_sorted (l : List (Time × Ev)) : SortedW (sortSched l) := by
  induction l with
  | nil => trivial
  | cons x xs ih => exact insertSched_sorted x _ ih

/-- stability: events with the same time keep their list (= trigger) order -/
theorem insertSched_stable (t : Time) (x : Time × Ev) (l : List (Time × Ev)) (h : SortedW l) :
    (insertSched x l).filter (fun p => p.1 == t) = (x :: l).filter (fun p => p.1 == t) := by
  induction l with
  | nil => rfl
  | cons y ys ih =>
    unfold insertSched
    split
    · rfl
    · rename_i hle
      have hlt : y.1 < x.1 := Nat.lt_of_not_le hle
      rw [List.filter_cons, ih h.2]
      by_cases hx : x.1 = t
      · have hy : ¬ y.1 = t := by intro e; rw [e, hx] at hlt; exact Nat.lt_irrefl _ hlt
        simp [List.filter_cons, hx, hy]
      · simp [List.filter_cons, hx]

theorem sortSched_stable (t : Time) (l : List (Time × Ev)) :
    (sortSched l).filter (fun p => p.1 == t) = l.filter (fun p => p.1 == t) := by
  induction l with
  | nil => rfl
  | cons x xs ih =>
    show (insertSched x (sortSched xs)).filter _ = _
    rw [insertSched_stable t x _ (sortSched_sorted xs)]
    simp [List.filter_cons, ih]

/-! ### what `select` and the wait loop guarantee about time and readiness -/
def isSpur : EnvAct β → Bool | .spurious => true | _ => false
def isSched : EnvAct β → Bool | .schedule _ _ => true | _ => false

theorem firstReady_some (P : Params) (st : InSt β) (r : Sel) (h : firstReady P st = some r) :
    match r with
    | .timeout => False
    | .blocked => False
    | .stdin => st.osbuf ≠ [] ∨ st.spurious = true
    | _ => True := by
  unfold firstReady at h
  split at h
  · rename_i hc
    cases h
    simp only [Bool.or_eq_true, Bool.not_eq_true', List.isEmpty_eq_false_iff] at hc
    exact hc
  · split at h
    · cases h; trivial
    · cases hp : firstPipe st.pipes 0 <;> simp [hp] at h
      cases h; trivial

theorem select_kind (P : Params) (dl : Option Time) (st : InSt β) (ag : Agenda β) :
    match (select P dl st ag).1 with
    | .timeout => ∃ d, dl = some d ∧ d ≤ (select P dl st ag).2.1.clock
    | .stdin => (select P dl st ag).2.1.osbuf ≠ [] ∨ (select P dl st ag).2.1.spurious = true
    | _ => True := by
  fun_induction select P dl st ag with
  | case1 st ag r h =>
    have := firstReady_some P st r h
    cases r <;> simp_all
  | case2 st h hd => trivial
  | case3 st h d hd => exact ⟨d, hd, Nat.le_max_right _ _⟩
  | case4 st h t a rest hd ih => subst hd; exact ih
  | case5 st h t a rest d hd hle ih => subst hd; exact ih
  | case6 st h t a rest d hd hle => exact ⟨d, hd, Nat.le_max_right _ _⟩

theorem applyEnv_spur (P : Params) (a : EnvAct β) (st : InSt β) (h : isSpur a = false) :
    (applyEnv P a st).spurious = st.spurious := by
  cases a <;> simp [applyEnv, isSpur] at h ⊢ <;> split <;> rfl

theorem select_quiet (P : Params) (dl : Option Time) (st : InSt β) (ag : Agenda β)
    (hq : ∀ x ∈ ag, isSpur x.2 = false) (hs : st.spurious = false) :
    (select P dl st ag).2.1.spurious = false := by
  fun_induction select P dl st ag with
  | case1 st ag r h => exact hs
  | case2 st h hd => exact hs
  | case3 st h d hd => exact hs
  | case4 st h t a rest hd ih =>
    subst hd
    exact ih (fun x hx => hq x (List.mem_cons_of_mem _ hx))
      (by rw [applyEnv_spur P a _ (hq (t, a) List.mem_cons_self)]; exact hs)
  | case5 st h t a rest d hd hle ih =>
    subst hd
    exact ih (fun x hx => hq x (List.mem_cons_of_mem _ hx))
      (by rw [applyEnv_spur P a _ (hq (t, a) List.mem_cons_self)]; exact hs)
  | case6 st h t a rest d hd hle => exact hs

/-- `remaining_timeout` always reaches at least the original deadline `t0 + timeout` -/
def RemInv (timeout : Option Time) (t0 : Time) (remaining : Option Time) (clock : Time) : Prop :=
  match timeout with
  | none => remaining = none
  | some T => ∃ r, remaining = some r ∧ t0 + T ≤ clock + r

theorem RemInv.recompute (timeout : Option Time) (t0 clock : Time) :
    RemInv timeout t0 (recompute timeout t0 clock) clock := by
  cases timeout with
  | none => rfl
  | some T => exact ⟨t0 + T - clock, rfl, (by omega : ∀ a b : Nat, a ≤ b + (a - b)) _ _⟩

theorem RemInv.mono {timeout : Option Time} {t0 : Time} {remaining : Option Time} {c c' : Time}
    (h : RemInv timeout t0 remaining c) (hc : c ≤ c') : RemInv timeout t0 remaining c' := by
  cases timeout with
  | none => exact h
  | some T =>
    obtain ⟨r, h1, h2⟩ := h
    exact ⟨r, h1, (by omega : ∀ a c c' r : Nat, a ≤ c + r → c ≤ c' → a ≤ c' + r) _ _ _ _ h2 hc⟩

/-- the wait returned `(ready, None)`: nothing was taken out, everything that fired is in its queue; not ready means
    the original deadline has passed; ready means there is something to read (or a spurious readiness) -/
theorem waitLoop_none (P : Params) (timeout : Option Time) (t0 : Time) (f : Nat) (remaining : Option Time)
    (st : InSt β) (ag : Agenda β) :
    RemInv timeout t0 remaining st.clock →
    ∀ ready, (waitLoop (κ := κ) P timeout t0 f remaining st ag).1 = .ok (ready, none) →
      (∃ fired, ag = fired ++ (waitLoop (κ := κ) P timeout t0 f remaining st ag).2.2 ∧
        Grew P st fired (waitLoop (κ := κ) P timeout t0 f remaining st ag).2.1) ∧
      (ready = false → ∃ T, timeout = some T ∧ t0 + T ≤ (waitLoop (κ := κ) P timeout t0 f remaining st ag).2.1.clock) ∧
      (ready = true → (waitLoop (κ := κ) P timeout t0 f remaining st ag).2.1.osbuf ≠ [] ∨
        (waitLoop (κ := κ) P timeout t0 f remaining st ag).2.1.spurious = true) := by
  fun_induction waitLoop (κ := κ) P timeout t0 f remaining st ag with
  | case1 x st ag => intro _ ready h; simp at h
  | case2 f remaining st ag st1 ag1 hs => intro _ ready h; simp at h
  | case3 f remaining st ag st1 ag1 hs =>
    intro hinv ready h
    have hg := select_grew P (Option.map (fun x => st.clock + x) remaining) st ag
    have hk := select_kind P (Option.map (fun x => st.clock + x) remaining) st ag
    rw [hs] at hg hk
    obtain ⟨fi, h1, h2⟩ := hg
    obtain ⟨d, hd, hle⟩ := hk
    simp only [Except.ok.injEq, Prod.mk.injEq] at h
    refine ⟨⟨fi, h1, h2⟩, fun _ => ?_, fun hr => by simp [← h.1] at hr⟩
    cases timeout with
    | none =>
      have : remaining = none := hinv
      subst this; simp at hd
    | some T =>
      obtain ⟨r, hr1, hr2⟩ := hinv
      subst hr1
      simp only [Option.map_some, Option.some.injEq] at hd
      exact ⟨T, rfl, Nat.le_trans hr2 (hd ▸ hle)⟩
  | case4 f remaining st ag st1 ag1 hs =>
    intro hinv ready h
    have hg := select_grew P (Option.map (fun x => st.clock + x) remaining) st ag
    have hk := select_kind P (Option.map (fun x => st.clock + x) remaining) st ag
    rw [hs] at hg hk
    obtain ⟨fi, h1, h2⟩ := hg
    simp only [Except.ok.injEq, Prod.mk.injEq] at h
    exact ⟨⟨fi, h1, h2⟩, fun hr => by simp [← h.1] at hr, fun _ => hk⟩
  | case5 f remaining st ag n rest st1 ag1 hs st2 hn hg => intro _ ready h; simp at h
  | case6 f remaining st ag n rest st1 ag1 hs st2 hn hg ih =>
    intro hinv ready h
    have hgr := select_grew P (Option.map (fun x => st.clock + x) remaining) st ag
    rw [hs] at hgr
    obtain ⟨fi, h1, h2⟩ := hgr
    have h2' : Grew P st fi st2 := ⟨h2.q, h2.i, h2.s, h2.g, h2.b, h2.c⟩
    obtain ⟨⟨f2, h3, h4⟩, h5, h6⟩ := ih (RemInv.recompute timeout t0 st2.clock) ready h
    exact ⟨⟨fi ++ f2, by rw [h1, List.append_assoc, ← h3], h2'.trans h4⟩, h5, h6⟩
  | case7 f remaining st ag n rest st1 ag1 hs st2 hn ih =>
    intro hinv ready h
    have hgr := select_grew P (Option.map (fun x => st.clock + x) remaining) st ag
    rw [hs] at hgr
    obtain ⟨fi, h1, h2⟩ := hgr
    have h2' : Grew P st fi st2 := ⟨h2.q, h2.i, h2.s, h2.g, h2.b, h2.c⟩
    obtain ⟨⟨f2, h3, h4⟩, h5, h6⟩ := ih (hinv.mono h2'.c) ready h
    exact ⟨⟨fi ++ f2, by rw [h1, List.append_assoc, ← h3], h2'.trans h4⟩, h5, h6⟩
  | case8 f remaining st ag i st1 ag1 hs st2 e q he => intro _ ready h; simp at h
  | case9 f remaining st ag i st1 ag1 hs st2 he ih =>
    intro hinv ready h
    have hgr := select_grew P (Option.map (fun x => st.clock + x) remaining) st ag
    rw [hs] at hgr
    obtain ⟨fi, h1, h2⟩ := hgr
    have h2' : Grew P st fi st2 := ⟨h2.q, h2.i, h2.s, h2.g, h2.b, h2.c⟩
    obtain ⟨⟨f2, h3, h4⟩, h5, h6⟩ := ih (RemInv.recompute timeout t0 st2.clock) ready h
    exact ⟨⟨fi ++ f2, by rw [h1, List.append_assoc, ← h3], h2'.trans h4⟩, h5, h6⟩

/-- the wait itself only ever hands back a SIGINT event or an interrupting event -/
theorem waitLoop_ev (P : Params) (timeout : Option Time) (t0 : Time) (f : Nat) (remaining : Option Time)
    (st : InSt β) (ag : Agenda β) (b : Bool) (ev : Out κ β)
    (h : (waitLoop (κ := κ) P timeout t0 f remaining st ag).1 = .ok (b, some ev)) :
    ev = .sigint ∨ ∃ e, ev = .interrupting e := by
  fun_induction waitLoop (κ := κ) P timeout t0 f remaining st ag with
  | case1 x st ag => simp at h
  | case2 f remaining st ag st1 ag1 hs => simp at h
  | case3 f remaining st ag st1 ag1 hs => simp at h
  | case4 f remaining st ag st1 ag1 hs => simp at h
  | case5 f remaining st ag n rest st1 ag1 hs st2 hn hg => simp at h; exact Or.inl h.2.symm
  | case6 f remaining st ag n rest st1 ag1 hs st2 hn hg ih => exact ih h
  | case7 f remaining st ag n rest st1 ag1 hs st2 hn ih => exact ih h
  | case8 f remaining st ag i st1 ag1 hs st2 e q he => simp at h; exact Or.inr ⟨e, h.2.symm⟩
  | case9 f remaining st ag i st1 ag1 hs st2 he ih => exact ih h

theorem waitLoop_quiet (P : Params) (timeout : Option Time) (t0 : Time) (f : Nat) (remaining : Option Time)
    (st : InSt β) (ag : Agenda β) :
    (∀ x ∈ ag, isSpur x.2 = false) → st.spurious = false →
    (waitLoop (κ := κ) P timeout t0 f remaining st ag).2.1.spurious = false := by
  fun_induction waitLoop (κ := κ) P timeout t0 f remaining st ag with
  | case1 x st ag => intro _ hs; exact hs
  | case2 f remaining st ag st1 ag1 hs =>
    intro hq h0; have := select_quiet P (Option.map (fun x => st.clock + x) remaining) st ag hq h0
    rw [hs] at this; exact this
  | case3 f remaining st ag st1 ag1 hs =>
    intro hq h0; have := select_quiet P (Option.map (fun x => st.clock + x) remaining) st ag hq h0
    rw [hs] at this; exact this
  | case4 f remaining st ag st1 ag1 hs =>
    intro hq h0; have := select_quiet P (Option.map (fun x => st.clock + x) remaining) st ag hq h0
    rw [hs] at this; exact this
  | case5 f remaining st ag n rest st1 ag1 hs st2 hn hg =>
    intro hq h0; have := select_quiet P (Option.map (fun x => st.clock + x) remaining) st ag hq h0
    rw [hs] at this; exact this
  | case6 f remaining st ag n rest st1 ag1 hs st2 hn hg ih =>
    intro hq h0
    have := select_quiet P (Option.map (fun x => st.clock + x) remaining) st ag hq h0
    have hgr := select_grew P (Option.map (fun x => st.clock + x) remaining) st ag
    rw [hs] at this hgr
    obtain ⟨fi, h1, _⟩ := hgr
    exact ih (fun x hx => hq x (by rw [h1]; exact List.mem_append_right _ hx)) this
  | case7 f remaining st ag n rest st1 ag1 hs st2 hn ih =>
    intro hq h0
    have := select_quiet P (Option.map (fun x => st.clock + x) remaining) st ag hq h0
    have hgr := select_grew P (Option.map (fun x => st.clock + x) remaining) st ag
    rw [hs] at this hgr
    obtain ⟨fi, h1, _⟩ := hgr
    exact ih (fun x hx => hq x (by rw [h1]; exact List.mem_append_right _ hx)) this
  | case8 f remaining st ag i st1 ag1 hs st2 e q he =>
    intro hq h0; have := select_quiet P (Option.map (fun x => st.clock + x) remaining) st ag hq h0
    rw [hs] at this; exact this
  | case9 f remaining st ag i st1 ag1 hs st2 he ih =>
    intro hq h0
    have := select_quiet P (Option.map (fun x => st.clock + x) remaining) st ag hq h0
    have hgr := select_grew P (Option.map (fun x => st.clock + x) remaining) st ag
    rw [hs] at this hgr
    obtain ⟨fi, h1, _⟩ := hgr
    exact ih (fun x hx => hq x (by rw [h1]; exact List.mem_append_right _ hx)) this

/-! ### the part of `_send` after the wait -/
theorem sendRead_facts (P : Params) (gk : List Nat → Bool → Except PyErr (Option κ)) (val : β → Nat)
    (st : InSt β) (ag : Agenda β) :
    SameEvents st (sendRead P gk val st ag).2.1 ∧ (sendRead P gk val st ag).2.2 = ag ∧
    (∀ o, (sendRead P gk val st ag).1 = .ok o →
      (o = none ∧ (nonblockingRead P st).1 = 0) ∨ (∃ k bs, o = some (.key k bs)) ∨ ∃ ks, o = some (.paste ks)) := by
  unfold sendRead
  simp only []
  have hr : SameEvents st (nonblockingRead P st).2 := by simp [SameEvents, nonblockingRead]
  generalize (nonblockingRead P st) = nr at hr
  obtain ⟨n, st1⟩ := nr
  simp only [] at hr ⊢
  split
  · rename_i hn
    exact ⟨hr, rfl, fun o h => Or.inl ⟨by simpa using h.symm, by simpa using hn⟩⟩
  · split
    · have := pasteLoop_ledger P gk val (pasteFuel st1) [] st1
      generalize pasteLoop P gk val (pasteFuel st1) [] st1 = pr at this
      obtain ⟨res, st2⟩ := pr
      obtain ⟨he2, lost, hl, ho⟩ := this
      simp only [] at he2 ho ⊢
      obtain ⟨a1, a2, a3, a4, a5⟩ := hr; obtain ⟨b1, b2, b3, b4, b5⟩ := he2
      exact ⟨⟨b1.trans a1, b2.trans a2, b3.trans a3, b4.trans a4, b5.trans a5⟩, by first | rfl | trivial,
        fun o h => Or.inr (Or.inr (ho o h).2)⟩
    · generalize findKey gk val st1.unprocessed [] = r
      obtain ⟨res, used, rest⟩ := r
      have he : SameEvents st { st1 with unprocessed := rest } := hr
      cases res with
      | error e => exact ⟨he, rfl, by simp⟩
      | ok o =>
        cases o with
        | none => exact ⟨he, rfl, by simp⟩
        | some k => exact ⟨he, rfl, fun o h => Or.inr (Or.inl ⟨k, used, by simpa using h.symm⟩)⟩

theorem afterWait_facts (P : Params) (gk : List Nat → Bool → Except PyErr (Option κ)) (val : β → Nat) (ready : Bool)
    (st : InSt β) (ag : Agenda β) :
    (afterWait P gk val ready st ag).2.1.clock = st.clock ∧ (afterWait P gk val ready st ag).2.2 = ag ∧
    (∀ o, (afterWait P gk val ready st ag).1 = .ok o →
      (∃ t e, o = some (.scheduled t e) ∧ t < st.clock ∧
          sortSched st.scheduled = (t, e) :: (afterWait P gk val ready st ag).2.1.scheduled) ∨
      (o = none ∧ (ready = false ∨ (nonblockingRead P st).1 = 0)) ∨
      (∃ k bs, o = some (.key k bs)) ∨ ∃ ks, o = some (.paste ks)) := by
  unfold afterWait
  generalize hso : sortSched st.scheduled = so
  cases so with
  | nil =>
    simp only []
    split
    · rename_i hr
      exact ⟨rfl, rfl, fun o h => Or.inr (Or.inl ⟨by simpa using h.symm, Or.inl (by simpa using hr)⟩)⟩
    · obtain ⟨he, ha, ho⟩ := sendRead_facts P gk val st ag
      refine ⟨he.2.2.2.2, ha, fun o h => ?_⟩
      rcases ho o h with h1 | h1 | h1
      · exact Or.inr (Or.inl ⟨h1.1, Or.inr h1.2⟩)
      · exact Or.inr (Or.inr (Or.inl h1))
      · exact Or.inr (Or.inr (Or.inr h1))
  | cons hd srest =>
    obtain ⟨w0, e0⟩ := hd
    simp only []
    split
    · rename_i hdue
      exact ⟨rfl, rfl, fun o h => Or.inl ⟨w0, e0, by simpa using h.symm, hdue, rfl⟩⟩
    · split
      · rename_i hr
        exact ⟨rfl, rfl, fun o h => Or.inr (Or.inl ⟨by simpa using h.symm, Or.inl (by simpa using hr)⟩)⟩
      · obtain ⟨he, ha, ho⟩ := sendRead_facts P gk val { st with scheduled := (w0, e0) :: srest } ag
        refine ⟨he.2.2.2.2, ha, fun o h => ?_⟩
        rcases ho o h with h1 | h1 | h1
        · exact Or.inr (Or.inl ⟨h1.1, Or.inr h1.2⟩)
        · exact Or.inr (Or.inr (Or.inl h1))
        · exact Or.inr (Or.inr (Or.inr h1))

/-! ## a request never returns `None` while a descriptor is readable -/
theorem firstReady_congr (P : Params) (a b : InSt β) (h1 : a.osbuf = b.osbuf) (h2 : a.spurious = b.spurious)
    (h3 : a.wake = b.wake) (h4 : a.pipes = b.pipes) : firstReady P a = firstReady P b := by
  unfold firstReady; rw [h1, h2, h3, h4]

theorem select_timeout_idle (P : Params) (dl : Option Time) (st : InSt β) (ag : Agenda β) :
    (match (select P dl st ag).1 with | .timeout => True | _ => False) →
      firstReady P (select P dl st ag).2.1 = none := by
  fun_induction select P dl st ag with
  | case1 st ag r h =>
    intro ht
    have := firstReady_some P st r h
    cases r <;> simp_all
  | case2 st h hd => intro ht; simp at ht
  | case3 st h d hd => intro _; rw [← h]; exact firstReady_congr P _ _ rfl rfl rfl rfl
  | case4 st h t a rest hd ih => subst hd; exact ih
  | case5 st h t a rest d hd hle ih => subst hd; exact ih
  | case6 st h t a rest d hd hle => intro _; rw [← h]; exact firstReady_congr P _ _ rfl rfl rfl rfl

theorem waitLoop_notready_idle (P : Params) (timeout : Option Time) (t0 : Time) (f : Nat) (remaining : Option Time)
    (st : InSt β) (ag : Agenda β) :
    (waitLoop (κ := κ) P timeout t0 f remaining st ag).1 = .ok (false, none) →
      firstReady P (waitLoop (κ := κ) P timeout t0 f remaining st ag).2.1 = none := by
  fun_induction waitLoop (κ := κ) P timeout t0 f remaining st ag with
  | case1 x st ag => intro h; simp at h
  | case2 f remaining st ag st1 ag1 hs => intro h; simp at h
  | case3 f remaining st ag st1 ag1 hs =>
    intro _
    have := select_timeout_idle P (Option.map (fun x => st.clock + x) remaining) st ag
    rw [hs] at this
    exact this trivial
  | case4 f remaining st ag st1 ag1 hs => intro h; simp at h
  | case5 f remaining st ag n rest st1 ag1 hs st2 hn hg => intro h; simp at h
  | case6 f remaining st ag n rest st1 ag1 hs st2 hn hg ih => exact ih
  | case7 f remaining st ag n rest st1 ag1 hs st2 hn ih => exact ih
  | case8 f remaining st ag i st1 ag1 hs st2 e q he => intro h; simp at h
  | case9 f remaining st ag i st1 ag1 hs st2 he ih => exact ih

theorem RemInv.init (tuc : Option Time) (c : Time) : RemInv tuc c tuc c := by
  cases tuc with
  | none => rfl
  | some T => exact ⟨T, rfl, Nat.le_refl _⟩

/-- everything `sendRest` can do, in terms of the wait's result -/
theorem sendRest_cases (P : Params) (gk : List Nat → Bool → Except PyErr (Option κ)) (val : β → Nat) (wf : Nat)
    (tuc : Option Time) (st : InSt β) (ag : Agenda β) (o : Option (Out κ β))
    (h : (sendRest P gk val wf tuc st ag).1 = .ok o) :
    (∃ k bs, o = some (.key k bs)) ∨
    (st.unprocessed = [] ∧
      ((∃ ev, o = some ev ∧ (ev = .sigint ∨ ∃ e, ev = .interrupting e)) ∨
       ∃ ready st1 ag1 fired, ag = fired ++ ag1 ∧ Grew P st fired st1 ∧
        (st.spurious = false → (∀ x ∈ ag, isSpur x.2 = false) → st1.spurious = false) ∧
        (ready = false → ∃ T, tuc = some T ∧ st.clock + T ≤ st1.clock) ∧
        (ready = true → st1.osbuf ≠ [] ∨ st1.spurious = true) ∧
        (ready = false → firstReady P st1 = none) ∧
        sendRest P gk val wf tuc st ag = afterWait P gk val ready st1 ag1)) := by
  unfold sendRest at h ⊢
  have hn := findKey_none gk val st.unprocessed []
  have hsp := findKey_split gk val st.unprocessed []
  generalize findKey gk val st.unprocessed [] = r at hn hsp h ⊢
  obtain ⟨res, used, rest⟩ := r
  cases res with
  | error e => simp at h
  | ok ko =>
    cases ko with
    | some k =>
      simp only [] at h ⊢
      exact Or.inl ⟨k, used, by simpa using h.symm⟩
    | none =>
      have hu := (hn rfl).1
      simp only [List.nil_append] at hsp
      have hrest : rest = [] := by rw [hu] at hsp; exact (List.append_eq_nil_iff.mp hsp).2
      subst hrest
      have est : ({ st with unprocessed := [] } : InSt β) = st := by cases st; simp_all
      simp only [] at h ⊢
      rw [est] at h ⊢
      refine Or.inr ⟨hu, ?_⟩
      have hnone := waitLoop_none (κ := κ) P tuc st.clock wf tuc st ag (RemInv.init tuc st.clock)
      have hev := waitLoop_ev (κ := κ) P tuc st.clock wf tuc st ag
      have hq := waitLoop_quiet (κ := κ) P tuc st.clock wf tuc st ag
      have hidle := waitLoop_notready_idle (κ := κ) P tuc st.clock wf tuc st ag
      generalize waitLoop (κ := κ) P tuc st.clock wf tuc st ag = wr at hnone hev hq hidle h ⊢
      obtain ⟨wres, st1, ag1⟩ := wr
      cases wres with
      | error fl => simp at h
      | ok pr =>
        obtain ⟨ready, ev⟩ := pr
        cases ev with
        | some ev =>
          simp only [] at h ⊢
          exact Or.inl ⟨ev, by simpa using h.symm, hev ready ev rfl⟩
        | none =>
          simp only [] at h ⊢
          obtain ⟨⟨fired, hf, hg⟩, hto, hrd⟩ := hnone ready rfl
          exact Or.inr ⟨ready, st1, ag1, fired, hf, hg, fun h0 hqq => hq hqq h0, hto, hrd,
            fun hr0 => hidle (by rw [hr0]), rfl⟩

theorem envS_nil (f : Agenda β) (h : ∀ x ∈ f, isSched x.2 = false) : envS f = [] := by
  unfold envS
  rw [List.flatMap_eq_nil_iff]
  intro x hx
  have := h x hx
  cases hx2 : x.2 <;> simp_all [sOf, isSched]

theorem sortSched_nil_iff (l : List (Time × Ev)) : sortSched l = [] ↔ l = [] := by
  constructor
  · intro h; have := sortSched_perm l; rw [h] at this; exact this.symm.eq_nil
  · intro h; subst h; rfl

/-- `send` when no SIGINT event, queued event or interrupting event is pending -/
theorem send_idle (P : Params) (gk : List Nat → Bool → Except PyErr (Option κ)) (val : β → Nat) (wf : Nat)
    (st : InSt β) (ag : Agenda β) (timeout : Option Time)
    (hg : ¬ st.sigints > 0) (hq : st.queued = []) (hi : st.interrupting = []) :
    send P gk val wf st ag timeout =
      match sortSched st.scheduled with
      | (w, e) :: srest =>
        if w < st.clock then (.ok (some (.scheduled w e)), { st with scheduled := srest }, ag)
        else sendRest P gk val wf (some (match timeout with | none => w - st.clock | some T => min (w - st.clock) T))
          { st with scheduled := (w, e) :: srest } ag
      | [] => sendRest P gk val wf timeout st ag := by
  unfold send
  rw [if_neg hg]
  simp only [hq, hi]
  generalize sortSched st.scheduled = so
  cases so with
  | nil => rfl
  | cons hd tl => obtain ⟨w, e⟩ := hd; rfl

/-- `send` when one of them is pending: it is returned at once -/
theorem send_busy (P : Params) (gk : List Nat → Bool → Except PyErr (Option κ)) (val : β → Nat) (wf : Nat)
    (st : InSt β) (ag : Agenda β) (timeout : Option Time)
    (h : st.sigints > 0 ∨ st.queued ≠ [] ∨ st.interrupting ≠ []) :
    ∃ ev, (send P gk val wf st ag timeout).1 = .ok (some ev) ∧
      (ev = .sigint ∨ (∃ e, ev = .queued e) ∨ ∃ e, ev = .interrupting e) := by
  unfold send
  split
  · exact ⟨_, rfl, Or.inl rfl⟩
  · split
    · exact ⟨_, rfl, Or.inr (Or.inl ⟨_, rfl⟩)⟩
    · split
      · exact ⟨_, rfl, Or.inr (Or.inr ⟨_, rfl⟩)⟩
      · rcases h with h | h | h <;> simp_all

/-- NO EARLY: a scheduled event comes back only after its time has passed (`when < clock`), it is the first of the
    pending scheduled events in time order (every event still pending has a time >= its own), and among pending events
    with the same time it is the first in list order - which is trigger order, because callbacks append and the sort
    is stable.  `pending` is the list the request sorted: the queue as it was (first check), or the sorted queue plus
    what was scheduled while the request waited (second check). -/
theorem C08_no_early (P : Params) (gk : List Nat → Bool → Except PyErr (Option κ)) (val : β → Nat) (wf : Nat)
    (st : InSt β) (ag : Agenda β) (timeout : Option Time) (t : Time) (e : Ev)
    (h : (send P gk val wf st ag timeout).1 = .ok (some (.scheduled t e))) :
    t < (send P gk val wf st ag timeout).2.1.clock ∧
    ∃ pending, (pending = st.scheduled ∨
        ∃ fired, ag = fired ++ (send P gk val wf st ag timeout).2.2 ∧ pending = sortSched st.scheduled ++ envS fired) ∧
      sortSched pending = (t, e) :: (send P gk val wf st ag timeout).2.1.scheduled ∧
      (∀ x ∈ (send P gk val wf st ag timeout).2.1.scheduled, t ≤ x.1) ∧
      pending.filter (fun p => p.1 == t) =
        (t, e) :: (send P gk val wf st ag timeout).2.1.scheduled.filter (fun p => p.1 == t) := by
  have fin : ∀ (pending : List (Time × Ev)) (rest : List (Time × Ev)), sortSched pending = (t, e) :: rest →
      (∀ x ∈ rest, t ≤ x.1) ∧ pending.filter (fun p => p.1 == t) = (t, e) :: rest.filter (fun p => p.1 == t) := by
    intro pending rest hs
    have h1 := sortSched_sorted pending
    have h2 := sortSched_stable t pending
    rw [hs] at h1 h2
    exact ⟨h1.1, by rw [← h2]; simp [List.filter_cons]⟩
  have viaRest : ∀ (tuc : Option Time) (st0 : InSt β), st0.scheduled = sortSched st.scheduled → st0.clock = st.clock →
      (sendRest P gk val wf tuc st0 ag).1 = .ok (some (.scheduled t e)) →
      t < (sendRest P gk val wf tuc st0 ag).2.1.clock ∧
      ∃ pending, (pending = st.scheduled ∨
          ∃ fired, ag = fired ++ (sendRest P gk val wf tuc st0 ag).2.2 ∧ pending = sortSched st.scheduled ++ envS fired) ∧
        sortSched pending = (t, e) :: (sendRest P gk val wf tuc st0 ag).2.1.scheduled ∧
        (∀ x ∈ (sendRest P gk val wf tuc st0 ag).2.1.scheduled, t ≤ x.1) ∧
        pending.filter (fun p => p.1 == t) =
          (t, e) :: (sendRest P gk val wf tuc st0 ag).2.1.scheduled.filter (fun p => p.1 == t) := by
    intro tuc st0 hs0 hc0 hr
    rcases sendRest_cases P gk val wf tuc st0 ag _ hr with ⟨k, bs, hk⟩ | ⟨_, ⟨ev, hev, hev2⟩ | ⟨ready, st1, ag1, fired, hf, hg, _, _, _, _, heq⟩⟩
    · simp at hk
    · rcases hev2 with h1 | ⟨e', h1⟩ <;> subst h1 <;> simp at hev
    · rw [heq] at hr ⊢
      obtain ⟨hclk, hag, ho⟩ := afterWait_facts P gk val ready st1 ag1
      rcases ho _ hr with ⟨t', e', h1, h2, h3⟩ | ⟨h1, _⟩ | ⟨k, bs, h1⟩ | ⟨ks, h1⟩
      · simp only [Option.some.injEq, Out.scheduled.injEq] at h1
        obtain ⟨rfl, rfl⟩ := h1
        refine ⟨by rw [hclk]; exact h2, st1.scheduled, Or.inr ⟨fired, by rw [hag]; exact hf, by rw [hg.s, hs0]⟩, h3, ?_⟩
        exact fin _ _ h3
      · simp at h1
      · simp at h1
      · simp at h1
  by_cases hbusy : st.sigints > 0 ∨ st.queued ≠ [] ∨ st.interrupting ≠ []
  · obtain ⟨ev, h1, h2⟩ := send_busy P gk val wf st ag timeout hbusy
    rw [h1] at h
    rcases h2 with h2 | ⟨e', h2⟩ | ⟨e', h2⟩ <;> subst h2 <;> simp at h
  · have hg : ¬ st.sigints > 0 := fun x => hbusy (Or.inl x)
    have hq : st.queued = [] := Classical.byContradiction fun x => hbusy (Or.inr (Or.inl x))
    have hi : st.interrupting = [] := Classical.byContradiction fun x => hbusy (Or.inr (Or.inr x))
    rw [send_idle P gk val wf st ag timeout hg hq hi] at h ⊢
    generalize hso : sortSched st.scheduled = so at h ⊢
    cases so with
    | nil =>
      simp only [] at h ⊢
      have hsn := (sortSched_nil_iff st.scheduled).mp hso
      have := viaRest timeout st (by rw [hso, hsn]) rfl h
      rw [hso] at this
      exact this
    | cons hd srest =>
      obtain ⟨w, e0⟩ := hd
      simp only [] at h ⊢
      by_cases hdue : w < st.clock
      · simp only [hdue, if_true] at h ⊢
        simp only [Except.ok.injEq, Option.some.injEq, Out.scheduled.injEq] at h
        obtain ⟨rfl, rfl⟩ := h
        exact ⟨hdue, st.scheduled, Or.inl rfl, hso, fin _ _ hso⟩
      · simp only [hdue, if_false] at h ⊢
        have := viaRest _ { st with scheduled := (w, e0) :: srest } hso.symm rfl h
        rw [hso] at this
        exact this

theorem take_length_zero {α : Type} (l : List α) (n : Nat) (hn : n > 0) (h : (l.take n).length = 0) : l = [] := by
  cases l with
  | nil => rfl
  | cons x xs => cases n with
    | zero => omega
    | succ k => simp at h

/-- the timeout clause without the exclusion of spurious readiness / end-of-file: FALSE for the code as it is (the
    stream is reported readable, os.read returns nothing, `_send` returns None at once - by design: the SIGTSTP/dsusp
    case; the same happens on EOF).  Stream EOF is outside the property's quantifier (arrivals, callbacks, requests). -/
def C08_timeout_full_statement : Prop :=
  ∀ (β κ : Type) (P : Params) (gk : List Nat → Bool → Except PyErr (Option κ)) (val : β → Nat) (wf : Nat)
    (st : InSt β) (ag : Agenda β) (timeout : Option Time), st.scheduled = [] → P.readSize > 0 →
    (send P gk val wf st ag timeout).1 = .ok none →
    ∃ T, timeout = some T ∧ st.clock + T ≤ (send P gk val wf st ag timeout).2.1.clock

/-- TIMEOUT (partial: spurious readiness / EOF excluded by `hz`, `hq`): with no scheduled event pending and no spurious readiness, a request that returns `None` was given a
    timeout and returns no earlier than `start + timeout` (whatever else happens meanwhile: event-less wake-ups,
    signals, callbacks). -/
theorem C08_timeout_partial (P : Params) (gk : List Nat → Bool → Except PyErr (Option κ)) (val : β → Nat) (wf : Nat)
    (st : InSt β) (ag : Agenda β) (timeout : Option Time)
    (hs : st.scheduled = []) (hz : st.spurious = false) (hq : ∀ x ∈ ag, isSpur x.2 = false) (hr : P.readSize > 0)
    (h : (send P gk val wf st ag timeout).1 = .ok none) :
    ∃ T, timeout = some T ∧ st.clock + T ≤ (send P gk val wf st ag timeout).2.1.clock := by
  by_cases hbusy : st.sigints > 0 ∨ st.queued ≠ [] ∨ st.interrupting ≠ []
  · obtain ⟨ev, h1, _⟩ := send_busy P gk val wf st ag timeout hbusy
    rw [h1] at h; simp at h
  · have hg : ¬ st.sigints > 0 := fun x => hbusy (Or.inl x)
    have hq0 : st.queued = [] := Classical.byContradiction fun x => hbusy (Or.inr (Or.inl x))
    have hi : st.interrupting = [] := Classical.byContradiction fun x => hbusy (Or.inr (Or.inr x))
    rw [send_idle P gk val wf st ag timeout hg hq0 hi] at h ⊢
    have hso : sortSched st.scheduled = [] := by rw [hs]; rfl
    rw [hso] at h ⊢
    simp only [] at h ⊢
    rcases sendRest_cases P gk val wf timeout st ag _ h with ⟨k, bs, hk⟩ | ⟨_, ⟨ev, hev, _⟩ | ⟨ready, st1, ag1, fired, hf, hg1, hsp, hto, hrd, _, heq⟩⟩
    · simp at hk
    · simp at hev
    · rw [heq] at h ⊢
      obtain ⟨hclk, _, ho⟩ := afterWait_facts P gk val ready st1 ag1
      rw [hclk]
      rcases ho _ h with ⟨t', e', h1, _⟩ | ⟨_, h1⟩ | ⟨k, bs, h1⟩ | ⟨ks, h1⟩
      · simp at h1
      · cases ready with
        | false => exact hto rfl
        | true =>
          rcases h1 with h1 | h1
          · simp at h1
          · have hos : st1.osbuf = [] := take_length_zero _ _ hr (by simpa [nonblockingRead] using h1)
            rcases hrd rfl with h2 | h2
            · exact absurd hos h2
            · rw [hsp hz hq] at h2; simp at h2
      · simp at h1
      · simp at h1

theorem waitLoop_ready (P : Params) (timeout : Option Time) (t0 : Time) (f : Nat) (remaining : Option Time)
    (st : InSt β) (ag : Agenda β) (h : st.osbuf ≠ []) :
    waitLoop (κ := κ) P timeout t0 (f + 1) remaining st ag = (.ok (true, none), st, ag) := by
  have hfr : firstReady P st = some .stdin := by
    unfold firstReady
    have : st.osbuf.isEmpty = false := by cases hh : st.osbuf <;> simp_all
    simp [this]
  have hsel : ∀ dl, select P dl st ag = (.stdin, st, ag) := by
    intro dl; unfold select; rw [hfr]
  unfold waitLoop
  rw [hsel]

theorem pasteLoop_not_blocked (P : Params) (gk : List Nat → Bool → Except PyErr (Option κ)) (val : β → Nat) :
    ∀ (f : Nat) (acc : List (κ × List β)) (st : InSt β), (pasteLoop P gk val f acc st).1 ≠ .error .blockedForever := by
  intro f
  induction f with
  | zero => intro acc st; simp [pasteLoop]
  | succ f ih =>
    intro acc st
    unfold pasteLoop
    simp only []
    split
    · simp
    · simp
    · exact ih _ _

theorem sendRead_not_blocked (P : Params) (gk : List Nat → Bool → Except PyErr (Option κ)) (val : β → Nat)
    (st : InSt β) (ag : Agenda β) : (sendRead P gk val st ag).1 ≠ .error .blockedForever := by
  unfold sendRead
  simp only []
  split
  · simp
  · split
    · exact pasteLoop_not_blocked P gk val _ _ _
    · split <;> simp

theorem afterWait_not_blocked (P : Params) (gk : List Nat → Bool → Except PyErr (Option κ)) (val : β → Nat)
    (ready : Bool) (st : InSt β) (ag : Agenda β) : (afterWait P gk val ready st ag).1 ≠ .error .blockedForever := by
  unfold afterWait
  split
  · simp only []
    split
    · simp
    · split
      · simp
      · exact sendRead_not_blocked P gk val _ _
  · split
    · simp
    · exact sendRead_not_blocked P gk val _ _

/-- `sendRest` with bytes already buffered or waiting in the OS buffer: no waiting -/
theorem sendRest_prompt (P : Params) (gk : List Nat → Bool → Except PyErr (Option κ)) (val : β → Nat) (wf : Nat)
    (tuc : Option Time) (st : InSt β) (ag : Agenda β) (hr : P.readSize > 0)
    (h : st.unprocessed ≠ [] ∨ st.osbuf ≠ []) :
    (sendRest P gk val (wf + 1) tuc st ag).1 ≠ .ok none ∧
    (sendRest P gk val (wf + 1) tuc st ag).1 ≠ .error .blockedForever ∧
    (sendRest P gk val (wf + 1) tuc st ag).2.2 = ag ∧
    (sendRest P gk val (wf + 1) tuc st ag).2.1.clock = st.clock := by
  unfold sendRest
  have hn := findKey_none gk val st.unprocessed []
  have hsp := findKey_split gk val st.unprocessed []
  generalize findKey gk val st.unprocessed [] = r at hn hsp
  obtain ⟨res, used, rest⟩ := r
  cases res with
  | error e => exact ⟨by simp, by simp, rfl, rfl⟩
  | ok ko =>
    cases ko with
    | some k => exact ⟨by simp, by simp, rfl, rfl⟩
    | none =>
      have hu := (hn rfl).1
      have ho : st.osbuf ≠ [] := by
        rcases h with h | h
        · exact absurd hu h
        · exact h
      simp only [List.nil_append] at hsp
      have hrest : rest = [] := by rw [hu] at hsp; exact (List.append_eq_nil_iff.mp hsp).2
      subst hrest
      have est : ({ st with unprocessed := [] } : InSt β) = st := by cases st; simp_all
      simp only []
      rw [est, waitLoop_ready (κ := κ) P tuc st.clock wf tuc st ag ho]
      simp only []
      obtain ⟨hclk, hag, hout⟩ := afterWait_facts P gk val true st ag
      refine ⟨?_, afterWait_not_blocked P gk val true st ag, hag, hclk⟩
      intro hnone
      rcases hout _ hnone with ⟨t', e', h1, _⟩ | ⟨_, h1⟩ | ⟨k, bs, h1⟩ | ⟨ks, h1⟩
      · simp at h1
      · rcases h1 with h1 | h1
        · simp at h1
        · exact ho (take_length_zero _ _ hr (by simpa [nonblockingRead] using h1))
      · simp at h1
      · simp at h1

/-- PROMPT: a request started while something is deliverable - a SIGINT event, a queued or interrupting event, a
    scheduled event whose time has passed, bytes already buffered, or bytes waiting in the OS buffer - does not return
    `None`, does not block, consumes no agenda item (no waiting select) and takes no time. (wait fuel >= 1) -/
theorem C08_prompt (P : Params) (gk : List Nat → Bool → Except PyErr (Option κ)) (val : β → Nat) (wf : Nat)
    (st : InSt β) (ag : Agenda β) (timeout : Option Time) (hr : P.readSize > 0)
    (h : st.sigints > 0 ∨ st.queued ≠ [] ∨ st.interrupting ≠ [] ∨ (∃ x ∈ st.scheduled, x.1 < st.clock) ∨
      st.unprocessed ≠ [] ∨ st.osbuf ≠ []) :
    (send P gk val (wf + 1) st ag timeout).1 ≠ .ok none ∧
    (send P gk val (wf + 1) st ag timeout).1 ≠ .error .blockedForever ∧
    (send P gk val (wf + 1) st ag timeout).2.2 = ag ∧
    (send P gk val (wf + 1) st ag timeout).2.1.clock = st.clock := by
  by_cases hbusy : st.sigints > 0 ∨ st.queued ≠ [] ∨ st.interrupting ≠ []
  · obtain ⟨⟨ev, h1⟩, h2, h3⟩ := C08_prompt_events P gk val (wf + 1) st ag timeout hbusy
    exact ⟨by rw [h1]; simp, by rw [h1]; simp, h2, h3⟩
  · have hg : ¬ st.sigints > 0 := fun x => hbusy (Or.inl x)
    have hq0 : st.queued = [] := Classical.byContradiction fun x => hbusy (Or.inr (Or.inl x))
    have hi : st.interrupting = [] := Classical.byContradiction fun x => hbusy (Or.inr (Or.inr x))
    have h' : (∃ x ∈ st.scheduled, x.1 < st.clock) ∨ st.unprocessed ≠ [] ∨ st.osbuf ≠ [] := by
      rcases h with h | h | h | h
      · exact absurd h hg
      · exact absurd hq0 h
      · exact absurd hi h
      · exact h
    rw [send_idle P gk val (wf + 1) st ag timeout hg hq0 hi]
    have hsorted := sortSched_sorted st.scheduled
    have hperm := sortSched_perm st.scheduled
    generalize sortSched st.scheduled = so at hsorted hperm
    cases so with
    | nil =>
      simp only []
      rcases h' with ⟨x, hx, _⟩ | h'
      · have := hperm.mem_iff.mpr hx; simp at this
      · exact sendRest_prompt P gk val wf timeout st ag hr h'
    | cons hd srest =>
      obtain ⟨w, e⟩ := hd
      simp only []
      by_cases hdue : w < st.clock
      · simp only [hdue, if_true]
        exact ⟨by simp, by simp, by first | rfl | trivial, by first | rfl | trivial⟩
      · simp only [hdue, if_false]
        rcases h' with ⟨x, hx, hxt⟩ | h'
        · exfalso
          have hm := hperm.mem_iff.mpr hx
          rcases List.mem_cons.mp hm with hm | hm
          · subst hm; exact hdue hxt
          · exact hdue (Nat.lt_of_le_of_lt (hsorted.1 x hm) hxt)
        · exact sendRest_prompt P gk val wf _ { st with scheduled := (w, e) :: srest } ag hr h'


/-! ## many requests: the ledger of a whole history -/
def isUnget : EnvAct β → Bool | .unget _ => true | _ => false

abbrev Log (κ β : Type) := List (Except Fail (Option (Out κ β)))
def logQ (log : Log κ β) : List Ev := log.flatMap fun r => outQ (resOut r)
def logI (log : Log κ β) : List Ev := log.flatMap fun r => outI (resOut r)
def logS (log : Log κ β) : List (Time × Ev) := log.flatMap fun r => outS (resOut r)
def logG (log : Log κ β) : Nat := (log.map fun r => outG (resOut r)).sum
def logB (log : Log κ β) : List β := log.flatMap fun r => outB (resOut r)

/-- ledger of a history: returned (over all requests, in order) ++ still held = held at the start ++ everything the
    fired agenda items brought in; bytes under the hypotheses that no request raised and that no `unget_bytes` fired
    (an unget between two requests is inserted behind the bytes already read, i.e. in the middle of `pend`) -/
structure Hist (P : Params) (st : InSt β) (fired : Agenda β) (log : Log κ β) (st' : InSt β) : Prop where
  q : logQ log ++ st'.queued = st.queued ++ envQ fired
  i : logI log ++ st'.interrupting = st.interrupting ++ envI fired
  s : (logS log ++ st'.scheduled).Perm (st.scheduled ++ envS fired)
  g : logG log + st'.sigints = st.sigints + envG P fired
  b : (∀ x ∈ fired, isUnget x.2 = false) → (∀ r ∈ log, ∃ o, r = .ok o) →
        logB log ++ pend st' = pend st ++ envB fired
  c : st.clock ≤ st'.clock

theorem Hist.nil (P : Params) (st : InSt β) : Hist (κ := κ) P st [] [] st :=
  ⟨by simp [logQ, envQ], by simp [logI, envI], by simp [logS, envS], by simp [logG, envG],
   fun _ _ => by simp [logB, envB], Nat.le_refl _⟩

theorem applyEnv_hist (P : Params) (a : EnvAct β) (st : InSt β) (t : Time) :
    Hist (κ := κ) P st [(t, a)] [] (applyEnv P a st) := by
  refine ⟨?_, ?_, ?_, ?_, ?_, ?_⟩
  · cases a <;> simp [applyEnv, logQ, envQ, qOf] <;> split <;> rfl
  · cases a <;> simp [applyEnv, logI, envI, iOf] <;> split <;> rfl
  · cases a <;> simp [applyEnv, logS, envS, sOf] <;> split <;> rfl
  · cases a <;> simp [applyEnv, logG, envG, gOf] <;> split <;> simp_all
  · intro hu _
    have hu' := hu (t, a) (by simp)
    cases a <;> simp [applyEnv, logB, envB, bOf, pend, isUnget] at hu' ⊢ <;> split <;> rfl
  · cases a <;> simp [applyEnv] <;> split <;> simp

theorem Hist.envThen {P : Params} {a b c : InSt β} {f1 f2 : Agenda β} {log : Log κ β}
    (h1 : Hist (κ := κ) P a f1 [] b) (h2 : Hist P b f2 log c) : Hist P a (f1 ++ f2) log c := by
  have q1 := h1.q; have i1 := h1.i; have s1 := h1.s; have g1 := h1.g
  simp [logQ, logI, logS, logG] at q1 i1 s1 g1
  refine ⟨?_, ?_, ?_, ?_, ?_, Nat.le_trans h1.c h2.c⟩
  · rw [h2.q, q1]; simp [envQ]
  · rw [h2.i, i1]; simp [envI]
  · refine h2.s.trans ?_
    have : (b.scheduled ++ envS f2).Perm ((a.scheduled ++ envS f1) ++ envS f2) := List.Perm.append_right _ s1
    simpa [envS] using this
  · rw [h2.g, g1]; simp [envG]; omega
  · intro hu hok
    have b1 := h1.b (fun x hx => hu x (List.mem_append_left _ hx)) (by simp)
    simp [logB] at b1
    rw [h2.b (fun x hx => hu x (List.mem_append_right _ hx)) hok, b1]; simp [envB]

theorem fireDue_hist (P : Params) (st : InSt β) (ag : Agenda β) :
    ∃ fired, ag = fired ++ (fireDue P st ag).2 ∧ Hist (κ := κ) P st fired [] (fireDue P st ag).1 := by
  induction ag generalizing st with
  | nil => exact ⟨[], rfl, Hist.nil P st⟩
  | cons x rest ih =>
    obtain ⟨t, a⟩ := x
    unfold fireDue
    split
    · obtain ⟨f, hf, hh⟩ := ih (applyEnv P a st)
      exact ⟨(t, a) :: f, by simp [← hf], (applyEnv_hist P a st t).envThen hh⟩
    · exact ⟨[], rfl, Hist.nil P st⟩

theorem Hist.reqThen {P : Params} {a b c : InSt β} {f1 f2 : Agenda β} {res : Except Fail (Option (Out κ β))}
    {lost : List β} {log : Log κ β}
    (h1 : Took P a f1 (resOut res) lost b) (hl : ∀ o, res = .ok o → lost = []) (h2 : Hist P b f2 log c) :
    Hist P a (f1 ++ f2) (res :: log) c := by
  refine ⟨?_, ?_, ?_, ?_, ?_, Nat.le_trans h1.c h2.c⟩
  · have := h1.q; simp only [logQ, List.flatMap_cons] at h2 ⊢
    rw [List.append_assoc, (by simpa [logQ] using h2.q : (log.flatMap fun r => outQ (resOut r)) ++ c.queued = _),
      ← List.append_assoc, this]; simp [envQ]
  · have := h1.i; simp only [logI, List.flatMap_cons] at h2 ⊢
    rw [List.append_assoc, (by simpa [logI] using h2.i : (log.flatMap fun r => outI (resOut r)) ++ c.interrupting = _),
      ← List.append_assoc, this]; simp [envI]
  · have e2 : ((log.flatMap fun r => outS (resOut r)) ++ c.scheduled).Perm (b.scheduled ++ envS f2) := by
      simpa [logS] using h2.s
    simp only [logS, List.flatMap_cons]
    rw [List.append_assoc]
    refine (List.Perm.append_left _ e2).trans ?_
    rw [← List.append_assoc]
    refine (List.Perm.append_right _ h1.s).trans ?_
    simp [envS]
  · have g1 := h1.g; have g2 := h2.g
    have e : envG P (f1 ++ f2) = envG P f1 + envG P f2 := by simp [envG]
    simp only [logG, List.map_cons, List.sum_cons] at g2 ⊢
    rw [e]; omega
  · intro hu hok
    obtain ⟨o, ho⟩ := hok res (by simp)
    have hlost := hl o ho
    subst hlost
    have b1 := h1.b; simp at b1
    have b2 := h2.b (fun x hx => hu x (List.mem_append_right _ hx)) (fun r hr => hok r (List.mem_cons_of_mem _ hr))
    simp only [logB, List.flatMap_cons] at b2 ⊢
    rw [List.append_assoc, b2, ← List.append_assoc, b1]; simp [envB]

/-- EXACTLY ONCE over a whole history (any script of requests and clock advances, any agenda): per trigger source the
    events returned over all requests, in order, followed by the events still queued are exactly the events triggered,
    in trigger order; scheduled events as a multiset; SIGINT events as a count; bytes (keypresses and pastes of all
    requests, in order, then what is still buffered) are exactly the bytes that arrived, in arrival order - the byte
    clause for histories in which no request raised (D15/D12) and no `unget_bytes` fired. -/
theorem C08_exactly_once_history (P : Params) (gk : List Nat → Bool → Except PyErr (Option κ)) (val : β → Nat)
    (ops : List MainOp) :
    ∀ (st : InSt β) (ag : Agenda β),
      ∃ fired, ag = fired ++ (run P gk val ops st ag).2.2 ∧
        Hist P st fired (run P gk val ops st ag).1 (run P gk val ops st ag).2.1 := by
  induction ops with
  | nil => intro st ag; exact ⟨[], rfl, Hist.nil P st⟩
  | cons op ops ih =>
    intro st ag
    cases op with
    | advance dt =>
      simp only [run, advance]
      obtain ⟨f1, h1, hh1⟩ := fireDue_hist (κ := κ) P { st with clock := st.clock + dt } ag
      generalize fireDue P { st with clock := st.clock + dt } ag = fd at h1 hh1
      obtain ⟨st1, ag1⟩ := fd
      simp only [] at h1 hh1 ⊢
      obtain ⟨f2, h2, hh2⟩ := ih st1 ag1
      refine ⟨f1 ++ f2, by rw [h1, List.append_assoc, ← h2], ?_⟩
      have hh1' : Hist (κ := κ) P st f1 [] st1 :=
        ⟨hh1.q, hh1.i, hh1.s, hh1.g, hh1.b, Nat.le_trans (Nat.le_add_right _ _) hh1.c⟩
      exact hh1'.envThen hh2
    | reenter => simp only [run]; exact ih st ag
    | request t =>
      simp only [run]
      obtain ⟨f1, lost, h1, ht, hl⟩ := C08_exactly_once P gk val (waitFuelFor st ag) st ag t
      generalize send P gk val (waitFuelFor st ag) st ag t = sr at h1 ht hl
      obtain ⟨res, st1, ag1⟩ := sr
      simp only [] at h1 ht hl
      split
      · rename_i heq
        simp only [Prod.mk.injEq] at heq
        obtain ⟨rfl, rfl, rfl⟩ := heq
        have := Hist.reqThen ht hl (Hist.nil (κ := κ) P st1)
        exact ⟨f1, h1, by simpa using this⟩
      · rename_i heq
        simp only [Prod.mk.injEq] at heq
        obtain ⟨rfl, rfl, rfl⟩ := heq
        obtain ⟨f2, h2, hh2⟩ := ih st1 ag1
        exact ⟨f1 ++ f2, by rw [h1, List.append_assoc, ← h2], Hist.reqThen ht hl hh2⟩

/-! ## paste: fuel, completeness, and when it happens -/
theorem findKey_some_shorter (gk : List Nat → Bool → Except PyErr (Option κ)) (val : β → Nat) (u cur : List β) (k : κ)
    (h : (findKey gk val u cur).1 = .ok (some k)) : (findKey gk val u cur).2.2.length < u.length := by
  induction u generalizing cur with
  | nil => unfold findKey at h; split at h <;> simp at h
  | cons b rest ih =>
    unfold findKey at h ⊢
    simp only [] at h ⊢
    split
    · rename_i heq; rw [heq] at h; simp at h
    · simp
    · rename_i heq
      rw [heq] at h
      have := ih _ h
      simp only [List.length_cons]; omega

/-- the paste loop never runs out of fuel when started with more fuel than there are bytes -/
theorem pasteLoop_fuel (P : Params) (gk : List Nat → Bool → Except PyErr (Option κ)) (val : β → Nat) :
    ∀ (f : Nat) (acc : List (κ × List β)) (st : InSt β), st.unprocessed.length + st.osbuf.length < f →
      (pasteLoop P gk val f acc st).1 ≠ .error .outOfFuel := by
  intro f
  induction f with
  | zero => intro acc st h; omega
  | succ f ih =>
    intro acc st h
    unfold pasteLoop
    simp only []
    generalize hst1 : (if st.unprocessed.length < P.maxKey then (nonblockingRead P st).2 else st) = st1
    have hlen : st1.unprocessed.length + st1.osbuf.length = st.unprocessed.length + st.osbuf.length := by
      subst hst1; split
      · simp [nonblockingRead]; omega
      · rfl
    have hk := findKey_some_shorter gk val st1.unprocessed []
    generalize findKey gk val st1.unprocessed [] = r at hk
    obtain ⟨res, used, rest⟩ := r
    cases res with
    | error e => simp
    | ok o =>
      cases o with
      | none => simp
      | some k =>
        have := hk k rfl
        simp only [] at this ⊢
        exact ih _ _ (by simp only []; omega)

theorem C08_paste_fuel (P : Params) (gk : List Nat → Bool → Except PyErr (Option κ)) (val : β → Nat) (st : InSt β) :
    (pasteLoop P gk val (pasteFuel st) [] st).1 ≠ .error .outOfFuel :=
  pasteLoop_fuel P gk val _ _ _ (by unfold pasteFuel; omega)

/-- a paste event that comes back holds EVERYTHING: afterwards neither the Input nor the OS buffer holds a byte -/
theorem pasteLoop_drains (P : Params) (gk : List Nat → Bool → Except PyErr (Option κ)) (val : β → Nat)
    (hm : P.maxKey > 0) (hr : P.readSize > 0) :
    ∀ (f : Nat) (acc : List (κ × List β)) (st : InSt β) (o : Option (Out κ β)),
      (pasteLoop P gk val f acc st).1 = .ok o →
      (pasteLoop P gk val f acc st).2.unprocessed = [] ∧ (pasteLoop P gk val f acc st).2.osbuf = [] := by
  intro f
  induction f with
  | zero => intro acc st o h; simp [pasteLoop] at h
  | succ f ih =>
    intro acc st o h
    unfold pasteLoop at h ⊢
    simp only [] at h ⊢
    generalize hst1 : (if st.unprocessed.length < P.maxKey then (nonblockingRead P st).2 else st) = st1 at h ⊢
    have hn := findKey_none gk val st1.unprocessed []
    have hs := findKey_split gk val st1.unprocessed []
    generalize findKey gk val st1.unprocessed [] = r at hn hs h ⊢
    obtain ⟨res, used, rest⟩ := r
    cases res with
    | error e => simp at h
    | ok ko =>
      cases ko with
      | some k => exact ih _ _ o h
      | none =>
        have hu := (hn rfl).1
        simp only [List.nil_append] at hs
        have hrest : rest = [] := by rw [hu] at hs; exact (List.append_eq_nil_iff.mp hs).2
        subst hrest
        refine ⟨rfl, ?_⟩
        subst hst1
        by_cases hlt : st.unprocessed.length < P.maxKey
        · simp only [hlt, if_true] at hu ⊢
          simp only [nonblockingRead, List.append_eq_nil_iff] at hu
          have ht : st.osbuf.take P.readSize = [] := hu.2
          have ho : st.osbuf = [] := take_length_zero _ _ hr (by rw [ht]; rfl)
          simp [nonblockingRead, ho]
        · simp only [hlt, if_false] at hu
          rw [hu] at hlt; simp at hlt; omega

/-- PASTE: after a read of `n > 0` bytes, a paste event comes back exactly when `n > paste_threshold` (never for
    threshold None); it then holds, as consecutive keypresses in order, every byte that was available, nothing is
    left behind (`pend = []`), and the loop's fuel suffices.  Otherwise one keypress (or an exception: D15/D12/D35). -/
theorem C08_paste_iff (P : Params) (gk : List Nat → Bool → Except PyErr (Option κ)) (val : β → Nat)
    (st : InSt β) (ag : Agenda β) (o : Option (Out κ β)) (hm : P.maxKey > 0) (hr : P.readSize > 0)
    (hn : (nonblockingRead P st).1 ≠ 0) (h : (sendRead P gk val st ag).1 = .ok o) :
    (isPaste P (nonblockingRead P st).1 = true ↔ ∃ ks, o = some (.paste ks)) ∧
    (isPaste P (nonblockingRead P st).1 = true →
      ∃ ks, o = some (.paste ks) ∧ ks.flatMap (·.2) = pend st ∧ pend (sendRead P gk val st ag).2.1 = []) ∧
    (sendRead P gk val st ag).1 ≠ .error .outOfFuel := by
  unfold sendRead at h ⊢
  simp only [] at h ⊢
  have hp : pend (nonblockingRead P st).2 = pend st := by simp [nonblockingRead, pend]
  generalize (nonblockingRead P st) = nr at hn hp h ⊢
  obtain ⟨n, st1⟩ := nr
  simp only [] at hn hp h ⊢
  have hn' : (n == 0) = false := by simpa using hn
  simp only [hn', Bool.false_eq_true, if_false] at h ⊢
  by_cases hip : isPaste P n = true
  · simp only [hip, if_true] at h ⊢
    have hl := pasteLoop_ledger P gk val (pasteFuel st1) [] st1
    have hd := pasteLoop_drains P gk val hm hr (pasteFuel st1) [] st1
    have hf := C08_paste_fuel P gk val st1
    generalize pasteLoop P gk val (pasteFuel st1) [] st1 = pr at hl hd hf h ⊢
    obtain ⟨res, st2⟩ := pr
    simp only [] at hl hd hf h ⊢
    obtain ⟨_, lost, hl1, hl2⟩ := hl
    obtain ⟨hlost, ks, hks⟩ := hl2 o h
    subst hlost hks
    obtain ⟨hu, ho⟩ := hd _ h
    rw [h] at hl1
    have hb : ks.flatMap (·.2) = pend st := by
      simp [resOut, outB, pend, hu, ho] at hl1; rw [← hp]; simpa [pend] using hl1
    exact ⟨⟨fun _ => ⟨ks, rfl⟩, fun _ => trivial⟩, fun _ => ⟨ks, rfl, hb, by simp [pend, hu, ho]⟩, hf⟩
  · have hip' : isPaste P n = false := by simpa using hip
    simp only [hip', Bool.false_eq_true, if_false] at h ⊢
    generalize findKey gk val st1.unprocessed [] = r at h ⊢
    obtain ⟨res, used, rest⟩ := r
    cases res with
    | error e => simp at h
    | ok ko =>
      cases ko with
      | none => simp at h
      | some k =>
        simp only [Except.ok.injEq] at h
        subst h
        exact ⟨⟨fun hh => by simp at hh, fun ⟨ks, hks⟩ => by simp at hks⟩, fun hh => by simp at hh, by simp⟩

theorem afterWait_notready (P : Params) (gk : List Nat → Bool → Except PyErr (Option κ)) (val : β → Nat)
    (st : InSt β) (ag : Agenda β) (h : (afterWait P gk val false st ag).1 = .ok none) :
    firstReady P (afterWait P gk val false st ag).2.1 = firstReady P st := by
  unfold afterWait at h ⊢
  generalize sortSched st.scheduled = so at h ⊢
  cases so with
  | nil => rfl
  | cons hd srest =>
    obtain ⟨w0, e0⟩ := hd
    simp only [] at h ⊢
    by_cases hdue : w0 < st.clock
    · simp [hdue] at h
    · simp only [hdue, if_false]
      exact firstReady_congr P _ _ rfl rfl rfl rfl

theorem sendRest_none_idle (P : Params) (gk : List Nat → Bool → Except PyErr (Option κ)) (val : β → Nat) (wf : Nat)
    (tuc : Option Time) (st : InSt β) (ag : Agenda β) (hz : st.spurious = false)
    (hq : ∀ x ∈ ag, isSpur x.2 = false) (hr : P.readSize > 0)
    (h : (sendRest P gk val wf tuc st ag).1 = .ok none) :
    firstReady P (sendRest P gk val wf tuc st ag).2.1 = none := by
  rcases sendRest_cases P gk val wf tuc st ag _ h with ⟨k, bs, hk⟩ | ⟨hu, ⟨ev, hev, _⟩ | ⟨ready, st1, ag1, fired, hf, hg1, hsp, hto, hrd, hidle, heq⟩⟩
  · simp at hk
  · simp at hev
  · rw [heq] at h ⊢
    obtain ⟨_, _, ho⟩ := afterWait_facts P gk val ready st1 ag1
    cases ready with
    | true =>
      rcases ho _ h with ⟨t', e', h1, _⟩ | ⟨_, h1⟩ | ⟨k, bs, h1⟩ | ⟨ks, h1⟩
      · simp at h1
      · rcases h1 with h1 | h1
        · simp at h1
        · have hos : st1.osbuf = [] := take_length_zero _ _ hr (by simpa [nonblockingRead] using h1)
          rcases hrd rfl with h2 | h2
          · exact absurd hos h2
          · rw [hsp hz hq] at h2; simp at h2
      · simp at h1
      · simp at h1
    | false =>
      rw [afterWait_notready P gk val st1 ag1 h]
      exact hidle rfl

/-- A request never returns `None` while anything is readable: when `send` returns `None` (no spurious readiness
    involved), afterwards no trigger pipe holds an unread byte, the wake-up fd holds none and the stream holds none.
    In particular a thread-safe callback whose write has landed is never passed over by a timeout: its pipe byte makes
    `select` return, the pipe branch of the wait pops the event (`C08_wait_exactly_once`) and the request returns it. -/
theorem C08_none_nothing_readable_partial (P : Params) (gk : List Nat → Bool → Except PyErr (Option κ)) (val : β → Nat)
    (wf : Nat) (st : InSt β) (ag : Agenda β) (timeout : Option Time) (hz : st.spurious = false)
    (hq : ∀ x ∈ ag, isSpur x.2 = false) (hr : P.readSize > 0)
    (h : (send P gk val wf st ag timeout).1 = .ok none) :
    firstReady P (send P gk val wf st ag timeout).2.1 = none ∧
    (∀ n ∈ (send P gk val wf st ag timeout).2.1.pipes, n = 0) := by
  have key : firstReady P (send P gk val wf st ag timeout).2.1 = none := by
    by_cases hbusy : st.sigints > 0 ∨ st.queued ≠ [] ∨ st.interrupting ≠ []
    · obtain ⟨ev, h1, _⟩ := send_busy P gk val wf st ag timeout hbusy
      rw [h1] at h; simp at h
    · have hg : ¬ st.sigints > 0 := fun x => hbusy (Or.inl x)
      have hq0 : st.queued = [] := Classical.byContradiction fun x => hbusy (Or.inr (Or.inl x))
      have hi : st.interrupting = [] := Classical.byContradiction fun x => hbusy (Or.inr (Or.inr x))
      rw [send_idle P gk val wf st ag timeout hg hq0 hi] at h ⊢
      generalize sortSched st.scheduled = so at h ⊢
      cases so with
      | nil => exact sendRest_none_idle P gk val wf timeout st ag hz hq hr h
      | cons hd srest =>
        obtain ⟨w, e⟩ := hd
        simp only [] at h ⊢
        by_cases hdue : w < st.clock
        · simp [hdue] at h
        · simp only [hdue, if_false] at h ⊢
          exact sendRest_none_idle P gk val wf _ { st with scheduled := (w, e) :: srest } ag hz hq hr h
  refine ⟨key, ?_⟩
  generalize (send P gk val wf st ag timeout).2.1 = st' at key
  unfold firstReady at key
  split at key
  · simp at key
  · have hp : firstPipe st'.pipes 0 = none := by
      split at key
      · simp at key
      · cases hfp : firstPipe st'.pipes 0 <;> simp [hfp] at key ⊢
    have gen : ∀ (l : List Nat) (k : Nat), firstPipe l k = none → ∀ n ∈ l, n = 0 := by
      intro l
      induction l with
      | nil => intro _ _ n hn; simp at hn
      | cons x xs ih =>
        intro k hk n hn
        unfold firstPipe at hk
        split at hk
        · simp at hk
        · rename_i hx
          rcases List.mem_cons.mp hn with hn | hn
          · subst hn; omega
          · exact ih (k + 1) hk n hn
    exact gen _ _ hp

/-! ## input-level form: streams made of complete keypresses lose nothing -/

/-- `find_key` on a buffer that STARTS with a complete keypress `p` (every shorter non-empty prefix is "need more",
    `p` itself is a key) returns exactly that keypress, consumes exactly `p`, whatever follows. -/
theorem findKey_complete_aux (gk : List Nat → Bool → Except PyErr (Option κ)) (val : β → Nat) (p rest : List β) (k : κ)
    (hk : gk (p.map val) rest.isEmpty = .ok (some k))
    (hpre : ∀ q, q <+: p → q ≠ [] → q ≠ p → gk (q.map val) false = .ok none) :
    ∀ (p2 cur : List β), cur ++ p2 = p → p2 ≠ [] → findKey gk val (p2 ++ rest) cur = (.ok (some k), p, rest) := by
  intro p2
  induction p2 with
  | nil => intro cur _ h; exact absurd rfl h
  | cons b p2' ih =>
    intro cur hc _
    simp only [List.cons_append]
    unfold findKey
    simp only []
    by_cases he : p2' = []
    · subst he
      have hcur : cur ++ [b] = p := by simpa using hc
      simp only [List.nil_append, hcur, hk]
    · have hflag : (p2' ++ rest).isEmpty = false := by
        cases p2' with
        | nil => exact absurd rfl he
        | cons x xs => rfl
      have hq : gk ((cur ++ [b]).map val) false = .ok none := by
        apply hpre
        · exact ⟨p2', by rw [← hc]; simp⟩
        · simp
        · intro heq
          have : (cur ++ [b]).length = p.length := by rw [heq]
          rw [← hc] at this
          simp at this
          cases p2' with
          | nil => exact he rfl
          | cons x xs => simp at this
      rw [hflag, hq]
      exact ih (cur ++ [b]) (by rw [← hc]; simp) he

theorem C08_find_key_complete (gk : List Nat → Bool → Except PyErr (Option κ)) (val : β → Nat) (p rest : List β) (k : κ)
    (hp : p ≠ []) (hk : gk (p.map val) rest.isEmpty = .ok (some k))
    (hpre : ∀ q, q <+: p → q ≠ [] → q ≠ p → gk (q.map val) false = .ok none) :
    findKey gk val (p ++ rest) [] = (.ok (some k), p, rest) :=
  findKey_complete_aux gk val p rest k hk hpre p [] rfl hp

/-- a complete keypress for the decoder `gk`: not longer than MAX_KEYPRESS_SIZE, recognised with and without
    look-ahead, and none of its proper prefixes is anything but "need more bytes" -/
structure IsUnit (gk : List Nat → Bool → Except PyErr (Option κ)) (val : β → Nat) (maxKey : Nat) (u : List β) (k : κ) : Prop where
  ne : u ≠ []
  short : u.length ≤ maxKey
  pre : ∀ q, q <+: u → q ≠ [] → q ≠ u → gk (q.map val) false = .ok none
  key : ∀ full, gk (u.map val) full = .ok (some k)

/-- a byte string that is a concatenation of complete keypresses: nothing in it has the shape of D12, D15 or D35 -/
inductive Units (gk : List Nat → Bool → Except PyErr (Option κ)) (val : β → Nat) (maxKey : Nat) : List β → Prop
  | nil : Units gk val maxKey []
  | cons (u rest : List β) (k : κ) : IsUnit gk val maxKey u k → Units gk val maxKey rest → Units gk val maxKey (u ++ rest)

theorem Units.append {gk : List Nat → Bool → Except PyErr (Option κ)} {val : β → Nat} {m : Nat} {a b : List β}
    (ha : Units gk val m a) (hb : Units gk val m b) : Units gk val m (a ++ b) := by
  induction ha with
  | nil => simpa using hb
  | cons u rest k hu _ ih => rw [List.append_assoc]; exact Units.cons u _ k hu ih

/-- with the first keypress wholly buffered (the buffer holds >= MAX_KEYPRESS_SIZE bytes, or nothing more is to come)
    `find_key` returns it and what stays behind is again made of complete keypresses -/
theorem findKey_units (gk : List Nat → Bool → Except PyErr (Option κ)) (val : β → Nat) (m : Nat) (buf more : List β)
    (hu : Units gk val m (buf ++ more)) (hne : buf ≠ []) (hcond : m ≤ buf.length ∨ more = []) :
    ∃ u k rest, buf = u ++ rest ∧ u ≠ [] ∧ Units gk val m (rest ++ more) ∧
      findKey gk val buf [] = (.ok (some k), u, rest) := by
  generalize hall : buf ++ more = all at hu
  cases hu with
  | nil =>
    have : buf = [] := (List.append_eq_nil_iff.mp hall).1
    exact absurd this hne
  | cons u tail k hunit htail =>
    have hlen : u.length ≤ buf.length := by
      rcases hcond with h | h
      · exact Nat.le_trans hunit.short h
      · subst h
        have : buf = u ++ tail := by simpa using hall
        rw [this]; simp
    -- u is a prefix of buf
    have hpre : u <+: buf := by
      have h1 : u <+: buf ++ more := ⟨tail, hall.symm⟩
      exact (List.prefix_append_right_inj _).mp (by
        have := List.prefix_of_prefix_length_le h1 (List.prefix_append buf more) hlen
        exact (List.prefix_append_right_inj []).mpr (by simpa using this)) |> fun h => by simpa using h
    obtain ⟨rest, hrest⟩ := hpre
    have htl : tail = rest ++ more := by
      have : u ++ tail = u ++ (rest ++ more) := by rw [← List.append_assoc, hrest, hall]
      exact List.append_cancel_left this
    refine ⟨u, k, rest, hrest.symm, hunit.ne, by rw [← htl]; exact htail, ?_⟩
    rw [← hrest]
    exact C08_find_key_complete gk val u rest k hunit.ne (hunit.key _) hunit.pre

theorem findKey_nil (gk : List Nat → Bool → Except PyErr (Option κ)) (val : β → Nat) :
    findKey gk val ([] : List β) [] = (.ok none, [], []) := by
  unfold findKey; rfl

theorem read_cond (P : Params) (st : InSt β) (hr : P.maxKey ≤ P.readSize) :
    P.maxKey ≤ (nonblockingRead P st).2.unprocessed.length ∨ (nonblockingRead P st).2.osbuf = [] := by
  simp only [nonblockingRead]
  by_cases h : st.osbuf.length ≤ P.readSize
  · exact Or.inr (List.drop_eq_nil_of_le h)
  · refine Or.inl ?_
    simp only [List.length_append, List.length_take]
    omega

theorem pasteLoop_units (P : Params) (gk : List Nat → Bool → Except PyErr (Option κ)) (val : β → Nat)
    (hr : P.maxKey ≤ P.readSize) :
    ∀ (f : Nat) (acc : List (κ × List β)) (st : InSt β), Units gk val P.maxKey (pend st) →
      ∀ e, (pasteLoop P gk val f acc st).1 ≠ .error (.py e) := by
  intro f
  induction f with
  | zero => intro acc st _ e; simp [pasteLoop]
  | succ f ih =>
    intro acc st hu e
    unfold pasteLoop
    simp only []
    generalize hst1 : (if st.unprocessed.length < P.maxKey then (nonblockingRead P st).2 else st) = st1
    have hp : pend st1 = pend st ∧ (P.maxKey ≤ st1.unprocessed.length ∨ st1.osbuf = []) := by
      subst hst1
      split
      · exact ⟨by simp [nonblockingRead, pend], read_cond P st hr⟩
      · rename_i h; exact ⟨rfl, Or.inl (by omega)⟩
    obtain ⟨hp1, hcond⟩ := hp
    by_cases hb : st1.unprocessed = []
    · rw [hb, findKey_nil]; simp
    · have hu1 : Units gk val P.maxKey (st1.unprocessed ++ st1.osbuf) := by
        have : pend st1 = st1.unprocessed ++ st1.osbuf := rfl
        rw [← this, hp1]; exact hu
      obtain ⟨u, k, rest, _, _, hrest, hfk⟩ := findKey_units gk val P.maxKey st1.unprocessed st1.osbuf hu1 hb hcond
      rw [hfk]
      simp only []
      exact ih _ _ (by simpa [pend] using hrest) e

theorem sendRead_units (P : Params) (gk : List Nat → Bool → Except PyErr (Option κ)) (val : β → Nat)
    (hr : P.maxKey ≤ P.readSize) (st : InSt β) (ag : Agenda β) (hu : Units gk val P.maxKey (pend st)) :
    ∀ e, (sendRead P gk val st ag).1 ≠ .error (.py e) := by
  intro e
  unfold sendRead
  simp only []
  have hc := read_cond P st hr
  have hp : pend (nonblockingRead P st).2 = pend st := by simp [nonblockingRead, pend]
  have hn : (nonblockingRead P st).1 ≠ 0 → (nonblockingRead P st).2.unprocessed ≠ [] := by
    simp only [nonblockingRead]
    intro h1 h2
    simp only [List.append_eq_nil_iff] at h2
    rw [h2.2] at h1; simp at h1
  generalize (nonblockingRead P st) = nr at hc hp hn
  obtain ⟨n, st1⟩ := nr
  simp only [] at hc hp hn ⊢
  split
  · simp
  · rename_i hn0
    have hu1 : Units gk val P.maxKey (st1.unprocessed ++ st1.osbuf) := by
      have : pend st1 = st1.unprocessed ++ st1.osbuf := rfl
      rw [← this, hp]; exact hu
    split
    · exact pasteLoop_units P gk val hr _ _ _ (by rw [hp]; exact hu) e
    · obtain ⟨u, k, rest, _, _, _, hfk⟩ := findKey_units gk val P.maxKey st1.unprocessed st1.osbuf hu1
        (hn (by simpa using hn0)) hc
      rw [hfk]; simp

theorem afterWait_units (P : Params) (gk : List Nat → Bool → Except PyErr (Option κ)) (val : β → Nat)
    (hr : P.maxKey ≤ P.readSize) (ready : Bool) (st : InSt β) (ag : Agenda β) (hu : Units gk val P.maxKey (pend st)) :
    ∀ e, (afterWait P gk val ready st ag).1 ≠ .error (.py e) := by
  intro e
  unfold afterWait
  split
  · simp only []
    split
    · simp
    · split
      · simp
      · exact sendRead_units P gk val hr _ _ (by simpa [pend] using hu) e
  · split
    · simp
    · exact sendRead_units P gk val hr _ _ hu e

theorem waitLoop_not_py (P : Params) (timeout : Option Time) (t0 : Time) (f : Nat) (remaining : Option Time)
    (st : InSt β) (ag : Agenda β) (e : PyErr) :
    (waitLoop (κ := κ) P timeout t0 f remaining st ag).1 ≠ .error (.py e) := by
  fun_induction waitLoop (κ := κ) P timeout t0 f remaining st ag with
  | case1 x st ag => simp
  | case2 f remaining st ag st1 ag1 hs => simp
  | case3 f remaining st ag st1 ag1 hs => simp
  | case4 f remaining st ag st1 ag1 hs => simp
  | case5 f remaining st ag n rest st1 ag1 hs st2 hn hg => simp
  | case6 f remaining st ag n rest st1 ag1 hs st2 hn hg ih => exact ih
  | case7 f remaining st ag n rest st1 ag1 hs st2 hn ih => exact ih
  | case8 f remaining st ag i st1 ag1 hs st2 e q he => simp
  | case9 f remaining st ag i st1 ag1 hs st2 he ih => exact ih

/-- every byte string the environment delivers is made of complete keypresses -/
def PayloadUnits (gk : List Nat → Bool → Except PyErr (Option κ)) (val : β → Nat) (m : Nat) (ag : Agenda β) : Prop :=
  ∀ x ∈ ag, Units gk val m (bOf x.2)

theorem envB_units {gk : List Nat → Bool → Except PyErr (Option κ)} {val : β → Nat} {m : Nat} (f : Agenda β)
    (h : PayloadUnits gk val m f) : Units gk val m (envB f) := by
  induction f with
  | nil => exact Units.nil
  | cons x xs ih =>
    have : envB (x :: xs) = bOf x.2 ++ envB xs := by simp [envB]
    rw [this]
    exact (h x List.mem_cons_self).append (ih fun y hy => h y (List.mem_cons_of_mem _ hy))

theorem sendRest_units (P : Params) (gk : List Nat → Bool → Except PyErr (Option κ)) (val : β → Nat)
    (hr : P.maxKey ≤ P.readSize) (wf : Nat) (tuc : Option Time) (st : InSt β) (ag : Agenda β)
    (hu : Units gk val P.maxKey st.unprocessed) (ho : Units gk val P.maxKey st.osbuf)
    (ha : PayloadUnits gk val P.maxKey ag) :
    ∀ e, (sendRest P gk val wf tuc st ag).1 ≠ .error (.py e) := by
  intro e
  unfold sendRest
  by_cases hb : st.unprocessed = []
  · rw [hb, findKey_nil]
    simp only []
    have est : ({ st with unprocessed := [] } : InSt β) = st := by cases st; simp_all
    rw [est]
    have hnone := waitLoop_none (κ := κ) P tuc st.clock wf tuc st ag (RemInv.init tuc st.clock)
    have hpy := waitLoop_not_py (κ := κ) P tuc st.clock wf tuc st ag
    generalize waitLoop (κ := κ) P tuc st.clock wf tuc st ag = wr at hnone hpy
    obtain ⟨wres, st1, ag1⟩ := wr
    cases wres with
    | error fl =>
      simp only []
      intro h
      simp only [Except.error.injEq] at h
      exact hpy e (by simp [h])
    | ok pr =>
      obtain ⟨ready, ev⟩ := pr
      cases ev with
      | some ev => simp
      | none =>
        simp only []
        obtain ⟨⟨fired, hf, hg⟩, _, _⟩ := hnone ready rfl
        apply afterWait_units P gk val hr
        rw [hg.b]
        refine Units.append (by simpa [pend, hb] using ho) (envB_units fired ?_)
        intro x hx
        exact ha x (by rw [hf]; exact List.mem_append_left _ hx)
  · obtain ⟨u, k, rest, _, _, _, hfk⟩ := findKey_units gk val P.maxKey st.unprocessed [] (by simpa using hu) hb (Or.inr rfl)
    rw [hfk]; simp

/-- INPUT-LEVEL NO-LOSS: if what is buffered, what the OS holds and every byte string that arrives (or is ungot)
    while the request runs are concatenations of complete keypresses for the decoder - i.e. contain nothing of the
    shape of D12 (prefix + high byte), D15 (truncated keypress) or D35 (ill-formed UTF-8) - then the request does not
    raise, hence (`C08_exactly_once_partial`) loses nothing.  (READ_SIZE >= MAX_KEYPRESS_SIZE is asserted by input.py.) -/
theorem C08_no_loss_wellformed (P : Params) (gk : List Nat → Bool → Except PyErr (Option κ)) (val : β → Nat)
    (hr : P.maxKey ≤ P.readSize) (wf : Nat) (st : InSt β) (ag : Agenda β) (timeout : Option Time)
    (hu : Units gk val P.maxKey st.unprocessed) (ho : Units gk val P.maxKey st.osbuf)
    (ha : PayloadUnits gk val P.maxKey ag) :
    ∀ e, (send P gk val wf st ag timeout).1 ≠ .error (.py e) := by
  intro e
  by_cases hbusy : st.sigints > 0 ∨ st.queued ≠ [] ∨ st.interrupting ≠ []
  · obtain ⟨ev, h1, _⟩ := send_busy P gk val wf st ag timeout hbusy
    rw [h1]; simp
  · have hg : ¬ st.sigints > 0 := fun x => hbusy (Or.inl x)
    have hq0 : st.queued = [] := Classical.byContradiction fun x => hbusy (Or.inr (Or.inl x))
    have hi : st.interrupting = [] := Classical.byContradiction fun x => hbusy (Or.inr (Or.inr x))
    rw [send_idle P gk val wf st ag timeout hg hq0 hi]
    generalize sortSched st.scheduled = so
    cases so with
    | nil => exact sendRest_units P gk val hr wf timeout st ag hu ho ha e
    | cons hd srest =>
      obtain ⟨w, e0⟩ := hd
      simp only []
      split
      · simp
      · exact sendRest_units P gk val hr wf _ { st with scheduled := (w, e0) :: srest } ag hu ho ha e

/-! ## the fuel of the wait loop suffices -/
def mu (st : InSt β) (ag : Agenda β) : Nat := st.wake.length + st.pipes.sum + (PIPE_WRITE + 1) * ag.length

theorem addAt_sum_le (l : List Nat) (p n : Nat) : (addAt l p n).sum ≤ l.sum + n := by
  induction l generalizing p with
  | nil => simp [addAt]
  | cons x xs ih =>
    cases p with
    | zero => simp [addAt]; omega
    | succ p => have := ih p; simp [addAt]; omega

theorem applyEnv_mu (P : Params) (a : EnvAct β) (st : InSt β) :
    (applyEnv P a st).wake.length + (applyEnv P a st).pipes.sum ≤ st.wake.length + st.pipes.sum + PIPE_WRITE := by
  cases a <;> simp [applyEnv, PIPE_WRITE]
  case tsWrite p => have := addAt_sum_le st.pipes p 19; omega
  case sigint => split <;> simp <;> omega
  case signal n => split <;> simp <;> omega

theorem select_mu (P : Params) (dl : Option Time) (st : InSt β) (ag : Agenda β) :
    mu (select P dl st ag).2.1 (select P dl st ag).2.2 ≤ mu st ag := by
  fun_induction select P dl st ag with
  | case1 st ag r h => exact Nat.le_refl _
  | case2 st h hd => exact Nat.le_refl _
  | case3 st h d hd => exact Nat.le_refl _
  | case4 st h t a rest hd ih =>
    subst hd
    refine Nat.le_trans ih ?_
    have := applyEnv_mu P a { st with clock := max st.clock t }
    simp only [mu, List.length_cons] at this ⊢
    simp only [PIPE_WRITE] at this ⊢
    omega
  | case5 st h t a rest d hd hle ih =>
    subst hd
    refine Nat.le_trans ih ?_
    have := applyEnv_mu P a { st with clock := max st.clock t }
    simp only [mu, List.length_cons] at this ⊢
    simp only [PIPE_WRITE] at this ⊢
    omega
  | case6 st h t a rest d hd hle => exact Nat.le_refl _

theorem firstPipe_sub (l : List Nat) (k i n : Nat) (hn : n > 0) (h : firstPipe l k = some i) :
    k ≤ i ∧ (subAt l (i - k) n).sum < l.sum := by
  induction l generalizing k with
  | nil => simp [firstPipe] at h
  | cons x xs ih =>
    unfold firstPipe at h
    split at h
    · rename_i hx
      simp only [Option.some.injEq] at h
      subst h
      simp [subAt]; omega
    · obtain ⟨h1, h2⟩ := ih (k + 1) h
      have e : i - k = (i - (k + 1)) + 1 := by omega
      refine ⟨by omega, ?_⟩
      rw [e]; simp [subAt]; omega

theorem firstReady_wp (P : Params) (st : InSt β) (r : Sel) :
    firstReady P st = some r →
    match r with
    | .wake n rest => st.wake = n :: rest
    | .pipe i => firstPipe st.pipes 0 = some i
    | _ => True := by
  intro h
  unfold firstReady at h
  split at h
  · cases h; trivial
  · split at h
    · rename_i hw; cases h; exact hw ▸ rfl
    · cases hp : firstPipe st.pipes 0 <;> simp [hp] at h
      cases h; rfl

theorem select_wp (P : Params) (dl : Option Time) (st : InSt β) (ag : Agenda β) :
    match (select P dl st ag).1 with
    | .wake n rest => (select P dl st ag).2.1.wake = n :: rest
    | .pipe i => firstPipe (select P dl st ag).2.1.pipes 0 = some i
    | _ => True := by
  fun_induction select P dl st ag with
  | case1 st ag r h => have := firstReady_wp P st r h; cases r <;> simpa using this
  | case2 st h hd => trivial
  | case3 st h d hd => trivial
  | case4 st h t a rest hd ih => subst hd; exact ih
  | case5 st h t a rest d hd hle ih => subst hd; exact ih
  | case6 st h t a rest d hd hle => trivial

/-- THE WAIT-LOOP FUEL SUFFICES: every round of `while True` in `_wait_for_read_ready_or_timeout` consumes a wake-up
    byte or at least one pipe byte, and `select` turns an agenda item into at most PIPE_WRITE such bytes. -/
theorem waitLoop_fuel (P : Params) (timeout : Option Time) (t0 : Time) (f : Nat) (remaining : Option Time)
    (st : InSt β) (ag : Agenda β) :
    mu st ag < f → (waitLoop (κ := κ) P timeout t0 f remaining st ag).1 ≠ .error .outOfFuel := by
  fun_induction waitLoop (κ := κ) P timeout t0 f remaining st ag with
  | case1 x st ag => intro h; omega
  | case2 f remaining st ag st1 ag1 hs => intro _; simp
  | case3 f remaining st ag st1 ag1 hs => intro _; simp
  | case4 f remaining st ag st1 ag1 hs => intro _; simp
  | case5 f remaining st ag n rest st1 ag1 hs st2 hn hg => intro _; simp
  | case6 f remaining st ag n rest st1 ag1 hs st2 hn hg ih =>
    intro h
    have hm := select_mu P (Option.map (fun x => st.clock + x) remaining) st ag
    have hw := select_wp P (Option.map (fun x => st.clock + x) remaining) st ag
    rw [hs] at hm hw
    simp only [] at hm hw
    apply ih
    have : mu st2 ag1 < mu st1 ag1 := by
      show _ + _ + _ < _ + _ + _
      have e1 : st2.wake = rest := rfl
      have e2 : st2.pipes = st1.pipes := rfl
      rw [e1, e2, hw]; simp
    omega
  | case7 f remaining st ag n rest st1 ag1 hs st2 hn ih =>
    intro h
    have hm := select_mu P (Option.map (fun x => st.clock + x) remaining) st ag
    have hw := select_wp P (Option.map (fun x => st.clock + x) remaining) st ag
    rw [hs] at hm hw
    simp only [] at hm hw
    apply ih
    have : mu st2 ag1 < mu st1 ag1 := by
      show _ + _ + _ < _ + _ + _
      have e1 : st2.wake = rest := rfl
      have e2 : st2.pipes = st1.pipes := rfl
      rw [e1, e2, hw]; simp
    omega
  | case8 f remaining st ag i st1 ag1 hs st2 e q he => intro _; simp
  | case9 f remaining st ag i st1 ag1 hs st2 he ih =>
    intro h
    have hm := select_mu P (Option.map (fun x => st.clock + x) remaining) st ag
    have hw := select_wp P (Option.map (fun x => st.clock + x) remaining) st ag
    rw [hs] at hm hw
    simp only [] at hm hw
    apply ih
    have hsub := (firstPipe_sub st1.pipes 0 i PIPE_READ (by simp [PIPE_READ]) hw).2
    have : mu st2 ag1 < mu st1 ag1 := by
      show _ + _ + _ < _ + _ + _
      have e1 : st2.wake = st1.wake := rfl
      have e2 : st2.pipes = subAt st1.pipes i PIPE_READ := rfl
      rw [e1, e2]; simp only [Nat.sub_zero] at hsub; omega
    omega

theorem C08_wait_fuel (P : Params) (timeout : Option Time) (t0 : Time) (remaining : Option Time)
    (st : InSt β) (ag : Agenda β) :
    (waitLoop (κ := κ) P timeout t0 (waitFuelFor st ag) remaining st ag).1 ≠ .error .outOfFuel := by
  apply waitLoop_fuel
  unfold mu waitFuelFor
  simp only [PIPE_WRITE]
  omega

theorem sendRead_not_fuel (P : Params) (gk : List Nat → Bool → Except PyErr (Option κ)) (val : β → Nat)
    (st : InSt β) (ag : Agenda β) : (sendRead P gk val st ag).1 ≠ .error .outOfFuel := by
  unfold sendRead
  simp only []
  split
  · simp
  · split
    · exact C08_paste_fuel P gk val _
    · split <;> simp

theorem afterWait_not_fuel (P : Params) (gk : List Nat → Bool → Except PyErr (Option κ)) (val : β → Nat)
    (ready : Bool) (st : InSt β) (ag : Agenda β) : (afterWait P gk val ready st ag).1 ≠ .error .outOfFuel := by
  unfold afterWait
  split
  · simp only []
    split
    · simp
    · split
      · simp
      · exact sendRead_not_fuel P gk val _ _
  · split
    · simp
    · exact sendRead_not_fuel P gk val _ _

theorem sendRest_not_fuel (P : Params) (gk : List Nat → Bool → Except PyErr (Option κ)) (val : β → Nat) (wf : Nat)
    (tuc : Option Time) (st : InSt β) (ag : Agenda β) (hf : mu st ag < wf) :
    (sendRest P gk val wf tuc st ag).1 ≠ .error .outOfFuel := by
  unfold sendRest
  generalize findKey gk val st.unprocessed [] = r
  obtain ⟨res, used, rest⟩ := r
  cases res with
  | error e => simp
  | ok ko =>
    cases ko with
    | some k => simp
    | none =>
      simp only []
      have hw := waitLoop_fuel (κ := κ) P tuc st.clock wf tuc { st with unprocessed := rest } ag hf
      generalize waitLoop (κ := κ) P tuc st.clock wf tuc { st with unprocessed := rest } ag = wr at hw
      obtain ⟨wres, st1, ag1⟩ := wr
      cases wres with
      | error fl => simpa using hw
      | ok pr =>
        obtain ⟨ready, ev⟩ := pr
        cases ev with
        | some ev => simp
        | none => exact afterWait_not_fuel P gk val ready st1 ag1

/-- `Fail.outOfFuel` is unreachable: with the fuel `run` gives it (`waitFuelFor st ag`), a request never answers
    `outOfFuel` - neither from the wait loop nor from the paste loop.  (So the fuel arguments are proof devices only.) -/
theorem C08_no_out_of_fuel (P : Params) (gk : List Nat → Bool → Except PyErr (Option κ)) (val : β → Nat)
    (st : InSt β) (ag : Agenda β) (timeout : Option Time) :
    (send P gk val (waitFuelFor st ag) st ag timeout).1 ≠ .error .outOfFuel := by
  have hf : mu st ag < waitFuelFor st ag := by unfold mu waitFuelFor; simp only [PIPE_WRITE]; omega
  by_cases hbusy : st.sigints > 0 ∨ st.queued ≠ [] ∨ st.interrupting ≠ []
  · obtain ⟨ev, h1, _⟩ := send_busy P gk val (waitFuelFor st ag) st ag timeout hbusy
    rw [h1]; simp
  · have hg : ¬ st.sigints > 0 := fun x => hbusy (Or.inl x)
    have hq0 : st.queued = [] := Classical.byContradiction fun x => hbusy (Or.inr (Or.inl x))
    have hi : st.interrupting = [] := Classical.byContradiction fun x => hbusy (Or.inr (Or.inr x))
    rw [send_idle P gk val _ st ag timeout hg hq0 hi]
    generalize sortSched st.scheduled = so
    cases so with
    | nil => exact sendRest_not_fuel P gk val _ timeout st ag hf
    | cons hd srest =>
      obtain ⟨w, e⟩ := hd
      simp only []
      split
      · simp
      · exact sendRest_not_fuel P gk val _ _ { st with scheduled := (w, e) :: srest } ag hf

end Curtsies
