/-
  C08 - Input returns every byte and triggered event exactly once, in order.

  Model: Model/Input.lean (`send` mirrors `_send` / `_wait_for_read_ready_or_timeout` / `find_key` /
  `_nonblocking_read` statement by statement against an agenda of environment actions).  All theorems hold for EVERY
  key-segmentation function `gk` (events.get_key is a parameter), every byte type β (bytes cannot be invented: the
  model is parametric in β), every Params (READ_SIZE, MAX_KEYPRESS_SIZE, paste_threshold incl. None, with/without
  wake-up fd), every state and every agenda.

  THE LEDGER (`Took`): for one request, per source,
      (what the request returned) ++ (what the Input/OS still hold afterwards)
        = (what was held before) ++ (what the agenda items that fired during the request brought in)
  as LISTS (order preserved) for event_trigger events, threadsafe events, and bytes (`pend` = unprocessed ++ osbuf,
  `unget_bytes` included); as a multiset (`List.Perm`) for scheduled events (the request sorts them); as a count for
  SIGINT events; `lost` is what disappeared - only bytes can, and only when the request raises.
  `C08_exactly_once` is that statement for `send`, proved through `select` (induction on the agenda), the wait loop
  (induction on fuel), `find_key`, the paste loop and both scheduled-event checks.

  PARTIAL BY NATURE / ASSUMPTIONS: see the header of Model/Input.lean (GIL atomicity of list operations, signal
  timing, select fairness/order; preemption only inside select).
  KNOWN FINDINGS D15 and D12: when `find_key` raises (D15: the available bytes end inside a multi-byte keypress ->
  ValueError; D12: `get_key` itself raises UnicodeDecodeError on ESC-prefix + byte >= 0x80) the bytes popped so far -
  in the paste branch the whole paste - are lost.  `C08_full_statement` (nothing is ever lost) is therefore false:
  `C08_D15_witness`, `C08_D12_witness`.  `C08_exactly_once_partial` carries the complementary hypothesis: the request
  does not raise (every `find_key` of the request ends on a keypress boundary and `get_key` does not raise).
  NOT PROVED in Lean (stated below as `def ..._statement : Prop`, exercised only by the simulation tie + oracle):
  C08_no_early, C08_timeout, the osbuf case of C08_prompt, and the whole-run (multi-request) corollary.
-/
import Curtsies.Model.Input
namespace Curtsies
open Curtsies.Input

variable {β κ : Type}

/-! ### what the fired part of the agenda contributes to each source -/
def qOf : EnvAct β → List Ev | .trigger e => [e] | _ => []
def iOf : EnvAct β → List Ev | .tsAppend _ e => [e] | _ => []
def sOf : EnvAct β → List (Time × Ev) | .schedule t e => [(t, e)] | _ => []
def gOf (P : Params) : EnvAct β → Nat | .sigint => if P.hasWake then 1 else 0 | _ => 0
def aOf : EnvAct β → List β | .arrive bs => bs | _ => []
def uOf : EnvAct β → List β | .unget bs => bs | _ => []
def bOf : EnvAct β → List β | .arrive bs => bs | .unget bs => bs | _ => []

def envQ (ag : Agenda β) : List Ev := ag.flatMap fun x => qOf x.2
def envI (ag : Agenda β) : List Ev := ag.flatMap fun x => iOf x.2
def envS (ag : Agenda β) : List (Time × Ev) := ag.flatMap fun x => sOf x.2
def envG (P : Params) (ag : Agenda β) : Nat := (ag.map fun x => gOf P x.2).sum
def envB (ag : Agenda β) : List β := ag.flatMap fun x => bOf x.2

/-- pending bytes: what was read but not decoded, then what the OS still holds -/
def pend (st : InSt β) : List β := st.unprocessed ++ st.osbuf

/-- effect of the fired agenda items on the pending sets, nothing removed -/
structure Grew (P : Params) (st : InSt β) (fired : Agenda β) (st' : InSt β) : Prop where
  q : st'.queued = st.queued ++ envQ fired
  i : st'.interrupting = st.interrupting ++ envI fired
  s : st'.scheduled = st.scheduled ++ envS fired
  g : st'.sigints = st.sigints + envG P fired
  b : pend st' = pend st ++ envB fired
  c : st.clock ≤ st'.clock

theorem Grew.refl (P : Params) (st : InSt β) : Grew P st [] st := by
  constructor <;> simp [envQ, envI, envS, envG, envB]

theorem firstReady_none_osbuf (P : Params) (st : InSt β) (h : firstReady P st = none) : st.osbuf = [] := by
  unfold firstReady at h
  split at h
  · simp at h
  · rename_i h2
    simp at h2
    exact h2.1

theorem applyEnv_grew (P : Params) (a : EnvAct β) (st : InSt β) (t : Time) (h : st.osbuf = []) :
    Grew P st [(t, a)] (applyEnv P a st) := by
  cases a <;> constructor <;>
    simp [applyEnv, envQ, envI, envS, envG, envB, qOf, iOf, sOf, gOf, bOf, pend, h] <;>
    (try split) <;> simp_all

theorem Grew.trans {P : Params} {a b c : InSt β} {f1 f2 : Agenda β} (h1 : Grew P a f1 b) (h2 : Grew P b f2 c) :
    Grew P a (f1 ++ f2) c := by
  constructor
  · rw [h2.q, h1.q]; simp [envQ]
  · rw [h2.i, h1.i]; simp [envI]
  · rw [h2.s, h1.s]; simp [envS]
  · rw [h2.g, h1.g]; simp [envG]; omega
  · rw [h2.b, h1.b]; simp [envB]
  · exact Nat.le_trans h1.c h2.c

theorem Grew.clock {P : Params} {a b : InSt β} {f : Agenda β} (h : Grew P a f b) (k : Time) (hk : a.clock ≤ k) :
    Grew P a f { b with clock := max b.clock k } := by
  constructor
  · exact h.q
  · exact h.i
  · exact h.s
  · exact h.g
  · exact h.b
  · exact Nat.le_trans h.c (Nat.le_max_left _ _)

theorem Grew.tick (P : Params) (st : InSt β) (d : Time) : Grew P st [] { st with clock := max st.clock d } := by
  constructor <;> first | exact Nat.le_max_left _ _ | simp [envQ, envI, envS, envG, envB, pend]

theorem Grew.step (P : Params) (st : InSt β) (t : Time) (a : EnvAct β) (ho : st.osbuf = []) :
    Grew P st [(t, a)] (applyEnv P a { st with clock := max st.clock t }) := by
  have step := (applyEnv_grew P a { st with clock := max st.clock t } t ho)
  constructor
  · exact step.q
  · exact step.i
  · exact step.s
  · exact step.g
  · exact step.b
  · exact Nat.le_trans (Nat.le_max_left _ t) step.c

theorem select_grew (P : Params) (dl : Option Time) (st : InSt β) (ag : Agenda β) :
    ∃ fired, ag = fired ++ (select P dl st ag).2.2 ∧ Grew P st fired (select P dl st ag).2.1 := by
  fun_induction select P dl st ag with
  | case1 st ag r h => exact ⟨[], rfl, Grew.refl P st⟩
  | case2 st h hd => exact ⟨[], rfl, Grew.refl P st⟩
  | case3 st h d hd => exact ⟨[], rfl, Grew.tick P st d⟩
  | case4 st h t a rest hd ih =>
    subst hd
    obtain ⟨f, hf, hg⟩ := ih
    exact ⟨(t, a) :: f, by simp [← hf], (Grew.step P st t a (firstReady_none_osbuf P st h)).trans hg⟩
  | case5 st h t a rest d hd hle ih =>
    subst hd
    obtain ⟨f, hf, hg⟩ := ih
    exact ⟨(t, a) :: f, by simp [← hf], (Grew.step P st t a (firstReady_none_osbuf P st h)).trans hg⟩
  | case6 st h t a rest d hd hle => exact ⟨[], rfl, Grew.tick P st d⟩

/-! ### what a returned value takes out of the pending sets -/
def outQ : Option (Out κ β) → List Ev | some (.queued e) => [e] | _ => []
def outI : Option (Out κ β) → List Ev | some (.interrupting e) => [e] | _ => []
def outS : Option (Out κ β) → List (Time × Ev) | some (.scheduled t e) => [(t, e)] | _ => []
def outG : Option (Out κ β) → Nat | some .sigint => 1 | _ => 0
def outB : Option (Out κ β) → List β
  | some (.key _ bs) => bs | some (.paste ks) => ks.flatMap (·.2) | _ => []

/-- THE LEDGER of one request: what came out (`out`), what was lost (`lost`, bytes only) and what is still held
    (`st'`) is exactly what was held before (`st`) plus what the fired agenda items brought in; per source, in order
    (scheduled events: as a multiset - the request sorts them). -/
structure Took (P : Params) (st : InSt β) (fired : Agenda β) (out : Option (Out κ β)) (lost : List β)
    (st' : InSt β) : Prop where
  q : outQ out ++ st'.queued = st.queued ++ envQ fired
  i : outI out ++ st'.interrupting = st.interrupting ++ envI fired
  s : (outS out ++ st'.scheduled).Perm (st.scheduled ++ envS fired)
  g : outG out + st'.sigints = st.sigints + envG P fired
  b : lost ++ outB out ++ pend st' = pend st ++ envB fired
  c : st.clock ≤ st'.clock

theorem Grew.took {P : Params} {a b : InSt β} {f : Agenda β} (h : Grew P a f b) :
    Took (κ := κ) P a f none [] b :=
  ⟨by simp [outQ, h.q], by simp [outI, h.i], by simp [outS, h.s], by simp [outG, h.g], by simp [outB, h.b], h.c⟩

theorem Took.after {P : Params} {a b c : InSt β} {f1 f2 : Agenda β} {out : Option (Out κ β)} {lost : List β}
    (h1 : Grew P a f1 b) (h2 : Took P b f2 out lost c) : Took P a (f1 ++ f2) out lost c := by
  constructor
  · rw [h2.q, h1.q]; simp [envQ]
  · rw [h2.i, h1.i]; simp [envI]
  · refine h2.s.trans ?_; rw [h1.s]; simp [envS]
  · rw [h2.g, h1.g]; simp [envG]; omega
  · rw [h2.b, h1.b]; simp [envB]
  · exact Nat.le_trans h1.c h2.c

def evOf : Except Fail (Bool × Option (Out κ β)) → Option (Out κ β)
  | .ok (_, o) => o | .error _ => none

theorem waitLoop_took (P : Params) (timeout : Option Time) (t0 : Time) (f : Nat) (remaining : Option Time)
    (st : InSt β) (ag : Agenda β) :
    ∃ fired, ag = fired ++ (waitLoop (κ := κ) P timeout t0 f remaining st ag).2.2 ∧
      Took P st fired (evOf (waitLoop (κ := κ) P timeout t0 f remaining st ag).1) []
        (waitLoop (κ := κ) P timeout t0 f remaining st ag).2.1 := by
  fun_induction waitLoop (κ := κ) P timeout t0 f remaining st ag with
  | case1 x st ag => exact ⟨[], rfl, (Grew.refl P st).took⟩
  | case2 f remaining st ag st1 ag1 hs =>
    have := select_grew P (Option.map (fun x => st.clock + x) remaining) st ag
    rw [hs] at this; obtain ⟨fi, h1, h2⟩ := this
    exact ⟨fi, h1, h2.took⟩
  | case3 f remaining st ag st1 ag1 hs =>
    have := select_grew P (Option.map (fun x => st.clock + x) remaining) st ag
    rw [hs] at this; obtain ⟨fi, h1, h2⟩ := this
    exact ⟨fi, h1, h2.took⟩
  | case4 f remaining st ag st1 ag1 hs =>
    have := select_grew P (Option.map (fun x => st.clock + x) remaining) st ag
    rw [hs] at this; obtain ⟨fi, h1, h2⟩ := this
    exact ⟨fi, h1, h2.took⟩
  | case5 f remaining st ag n rest st1 ag1 hs st2 hn hg =>
    have := select_grew P (Option.map (fun x => st.clock + x) remaining) st ag
    rw [hs] at this; obtain ⟨fi, h1, h2⟩ := this
    refine ⟨fi, h1, ?_⟩
    have hpos : st1.sigints > 0 := hg
    constructor
    · simpa [evOf, outQ] using h2.q
    · simpa [evOf, outI] using h2.i
    · simpa [evOf, outS] using h2.s ▸ List.Perm.refl _
    · have hg2 : st1.sigints = st.sigints + envG P fi := h2.g; show 1 + (st1.sigints - 1) = st.sigints + envG P fi; omega
    · simpa [evOf, outB, pend] using h2.b
    · exact h2.c
  | case6 f remaining st ag n rest st1 ag1 hs st2 hn hg ih =>
    have := select_grew P (Option.map (fun x => st.clock + x) remaining) st ag
    rw [hs] at this; obtain ⟨fi, h1, h2⟩ := this
    obtain ⟨f2, h3, h4⟩ := ih
    have h2' : Grew P st fi st2 := ⟨h2.q, h2.i, h2.s, h2.g, h2.b, h2.c⟩
    exact ⟨fi ++ f2, by rw [h1, List.append_assoc, ← h3], Took.after h2' h4⟩
  | case7 f remaining st ag n rest st1 ag1 hs st2 hn ih =>
    have := select_grew P (Option.map (fun x => st.clock + x) remaining) st ag
    rw [hs] at this; obtain ⟨fi, h1, h2⟩ := this
    obtain ⟨f2, h3, h4⟩ := ih
    have h2' : Grew P st fi st2 := ⟨h2.q, h2.i, h2.s, h2.g, h2.b, h2.c⟩
    exact ⟨fi ++ f2, by rw [h1, List.append_assoc, ← h3], Took.after h2' h4⟩
  | case8 f remaining st ag i st1 ag1 hs st2 e q he =>
    have := select_grew P (Option.map (fun x => st.clock + x) remaining) st ag
    rw [hs] at this; obtain ⟨fi, h1, h2⟩ := this
    refine ⟨fi, h1, ?_⟩
    have he' : st1.interrupting = e :: q := he
    constructor
    · simpa [evOf, outQ] using h2.q
    · have := h2.i; rw [he'] at this; simpa [evOf, outI] using this
    · simpa [evOf, outS] using h2.s ▸ List.Perm.refl _
    · simpa [evOf, outG] using h2.g
    · simpa [evOf, outB, pend] using h2.b
    · exact h2.c
  | case9 f remaining st ag i st1 ag1 hs st2 he ih =>
    have := select_grew P (Option.map (fun x => st.clock + x) remaining) st ag
    rw [hs] at this; obtain ⟨fi, h1, h2⟩ := this
    obtain ⟨f2, h3, h4⟩ := ih
    have h2' : Grew P st fi st2 := ⟨h2.q, h2.i, h2.s, h2.g, h2.b, h2.c⟩
    exact ⟨fi ++ f2, by rw [h1, List.append_assoc, ← h3], Took.after h2' h4⟩

/-! ### main-thread steps (no agenda item fires) -/
structure Internal (x : InSt β) (out : Option (Out κ β)) (lost : List β) (y : InSt β) : Prop where
  q : outQ out ++ y.queued = x.queued
  i : outI out ++ y.interrupting = x.interrupting
  s : (outS out ++ y.scheduled).Perm x.scheduled
  g : outG out + y.sigints = x.sigints
  b : lost ++ outB out ++ pend y = pend x
  c : x.clock ≤ y.clock

theorem Internal.refl (st : InSt β) : Internal (κ := κ) st none [] st :=
  ⟨by simp [outQ], by simp [outI], by simp [outS], by simp [outG], by simp [outB], Nat.le_refl _⟩

theorem Took.andThen {P : Params} {a b c : InSt β} {f : Agenda β} {out : Option (Out κ β)} {lost : List β}
    (h1 : Took (κ := κ) P a f none [] b) (h2 : Internal b out lost c) : Took P a f out lost c := by
  have q1 := h1.q; have i1 := h1.i; have s1 := h1.s; have g1 := h1.g; have b1 := h1.b
  simp [outQ, outI, outS, outG, outB] at q1 i1 s1 g1 b1
  exact ⟨by rw [h2.q, q1], by rw [h2.i, i1], h2.s.trans s1, by rw [h2.g, g1], by rw [h2.b, b1],
    Nat.le_trans h1.c h2.c⟩

theorem Internal.andThen {a b c : InSt β} {out : Option (Out κ β)} {lost : List β}
    (h1 : Internal (κ := κ) a none [] b) (h2 : Internal b out lost c) : Internal a out lost c := by
  have q1 := h1.q; have i1 := h1.i; have s1 := h1.s; have g1 := h1.g; have b1 := h1.b
  simp [outQ, outI, outS, outG, outB] at q1 i1 s1 g1 b1
  exact ⟨by rw [h2.q, q1], by rw [h2.i, i1], h2.s.trans s1, by rw [h2.g, g1], by rw [h2.b, b1],
    Nat.le_trans h1.c h2.c⟩

theorem Took.before {P : Params} {a b c : InSt β} {f : Agenda β} {out : Option (Out κ β)} {lost : List β}
    (h1 : Internal (κ := κ) a none [] b) (h2 : Took P b f out lost c) : Took P a f out lost c := by
  have q1 := h1.q; have i1 := h1.i; have s1 := h1.s; have g1 := h1.g; have b1 := h1.b
  simp [outQ, outI, outS, outG, outB] at q1 i1 s1 g1 b1
  exact ⟨by rw [h2.q, q1], by rw [h2.i, i1], h2.s.trans (List.Perm.append_right _ s1), by rw [h2.g, g1],
    by rw [h2.b, b1], Nat.le_trans h1.c h2.c⟩

theorem Internal.took {P : Params} {a b : InSt β} {out : Option (Out κ β)} {lost : List β}
    (h : Internal a out lost b) : Took P a [] out lost b :=
  ⟨by simp [envQ, h.q], by simp [envI, h.i], by simpa [envS] using h.s, by simp [envG, h.g],
   by simp [envB, h.b], h.c⟩

theorem findKey_split (gk : List Nat → Bool → Except PyErr (Option κ)) (val : β → Nat) (u cur : List β) :
    (findKey gk val u cur).2.1 ++ (findKey gk val u cur).2.2 = cur ++ u := by
  induction u generalizing cur with
  | nil => unfold findKey; split <;> simp
  | cons b rest ih =>
    unfold findKey
    simp only []
    split
    · simp
    · simp
    · rw [ih]; simp

theorem findKey_none (gk : List Nat → Bool → Except PyErr (Option κ)) (val : β → Nat) (u cur : List β)
    (h : (findKey gk val u cur).1 = .ok none) : u = [] ∧ cur = [] := by
  induction u generalizing cur with
  | nil =>
    unfold findKey at h
    split at h
    · rename_i hc; exact ⟨rfl, by simpa using hc⟩
    · simp at h
  | cons b rest ih =>
    unfold findKey at h
    simp only [] at h
    split at h
    · simp at h
    · simp at h
    · have := (ih _ h).2; simp at this

theorem read_internal (P : Params) (st : InSt β) : Internal (κ := κ) st none [] (nonblockingRead P st).2 := by
  constructor <;> simp [nonblockingRead, outQ, outI, outS, outG, outB, pend]

def resOut : Except Fail (Option (Out κ β)) → Option (Out κ β)
  | .ok o => o | .error _ => none

/-- the fields a main-thread byte step never touches -/
def SameEvents (x y : InSt β) : Prop :=
  y.queued = x.queued ∧ y.interrupting = x.interrupting ∧ y.scheduled = x.scheduled ∧ y.sigints = x.sigints ∧
    y.clock = x.clock

theorem pasteLoop_ledger (P : Params) (gk : List Nat → Bool → Except PyErr (Option κ)) (val : β → Nat) :
    ∀ (f : Nat) (acc : List (κ × List β)) (st : InSt β),
      SameEvents st (pasteLoop P gk val f acc st).2 ∧
      ∃ lost, lost ++ outB (resOut (pasteLoop P gk val f acc st).1) ++ pend (pasteLoop P gk val f acc st).2
          = acc.flatMap (·.2) ++ pend st ∧
        (∀ o, (pasteLoop P gk val f acc st).1 = .ok o → lost = [] ∧ ∃ ks, o = some (.paste ks)) := by
  intro f
  induction f with
  | zero =>
    intro acc st
    exact ⟨⟨rfl, rfl, rfl, rfl, rfl⟩, acc.flatMap (·.2), by simp [pasteLoop, resOut, outB], by simp [pasteLoop]⟩
  | succ f ih =>
    intro acc st
    unfold pasteLoop
    simp only []
    generalize hst1 : (if st.unprocessed.length < P.maxKey then (nonblockingRead P st).2 else st) = st1
    have e1 : SameEvents st st1 ∧ pend st1 = pend st := by
      subst hst1; split <;> simp [SameEvents, nonblockingRead, pend]
    obtain ⟨⟨q1, i1, s1, g1, c1⟩, b1⟩ := e1
    have hs := findKey_split gk val st1.unprocessed []
    have hn := findKey_none gk val st1.unprocessed []
    generalize findKey gk val st1.unprocessed [] = r at hs hn
    obtain ⟨res, used, rest⟩ := r
    simp only [List.nil_append] at hs
    have hp : used ++ pend { st1 with unprocessed := rest } = pend st := by
      rw [← b1]; simp only [pend]; rw [← hs]; simp
    cases res with
    | error e =>
      exact ⟨⟨q1, i1, s1, g1, c1⟩, acc.flatMap (·.2) ++ used, by simp [resOut, outB, ← hp], by simp⟩
    | ok o =>
      cases o with
      | none =>
        have hu := (hn rfl).1
        have hused : used = [] := by
          have : used ++ rest = [] := by rw [hs]; exact hu
          exact (List.append_eq_nil_iff.mp this).1
        subst hused
        exact ⟨⟨q1, i1, s1, g1, c1⟩, [], by simpa [resOut, outB] using hp, by simp⟩
      | some k =>
        obtain ⟨⟨q2, i2, s2, g2, c2⟩, lost, hl, ho⟩ := ih (acc ++ [(k, used)]) { st1 with unprocessed := rest }
        refine ⟨⟨q2.trans q1, i2.trans i1, s2.trans s1, g2.trans g1, c2.trans c1⟩, lost, ?_, ho⟩
        rw [hl, ← hp]; simp

theorem byteStep {x y : InSt β} {out : Option (Out κ β)} {lost : List β} (he : SameEvents x y)
    (hb : lost ++ outB out ++ pend y = pend x) (h1 : outQ out = []) (h2 : outI out = []) (h3 : outS out = [])
    (h4 : outG out = 0) : Internal x out lost y := by
  obtain ⟨q, i, s, g, c⟩ := he
  exact ⟨by simp [h1, q], by simp [h2, i], by simp [h3, s], by simp [h4, g], hb, Nat.le_of_eq c.symm⟩

theorem sendRead_internal (P : Params) (gk : List Nat → Bool → Except PyErr (Option κ)) (val : β → Nat)
    (st : InSt β) (ag : Agenda β) :
    (sendRead P gk val st ag).2.2 = ag ∧
    ∃ lost, Internal st (resOut (sendRead P gk val st ag).1) lost (sendRead P gk val st ag).2.1 ∧
      (∀ o, (sendRead P gk val st ag).1 = .ok o → lost = []) := by
  unfold sendRead
  simp only []
  have hr : SameEvents st (nonblockingRead P st).2 ∧ pend (nonblockingRead P st).2 = pend st := by
    simp [SameEvents, nonblockingRead, pend]
  generalize (nonblockingRead P st) = nr at hr
  obtain ⟨n, st1⟩ := nr
  obtain ⟨he1, hb1⟩ := hr
  simp only [] at he1 hb1 ⊢
  split
  · exact ⟨rfl, [], byteStep he1 (by simpa [resOut, outB] using hb1) rfl rfl rfl rfl, fun _ _ => rfl⟩
  · split
    · have := pasteLoop_ledger P gk val (pasteFuel st1) [] st1
      generalize pasteLoop P gk val (pasteFuel st1) [] st1 = pr at this
      obtain ⟨res, st2⟩ := pr
      obtain ⟨he2, lost, hl, ho⟩ := this
      simp only [] at he2 hl ho ⊢
      refine ⟨by first | rfl | trivial, lost, ?_, fun o h => (ho o h).1⟩
      have he : SameEvents st st2 := by
        obtain ⟨a1, a2, a3, a4, a5⟩ := he1; obtain ⟨b1, b2, b3, b4, b5⟩ := he2
        exact ⟨b1.trans a1, b2.trans a2, b3.trans a3, b4.trans a4, b5.trans a5⟩
      have hb : lost ++ outB (resOut res) ++ pend st2 = pend st := by rw [hl, ← hb1]; simp
      cases res with
      | error e => exact byteStep he hb rfl rfl rfl rfl
      | ok o =>
        obtain ⟨_, ks, hks⟩ := ho o rfl
        subst hks
        exact byteStep he hb rfl rfl rfl rfl
    · have hs := findKey_split gk val st1.unprocessed []
      generalize findKey gk val st1.unprocessed [] = r at hs
      obtain ⟨res, used, rest⟩ := r
      simp only [List.nil_append] at hs
      have hp : used ++ pend { st1 with unprocessed := rest } = pend st := by
        rw [← hb1]; simp only [pend]; rw [← hs]; simp
      have he : SameEvents st { st1 with unprocessed := rest } := he1
      cases res with
      | error e => exact ⟨rfl, used, byteStep he (by simpa [resOut, outB] using hp) rfl rfl rfl rfl, by simp⟩
      | ok o =>
        cases o with
        | none => exact ⟨rfl, used, byteStep he (by simpa [resOut, outB] using hp) rfl rfl rfl rfl, by simp⟩
        | some k => exact ⟨rfl, [], byteStep he (by simpa [resOut, outB] using hp) rfl rfl rfl rfl, fun _ _ => rfl⟩

theorem insertSched_perm (x : Time × Ev) (l : List (Time × Ev)) : (insertSched x l).Perm (x :: l) := by
  induction l with
  | nil => exact List.Perm.refl _
  | cons y ys ih =>
    unfold insertSched
    split
    · exact List.Perm.refl _
    · exact (List.Perm.cons y ih).trans (List.Perm.swap x y ys)

theorem sortSched_perm (l : List (Time × Ev)) : (sortSched l).Perm l := by
  induction l with
  | nil => exact List.Perm.refl _
  | cons x xs ih => exact (insertSched_perm x _).trans (List.Perm.cons x ih)

/-- `self.queued_scheduled_events.sort(...)` as a step -/
theorem sort_internal (st : InSt β) : Internal (κ := κ) st none [] { st with scheduled := sortSched st.scheduled } :=
  ⟨by simp [outQ], by simp [outI], by simpa [outS] using sortSched_perm st.scheduled, by simp [outG],
   by simp [outB, pend], Nat.le_refl _⟩

theorem popSched_internal (st : InSt β) (w : Time) (e : Ev) (rest : List (Time × Ev)) (h : st.scheduled = (w, e) :: rest) :
    Internal (κ := κ) st (some (.scheduled w e)) [] { st with scheduled := rest } :=
  ⟨by simp [outQ], by simp [outI], by simp [outS, h], by simp [outG], by simp [outB, pend], Nat.le_refl _⟩

theorem sendRest_took (P : Params) (gk : List Nat → Bool → Except PyErr (Option κ)) (val : β → Nat) (wf : Nat)
    (tuc : Option Time) (st : InSt β) (ag : Agenda β) :
    ∃ fired lost, ag = fired ++ (sendRest P gk val wf tuc st ag).2.2 ∧
      Took P st fired (resOut (sendRest P gk val wf tuc st ag).1) lost (sendRest P gk val wf tuc st ag).2.1 ∧
      (∀ o, (sendRest P gk val wf tuc st ag).1 = .ok o → lost = []) := by
  unfold sendRest
  have hs := findKey_split gk val st.unprocessed []
  have hn := findKey_none gk val st.unprocessed []
  generalize findKey gk val st.unprocessed [] = r at hs hn
  obtain ⟨res, used, rest⟩ := r
  simp only [List.nil_append] at hs
  have hp : used ++ pend { st with unprocessed := rest } = pend st := by
    simp only [pend]; rw [← hs]; simp
  have he : SameEvents st { st with unprocessed := rest } := ⟨rfl, rfl, rfl, rfl, rfl⟩
  cases res with
  | error e =>
    exact ⟨[], used, rfl, (byteStep he (by simpa [resOut, outB] using hp) rfl rfl rfl rfl).took, by simp⟩
  | ok o =>
    cases o with
    | some k =>
      exact ⟨[], [], rfl, (byteStep he (by simpa [resOut, outB] using hp) rfl rfl rfl rfl).took, fun _ _ => rfl⟩
    | none =>
      have hu := (hn rfl).1
      have hused : used = [] := by
        have : used ++ rest = [] := by rw [hs]; exact hu
        exact (List.append_eq_nil_iff.mp this).1
      subst hused
      have h0 : Internal (κ := κ) st none [] { st with unprocessed := rest } :=
        byteStep he (by simpa [outB] using hp) rfl rfl rfl rfl
      simp only []
      have hw := waitLoop_took (κ := κ) P tuc st.clock wf tuc { st with unprocessed := rest } ag
      generalize waitLoop (κ := κ) P tuc st.clock wf tuc { st with unprocessed := rest } ag = wr at hw
      obtain ⟨wres, st1, ag1⟩ := wr
      obtain ⟨fired, hf, ht⟩ := hw
      simp only [] at hf ht
      have ht0 : Took P st fired (evOf wres) [] st1 := by
        have := Took.after (κ := κ) (P := P) (f1 := []) (f2 := fired) (a := st)
          (b := { st with unprocessed := rest }) ?_ ht
        · simpa using this
        · have b0 := h0.b; simp [outB] at b0
          exact ⟨by simp [envQ], by simp [envI], by simp [envS], by simp [envG], by simp [envB, b0], Nat.le_refl _⟩
      cases wres with
      | error fl => exact ⟨fired, [], hf, by simpa [resOut, evOf] using ht0, by simp⟩
      | ok pr =>
        obtain ⟨ready, ev⟩ := pr
        cases ev with
        | some ev => exact ⟨fired, [], hf, by simpa [resOut, evOf] using ht0, fun _ _ => rfl⟩
        | none =>
          simp only [evOf] at ht0
          simp only []
          unfold afterWait
          have hsort := sort_internal (κ := κ) st1
          generalize hso : sortSched st1.scheduled = so at hsort
          cases so with
          | nil =>
            simp only []
            split
            · exact ⟨fired, [], hf, by simpa [resOut] using ht0, fun _ _ => rfl⟩
            · have := sendRead_internal P gk val st1 ag1
              obtain ⟨ha, lost, hi, hl⟩ := this
              exact ⟨fired, lost, by rw [ha]; exact hf, ht0.andThen hi, hl⟩
          | cons hd srest =>
            obtain ⟨w0, e0⟩ := hd
            simp only []
            have ht1 := ht0.andThen hsort
            split
            · exact ⟨fired, [], hf, ht1.andThen (popSched_internal _ w0 e0 srest rfl), fun _ _ => rfl⟩
            · split
              · exact ⟨fired, [], hf, by simpa [resOut] using ht1, fun _ _ => rfl⟩
              · have := sendRead_internal P gk val { st1 with scheduled := (w0, e0) :: srest } ag1
                obtain ⟨ha, lost, hi, hl⟩ := this
                exact ⟨fired, lost, by rw [ha]; exact hf, ht1.andThen hi, hl⟩

/-! ### the property theorems -/

/-- LEDGER of one request, at full generality (any outcome, including exceptions): everything that was pending or
    came in while the request ran is either returned by it, still held, or - bytes only - in `lost`; nothing is
    duplicated, per-source order is kept; and a request that does not raise loses nothing. -/
theorem C08_exactly_once (P : Params) (gk : List Nat → Bool → Except PyErr (Option κ)) (val : β → Nat) (wf : Nat)
    (st : InSt β) (ag : Agenda β) (timeout : Option Time) :
    ∃ fired lost, ag = fired ++ (send P gk val wf st ag timeout).2.2 ∧
      Took P st fired (resOut (send P gk val wf st ag timeout).1) lost (send P gk val wf st ag timeout).2.1 ∧
      (∀ o, (send P gk val wf st ag timeout).1 = .ok o → lost = []) := by
  unfold send
  split
  · rename_i hg
    exact ⟨[], [], rfl, Internal.took ⟨by simp [resOut, outQ], by simp [resOut, outI], by simp [resOut, outS],
      by simp [resOut, outG]; omega, by simp [resOut, outB, pend], Nat.le_refl _⟩, fun _ _ => rfl⟩
  · split
    · rename_i e q hq
      exact ⟨[], [], rfl, Internal.took ⟨by simp [resOut, outQ, hq], by simp [resOut, outI], by simp [resOut, outS],
        by simp [resOut, outG], by simp [resOut, outB, pend], Nat.le_refl _⟩, fun _ _ => rfl⟩
    · split
      · rename_i e q hq
        exact ⟨[], [], rfl, Internal.took ⟨by simp [resOut, outQ], by simp [resOut, outI, hq], by simp [resOut, outS],
          by simp [resOut, outG], by simp [resOut, outB, pend], Nat.le_refl _⟩, fun _ _ => rfl⟩
      · have hsort := sort_internal (κ := κ) st
        generalize hso : sortSched st.scheduled = so at hsort
        cases so with
        | nil => simp only []; exact sendRest_took P gk val wf timeout st ag
        | cons hd srest =>
          obtain ⟨w, e⟩ := hd
          simp only []
          split
          · exact ⟨[], [], rfl, (hsort.andThen (popSched_internal _ w e srest rfl)).took, fun _ _ => rfl⟩
          · obtain ⟨fired, lost, hf, ht, hl⟩ := sendRest_took P gk val wf
              (some (match timeout with | none => w - st.clock | some T => min (w - st.clock) T))
              { st with scheduled := (w, e) :: srest } ag
            exact ⟨fired, lost, hf, Took.before hsort ht, hl⟩

/-- The property's first sentence at full strength: NO request ever loses a byte. False (D15, D12). -/
def C08_full_statement : Prop :=
  ∀ (β κ : Type) (P : Params) (gk : List Nat → Bool → Except PyErr (Option κ)) (val : β → Nat) (wf : Nat)
    (st : InSt β) (ag : Agenda β) (timeout : Option Time),
    ∃ fired, ag = fired ++ (send P gk val wf st ag timeout).2.2 ∧
      Took P st fired (resOut (send P gk val wf st ag timeout).1) [] (send P gk val wf st ag timeout).2.1

/-- Exactly once, in order, never dropped - for every request that does not raise (complement of the D15/D12
    footprints: `find_key` raises only when the buffered bytes end inside a keypress or `get_key` raises). -/
theorem C08_exactly_once_partial (P : Params) (gk : List Nat → Bool → Except PyErr (Option κ)) (val : β → Nat)
    (wf : Nat) (st : InSt β) (ag : Agenda β) (timeout : Option Time) (o : Option (Out κ β))
    (h : (send P gk val wf st ag timeout).1 = .ok o) :
    ∃ fired, ag = fired ++ (send P gk val wf st ag timeout).2.2 ∧
      Took P st fired o [] (send P gk val wf st ag timeout).2.1 := by
  obtain ⟨fired, lost, hf, ht, hl⟩ := C08_exactly_once P gk val wf st ag timeout
  have := hl o h
  subst this
  rw [h] at ht
  exact ⟨fired, hf, ht⟩

/-- The blocking wait itself (`_wait_for_read_ready_or_timeout`): every agenda item that fires while the request is
    blocked lands in its queue; the only things taken out are the returned interrupting event / SIGINT event. -/
theorem C08_wait_exactly_once (P : Params) (timeout : Option Time) (t0 : Time) (f : Nat) (remaining : Option Time)
    (st : InSt β) (ag : Agenda β) :
    ∃ fired, ag = fired ++ (waitLoop (κ := κ) P timeout t0 f remaining st ag).2.2 ∧
      Took P st fired (evOf (waitLoop (κ := κ) P timeout t0 f remaining st ag).1) []
        (waitLoop (κ := κ) P timeout t0 f remaining st ag).2.1 :=
  waitLoop_took P timeout t0 f remaining st ag

/-- `find_key`: the bytes popped and the bytes left are exactly the buffer, in order; `None` only on an empty buffer
    (so a request only ever waits with nothing buffered). -/
theorem C08_find_key_exact (gk : List Nat → Bool → Except PyErr (Option κ)) (val : β → Nat) (u : List β) :
    (findKey gk val u []).2.1 ++ (findKey gk val u []).2.2 = u ∧
    ((findKey gk val u []).1 = .ok none → u = []) :=
  ⟨by simpa using findKey_split gk val u [], fun h => (findKey_none gk val u [] h).1⟩

/-- Paste: the paste loop returns ONE paste event whose keypresses hold, in order, every byte that was available
    (already read or still in the OS buffer) - or raises; it never returns anything else, and touches no event queue. -/
theorem C08_paste (P : Params) (gk : List Nat → Bool → Except PyErr (Option κ)) (val : β → Nat) (st : InSt β)
    (o : Option (Out κ β)) (h : (pasteLoop P gk val (pasteFuel st) [] st).1 = .ok o) :
    ∃ ks, o = some (.paste ks) ∧
      ks.flatMap (·.2) ++ pend (pasteLoop P gk val (pasteFuel st) [] st).2 = pend st := by
  obtain ⟨_, lost, hl, ho⟩ := pasteLoop_ledger P gk val (pasteFuel st) [] st
  obtain ⟨h1, ks, h2⟩ := ho o h
  subst h1 h2
  rw [h] at hl
  exact ⟨ks, rfl, by simpa [resOut, outB] using hl⟩

/-- Prompt (queues): a request started with a pending SIGINT event, queued event or interrupting event returns one
    of them without consuming any agenda item (no select) and without the clock moving. -/
theorem C08_prompt_events (P : Params) (gk : List Nat → Bool → Except PyErr (Option κ)) (val : β → Nat) (wf : Nat)
    (st : InSt β) (ag : Agenda β) (timeout : Option Time)
    (h : st.sigints > 0 ∨ st.queued ≠ [] ∨ st.interrupting ≠ []) :
    (∃ ev, (send P gk val wf st ag timeout).1 = .ok (some ev)) ∧ (send P gk val wf st ag timeout).2.2 = ag ∧
      (send P gk val wf st ag timeout).2.1.clock = st.clock := by
  unfold send
  split
  · exact ⟨⟨_, rfl⟩, rfl, rfl⟩
  · split
    · exact ⟨⟨_, rfl⟩, rfl, rfl⟩
    · split
      · exact ⟨⟨_, rfl⟩, rfl, rfl⟩
      · rcases h with h | h | h <;> simp_all

/-- Prompt (buffered bytes): with bytes already buffered and no queued event, a request returns a keypress made of a
    prefix of the buffer (or raises: D15/D12) without waiting. Stated for the case of no scheduled events. -/
theorem C08_prompt_buffered (P : Params) (gk : List Nat → Bool → Except PyErr (Option κ)) (val : β → Nat) (wf : Nat)
    (tuc : Option Time) (st : InSt β) (ag : Agenda β) (h : st.unprocessed ≠ []) :
    (sendRest P gk val wf tuc st ag).1 ≠ .ok none ∧ (sendRest P gk val wf tuc st ag).2.2 = ag ∧
      (sendRest P gk val wf tuc st ag).2.1.clock = st.clock := by
  unfold sendRest
  have hn := findKey_none gk val st.unprocessed []
  generalize findKey gk val st.unprocessed [] = r at hn
  obtain ⟨res, used, rest⟩ := r
  cases res with
  | error e => exact ⟨by simp, rfl, rfl⟩
  | ok o =>
    cases o with
    | some k => exact ⟨by simp, rfl, rfl⟩
    | none => exact absurd (hn rfl).1 h

/-! ### statements NOT proved in Lean (kept visible; checked by the simulation tie and the oracle only) -/

/-- a scheduled event is never returned before its time -/
def C08_no_early_statement : Prop :=
  ∀ (β κ : Type) (P : Params) (gk : List Nat → Bool → Except PyErr (Option κ)) (val : β → Nat) (wf : Nat)
    (st : InSt β) (ag : Agenda β) (timeout : Option Time) (t : Time) (e : Ev),
    (send P gk val wf st ag timeout).1 = .ok (some (.scheduled t e)) →
      t < (send P gk val wf st ag timeout).2.1.clock ∧
      ∀ x ∈ (send P gk val wf st ag timeout).2.1.scheduled, t ≤ x.1

/-- with nothing scheduled and no spurious readiness, `None` comes back no earlier than the timeout -/
def C08_timeout_statement : Prop :=
  ∀ (β κ : Type) (P : Params) (gk : List Nat → Bool → Except PyErr (Option κ)) (val : β → Nat) (wf : Nat)
    (st : InSt β) (ag : Agenda β) (timeout : Option Time),
    st.scheduled = [] → st.spurious = false →
    (∀ x ∈ ag, (match x.2 with | .schedule _ _ => False | .spurious => False | _ => True)) →
    (send P gk val wf st ag timeout).1 = .ok none →
      ∃ T, timeout = some T ∧ st.clock + T ≤ (send P gk val wf st ag timeout).2.1.clock

/-! ### known findings: witnesses on the model -/

/-- a miniature `get_key` for utf-8: ASCII bytes are keys; e2 starts a 3-byte character; a lone byte >= 0x80 is a Meta
    key when nothing follows (`full`); ESC followed by a byte >= 0x80 raises UnicodeDecodeError (D12) -/
def toyKey (seq : List Nat) (full : Bool) : Except PyErr (Option (List Nat)) :=
  match seq with
  | [b] => if b == 0x1b then (if full then .ok (some [b]) else .ok none)
           else if b == 0xe2 then (if full then .ok (some [b]) else .ok none) else .ok (some [b])
  | [0x1b, b] => if b ≥ 0x80 then .error .unicodeDecodeError else .ok (some [0x1b, b])
  | [0xe2, _] => .ok none
  | [0xe2, b, c] => .ok (some [0xe2, b, c])
  | _ => .error .valueError

def toyParams : Params := { readSize := 1024, maxKey := 7, pasteThreshold := some 8, hasWake := true }

/-- D15 on the model: `e2 82` available at t=0, `ac` at t=1: the request raises ValueError and afterwards neither
    the Input nor the OS buffer hold the two bytes - they are lost. (replayed on the real code every run:
    script `A0:e282 A1:ac | rN`) -/
theorem C08_D15_witness :
    let r := send toyParams toyKey id 10 ({} : InSt Nat) [(0, .arrive [0xe2, 0x82]), (1, .arrive [0xac])] none
    (match r.1 with | .error (.py .valueError) => true | _ => false) = true ∧
      r.2.1.unprocessed = [] ∧ r.2.1.osbuf = [] ∧ r.2.2.length = 1 := by
  decide

/-- D12 seen from C08: Esc and the first byte of 'é' available together: UnicodeDecodeError, `1b c3` lost.
    (script `A0:1bc3a9 | r0`) -/
theorem C08_D12_witness :
    let r := send toyParams toyKey id 10 ({} : InSt Nat) [(0, .arrive [0x1b, 0xc3, 0xa9])] (some 0)
    (match r.1 with | .error (.py .unicodeDecodeError) => true | _ => false) = true ∧
      r.2.1.unprocessed = [0xa9] ∧ r.2.1.osbuf = [] := by
  decide

/-- Non-vacuity of `C08_exactly_once_partial`: the same bytes arriving whole come back as one keypress. -/
example : (match (send toyParams toyKey id 10 ({} : InSt Nat) [(0, .arrive [0xe2, 0x82, 0xac])] none).1 with
    | .ok (some (.key k bs)) => k == [0xe2, 0x82, 0xac] && bs == [0xe2, 0x82, 0xac] | _ => false) = true := by
  decide

end Curtsies
