/-
  C01 - str(FmtStr) displays exactly its characters and formatting, then resets.

  `Spec.display` (Spec/Sgr.lean) is the independent terminal reader: it returns the displayed cells with the
  graphic state each was written under, the final graphic state, every control function that was not a
  supported SGR sequence, and the reader mode at the end of the string.

  Hypothesis (from the property's quantifier): the text of `f` contains neither ESC nor the 8-bit CSI.
  Quantified over every run list (no runs, empty runs), every attribute dict over the eight legal keys
  (9 x 9 x 3^6 per run, explicit `False` included) and every such text.
  The `C01_table_*` theorems tie the model's constants to the tables REGENERATED from /repo on every run
  (Generated/Sgr.lean): an edit of termformatconstants.py / the xform lambdas re-opens these obligations.
-/
import Curtsies.Proofs.Sgr
import Curtsies.Generated.Sgr
namespace Curtsies
open Spec

/-- What a terminal in its default graphic state shows for `str(f)`: exactly the characters of `f`, in order,
    each under exactly its effective attributes; the graphic state is back at its default at the end; there
    is no control function other than supported SGR sequences; the string does not end inside a sequence. -/
theorem C01_display (f : FmtStr) (h : ∀ ch ∈ text f, ch ≠ Curtsies.ESC ∧ ch ≠ Curtsies.CSI8) :
    display (render f) = { cells := effCells f, final := {}, ctls := [], mode := .ground } := by
  unfold display
  induction f with
  | nil => simp [render, feed, effCells]
  | cons c f ih =>
    have hc : ∀ ch ∈ c.s, ch ≠ Curtsies.ESC ∧ ch ≠ Curtsies.CSI8 := fun ch hch => h ch (by simp [text, hch])
    have hf : ∀ ch ∈ text f, ch ≠ Curtsies.ESC ∧ ch ≠ Curtsies.CSI8 := fun ch hch => h ch (by
      simp only [text, List.flatMap_cons, List.mem_append]; exact Or.inr hch)
    have : render (c :: f) = c.colorStr ++ render f := by simp [render]
    rw [this, feed_chunk c _ hc, ih hf]
    simp [effCells, Chunk.cells, List.map_map, Function.comp_def]

/-- The displayed characters are exactly the text of `f` (nothing of the text is swallowed or added). -/
theorem C01_text (f : FmtStr) (h : ∀ ch ∈ text f, ch ≠ Curtsies.ESC ∧ ch ≠ Curtsies.CSI8) :
    (display (render f)).cells.map Prod.fst = text f := by
  rw [C01_display f h, text_eq_cells]
  simp [effCells, List.map_map, Function.comp_def]

/-- Apart from the text, `str(f)` consists of SGR sequences only: it is, run by run,
    `seq`s of supported codes, the run's text, `seq`s of supported codes. -/
theorem C01_only_sgr (c : Chunk) :
    c.colorStr = (openCodes c.atts).flatMap seq ++ c.s ++ (closeCodes c.atts).flatMap seq ∧
    (∀ n ∈ openCodes c.atts, n ∈ supported) ∧ (∀ n ∈ closeCodes c.atts, n ∈ supported) :=
  ⟨colorStr_eq c, openCodes_supported c.atts, closeCodes_supported c.atts⟩

/-! ### regenerated tables = the constants the model uses -/

def cps (t : Text) : List Nat := t.map Char.toNat

/-- `seq(n)` of the live module, for every code the library uses, is the model's `seq n`; the set of codes
    is exactly the supported set of the terminal spec. -/
theorem C01_table_seq : Generated.seqTable = supported.map fun n => (n, cps (seq n)) := by decide +kernel

/-- the live `one_arg_xforms` lambdas wrap with `seq(STYLES[k])` ... `seq(RESET_ALL)` as the model does -/
theorem C01_table_one_arg : Generated.oneArgXforms =
    [("blink", cps (seq 5), cps (seq RESET_ALL)), ("bold", cps (seq 1), cps (seq RESET_ALL)),
     ("dark", cps (seq 2), cps (seq RESET_ALL)), ("invert", cps (seq 7), cps (seq RESET_ALL)),
     ("italic", cps (seq 3), cps (seq RESET_ALL)), ("underline", cps (seq 4), cps (seq RESET_ALL))] := by
  decide +kernel

/-- the live `two_arg_xforms` lambdas, applied to every distinct colour VALUE of the live colour tables -/
theorem C01_table_two_arg : Generated.twoArgXforms =
    (List.finRange 8).map (fun i => ("bg", bgCode i, cps (seq (bgCode i)), cps (seq RESET_BG))) ++
    (List.finRange 8).map (fun i => ("fg", fgCode i, cps (seq (fgCode i)), cps (seq RESET_FG))) := by
  decide +kernel

/-- The reset codes are the model's; the colour tables' VALUES are exactly the eight foreground / background codes
    of the model (a name table may give one code several names - aliases - without affecting `str(f)`, which only
    ever sees the numeric value); the style table is the model's. -/
theorem C01_table_consts : Generated.resetAll = RESET_ALL ∧ Generated.resetFg = RESET_FG ∧
    Generated.resetBg = RESET_BG ∧
    (∀ p ∈ Generated.fgColors, ∃ i : Fin 8, p.2 = fgCode i) ∧ (∀ i : Fin 8, fgCode i ∈ Generated.fgColors.map Prod.snd) ∧
    (∀ p ∈ Generated.bgColors, ∃ i : Fin 8, p.2 = bgCode i) ∧ (∀ i : Fin 8, bgCode i ∈ Generated.bgColors.map Prod.snd) ∧
    Generated.styles = [("bold", 1), ("dark", 2), ("italic", 3), ("underline", 4), ("blink", 5), ("invert", 7)] := by
  decide +kernel

/-- Python's `sorted()` order of the attribute names is the order `Chunk.colorStr` wraps in
    (`Key.all`, the field order of `Atts`). -/
theorem C01_table_order : Generated.sortedXformKeys =
    ["bg", "blink", "bold", "dark", "fg", "invert", "italic", "underline"] ∧
    Key.all = [.bg, .blink, .bold, .dark, .fg, .invert, .italic, .underline] := by decide

/-- Whole-string form of `C01_only_sgr`: `str(f)` is the concatenation, run by run, of supported SGR sequences,
    the run's text, supported SGR sequences - nothing else. -/
theorem C01_only_sgr_string (f : FmtStr) :
    render f = f.flatMap (fun c => (openCodes c.atts).flatMap seq ++ c.s ++ (closeCodes c.atts).flatMap seq) ∧
    ∀ c ∈ f, (∀ n ∈ openCodes c.atts, n ∈ supported) ∧ (∀ n ∈ closeCodes c.atts, n ∈ supported) := by
  refine ⟨?_, fun c _ => ⟨openCodes_supported c.atts, closeCodes_supported c.atts⟩⟩
  unfold render
  induction f with
  | nil => rfl
  | cons c f ih => simp only [List.flatMap_cons, ih, colorStr_eq]

/-- Non-vacuity: a bold red-on-blue run with a newline next to an empty run and an explicitly non-bold run. -/
example : display (render [⟨['a', '\n'], {fg := some 1, bg := some 4, bold := some true}⟩, ⟨[], {}⟩,
      ⟨['b'], {bold := some false, underline := some true}⟩])
    = { cells := [('a', {fg := some 1, bg := some 4, bold := true}), ('\n', {fg := some 1, bg := some 4, bold := true}),
                  ('b', {underline := true})], final := {}, ctls := [], mode := .ground } := by
  rw [C01_display _ (by decide)]; rfl

end Curtsies
