/-
  C12 - Leaving any curtsies context restores terminal, tty and signal state.

  Model: Model/Contexts.lean (abstract POSIX/terminal state; tty attributes opaque, `cbreak`/`noStartStop`/`nonblock`
  uninterpreted).  Every theorem is for ALL `TtyOps`, both threads, every context (every flag combination), every
  initial world and every body tree (operations, nested contexts to any depth, truncated by `raise` anywhere).

  PARTIAL BY NATURE (see the model header): the POSIX behaviour is specified, not proved; exceptions happen at
  operation boundaries, at the blocked select and after the read - not between two bytecodes of an __enter__.

  Known finding D18: `threadsafe_event_trigger` opens a pipe nobody closes.  `C12_full_statement` (all bodies) is
  therefore false (`C12_D18_witness`); `C12_restore_partial` carries the complementary hypothesis `NoLeak body`
  (no `mkThreadsafeTrigger` anywhere in the body).
  Known finding D36: `render_to_terminal` of a window with hide_cursor=False writes hide_cursor first and
  normal_cursor last; an exception at a write in between leaves the cursor hidden and `__exit__` only shows it
  `if self.hide_cursor`.  `C12_D36_witness`; `C12_restore_partial` carries the exact complement `CrashOk`.
  Known finding D26: a FullscreenWindow entered and left INSIDE another one switches the terminal back to the main
  screen while the outer window is still active (ESC[?1049l does not nest), so later renders land on the main
  screen.  `C12_main_screen_full_statement` is false (`C12_D26_witness`); `C12_main_screen_partial` carries the
  complementary hypothesis `NoScreenSwitch body` (no FullscreenWindow nested in the body).  All other clauses
  (`C12_restore_partial`, `C12_alt_left`, `C12_cursor_visible`) hold for nested FullscreenWindows too.
-/
import Curtsies.Model.Contexts
namespace Curtsies
open Curtsies.Contexts

/-- "restores what entering changed": tty attributes and status flags identical, SIGINT handler and wake-up fd back,
    the same descriptors open, a visible cursor visible again, the alternate screen not left active. -/
structure Restored (w w' : World A) : Prop where
  tty : w'.tty = w.tty
  fl : w'.fl = w.fl
  sigint : w'.sigint = w.sigint
  wakeup : w'.wakeup = w.wakeup
  fds : w'.fds = w.fds
  cursor : w.cursorVisible = true → w'.cursorVisible = true
  alt : w.alt = false → w'.alt = false

/-- no `threadsafe_event_trigger` call anywhere in the body (complement of D18's footprint) -/
def NoLeak : Body A → Prop
  | .done => True
  | .raise => True
  | .op o rest => o ≠ .mkThreadsafeTrigger ∧ NoLeak rest
  | .nest _ inner rest => NoLeak inner ∧ NoLeak rest

def isEnvOp : Op → Bool
  | .envTty _ => true | .envFl _ => true | .envSigint _ => true | _ => false

/-- a render cut short by a failing write is harmless when the failing write is the first one (nothing was written)
    or when the innermost window hides the cursor itself (its `__exit__` shows it again) -/
def crashOkOp (stack : List (Ctx A × Saved A)) : Op → Prop
  | .renderCrash k => k = 0 ∨ innerWindowHide stack ≠ some false
  | _ => True

/-- EXACT complement of D36's footprint: no render of a window with hide_cursor=False is cut short at a write after
    the first one.  (Failing writes in hide_cursor=True windows, first-write failures and crashes with no window in
    scope are all allowed.) -/
def CrashOk : List (Ctx A × Saved A) → Body A → Prop
  | _, .done => True
  | _, .raise => True
  | st, .op o rest => crashOkOp st o ∧ CrashOk st rest
  | st, .nest c inner rest => (∀ sv, CrashOk ((c, sv) :: st) inner) ∧ CrashOk st rest

/-- nobody else changes the tty attributes, status flags or SIGINT handler while the context is active (environment
    steps are meant for the gap BETWEEN two uses of a context manager: `C12_reuse`) -/
def NoEnv : Body A → Prop
  | .done => True
  | .raise => True
  | .op o rest => isEnvOp o = false ∧ NoEnv rest
  | .nest _ inner rest => NoEnv inner ∧ NoEnv rest

theorem Restored.refl (w : World A) : Restored w w := ⟨rfl, rfl, rfl, rfl, rfl, id, id⟩

theorem Restored.trans {a b c : World A} (h1 : Restored a b) (h2 : Restored b c) : Restored a c :=
  ⟨h2.tty.trans h1.tty, h2.fl.trans h1.fl, h2.sigint.trans h1.sigint, h2.wakeup.trans h1.wakeup,
   h2.fds.trans h1.fds, fun h => h2.cursor (h1.cursor h), fun h => h2.alt (h1.alt h)⟩

/-- A request - returned or raised, with or without a read, interrupted or not - leaves the whole OS state as it
    found it: in particular the stream is never left in non-blocking mode and the SIGINT handler swapped in by
    ReplacedSigIntHandler is swapped back. -/
theorem C12_request_restores (T : TtyOps A) (main : Bool) (cfg : InputCfg) (id : Nat) (o : ReqOutcome) (w : World A) :
    (request T main cfg id o w).1 = w := by
  cases o <;> cases h : (cfg.sigintEvent && main) <;> simp [request, h]

/-- Between requests an Input never leaves its stream in non-blocking mode (status flags after = before). -/
theorem C12_blocking (T : TtyOps A) (main : Bool) (cfg : InputCfg) (id : Nat) (o : ReqOutcome) (w : World A) :
    (request T main cfg id o w).1.fl = w.fl := by
  rw [C12_request_restores]

private theorem write_restored (w : World A) : Restored w (write w) := by
  unfold write
  split
  · exact Restored.refl w
  · exact ⟨rfl, rfl, rfl, rfl, rfl, id, id⟩

private theorem doOp_restored (T : TtyOps A) (main : Bool) (stack : List (Ctx A × Saved A)) (o : Op) (w : World A)
    (h : o ≠ .mkThreadsafeTrigger)
    (he : isEnvOp o = false) (hc : crashOkOp stack o) :
    Restored w (doOp T main stack o w).1 := by
  cases o with
  | renderCrash k =>
    simp only [doOp]
    cases hw : innerWindowHide stack with
    | none => exact Restored.refl w
    | some hide =>
      cases hide with
      | true =>
        simp only []
        split
        · exact Restored.refl w
        · exact write_restored w
      | false =>
        rcases hc with hk | hk
        · simp [hk]; exact Restored.refl w
        · exact absurd hw hk
  | envTty k => exact absurd he (by simp [isEnvOp])
  | envFl k => exact absurd he (by simp [isEnvOp])
  | envSigint hh => exact absurd he (by simp [isEnvOp])
  | envSize k => exact Restored.refl w
  | request out =>
    simp only [doOp]
    split
    · rw [C12_request_restores]; exact Restored.refl w
    · exact Restored.refl w
  | render =>
    simp only [doOp]
    have hw := write_restored w
    split
    · exact hw
    · exact ⟨hw.tty, hw.fl, hw.sigint, hw.wakeup, hw.fds, fun _ => rfl, hw.alt⟩
    · exact Restored.refl w
  | mkTrigger => exact Restored.refl w
  | mkThreadsafeTrigger => exact absurd rfl h

/-- entering a context, running any body that restores, and leaving restores -/
private theorem enter_exit_restored (T : TtyOps A) (main : Bool) (c : Ctx A) (w w2 : World A)
    (h : Restored (enter T main c w).2 w2) : Restored w (exit main c (enter T main c w).1 w2) := by
  obtain ⟨h1, h2, h3, h4, h5, h6, h7⟩ := h
  cases c with
  | input cfg =>
    cases main <;> cases hs : cfg.sigintEvent <;> cases hd : cfg.disableStartStop <;>
      simp [enter, exit, hs, hd] at h1 h2 h3 h4 h5 h6 h7 ⊢ <;>
      constructor <;> simp_all
  | fullscreen hide =>
    cases hide <;> simp [enter, exit] at h1 h2 h3 h4 h5 h6 h7 ⊢ <;> constructor <;> simp_all
  | cursorAware hide keep =>
    cases hide <;> simp [enter, exit, write] at h1 h2 h3 h4 h5 h6 h7 ⊢ <;>
      (split <;> constructor <;> simp_all)
  | cbreak => simp [enter, exit] at h1 h2 h3 h4 h5 h6 h7 ⊢; constructor <;> simp_all
  | nonblocking => simp [enter, exit] at h1 h2 h3 h4 h5 h6 h7 ⊢; constructor <;> simp_all
  | termmode a => simp [enter, exit] at h1 h2 h3 h4 h5 h6 h7 ⊢; constructor <;> simp_all

/-- the general statement, for bodies at any nesting depth -/
theorem run_restored (T : TtyOps A) (main : Bool) (body : Body A) :
    ∀ (stack : List (Ctx A × Saved A)) (w : World A), NoLeak body → NoEnv body → CrashOk stack body →
      Restored w (run T main body stack w).2.1 := by
  induction body with
  | done => intro _ w _ _ _; exact Restored.refl w
  | raise => intro _ w _ _ _; exact Restored.refl w
  | op o rest ih =>
    intro stack w hn he hc
    have h1 := doOp_restored T main stack o w hn.1 he.1 hc.1
    simp only [run]
    split
    · exact h1
    · exact h1.trans (ih stack _ hn.2 he.2 hc.2)
  | nest c inner rest ih1 ih2 =>
    intro stack w hn he hc
    have hin := ih1 ((c, (enter T main c w).1) :: stack) (enter T main c w).2 hn.1 he.1 (hc.1 _)
    have h3 := enter_exit_restored T main c w _ hin
    simp only [run]
    split
    · exact h3
    · exact h3.trans (ih2 stack _ hn.2 he.2 hc.2)

/-- The property at full strength: `with c: body` restores, for every body in which nobody else changes the terminal
    while the context is active (`NoEnv`: environment steps belong between uses).  FALSE because of D18 and D36 - and
    only because of them: `C12_restore_partial` proves it under the exact complements of the two footprints. -/
def C12_full_statement : Prop :=
  ∀ (A : Type) (T : TtyOps A) (main : Bool) (c : Ctx A) (body : Body A) (w : World A), NoEnv body →
    Restored w (withCtx T main c body w).2.1

/-- Leaving the context of an Input, FullscreenWindow, CursorAwareWindow, Cbreak, Nonblocking or Termmode - normally
    or through an exception raised at any point of the body - restores tty attributes, status flags, SIGINT handler,
    wake-up descriptor and the set of open descriptors, leaves a visible cursor visible and does not leave the
    alternate screen active; for every flag combination, both threads, every initial state, every nesting.
    Hypotheses = exact complements of the footprints of D18 (`NoLeak`: no thread-safe trigger is created) and D36
    (`CrashOk`: no render of a hide_cursor=False window is cut short after its first write), plus `NoEnv`. -/
theorem C12_restore_partial (T : TtyOps A) (main : Bool) (c : Ctx A) (body : Body A) (w : World A)
    (h : NoLeak body) (he : NoEnv body) (hc : ∀ sv, CrashOk [(c, sv)] body) :
    Restored w (withCtx T main c body w).2.1 := by
  unfold withCtx
  exact run_restored T main (.nest c body .done) [] w ⟨h, trivial⟩ ⟨he, trivial⟩ ⟨hc, trivial⟩

/-- Re-using ONE context-manager object: use it (`b1`), let the environment change the terminal / flags / handler
    (`e`, any operation - typically `envTty`, `envFl`, `envSigint`), use the same object again (`b2`).  The second
    exit restores the world as it was at the SECOND entry (after the environment's change), not the one captured at
    the first entry; and the first exit restored the world of the first entry. -/
theorem C12_reuse (T : TtyOps A) (main : Bool) (c : Ctx A) (b1 b2 : Body A) (e : Op) (w : World A)
    (h1 : NoLeak b1) (e1 : NoEnv b1) (c1 : ∀ sv, CrashOk [(c, sv)] b1) (h2 : NoLeak b2) (e2 : NoEnv b2)
    (c2 : ∀ sv, CrashOk [(c, sv)] b2)
    (hr : (withCtx T main c b1 w).2.2 = false)
    (he : (doOp T main [] e (withCtx T main c b1 w).2.1).2 = false) :
    let w1 := (withCtx T main c b1 w).2.1
    let w2 := (doOp T main [] e w1).1
    (run T main (.nest c b1 (.op e (.nest c b2 .done))) [] w).2.1 = (withCtx T main c b2 w2).2.1 ∧
      Restored w w1 ∧ Restored w2 (withCtx T main c b2 w2).2.1 := by
  refine ⟨?_, C12_restore_partial T main c b1 w h1 e1 c1, C12_restore_partial T main c b2 _ h2 e2 c2⟩
  unfold withCtx at hr he ⊢
  simp only [run] at hr he ⊢
  split at hr
  · simp at hr
  · rename_i hk
    simp only [hk] at he ⊢
    simp only [Bool.false_eq_true, if_false] at he ⊢
    simp [he]

/-- "the cursor is visible again": whatever the state before and whatever the body did, after leaving a window
    created with hide_cursor=True the cursor is visible. -/
theorem C12_cursor_visible (main : Bool) (sv : Saved A) (w : World A) (keep : Bool) :
    (exit main (.fullscreen true) sv w).cursorVisible = true ∧
    (exit main (.cursorAware true keep) sv w).cursorVisible = true := by
  simp [exit]

/-- "the alternate screen has been left": after leaving a FullscreenWindow the main screen is active. -/
theorem C12_alt_left (main : Bool) (hide : Bool) (sv : Saved A) (w : World A) :
    (exit main (.fullscreen hide) sv w).alt = false := by
  cases hide <;> simp [exit]

/-- no FullscreenWindow nested anywhere inside the body (complement of D26's footprint): its exit would switch back
    to the main screen while the outer one is still active -/
def NoScreenSwitch : Body A → Prop
  | .done => True
  | .raise => True
  | .op _ rest => NoScreenSwitch rest
  | .nest c inner rest => (match c with | .fullscreen _ => False | _ => True) ∧ NoScreenSwitch inner ∧ NoScreenSwitch rest

private theorem run_alt (T : TtyOps A) (main : Bool) (body : Body A) :
    ∀ (stack : List (Ctx A × Saved A)) (w : World A), NoScreenSwitch body → w.alt = true →
      (run T main body stack w).2.1.alt = true ∧ (run T main body stack w).2.1.mainScreen = w.mainScreen := by
  induction body with
  | done => intro _ w _ h; exact ⟨h, rfl⟩
  | raise => intro _ w _ h; exact ⟨h, rfl⟩
  | op o rest ih =>
    intro stack w hn ha
    have h1 : (doOp T main stack o w).1.alt = true ∧ (doOp T main stack o w).1.mainScreen = w.mainScreen := by
      cases o with
      | request out =>
        simp only [doOp]; split
        · rw [C12_request_restores]; exact ⟨ha, rfl⟩
        · exact ⟨ha, rfl⟩
      | render => simp only [doOp]; split <;> simp [write, ha]
      | mkTrigger => exact ⟨ha, rfl⟩
      | mkThreadsafeTrigger => simp only [doOp]; split <;> simp [ha]
      | renderCrash k => simp only [doOp]; split <;> (try split) <;> (try split) <;> simp [write, ha]
      | envTty k => simp [doOp, ha]
      | envFl k => simp [doOp, ha]
      | envSigint hh => simp [doOp, ha]
      | envSize k => simp [doOp, ha]
    simp only [run]
    split
    · exact h1
    · have := ih stack _ hn h1.1
      exact ⟨this.1, this.2.trans h1.2⟩
  | nest c inner rest ih1 ih2 =>
    intro stack w hn ha
    obtain ⟨hc, hi, hr⟩ := hn
    have he : (enter T main c w).2.alt = true ∧ (enter T main c w).2.mainScreen = w.mainScreen := by
      cases c with
      | input cfg => obtain ⟨se, dts⟩ := cfg; cases main <;> cases se <;> cases dts <;> simp [enter, ha]
      | fullscreen h => exact absurd hc (by simp)
      | cursorAware h k => cases h <;> simp [enter, ha]
      | cbreak => simp [enter, ha]
      | nonblocking => simp [enter, ha]
      | termmode a => simp [enter, ha]
    have h2 := ih1 ((c, (enter T main c w).1) :: stack) _ hi he.1
    have h3 : (exit main c (enter T main c w).1 (run T main inner ((c, (enter T main c w).1) :: stack) (enter T main c w).2).2.1).alt = true ∧
        (exit main c (enter T main c w).1 (run T main inner ((c, (enter T main c w).1) :: stack) (enter T main c w).2).2.1).mainScreen = w.mainScreen := by
      have e2 := h2.2.trans he.2
      cases c with
      | input cfg =>
        obtain ⟨se, dts⟩ := cfg
        cases main <;> cases se <;> simp [exit, h2.1, e2] <;> split <;> simp [h2.1, e2]
      | fullscreen h => exact absurd hc (by simp)
      | cursorAware h k => cases h <;> simp [exit, write, h2.1, e2]
      | cbreak => simp [exit, h2.1, e2]
      | nonblocking => simp [exit, h2.1, e2]
      | termmode a => simp [exit, h2.1, e2]
    simp only [run]
    split
    · exact h3
    · have := ih2 stack _ hr h3.1
      exact ⟨this.1, this.2.trans h3.2⟩

/-- full statement of the main-screen clause: FALSE for nested FullscreenWindows (the inner exit switches back to
    the main screen while the outer window is still active; the 1049 protocol does not nest) -/
def C12_main_screen_full_statement : Prop :=
  ∀ (A : Type) (T : TtyOps A) (main : Bool) (hide : Bool) (body : Body A) (w : World A), w.alt = false →
    (withCtx T main (.fullscreen hide) body w).2.1.mainScreen = w.mainScreen

/-- "... with the main screen's content untouched": nothing the body of a FullscreenWindow does (renders of any
    window, requests, nested Inputs/Cbreak/..., exceptions) writes to the main screen, provided no FullscreenWindow
    is entered inside it. -/
theorem C12_main_screen_partial (T : TtyOps A) (main : Bool) (hide : Bool) (body : Body A) (w : World A)
    (h : NoScreenSwitch body) :
    (withCtx T main (.fullscreen hide) body w).2.1.mainScreen = w.mainScreen := by
  have hb := run_alt T main body [(.fullscreen hide, (enter T main (.fullscreen hide) w).1)]
    (enter T main (.fullscreen hide) w).2 h (by cases hide <;> simp [enter])
  have he : (enter T main (.fullscreen hide) w).2.mainScreen = w.mainScreen := by cases hide <;> simp [enter]
  unfold withCtx
  simp only [run]
  split <;> cases hide <;> simp [exit, hb.2, he]

/-! ### known findings: witnesses on the model -/

def unitOps : TtyOps Unit := { cbreak := id, noStartStop := id, nonblock := id, envTty := fun _ => id, envFl := fun _ => id }
def w0 : World Unit :=
  { tty := (), fl := 2, sigint := .dflt, wakeup := none, fds := [], nextFd := 3, nextId := 0,
    cursorVisible := true, alt := false, mainScreen := 0 }

/-- D18 on the model: `with Input() as i: i.threadsafe_event_trigger(E)` leaves two descriptors open.
    (replayed on the real code by harness/props/c12.py: script `(I00 T )`) -/
theorem C12_D18_witness :
    (withCtx unitOps true (.input ⟨false, false⟩) (.op .mkThreadsafeTrigger .done) w0).2.1.fds = [5, 6] ∧
    ¬ C12_full_statement := by
  refine ⟨by decide, fun h => ?_⟩
  have := (h Unit unitOps true (.input ⟨false, false⟩) (.op .mkThreadsafeTrigger .done) w0 (by simp [NoEnv, isEnvOp])).fds
  exact absurd this (by decide)

/-- D36 on the model: `with FullscreenWindow(hide_cursor=False) as w: w.render_to_terminal(...)` where the second
    write of the render raises: hide_cursor was written, normal_cursor never is, `__exit__` does not show the cursor
    because hide_cursor is False - the cursor stays hidden. (script `(F0 R1 )`) -/
theorem C12_D36_witness :
    (withCtx unitOps true (.fullscreen false) (.op (.renderCrash 1) .done) w0).2.1.cursorVisible = false ∧
    ¬ C12_full_statement := by
  refine ⟨by decide, fun h => ?_⟩
  have := (h Unit unitOps true (.fullscreen false) (.op (.renderCrash 1) .done) w0 (by simp [NoEnv, isEnvOp])).cursor rfl
  exact absurd this (by decide)

/-- D26 on the model, nested FullscreenWindows: the outer window's render after the inner one was left lands on the
    main screen. (script `(F1 (F1 ) r )`) -/
theorem C12_D26_witness : ¬ C12_main_screen_full_statement := by
  intro h
  have := h Unit unitOps true true (.nest (.fullscreen true) .done (.op .render .done)) w0 rfl
  exact absurd this (by decide)

/-- Non-vacuity of `C12_restore_partial`: a nested, exception-truncated body without thread-safe triggers. -/
example : NoLeak (A := Unit) (.op (.request .returnsAfterRead)
    (.nest (.fullscreen true) (.op .render (.op (.request .keyboardInterrupt) .raise)) .done)) := by
  simp [NoLeak]


/-- Non-vacuity of `C12_reuse`: one Input used twice, ECHO toggled by somebody else in between; neither use raises. -/
example : (withCtx unitOps true (.input ⟨true, false⟩) (.op (.request .returnsAfterRead) .done) w0).2.2 = false ∧
    (doOp unitOps true [] (.envTty 0)
      (withCtx unitOps true (.input ⟨true, false⟩) (.op (.request .returnsAfterRead) .done) w0).2.1).2 = false := by
  decide


/-- Non-vacuity of `CrashOk`: failing writes that the theorem COVERS - in a hide_cursor=True window at any write, and
    at the first write of a hide_cursor=False window. -/
example : (∀ sv, CrashOk (A := Unit) [(.fullscreen true, sv)] (.op (.renderCrash 3) .done)) ∧
    (∀ sv, CrashOk (A := Unit) [(.cursorAware false true, sv)] (.op (.renderCrash 0) .done)) := by
  constructor <;> intro sv <;> simp [CrashOk, crashOkOp, innerWindowHide]

end Curtsies
