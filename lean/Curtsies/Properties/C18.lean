/-
  C18 - Cursor position query parses the report exactly; movement is conserved.

  C18_parse     get_cursor_position on  pre ++ CSI ++ digits ++ ";" ++ digits ++ "R" ++ post  (characters interleaved
                with any number of failing reads): returns (row-1, col-1), hands exactly `pre` to the callback
                (ValueError when there is none and pre is non-empty), leaves exactly `post` unread.
  C18_first_match   about the SCANNER MODEL: it stops at the first character that completes a report-shaped substring,
                never earlier, and until then `resp = extra ++ cand`.  That this is what the incremental `re.search`
                does is NOT a theorem: it rests on the prose argument in Model/Window.lean and on the correspondence
                check (every `pre` up to length 4/5 over the alphabet that partitions the regex's classes).
  C18_error_recovers / C18_error_then_ok   the failure path of get_cursor_vertical_diff (try/finally): a raising query
                leaves the re-entrancy flag clear, and the next call accounts normally.
  C18_decimal   the ASCII decimal digits of n (what a terminal's report contains) are digits and have value n.
  C18_conserve  _get_cursor_vertical_diff_once: (change of top_usable_row) + returned = row - last known row;
                nothing changes when no row was known.  C18_once_exact gives the closed form of the two clamped loops.
  C18_nested    get_cursor_vertical_diff with nested calls arriving during the queries (re-entrancy flags): the nested
                calls return 0 and change nothing but the flag (C18_nested_zero), the outer call re-queries until an
                undisturbed query, and over all of it the movement is counted exactly once.

  Hypotheses, all necessary: `pre` contains no complete look-alike report (the code could not tell it from the real
  one: C18_lookalike_witness); the digit-value function `dv` (Python's `\d`/`int`) gives no value to ESC, 0x9b, ';', 'R'
  (true of Unicode decimal digits; checked for the live `re` by the harness); no read returns '' before the report
  is complete (that raises ValueError: C18_empty_read).
-/
import Curtsies.Model.Window
namespace Curtsies
open Window

namespace C18
def IsCsi (l : List Char) : Prop := l = [ESC, '['] ∨ l = [CSI8]
def Digits (dv : Char → Option Nat) (ds : List Char) : Prop := ds ≠ [] ∧ ∀ d ∈ ds, (dv d).isSome
def valueFrom (dv : Char → Option Nat) (acc : Nat) (ds : List Char) : Nat := ds.foldl (fun a d => a * 10 + (dv d).getD 0) acc
def value (dv : Char → Option Nat) (ds : List Char) : Nat := valueFrom dv 0 ds
def ReportShaped (dv : Char → Option Nat) (s : List Char) : Prop :=
  ∃ csi d1 d2, IsCsi csi ∧ Digits dv d1 ∧ Digits dv d2 ∧ s = csi ++ d1 ++ [';'] ++ d2 ++ ['R']
structure SaneDigits (dv : Char → Option Nat) : Prop where
  esc : dv ESC = none
  csi8 : dv CSI8 = none
  semi : dv ';' = none
  r : dv 'R' = none

def Cand (dv : Char → Option Nat) : Scan → List Char → Prop
  | .idle, cand => cand = []
  | .esc, cand => cand = [ESC]
  | .row none, cand => IsCsi cand
  | .row (some r), cand => ∃ csi ds, IsCsi csi ∧ Digits dv ds ∧ cand = csi ++ ds ∧ r = value dv ds
  | .col r none, cand => ∃ csi ds, IsCsi csi ∧ Digits dv ds ∧ cand = csi ++ ds ++ [';'] ∧ r = value dv ds
  | .col r (some c), cand => ∃ csi ds ds2, IsCsi csi ∧ Digits dv ds ∧ Digits dv ds2 ∧
      cand = csi ++ ds ++ [';'] ++ ds2 ∧ r = value dv ds ∧ c = value dv ds2

theorem digits_snoc {dv ds d n} (h : Digits dv ds) (hd : dv d = some n) :
    Digits dv (ds ++ [d]) ∧ value dv (ds ++ [d]) = value dv ds * 10 + n := by
  refine ⟨⟨by simp, ?_⟩, ?_⟩
  · intro x hx
    rcases List.mem_append.mp hx with hx | hx
    · exact h.2 x hx
    · simp at hx; subst hx; simp [hd]
  · simp [value, valueFrom, List.foldl_append, hd]

theorem digits_single {dv d n} (hd : dv d = some n) : Digits dv [d] ∧ value dv [d] = n := by
  refine ⟨⟨by simp, ?_⟩, ?_⟩
  · intro x hx; simp at hx; subst hx; simp [hd]
  · simp [value, valueFrom, hd]

theorem scanStep_inl {dv} {s s' : ScanSt} {ch} (hc : Cand dv s.st s.cand) (h : scanStep dv s ch = .inl s') :
    Cand dv s'.st s'.cand ∧ s'.extra ++ s'.cand = s.extra ++ s.cand ++ [ch] := by
  unfold scanStep at h
  by_cases hE : ch = ESC
  · simp [hE] at h; subst h; simp [Cand, hE]
  by_cases hC : ch = CSI8
  · subst hC
    have : CSI8 ≠ ESC := by decide
    simp [this] at h; subst h; simp [Cand, IsCsi]
  simp only [if_neg hE, if_neg hC] at h
  rcases s with ⟨extra, cand, st⟩
  cases st with
  | idle => simp at h; subst h; simp [Cand]
  | esc =>
    simp only [Cand] at hc
    by_cases hb : ch = '['
    · subst hb; simp at h; subst h; simp [Cand, IsCsi, hc]
    · simp [hb] at h; subst h; simp [Cand]
  | row r =>
    cases hd : dv ch with
    | some d =>
      simp [hd] at h; subst h
      cases r with
      | none =>
        simp only [Cand] at hc ⊢
        refine ⟨⟨cand, [ch], hc, (digits_single hd).1, rfl, ?_⟩, by simp⟩
        simp [(digits_single hd).2]
      | some r =>
        simp only [Cand] at hc ⊢
        obtain ⟨csi, ds, h1, h2, h3, h4⟩ := hc
        refine ⟨⟨csi, ds ++ [ch], h1, (digits_snoc h2 hd).1, by simp [h3], ?_⟩, by simp⟩
        simp [(digits_snoc h2 hd).2, h4]
    | none =>
      cases r with
      | none => simp [hd] at h; subst h; simp [Cand]
      | some r =>
        by_cases hs : ch = ';'
        · subst hs; simp [hd] at h; subst h
          simp only [Cand] at hc ⊢
          obtain ⟨csi, ds, h1, h2, h3, h4⟩ := hc
          exact ⟨⟨csi, ds, h1, h2, by simp [h3], h4⟩, by simp⟩
        · simp [hd, hs] at h; subst h; simp [Cand]
  | col r c =>
    cases hd : dv ch with
    | some d =>
      simp [hd] at h; subst h
      cases c with
      | none =>
        simp only [Cand] at hc ⊢
        obtain ⟨csi, ds, h1, h2, h3, h4⟩ := hc
        refine ⟨⟨csi, ds, [ch], h1, h2, (digits_single hd).1, by simp [h3], h4, ?_⟩, by simp⟩
        simp [(digits_single hd).2]
      | some c =>
        simp only [Cand] at hc ⊢
        obtain ⟨csi, ds, ds2, h1, h2, h2', h3, h4, h5⟩ := hc
        refine ⟨⟨csi, ds, ds2 ++ [ch], h1, h2, (digits_snoc h2' hd).1, by simp [h3], h4, ?_⟩, by simp⟩
        simp [(digits_snoc h2' hd).2, h5]
    | none =>
      cases c with
      | none => simp [hd] at h; subst h; simp [Cand]
      | some c =>
        by_cases hs : ch = 'R'
        · subst hs; simp [hd] at h
        · simp [hd, hs] at h; subst h; simp [Cand]

theorem scanStep_inr {dv} {s : ScanSt} {ch e r c} (hc : Cand dv s.st s.cand) (h : scanStep dv s ch = .inr (e, r, c)) :
    ReportShaped dv (s.cand ++ [ch]) := by
  unfold scanStep at h
  by_cases hE : ch = ESC
  · simp [hE] at h
  by_cases hC : ch = CSI8
  · subst hC
    have : CSI8 ≠ ESC := by decide
    simp [this] at h
  simp only [if_neg hE, if_neg hC] at h
  rcases s with ⟨extra, cand, st⟩
  cases st with
  | idle => simp at h
  | esc => by_cases hb : ch = '[' <;> simp [hb] at h
  | row r =>
    cases hd : dv ch <;> cases r <;> simp [hd] at h
    split at h <;> simp at h
  | col r c' =>
    cases hd : dv ch <;> cases c' <;> simp [hd] at h
    by_cases hs : ch = 'R'
    · subst hs
      simp only [Cand] at hc
      obtain ⟨csi, ds, ds2, h1, h2, h2', h3, h4, h5⟩ := hc
      exact ⟨csi, ds, ds2, h1, h2, h2', by simp [h3]⟩
    · simp [hs] at h

/-- run the scanner over characters none of which completes a report -/
def scanAll (dv : Char → Option Nat) : ScanSt → List Char → Option ScanSt
  | s, [] => some s
  | s, ch :: cs => match scanStep dv s ch with
    | .inl s' => scanAll dv s' cs
    | .inr _ => none

theorem scanAll_append (dv : Char → Option Nat) (s : ScanSt) (a b : List Char) :
    scanAll dv s (a ++ b) = (scanAll dv s a).bind fun s' => scanAll dv s' b := by
  induction a generalizing s with
  | nil => simp [scanAll]
  | cons x xs ih =>
    simp only [List.cons_append, scanAll]
    cases scanStep dv s x with
    | inl s' => simp [ih]
    | inr _ => simp

def chars : List Read → List Char
  | [] => []
  | .char c :: rest => c :: chars rest
  | _ :: rest => chars rest

theorem chars_append (a b : List Read) : chars (a ++ b) = chars a ++ chars b := by
  induction a with
  | nil => rfl
  | cons x xs ih => cases x <;> simp [chars, ih]

/-- OSErrors are invisible: the loop over events is the scanner over their characters -/
theorem gcpLoop_scanAll (dv : Char → Option Nat) (cb : Bool) (evs tail : List Read) (s s' : ScanSt)
    (hne : Read.empty ∉ evs) (h : scanAll dv s (chars evs) = some s') :
    gcpLoop dv cb s (evs ++ tail) = gcpLoop dv cb s' tail := by
  induction evs generalizing s with
  | nil => simp [chars, scanAll] at h; subst h; rfl
  | cons x xs ih =>
    have hne' : Read.empty ∉ xs := fun hm => hne (List.mem_cons_of_mem _ hm)
    cases x with
    | oserror => simp only [List.cons_append, gcpLoop]; exact ih s hne' (by simpa [chars] using h)
    | empty => exact absurd List.mem_cons_self hne
    | char ch =>
      simp only [chars, scanAll] at h
      simp only [List.cons_append, gcpLoop]
      cases hs : scanStep dv s ch with
      | inl s1 => rw [hs] at h; simp only []; exact ih s1 hne' h
      | inr x => rw [hs] at h; simp at h

/-- while no report-shaped substring is completed the scanner keeps `resp = extra ++ cand` -/
theorem scanAll_pre (dv : Char → Option Nat) (s : ScanSt) (cs : List Char) (hc : Cand dv s.st s.cand)
    (hno : ∀ a b c, s.extra ++ s.cand ++ cs = a ++ b ++ c → ¬ ReportShaped dv b) :
    ∃ s', scanAll dv s cs = some s' ∧ Cand dv s'.st s'.cand ∧ s'.extra ++ s'.cand = s.extra ++ s.cand ++ cs := by
  induction cs generalizing s with
  | nil => exact ⟨s, rfl, hc, by simp⟩
  | cons ch cs ih =>
    simp only [scanAll]
    cases hs : scanStep dv s ch with
    | inr x =>
      obtain ⟨e, r, c⟩ := x
      exact absurd (scanStep_inr hc hs) (hno s.extra (s.cand ++ [ch]) cs (by simp))
    | inl s1 =>
      obtain ⟨h1, h2⟩ := scanStep_inl hc hs
      obtain ⟨s', h3, h4, h5⟩ := ih s1 h1 (by rw [h2]; intro a b c hab; exact hno a b c (by simpa using hab))
      exact ⟨s', h3, h4, by rw [h5, h2]; simp⟩

theorem scanAll_csi (dv : Char → Option Nat) (s : ScanSt) (csi : List Char) (h : IsCsi csi) :
    scanAll dv s csi = some ⟨s.extra ++ s.cand, csi, .row none⟩ := by
  have h1 : CSI8 ≠ ESC := by decide
  have h2 : '[' ≠ ESC := by decide
  have h3 : '[' ≠ CSI8 := by decide
  rcases h with h | h <;> subst h <;> simp [scanAll, scanStep, h1, h2, h3]

/-- a run of digits in the row field -/
theorem scanAll_rowDigits (dv : Char → Option Nat) (hdv : SaneDigits dv) (e cand : List Char) (r : Option Nat)
    (ds : List Char) (hds : ∀ d ∈ ds, (dv d).isSome) (hne : ds ≠ []) :
    scanAll dv ⟨e, cand, .row r⟩ ds = some ⟨e, cand ++ ds, .row (some (valueFrom dv (r.getD 0) ds))⟩ := by
  induction ds generalizing cand r with
  | nil => exact absurd rfl hne
  | cons d ds ih =>
    have hd := hds d List.mem_cons_self
    obtain ⟨n, hn⟩ := Option.isSome_iff_exists.mp hd
    have hE : d ≠ ESC := fun h => by rw [h, hdv.esc] at hn; cases hn
    have hC : d ≠ CSI8 := fun h => by rw [h, hdv.csi8] at hn; cases hn
    simp only [scanAll, scanStep, if_neg hE, if_neg hC, hn]
    by_cases hnil : ds = []
    · subst hnil; simp [scanAll, valueFrom, hn]
    · rw [ih _ _ (fun x hx => hds x (List.mem_cons_of_mem _ hx)) hnil]
      simp [valueFrom, hn]

theorem scanAll_colDigits (dv : Char → Option Nat) (hdv : SaneDigits dv) (e cand : List Char) (r : Nat) (c : Option Nat)
    (ds : List Char) (hds : ∀ d ∈ ds, (dv d).isSome) (hne : ds ≠ []) :
    scanAll dv ⟨e, cand, .col r c⟩ ds = some ⟨e, cand ++ ds, .col r (some (valueFrom dv (c.getD 0) ds))⟩ := by
  induction ds generalizing cand c with
  | nil => exact absurd rfl hne
  | cons d ds ih =>
    have hd := hds d List.mem_cons_self
    obtain ⟨n, hn⟩ := Option.isSome_iff_exists.mp hd
    have hE : d ≠ ESC := fun h => by rw [h, hdv.esc] at hn; cases hn
    have hC : d ≠ CSI8 := fun h => by rw [h, hdv.csi8] at hn; cases hn
    simp only [scanAll, scanStep, if_neg hE, if_neg hC, hn]
    by_cases hnil : ds = []
    · subst hnil; simp [scanAll, valueFrom, hn]
    · rw [ih _ _ (fun x hx => hds x (List.mem_cons_of_mem _ hx)) hnil]
      simp [valueFrom, hn]

end C18
open C18

/-- The parse.  `evs0` carries the characters `pre ++ csi ++ d1 ++ ";" ++ d2` interleaved with any number of failing
    reads (`Read.oserror`); then `R` arrives; `post` is whatever follows (characters, errors, anything). -/
theorem C18_parse (dv : Char → Option Nat) (hdv : SaneDigits dv) (cb : Bool)
    (pre csi d1 d2 : List Char) (evs0 post : List Read)
    (hcsi : IsCsi csi) (h1 : Digits dv d1) (h2 : Digits dv d2)
    (hpre : ∀ a b c, pre = a ++ b ++ c → ¬ ReportShaped dv b)
    (hevs : chars evs0 = pre ++ csi ++ d1 ++ [';'] ++ d2) (hne : Read.empty ∉ evs0) :
    getCursorPosition dv cb (evs0 ++ [Read.char 'R'] ++ post) = some
      { result := if pre = [] ∨ cb = true then .ok ((value dv d1 : Int) - 1, (value dv d2 : Int) - 1)
                  else .error .valueError,
        callback := if pre ≠ [] ∧ cb = true then some pre else none,
        rest := post } := by
  -- the scanner state after `pre ++ csi ++ d1 ++ ; ++ d2`
  have hscan : scanAll dv {} (chars evs0) = some ⟨pre, csi ++ d1 ++ [';'] ++ d2, .col (value dv d1) (some (value dv d2))⟩ := by
    obtain ⟨s1, e1, _, e3⟩ := scanAll_pre dv {} pre (by simp [Cand]) (by simpa using hpre)
    simp at e3
    have hsemi : scanAll dv ⟨pre, csi ++ d1, .row (some (value dv d1))⟩ [';'] =
        some ⟨pre, csi ++ d1 ++ [';'], .col (value dv d1) none⟩ := by
      have a1 : ';' ≠ ESC := by decide
      have a2 : ';' ≠ CSI8 := by decide
      simp [scanAll, scanStep, a1, a2, hdv.semi]
    rw [hevs]
    simp only [List.append_assoc]
    rw [scanAll_append, e1, Option.bind_some, scanAll_append, scanAll_csi dv s1 csi hcsi, Option.bind_some, e3,
      scanAll_append, scanAll_rowDigits dv hdv _ _ _ d1 h1.2 h1.1, Option.bind_some]
    simp only [Option.getD_none]
    rw [scanAll_append]
    change (scanAll dv ⟨pre, csi ++ d1, .row (some (value dv d1))⟩ [';']).bind _ = _
    rw [hsemi, Option.bind_some, scanAll_colDigits dv hdv _ _ _ _ d2 h2.2 h2.1]
    simp [value]
  unfold getCursorPosition
  rw [List.append_assoc, gcpLoop_scanAll dv cb evs0 _ _ _ hne hscan]
  have a1 : 'R' ≠ ESC := by decide
  have a2 : 'R' ≠ CSI8 := by decide
  simp only [List.cons_append, List.nil_append, gcpLoop, scanStep, if_neg a1, if_neg a2, hdv.r]
  cases pre with
  | nil => simp
  | cons p ps => cases cb <;> simp

/-- The model stops at the FIRST character completing a report-shaped substring, never earlier: as long as no
    substring of what was read is report-shaped, the loop is still reading and `resp` is intact. -/
theorem C18_first_match (dv : Char → Option Nat) (cb : Bool) (evs tail : List Read)
    (hne : Read.empty ∉ evs) (hno : ∀ a b c, chars evs = a ++ b ++ c → ¬ ReportShaped dv b) :
    ∃ s, s.extra ++ s.cand = chars evs ∧
      getCursorPosition dv cb (evs ++ tail) = gcpLoop dv cb s tail := by
  obtain ⟨s1, e1, _, e3⟩ := scanAll_pre dv {} (chars evs) (by simp [Cand]) (by simpa using hno)
  exact ⟨s1, by simpa using e3, gcpLoop_scanAll dv cb evs tail _ _ hne e1⟩

/-- a read returning '' before the report is complete raises ValueError and consumes that read -/
theorem C18_empty_read (dv : Char → Option Nat) (cb : Bool) (evs tail : List Read)
    (hne : Read.empty ∉ evs) (hno : ∀ a b c, chars evs = a ++ b ++ c → ¬ ReportShaped dv b) :
    getCursorPosition dv cb (evs ++ Read.empty :: tail) = some ⟨.error .valueError, none, tail⟩ := by
  obtain ⟨s, _, h⟩ := C18_first_match dv cb evs (Read.empty :: tail) hne hno
  rw [h]; rfl

/-- observable part of an outcome: returned pair (none = exception), callback argument, unread input -/
def C18.obs (o : Option GcpOut) : Option (Option (Int × Int) × Option (List Char) × List Read) :=
  o.map fun o => (match o.result with | .ok p => some p | .error _ => none, o.callback, o.rest)

/-- why look-alikes are excluded: a complete report inside the preceding input is taken for the answer -/
theorem C18_lookalike_witness :
    C18.obs (getCursorPosition Spec.digitVal true ("\x1b[5;5Ra\x1b[1;1R".toList.map Read.char)) =
      some (some (4, 4), none, "a\x1b[1;1R".toList.map Read.char) := by decide

/-- non-vacuity of C18_parse: keys, a stray ESC and half a report ahead of an 8-bit report, one failing read -/
example : C18.obs (getCursorPosition Spec.digitVal true
      ([.char 'a', .char '\x1b', .oserror, .char '\x1b', .char '[', .char '1', .char '\u009b', .char '2', .char '4',
        .char ';', .char '8', .char '0', .char 'R', .char 'x'])) =
    some (some (23, 79), some ['a', '\x1b', '\x1b', '[', '1'], [.char 'x']) := by decide

/-! ### the decimal round trip (what the terminal sends is what the parser reads) -/

theorem C18.digitVal_of_isDigit (c : Char) (h : c.isDigit = true) :
    Spec.digitVal c = some (c.toNat - '0'.toNat) := by
  unfold Spec.digitVal
  have : '0' ≤ c ∧ c ≤ '9' := by
    simp [Char.isDigit] at h
    exact ⟨h.1, h.2⟩
  rw [if_pos this]

theorem C18.valueFrom_digits (ds : List Char) (acc : Nat) (h : ∀ d ∈ ds, d.isDigit = true) :
    valueFrom Spec.digitVal acc ds = Nat.ofDigitChars 10 ds acc := by
  induction ds generalizing acc with
  | nil => simp [valueFrom]
  | cons d ds ih =>
    have hd := C18.digitVal_of_isDigit d (h d List.mem_cons_self)
    simp only [valueFrom, List.foldl_cons, Nat.ofDigitChars_cons, hd, Option.getD_some]
    have := ih (acc * 10 + (d.toNat - '0'.toNat)) (fun x hx => h x (List.mem_cons_of_mem _ hx))
    simp only [valueFrom] at this
    rw [this, Nat.mul_comm]

/-- decimal round trip: the digits a terminal sends for `n` are ASCII digits and read back as `n` -/
theorem C18_decimal (n : Nat) :
    Digits Spec.digitVal (Spec.Terminal.decimal n) ∧ value Spec.digitVal (Spec.Terminal.decimal n) = n := by
  have e : Spec.Terminal.decimal n = Nat.toDigits 10 n := by simp [Spec.Terminal.decimal]
  have hd : ∀ d ∈ Nat.toDigits 10 n, d.isDigit = true := fun d hd =>
    Nat.isDigit_of_mem_toDigits (by decide) (by decide) hd
  rw [e]
  refine ⟨⟨Nat.toDigits_ne_nil, fun d hd' => ?_⟩, ?_⟩
  · rw [C18.digitVal_of_isDigit d (hd d hd')]; rfl
  · rw [value, C18.valueFrom_digits _ _ hd]; exact Nat.ofDigitChars_ten_toDigits

/-! ### conservation -/

private theorem downLoop_sum (n : Nat) (top dy : Int) :
    (downLoop n top dy).1 + (downLoop n top dy).2 = top + dy := by
  induction n generalizing top dy with
  | zero => rfl
  | succ n ih =>
    unfold downLoop
    by_cases h : top > -1 ∧ dy > 0
    · rw [if_pos h, ih]; omega
    · rw [if_neg h]

private theorem upLoop_sum (n : Nat) (top dy : Int) :
    (upLoop n top dy).1 + (upLoop n top dy).2 = top + dy := by
  induction n generalizing top dy with
  | zero => rfl
  | succ n ih =>
    unfold upLoop
    by_cases h : top > 1 ∧ dy < 0
    · rw [if_pos h, ih]; omega
    · rw [if_neg h]

theorem C18_conserve (win : CAWin) (row : Int) :
    (diffOnce win row).1.lastCursorRow = some row ∧
    match win.lastCursorRow with
    | some last => ((diffOnce win row).1.top - win.top) + (diffOnce win row).2 = row - last
    | none => (diffOnce win row).1.top = win.top ∧ (diffOnce win row).2 = 0 := by
  unfold diffOnce
  cases h : win.lastCursorRow with
  | none => simp
  | some last =>
    simp only []
    have a := downLoop_sum (row - last).toNat win.top (row - last)
    have b := upLoop_sum (-(downLoop (row - last).toNat win.top (row - last)).2).toNat
      (downLoop (row - last).toNat win.top (row - last)).1 (downLoop (row - last).toNat win.top (row - last)).2
    refine ⟨trivial, ?_⟩
    omega

private theorem downLoop_exact (n : Nat) (top dy : Int) (hn : n = dy.toNat) :
    downLoop n top dy = if top > -1 ∧ dy > 0 then (top + dy, 0) else (top, dy) := by
  induction n generalizing top dy with
  | zero =>
    have : ¬ dy > 0 := by omega
    simp [downLoop, this]
  | succ n ih =>
    unfold downLoop
    by_cases h : top > -1 ∧ dy > 0
    · rw [if_pos h, if_pos h, ih _ _ (by omega)]
      by_cases h2 : top + 1 > -1 ∧ dy - 1 > 0
      · rw [if_pos h2]; congr 1; omega
      · rw [if_neg h2]; have : dy = 1 := by omega
        subst this; simp
    · rw [if_neg h, if_neg h]

private theorem upLoop_exact (n : Nat) (top dy : Int) (hn : n = (-dy).toNat) :
    upLoop n top dy = if top > 1 ∧ dy < 0 then (max 1 (top + dy), dy + (top - max 1 (top + dy))) else (top, dy) := by
  induction n generalizing top dy with
  | zero =>
    have : ¬ dy < 0 := by omega
    simp [upLoop, this]
  | succ n ih =>
    unfold upLoop
    by_cases h : top > 1 ∧ dy < 0
    · rw [if_pos h, if_pos h, ih _ _ (by omega)]
      by_cases h2 : top - 1 > 1 ∧ dy + 1 < 0
      · rw [if_pos h2]; congr 1 <;> omega
      · rw [if_neg h2]; congr 1 <;> omega
    · rw [if_neg h, if_neg h]

/-- closed form of the two clamped loops for a window whose origin is on the screen (`0 ≤ top`): content that moved
    down moves the origin down with it; content that moved up moves the origin up but not above row 1, and the rest is
    returned. -/
theorem C18_once_exact (win : CAWin) (row last : Int) (hl : win.lastCursorRow = some last) (ht : 0 ≤ win.top) :
    (diffOnce win row).1.top = (if row ≥ last then win.top + (row - last)
                                else if win.top > 1 then max 1 (win.top + (row - last)) else win.top) ∧
    (diffOnce win row).2 = (if row ≥ last then 0
                            else if win.top > 1 then (row - last) + (win.top - max 1 (win.top + (row - last))) else row - last) ∧
    0 ≤ (diffOnce win row).1.top := by
  unfold diffOnce
  rw [hl]
  simp only []
  rw [downLoop_exact _ _ _ rfl]
  by_cases h : win.top > -1 ∧ row - last > 0
  · rw [if_pos h]
    simp only []
    rw [upLoop_exact _ _ _ rfl]
    have : ¬ (win.top + (row - last) > 1 ∧ (0 : Int) < 0) := by omega
    rw [if_neg this]
    have : row ≥ last := by omega
    simp only [if_pos this]
    (repeat' constructor) <;> omega
  · rw [if_neg h]
    simp only []
    rw [upLoop_exact _ _ _ rfl]
    by_cases h2 : win.top > 1 ∧ row - last < 0
    · rw [if_pos h2]
      have : ¬ row ≥ last := by omega
      simp only [if_neg this, if_pos h2.1]
      (repeat' constructor) <;> omega
    · rw [if_neg h2]
      by_cases h3 : row ≥ last
      · simp only [if_pos h3]; (repeat' constructor) <;> omega
      · have : ¬ win.top > 1 := by omega
        simp only [if_neg h3, if_neg this]; (repeat' constructor) <;> omega

/-! ### nested calls and failing queries -/

/-- the row a round reports (0 for a failing query; only used for rounds known to report) -/
def Window.Round.rowD (rd : Round) : Int :=
  match rd.outcome with
  | .row r => r
  | .raises _ => 0

/-- a call arriving while a query is in progress returns 0 at once, reads nothing and only raises the flag -/
theorem C18_nested_zero (win : CAWin) (rounds : List Round) (h : win.inDiff = true) :
    cursorVerticalDiff win rounds = some ({ win with anotherSigwinch := true }, .ok 0, rounds) := by
  simp [cursorVerticalDiff, h, nestedCall]

private theorem nestedCalls_eq (n : Nat) (win : CAWin) :
    nestedCalls n win = { win with anotherSigwinch := win.anotherSigwinch || decide (n > 0) } := by
  induction n generalizing win with
  | zero => simp [nestedCalls]
  | succ n ih => simp [nestedCalls, ih, nestedCall]

private theorem diffOnce_flags (win : CAWin) (row : Int) :
    (diffOnce win row).1.inDiff = win.inDiff ∧ (diffOnce win row).1.anotherSigwinch = win.anotherSigwinch := by
  unfold diffOnce
  cases win.lastCursorRow <;> simp

private theorem diffLoop_cons_row (acc : Int) (win : CAWin) (rd : Round) (rest : List Round) (r : Int)
    (h : rd.outcome = .row r) :
    diffLoop acc win (rd :: rest) =
      let w1 : CAWin := { win with inDiff := true, anotherSigwinch := decide (rd.nested > 0) }
      if !(diffOnce w1 r).1.anotherSigwinch then
        some ({ (diffOnce w1 r).1 with inDiff := false }, .ok (acc + (diffOnce w1 r).2), rest)
      else diffLoop (acc + (diffOnce w1 r).2) { (diffOnce w1 r).1 with inDiff := false } rest := by
  rw [diffLoop]
  simp only [nestedCalls_eq, Bool.false_or, h]

private theorem diffLoop_cons_raises (acc : Int) (win : CAWin) (rd : Round) (rest : List Round) (e : PyErr)
    (h : rd.outcome = .raises e) :
    diffLoop acc win (rd :: rest) =
      some ({ win with inDiff := false, anotherSigwinch := decide (rd.nested > 0) }, .error e, rest) := by
  rw [diffLoop]
  simp only [nestedCalls_eq, Bool.false_or, h]

/-- what one pass over the script does, for both ways it can end -/
private theorem diffLoop_spec (acc : Int) (win : CAWin) (rounds : List Round) (win' : CAWin)
    (res : Except PyErr Int) (rest : List Round) (h : diffLoop acc win rounds = some (win', res, rest)) :
    ∃ used : List Round, ∃ final : Round, rounds = used ++ final :: rest ∧
      (∀ rd ∈ used, rd.nested > 0 ∧ ∃ r, rd.outcome = .row r) ∧ win'.inDiff = false ∧
      (∀ ret, res = .ok ret → final.nested = 0 ∧ (∃ r, final.outcome = .row r) ∧ win'.anotherSigwinch = false ∧
          win'.lastCursorRow = some final.rowD ∧
          (win'.top - win.top) + (ret - acc) =
            final.rowD - win.lastCursorRow.getD ((used ++ [final]).head (by simp)).rowD) ∧
      (∀ e, res = .error e → final.outcome = .raises e ∧
          (used = [] → win'.top = win.top ∧ win'.lastCursorRow = win.lastCursorRow)) := by
  induction rounds generalizing acc win with
  | nil => simp [diffLoop] at h
  | cons rd rds ih =>
    cases ho : rd.outcome with
    | raises e =>
      rw [diffLoop_cons_raises acc win rd rds e ho] at h
      simp only [Option.some.injEq, Prod.mk.injEq] at h
      obtain ⟨e1, e2, e3⟩ := h
      subst e1 e2 e3
      refine ⟨[], rd, rfl, by simp, rfl, fun ret hr => (by cases hr), fun e' he => ?_⟩
      cases he
      exact ⟨ho, fun _ => ⟨rfl, rfl⟩⟩
    | row r =>
      rw [diffLoop_cons_row acc win rd rds r ho] at h
      simp only [] at h
      generalize hw : ({ win with inDiff := true, anotherSigwinch := decide (rd.nested > 0) } : CAWin) = w1 at h
      have hc := C18_conserve w1 r
      have hf := diffOnce_flags w1 r
      have ht : w1.top = win.top := by rw [← hw]
      have hl : w1.lastCursorRow = win.lastCursorRow := by rw [← hw]
      have ha : w1.anotherSigwinch = decide (rd.nested > 0) := by rw [← hw]
      have hrd : rd.rowD = r := by simp [Round.rowD, ho]
      have hcons : (diffOnce w1 r).1.top - win.top + (diffOnce w1 r).2 = r - win.lastCursorRow.getD r := by
        rw [hl] at hc
        cases hwl : win.lastCursorRow with
        | none => rw [hwl] at hc; simp only [Option.getD_none]; have := hc.2; omega
        | some last => rw [hwl] at hc; simp only [Option.getD_some]; have := hc.2; omega
      by_cases hn : rd.nested > 0
      · have hb : (!(diffOnce w1 r).1.anotherSigwinch) = false := by rw [hf.2, ha]; simp [hn]
        simp only [hb] at h
        obtain ⟨used, final, e1, e2, e3, e4, e5⟩ := ih _ _ h
        refine ⟨rd :: used, final, by rw [e1]; rfl, ?_, e3, ?_, ?_⟩
        · intro x hx
          rcases List.mem_cons.mp hx with hx | hx
          · subst hx; exact ⟨hn, r, ho⟩
          · exact e2 x hx
        · intro ret hret
          obtain ⟨f1, f2, f3, f4, f5⟩ := e4 ret hret
          refine ⟨f1, f2, f3, f4, ?_⟩
          simp only [hc.1, Option.getD_some] at f5
          simp only [List.cons_append, List.head_cons, hrd]
          cases hwl : win.lastCursorRow with
          | none => rw [hwl] at hcons; simp only [Option.getD_none] at hcons ⊢; omega
          | some last => rw [hwl] at hcons; simp only [Option.getD_some] at hcons ⊢; omega
        · intro e he
          exact ⟨(e5 e he).1, fun hu => by cases hu⟩
      · have hb : (!(diffOnce w1 r).1.anotherSigwinch) = true := by rw [hf.2, ha]; simp [hn]
        simp only [hb, if_true, Option.some.injEq, Prod.mk.injEq] at h
        obtain ⟨e1, e2, e3⟩ := h
        subst e1 e2 e3
        refine ⟨[], rd, rfl, by simp, rfl, fun ret hret => ?_, fun e he => (by cases he)⟩
        cases hret
        refine ⟨by omega, ⟨r, ho⟩, ?_, ?_, ?_⟩
        · show (diffOnce w1 r).1.anotherSigwinch = false
          rw [hf.2, ha]; simp [hn]
        · show (diffOnce w1 r).1.lastCursorRow = some rd.rowD
          rw [hrd]; exact hc.1
        · simp only [List.nil_append, List.head_cons, hrd]
          show (diffOnce w1 r).1.top - win.top + (acc + (diffOnce w1 r).2 - acc) = _
          omega

/-- `get_cursor_vertical_diff` (not itself nested) returning normally, over any script of queries, each disturbed by
    any number of nested calls: it consumes the queries up to and including the first undisturbed one
    (`used ++ [final]`, all of which reported a row), ends with both flags clear and `_last_cursor_row` = the last
    reported row, and (change of top_usable_row) + returned = last reported row - previously known row
    (the first reported row when none was known: nothing to account for before it). -/
theorem C18_nested (win : CAWin) (rounds : List Round) (win' : CAWin) (ret : Int) (rest : List Round)
    (hin : win.inDiff = false) (h : cursorVerticalDiff win rounds = some (win', .ok ret, rest)) :
    ∃ used : List Round, ∃ final : Round, rounds = used ++ final :: rest ∧
      (∀ rd ∈ used, rd.nested > 0 ∧ ∃ r, rd.outcome = .row r) ∧
      final.nested = 0 ∧ (∃ r, final.outcome = .row r) ∧
      win'.inDiff = false ∧ win'.anotherSigwinch = false ∧ win'.lastCursorRow = some final.rowD ∧
      (win'.top - win.top) + ret =
        final.rowD - win.lastCursorRow.getD ((used ++ [final]).head (by simp)).rowD := by
  simp only [cursorVerticalDiff, hin] at h
  obtain ⟨used, final, h1, h2, h3, hok, _⟩ := diffLoop_spec 0 win rounds win' (.ok ret) rest (by simpa using h)
  obtain ⟨h4, h5, h6, h7, h8⟩ := hok ret rfl
  exact ⟨used, final, h1, h2, h4, h5, h3, h6, h7, by simpa using h8⟩

/-- The failure path (`try/finally`, fix 2c90190): when a query raises — input ahead of the report with no callback,
    or a read returning '' — the exception propagates, but `in_get_cursor_diff` is clear again; the failing round
    changed nothing else, and when it was the first round the window is exactly as before (apart from the
    `another_sigwinch` flag, which the next call resets). -/
theorem C18_error_recovers (win : CAWin) (rounds : List Round) (win' : CAWin) (e : PyErr) (rest : List Round)
    (hin : win.inDiff = false) (h : cursorVerticalDiff win rounds = some (win', .error e, rest)) :
    win'.inDiff = false ∧
    ∃ used : List Round, ∃ final : Round, rounds = used ++ final :: rest ∧
      (∀ rd ∈ used, rd.nested > 0 ∧ ∃ r, rd.outcome = .row r) ∧ final.outcome = .raises e ∧
      (used = [] → win'.top = win.top ∧ win'.lastCursorRow = win.lastCursorRow) := by
  simp only [cursorVerticalDiff, hin] at h
  obtain ⟨used, final, h1, h2, h3, _, herr⟩ := diffLoop_spec 0 win rounds win' (.error e) rest (by simpa using h)
  exact ⟨h3, used, final, h1, h2, (herr e rfl).1, (herr e rfl).2⟩

/-- ... so the next call is an ordinary one: it is not mistaken for a nested call (it does query the terminal) and it
    accounts for the movement since the last row the window knew.  (Before the fix the flag stayed set and every later
    call returned 0 without querying: `C18_nested_zero`.) -/
theorem C18_error_then_ok (win : CAWin) (rounds : List Round) (win' : CAWin) (e : PyErr) (rest : List Round)
    (hin : win.inDiff = false) (h : cursorVerticalDiff win rounds = some (win', .error e, rest))
    (rounds2 : List Round) (win'' : CAWin) (ret : Int) (rest2 : List Round)
    (h2 : cursorVerticalDiff win' rounds2 = some (win'', .ok ret, rest2)) :
    ∃ used : List Round, ∃ final : Round, rounds2 = used ++ final :: rest2 ∧ final.nested = 0 ∧
      win''.inDiff = false ∧ win''.lastCursorRow = some final.rowD ∧
      (win''.top - win'.top) + ret =
        final.rowD - win'.lastCursorRow.getD ((used ++ [final]).head (by simp)).rowD := by
  obtain ⟨used, final, a1, _, a3, _, a5, _, a7, a8⟩ :=
    C18_nested win' rounds2 win'' ret rest2 (C18_error_recovers win rounds win' e rest hin h).1 h2
  exact ⟨used, final, a1, a3, a5, a7, a8⟩

/-- it blocks (waits for another report) exactly when every scripted query reported a row and was disturbed -/
theorem C18_nested_blocks (win : CAWin) (rounds : List Round) (hin : win.inDiff = false)
    (hall : ∀ rd ∈ rounds, rd.nested > 0 ∧ ∃ r, rd.outcome = .row r) : cursorVerticalDiff win rounds = none := by
  simp only [cursorVerticalDiff, hin]
  have : ∀ acc w, diffLoop acc w rounds = none := by
    induction rounds with
    | nil => intro acc w; rfl
    | cons rd rds ih =>
      intro acc w
      obtain ⟨hn, r, ho⟩ := hall rd List.mem_cons_self
      rw [diffLoop_cons_row acc w rd rds r ho]
      simp only []
      have hf := diffOnce_flags ({ w with inDiff := true, anotherSigwinch := decide (rd.nested > 0) } : CAWin) r
      have hb : (!(diffOnce ({ w with inDiff := true, anotherSigwinch := decide (rd.nested > 0) } : CAWin) r).1.anotherSigwinch) = false := by
        rw [hf.2]; simp [hn]
      simp only [hb]
      exact ih (fun x hx => hall x (List.mem_cons_of_mem _ hx)) _ _
  simpa using this 0 win

/-- non-vacuity: two disturbed queries, then an undisturbed one; the cursor went from row 5 to row 9 -/
example : (cursorVerticalDiff { top := 3, lastCursorRow := some 5 }
      [⟨.row 7, 2⟩, ⟨.row 4, 1⟩, ⟨.row 9, 0⟩, ⟨.row 1, 0⟩]).map
    (fun (w, r, rest) => (w.top, (match r with | .ok x => some x | .error _ => none), rest.length)) = some (7, some 0, 1) := by
  decide

/-- non-vacuity of the failure path: a disturbed query, then a failing one; the flag is clear afterwards -/
example : (cursorVerticalDiff { top := 3, lastCursorRow := some 5 }
      [⟨.row 7, 1⟩, ⟨.raises .valueError, 0⟩, ⟨.row 9, 0⟩]).map
    (fun (w, r, rest) => (w.top, w.inDiff, (match r with | .ok _ => true | .error _ => false), rest.length)) =
    some (5, false, false, 1) := by
  decide

end Curtsies
