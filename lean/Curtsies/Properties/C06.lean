import Curtsies.Model.FmtStr
namespace Curtsies
theorem C06_placeholder : True := trivial
end Curtsies
