/-
  C06 - Indexing, slicing, +, * and join act like str and carry formatting along.

  Statement level: `cells f` is the per-character view (character, attribute dict of its run);
  `text f = (cells f).map fst` (`text_eq_cells`) and `len f = (cells f).length` (`cells_length`), so each
  theorem below about `cells` gives the "same text as str", "len = number of characters" and
  "every character keeps its formatting" clauses at once (C06_text / C06_len make that explicit).
  Python's own slicing/indexing/repeat/join semantics are the independent definitions in Spec/PySlice.lean.

  Hypotheses: none beyond the types, except for plain-`str` ITEMS OF JOIN: `+` wraps a str operand with
  `Chunk(other)` (no parsing, `C06_add_str`/`C06_radd_str` hold for every text), but `join` converts str items
  with `fmtstr(s)`, which parses escape sequences. For str items free of `ESC[` the conversion is the
  identity wrapping (`C17_plain`) and `C06_join_items_partial` gives the property; for a str item containing
  `ESC[` the property is FALSE of the code (open finding D27): `C06_join_items_full_statement` is kept visible
  and refuted by `C06_D27_witness`.  A slice step is rejected (`C06_step`, outside the statement).
-/
import Curtsies.Model.FmtStr
import Curtsies.Model.Operand
import Curtsies.Spec.PySlice
import Curtsies.Proofs.Slice
import Curtsies.Properties.C17
namespace Curtsies
open Spec

theorem cells_emptyFmt : cells emptyFmt = [] := rfl

private theorem take_drop_clamp (l : List α) (s e : Nat) :
    (l.take e).drop s = (l.take (min e l.length)).drop (min s l.length) := by
  by_cases he : e ≤ l.length
  · by_cases hs : s ≤ l.length
    · simp [Nat.min_eq_left he, Nat.min_eq_left hs]
    · have h1 : min s l.length = l.length := by omega
      rw [Nat.min_eq_left he, h1]
      rw [List.drop_eq_nil_of_le (by rw [List.length_take]; omega)]
      rw [List.drop_eq_nil_of_le (by rw [List.length_take]; omega)]
  · have h1 : min e l.length = l.length := by omega
    rw [h1, List.take_of_length_le (by omega), List.take_of_length_le (Nat.le_refl _)]
    by_cases hs : s ≤ l.length
    · simp [Nat.min_eq_left hs]
    · have h2 : min s l.length = l.length := by omega
      rw [h2, List.drop_eq_nil_of_le (by omega), List.drop_eq_nil_of_le (Nat.le_refl _)]

private theorem bound_eq (L : Nat) (x : Option Int) (d : Nat) (hd : d ≤ L) :
    min (Int.toNat (let v := x.getD (d : Int); if v < 0 then max 0 ((L : Int) + v) else v)) L
      = sliceBound L x d := by
  cases x with
  | none => simp [sliceBound]; omega
  | some v =>
    simp only [Option.getD_some, sliceBound]
    by_cases h : v < 0
    · simp only [if_pos h]; omega
    · simp only [if_neg h]; try omega

private theorem getslice_cells (f : FmtStr) (s e : Nat) :
    cells (getslice f s e) = ((cells f).take e).drop s := by
  have := getitemLoop_cells s e f 0
  simp only [Nat.sub_zero] at this
  unfold getslice
  simp only []
  by_cases h : (getitemLoop s e 0 f).isEmpty
  · rw [if_pos h, cells_emptyFmt, ← this]
    have : getitemLoop s e 0 f = [] := List.isEmpty_iff.mp h
    rw [this]; rfl
  · rw [if_neg h, this]

private theorem normalizeSlice_int (L : Nat) (i : Int) :
    normalizeSlice L (.int i) =
      if 0 ≤ i ∧ i < L then .ok (i.toNat, i.toNat + 1)
      else if i < 0 ∧ -(L:Int) ≤ i then .ok (((L:Int) + i).toNat, ((L:Int) + i).toNat + 1)
      else .error .indexError := by
  unfold normalizeSlice
  simp only []
  grind

private theorem take_succ_drop (l : List α) (k : Nat) (h : k < l.length) :
    (l.take (k+1)).drop k = [l[k]] := by
  induction l generalizing k with
  | nil => simp at h
  | cons x xs ih =>
    cases k with
    | zero => simp
    | succ k => simp at h ⊢; exact ih k (by omega)

private theorem getitem_ok (f : FmtStr) (idx : Index) (s e : Nat)
    (h : normalizeSlice (len f) idx = .ok (s, e)) : getitem f idx = .ok (getslice f s e) := by
  simp [getitem, h, bind, Except.bind, getslice, pure, Except.pure]

/-- Slicing: for every FmtStr and every pair of bounds (negative, None, past the end, empty ranges),
    `f[a:b]` succeeds and its cells are Python's slice of the cells of `f`. -/
theorem C06_slice (f : FmtStr) (a b : Option Int) :
    ∃ r, getitem f (.slice a b false) = .ok r ∧ cells r = pySlice (cells f) a b := by
  refine ⟨_, getitem_ok f _ _ _ (by simp [normalizeSlice]; exact ⟨rfl, rfl⟩), ?_⟩
  have hL : (cells f).length = len f := cells_length f
  rw [getslice_cells, take_drop_clamp, pySlice, hL]
  have e1 := bound_eq (len f) a 0 (Nat.zero_le _)
  have e2 := bound_eq (len f) b (len f) (Nat.le_refl _)
  simp only [Int.natCast_zero] at e1
  simp only [] at e1 e2
  rw [← e1, ← e2]

/-- Slicing with a step is not supported (outside the property; stated so that nothing is totalised). -/
theorem C06_step (f : FmtStr) (a b : Option Int) :
    getitem f (.slice a b true) = .error .notImplementedError := by
  simp [getitem, normalizeSlice, bind, Except.bind]

/-- Integer indexing: in range (negative indices included) gives exactly that one cell; out of range
    raises IndexError, as `str` does. -/
theorem C06_index (f : FmtStr) (i : Int) :
    (match pyIndex (cells f) i with
     | some c => ∃ r, getitem f (.int i) = .ok r ∧ cells r = [c]
     | none => getitem f (.int i) = .error .indexError) := by
  have hL : (cells f).length = len f := cells_length f
  have hn := normalizeSlice_int (len f) i
  unfold pyIndex
  simp only [hL]
  by_cases h1 : 0 ≤ i ∧ i < (len f : Int)
  · rw [if_pos h1] at hn ⊢
    have hk : i.toNat < (cells f).length := by omega
    rw [List.getElem?_eq_getElem hk]
    exact ⟨_, getitem_ok f _ _ _ hn, by rw [getslice_cells, take_succ_drop _ _ hk]⟩
  · rw [if_neg h1] at hn ⊢
    by_cases h2 : i < 0 ∧ -(len f : Int) ≤ i
    · rw [if_pos h2] at hn ⊢
      have hk : ((len f : Int) + i).toNat < (cells f).length := by omega
      rw [List.getElem?_eq_getElem hk]
      exact ⟨_, getitem_ok f _ _ _ hn, by rw [getslice_cells, take_succ_drop _ _ hk]⟩
    · rw [if_neg h2] at hn ⊢
      simp [getitem, hn, bind, Except.bind]

/-- `f + g` -/
theorem C06_add (f g : FmtStr) : cells (add f g) = cells f ++ cells g := by simp [add]
/-- `f + "str"`: the str's characters are unformatted. -/
theorem C06_add_str (f : FmtStr) (t : Text) : cells (addStr f t) = cells f ++ plainCells t := by
  simp [addStr, plainCells, Chunk.cells]
/-- `"str" + f` -/
theorem C06_radd_str (f : FmtStr) (t : Text) : cells (raddStr f t) = plainCells t ++ cells f := by
  simp [raddStr, plainCells, Chunk.cells]

/-- `f * n` for every integer n (negative counts give the empty string). -/
theorem C06_mul (f : FmtStr) (n : Int) : cells (mul f n) = pyRepeat (cells f) n := by
  simp only [mul, pyRepeat]
  induction n.toNat with
  | zero => simp
  | succ k ih => simp [List.replicate_succ, ih]

/-- `sep.join(items)` -/
theorem C06_join (sep : FmtStr) (items : List FmtStr) :
    cells (join sep items) = pyJoin (cells sep) (items.map cells) := by
  unfold join
  cases items with
  | nil => simp [joinLoop, pyJoin]
  | cons x xs =>
    simp only [joinLoop, List.nil_append]
    induction xs generalizing x with
    | nil => simp [joinLoop, pyJoin]
    | cons y ys ih =>
      have := ih y
      simp only [List.map_cons, cells_append] at this
      simp only [joinLoop, cells_append, List.map_cons, pyJoin, this, List.append_assoc]

/-- `n * f` (reflected repetition, `__rmul__ = __mul__`) -/
theorem C06_rmul (f : FmtStr) (n : Int) : cells (rmul n f) = pyRepeat (cells f) n := C06_mul f n

private theorem toFmt_escfree (md : Nat) (o : Operand) (h : o.EscFree) :
    ∃ g, o.toFmt md = .ok g ∧ cells g = o.cells := by
  cases o with
  | fmt f => exact ⟨f, rfl, rfl⟩
  | str t =>
    refine ⟨[⟨t, {}⟩], ?_, ?_⟩
    · simp only [Operand.toFmt, C17_plain md t h, Except.map, copyWithNewAtts_empty]
    · simp [Operand.cells, plainCells, Chunk.cells]

private theorem mapM_toFmt (md : Nat) (items : List Operand) (h : ∀ o ∈ items, o.EscFree) :
    ∃ gs, items.mapM (Operand.toFmt md) = .ok gs ∧ gs.map cells = items.map Operand.cells := by
  induction items with
  | nil => exact ⟨[], rfl, rfl⟩
  | cons o os ih =>
    obtain ⟨g, hg, hc⟩ := toFmt_escfree md o (h o (by simp))
    obtain ⟨gs, hgs, hcs⟩ := ih (fun x hx => h x (by simp [hx]))
    refine ⟨g :: gs, ?_, by simp [hc, hcs]⟩
    simp [List.mapM_cons, hg, hgs, bind, Except.bind, pure, Except.pure]

/-- The full statement for join with str items: every str item's characters come out verbatim and
    unformatted.  FALSE of the code for str items containing `ESC[` (finding D27). -/
def C06_join_items_full_statement : Prop :=
  ∀ (md : Nat) (sep : FmtStr) (items : List Operand),
    ∃ r, joinItems md sep items = .ok r ∧ cells r = pyJoin (cells sep) (items.map Operand.cells)

/-- join with str / FmtStr items, str items free of `ESC[` (complement of D27's footprint). -/
theorem C06_join_items_partial (md : Nat) (sep : FmtStr) (items : List Operand) (h : ∀ o ∈ items, o.EscFree) :
    ∃ r, joinItems md sep items = .ok r ∧ cells r = pyJoin (cells sep) (items.map Operand.cells) := by
  obtain ⟨gs, hgs, hcs⟩ := mapM_toFmt md items h
  refine ⟨join sep gs, by simp [joinItems, hgs, Except.map], ?_⟩
  rw [C06_join, hcs]

private instance c06ExceptDecEq : DecidableEq (Except PyErr FmtStr) := fun a b =>
  match a, b with
  | .ok x, .ok y => if h : x = y then isTrue (by rw [h]) else isFalse (fun e => by cases e; exact h rfl)
  | .error x, .error y => if h : x = y then isTrue (by rw [h]) else isFalse (fun e => by cases e; exact h rfl)
  | .ok _, .error _ => isFalse (fun e => by cases e)
  | .error _, .ok _ => isFalse (fun e => by cases e)

/-- D27 on the model: the str item "ESC[31mx" is parsed - one red character instead of six plain ones. -/
theorem C06_D27_witness :
    joinItems 4300 [] [.str [ESC, '[', '3', '1', 'm', 'x']] = .ok [⟨['x'], {fg := some 1}⟩] ∧
    ¬ C06_join_items_full_statement := by
  have h1 : joinItems 4300 [] [.str [ESC, '[', '3', '1', 'm', 'x']] = .ok [⟨['x'], {fg := some 1}⟩] := by
    decide +kernel
  refine ⟨h1, fun hfull => ?_⟩
  obtain ⟨r, hr, hc⟩ := hfull 4300 [] [.str [ESC, '[', '3', '1', 'm', 'x']]
  rw [h1] at hr
  cases hr
  revert hc
  decide

/-- text-level forms: the text of each result is the str operation on the operands' texts -/
theorem C06_add_text (f g : FmtStr) : text (add f g) = text f ++ text g := by
  simp [text_eq_cells, C06_add]
theorem C06_add_str_text (f : FmtStr) (t : Text) : text (addStr f t) = text f ++ t := by
  simp [text_eq_cells, C06_add_str, plainCells, List.map_map, Function.comp_def]
theorem C06_radd_str_text (f : FmtStr) (t : Text) : text (raddStr f t) = t ++ text f := by
  simp [text_eq_cells, C06_radd_str, plainCells, List.map_map, Function.comp_def]
theorem C06_mul_text (f : FmtStr) (n : Int) : text (mul f n) = pyRepeat (text f) n := by
  rw [text_eq_cells, C06_mul, text_eq_cells]
  simp only [pyRepeat]
  induction n.toNat with
  | zero => simp
  | succ k ih => simp [List.replicate_succ, ih]

/-- The text of any FmtStr is the first components of its cells: a result whose cells are the str-operation
    of the operands' cells has the text the str-operation gives on the operands' texts. -/
theorem C06_text (f : FmtStr) : text f = (cells f).map Prod.fst := text_eq_cells f
/-- `len()` is the number of characters. -/
theorem C06_len (f : FmtStr) : len f = (cells f).length := (cells_length f).symm

/-- The text of a slice is the str slice of the text (slicing commutes with `map fst`). -/
theorem C06_slice_text (f : FmtStr) (a b : Option Int) :
    ∃ r, getitem f (.slice a b false) = .ok r ∧ text r = pySlice (text f) a b ∧
      len r = (pySlice (text f) a b).length := by
  obtain ⟨r, h1, h2⟩ := C06_slice f a b
  refine ⟨r, h1, ?_, ?_⟩
  · rw [text_eq_cells, h2, text_eq_cells]
    simp [pySlice, List.map_take, List.map_drop]
  · rw [← cells_length, h2, text_eq_cells]
    simp [pySlice]

/-- Non-vacuity: a three-run string with an empty run, negative bounds. -/
example : ∃ r, getitem [⟨['a','b'], {fg := some 1}⟩, ⟨[], {}⟩, ⟨['c','d'], {bold := some true}⟩]
    (.slice (some (-3)) (some (-1)) false) = .ok r ∧
    cells r = [('b', {fg := some 1}), ('c', {bold := some true})] := ⟨_, rfl, by decide⟩

end Curtsies
