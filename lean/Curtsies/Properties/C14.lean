/-
  C14 - Applying or removing formatting touches exactly the named attributes.

  * what a specification MEANS is `denote` below: a declarative reading of positional names, keyword
    names, colour numbers and `style=` that does not follow `parse_args`' control flow (per attribute:
    who names it, and is that consistent);
  * `C14_apply` / `C14_override`: applying an attribute dict sets exactly its entries on every character,
    overriding an earlier value of the same attribute, leaving the text and all other attributes alone;
  * `C14_spellings_*`: positional ≡ keyword name ≡ number ≡ `style=` ≡ the fmtfuncs helper, over the
    REGENERATED tables (`decide +kernel`; a changed table re-opens these);
  * `C14_remove` / `C14_remove_key`, `C14_newstr`, `C14_shared`;
  * the soundness/completeness of `parse_args` against `denote` is stated here (`C14_full_statement`) and proved in
    Properties/C14Sound.lean (`C14_sound_complete`, `C14_error_kind`).

  Hypotheses: keyword names are distinct (Python rejects a repeated keyword at the call);
  `str.lower` is a parameter; the spelling theorems are stated for a `lower` that leaves the (lower-case)
  table names alone (`C14_lower_congr` transfers them to any such `lower`).
-/
import Curtsies.Model.ParseArgs
import Curtsies.Model.FmtStr
import Curtsies.Generated.Fmtfuncs
namespace Curtsies

instance exceptDecEq [DecidableEq ε] [DecidableEq α] : DecidableEq (Except ε α)
  | .ok a, .ok b => if h : a = b then isTrue (by rw [h]) else isFalse (by intro e; injection e; contradiction)
  | .error a, .error b => if h : a = b then isTrue (by rw [h]) else isFalse (by intro e; injection e; contradiction)
  | .ok _, .error _ => isFalse (by intro e; cases e)
  | .error _, .ok _ => isFalse (by intro e; cases e)

/-! ### the tables the specification is written against -/

/-- The six styles (a new STYLE would change rendering, so this table stays an equality). -/
def styleTable : List (String × Nat) :=
  [("bold", 1), ("dark", 2), ("italic", 3), ("underline", 4), ("blink", 5), ("invert", 7)]
def styleNames : List (String × Key) :=
  [("bold", .bold), ("dark", .dark), ("italic", .italic), ("underline", .underline), ("blink", .blink), ("invert", .invert)]
/-- The eight canonical colour names (what `repr` prints: the number -> name tables). -/
def colourNames : List String := ["black", "red", "green", "yellow", "blue", "magenta", "cyan", "gray"]
def colourName (i : Fin 8) : String := colourNames[i.val]!

/-- What the specification needs of the LIVE colour tables (`FG_COLORS`, `BG_COLORS`, regenerated every run) - any
    table of names, aliases included, will do as long as it is well-formed:
    every foreground value is one of the codes 30..37 and each of them has at least one name; likewise 40..47;
    both tables have the same names in the same order and a name's background code is its foreground code + 10
    (so `on_<name>` is the background of the SAME colour); the style table is the six styles. -/
def TablesWF : Prop :=
  (∀ p ∈ Generated.fgColors, 30 ≤ p.2 ∧ p.2 < 38) ∧
  (∀ i : Fin 8, Generated.fgColors.any (fun p => p.2 == 30 + i.val) = true) ∧
  (∀ p ∈ Generated.bgColors, 40 ≤ p.2 ∧ p.2 < 48) ∧
  (∀ i : Fin 8, Generated.bgColors.any (fun p => p.2 == 40 + i.val) = true) ∧
  Generated.bgColors = Generated.fgColors.map (fun p => (p.1, p.2 + 10)) ∧
  Generated.styles = styleTable

/-- The live tables are well-formed (kernel evaluation over the regenerated tables). -/
theorem C14_tables : TablesWF := by
  unfold TablesWF
  decide +kernel

/-! ### what a specification denotes -/

/-- A colour number `base .. base+7` as an index 0..7 (the specification's own reading; it does not use the
    model's helpers). -/
def specColour (base : Int) (i : Int) : Option (Fin 8) :=
  if h : base ≤ i ∧ i < base + 8 then some ⟨(i - base).toNat, by omega⟩ else none

/-- A colour given by name (looked up in `table`), as an index 0..7. -/
def colourOfName (table : List (String × Nat)) (base : Int) (s : String) : Option (Fin 8) :=
  (table.lookup s).bind fun code => specColour base code

/-- `l` begins with the three characters `on_`. -/
def onPrefix (l : String) : Bool := l.toList.take 3 == ['o', 'n', '_']
/-- `s` without its first three characters. -/
def afterOn (s : String) : String := String.ofList (s.toList.drop 3)

/-- What one positional argument names (case-insensitively): a foreground colour, `on_` + a background
    colour, or a style; `none` = nothing (unknown name or not a string). -/
def posName (lower : String → String) : ArgVal → Option (Key × Option (Fin 8))
  | .str s =>
    match colourOfName Generated.fgColors 30 (lower s) with
    | some c => some (.fg, some c)
    | none =>
      match (if onPrefix (lower s) then colourOfName Generated.bgColors 40 (lower (afterOn s)) else none) with
      | some c => some (.bg, some c)
      | none => (styleNames.lookup (lower s)).map fun k => (k, none)
  | _ => none

/-- The colour a keyword value stands for: a colour name or an in-range int (a bool or float is neither). -/
def kwColour (table : List (String × Nat)) (base : Int) : ArgVal → Option (Fin 8)
  | .str s => colourOfName table base s
  | .int i => specColour base i
  | _ => none

/-- A colour attribute: named at most once, by keyword (`kwv`) or by one positional (`pos`).
    Outer `none` = invalid specification; `some none` = not named. -/
def resolveColour (table : List (String × Nat)) (base : Int) (kwv : Option ArgVal) (pos : List (Fin 8)) :
    Option (Option (Fin 8)) :=
  match kwv, pos with
  | none, [] => some none
  | none, [c] => some (some c)
  | some v, [] => (kwColour table base v).map some
  | _, _ => none

/-- A style attribute: a keyword value must be a bool; positional mentions mean `True` and must not
    contradict the keyword. -/
def resolveStyle (kwv : Option ArgVal) (posNamed : Bool) : Option (Option Bool) :=
  match kwv, posNamed with
  | none, false => some none
  | none, true => some (some true)
  | some (.bool b), false => some (some b)
  | some (.bool true), true => some (some true)
  | _, _ => none

def Key.name : Key → String
  | .bg => "bg" | .blink => "blink" | .bold => "bold" | .dark => "dark" | .fg => "fg"
  | .invert => "invert" | .italic => "italic" | .underline => "underline"

def isKnownKey (s : String) : Bool := Key.all.any fun k => k.name == s

/-- The attribute dict a specification denotes; `none` = the specification is invalid. -/
def denote (lower : String → String) (args : List ArgVal) (kwargs : Kw) : Option Atts :=
  let args := args ++ (kwargs.get? "style").toList         -- `style=x` is one more positional
  let kw := kwargs.del "style"
  match args.mapM (posName lower) with
  | none => none                                           -- some positional names nothing
  | some named =>
    if kw.all (fun p => isKnownKey p.1) then do
      let cols (k : Key) : List (Fin 8) := named.filterMap fun p => if p.1 = k then p.2 else none
      let has (k : Key) : Bool := named.any fun p => p.1 = k
      let bg ← resolveColour Generated.bgColors 40 (kw.get? "bg") (cols .bg)
      let blink ← resolveStyle (kw.get? "blink") (has .blink)
      let bold ← resolveStyle (kw.get? "bold") (has .bold)
      let dark ← resolveStyle (kw.get? "dark") (has .dark)
      let fg ← resolveColour Generated.fgColors 30 (kw.get? "fg") (cols .fg)
      let invert ← resolveStyle (kw.get? "invert") (has .invert)
      let italic ← resolveStyle (kw.get? "italic") (has .italic)
      let underline ← resolveStyle (kw.get? "underline") (has .underline)
      pure { bg, blink, bold, dark, fg, invert, italic, underline }
    else none                                              -- unknown keyword

/-- FULL STATEMENT (soundness and completeness of `parse_args`, and the error kind): for every `lower`,
    all positional arguments and all keyword arguments with distinct names,
    `parse_args` returns exactly the denoted dict, and raises ValueError - nothing else - when the
    specification is invalid. -/
def C14_full_statement : Prop :=
  ∀ (lower : String → String) (args : List ArgVal) (kw : Kw), (kw.map Prod.fst).Nodup →
    (∀ a, parseArgs lower args kw = .ok a ↔ denote lower args kw = some a) ∧
    (denote lower args kw = none → parseArgs lower args kw = .error .valueError)

/-! ### applying, removing, replacing -/

inductive NVal | col (c : Fin 8) | flag (b : Bool)
  deriving DecidableEq, Repr

/-- The entry of attribute `k` in a dict. -/
def Atts.get (a : Atts) : Key → Option NVal
  | .bg => a.bg.map .col | .blink => a.blink.map .flag | .bold => a.bold.map .flag
  | .dark => a.dark.map .flag | .fg => a.fg.map .col | .invert => a.invert.map .flag
  | .italic => a.italic.map .flag | .underline => a.underline.map .flag

private theorem orElse_eq (x y : Option α) : (x.orElse fun _ => y) = if x.isSome then x else y := by
  cases x <;> rfl

/-- `extend`: a named attribute takes the new value (overriding an earlier one), every other attribute
    keeps what it had. -/
theorem C14_override (old a : Atts) (k : Key) :
    (old.extend a).get k = if a.has k then a.get k else old.get k := by
  cases k <;> simp only [Atts.extend, Atts.get, Atts.has, orElse_eq] <;> split <;> simp_all

/-- `copy_with_new_atts(**a)` (and therefore `fmtstr(f, spec)` / a fmtfuncs helper, which are
    `parse_args` followed by it): same characters in the same order, each with its old dict overridden
    by `a` (`C14_override`). -/
theorem C14_apply (f : FmtStr) (a : Atts) :
    cells (copyWithNewAtts f a) = (cells f).map fun p => (p.1, p.2.extend a) := by
  induction f with
  | nil => rfl
  | cons c f ih =>
    simp only [copyWithNewAtts, List.map_cons, cells_cons, List.map_append] at ih ⊢
    rw [ih]; simp [Chunk.cells]

theorem C14_apply_text (f : FmtStr) (a : Atts) : text (copyWithNewAtts f a) = text f := by
  rw [text_eq_cells, text_eq_cells, C14_apply]; simp [List.map_map, Function.comp_def]

/-- `fmtstr(f, *args, **kwargs)` and the helpers: either ValueError-or-other error with nothing built,
    or the parsed dict applied to every character. -/
theorem C14_fmtstr (lower : String → String) (f : FmtStr) (args : List ArgVal) (kw : Kw) (r : FmtStr)
    (h : fmtstrApply lower f args kw = .ok r) :
    ∃ a, parseArgs lower args kw = .ok a ∧ cells r = (cells f).map fun p => (p.1, p.2.extend a) := by
  unfold fmtstrApply at h
  cases hp : parseArgs lower args kw with
  | error e => rw [hp] at h; cases h
  | ok a => rw [hp] at h; injection h with h; exact ⟨a, rfl, by rw [← h, C14_apply]⟩

private theorem erase_get (a : Atts) (j k : Key) : (a.erase j).get k = if k = j then none else a.get k := by
  cases j <;> cases k <;> simp [Atts.erase, Atts.get]

/-- `remove`: exactly the named attributes disappear. -/
theorem C14_remove_key (a : Atts) (ks : List Key) (k : Key) :
    (a.remove ks).get k = if k ∈ ks then none else a.get k := by
  unfold Atts.remove
  induction ks generalizing a with
  | nil => simp
  | cons j js ih =>
    simp only [List.foldl_cons, ih, erase_get, List.mem_cons]
    by_cases h1 : k ∈ js <;> by_cases h2 : k = j <;> simp [h1, h2]

/-- `new_with_atts_removed(*ks)`: same characters, each dict without the named attributes. -/
theorem C14_remove (f : FmtStr) (ks : List Key) :
    cells (newWithAttsRemoved f ks) = (cells f).map fun p => (p.1, p.2.remove ks) := by
  induction f with
  | nil => rfl
  | cons c f ih =>
    simp only [newWithAttsRemoved, List.map_cons, cells_cons, List.map_append] at ih ⊢
    rw [ih]; simp [Chunk.cells]

private theorem extend_self (a : Atts) : a.extend a = a := by simp [Atts.extend]
private theorem empty_extend (a : Atts) : ({} : Atts).extend a = a := by simp [Atts.extend]

/-- `copy_with_new_str` on a uniformly formatted string - at least one character, every CHARACTER has the dict
    `a` (empty runs may carry anything: the code ignores them, fix 7ad35a6): the text is swapped, the formatting kept. -/
theorem C14_newstr (f : FmtStr) (a : Atts) (t : Text) (hne : cells f ≠ []) (hu : ∀ p ∈ cells f, p.2 = a) :
    copyWithNewStr f t = [⟨t, a⟩] := by
  have key : ∀ (g : FmtStr) (acc : Atts), (∀ c ∈ g, c.atts = a) → (acc = a ∨ (acc = {} ∧ g ≠ [])) →
      g.foldl (fun acc c => acc.extend c.atts) acc = a := by
    intro g
    induction g with
    | nil => intro acc _ h; rcases h with h | ⟨_, h⟩; exact h; exact absurd rfl h
    | cons c g ih =>
      intro acc hg h
      simp only [List.foldl_cons]
      apply ih _ (fun c hc => hg c (List.mem_cons_of_mem _ hc))
      left
      rw [hg c (List.mem_cons_self ..)]
      rcases h with h | ⟨h, _⟩
      · rw [h, extend_self]
      · rw [h, empty_extend]
  -- the non-empty runs: there is one, and each has dict `a`
  have hall : ∀ c ∈ f.filter (fun c : Chunk => !c.s.isEmpty), c.atts = a := by
    intro c hc
    rw [List.mem_filter] at hc
    cases hs : c.s with
    | nil => rw [hs] at hc; simp at hc
    | cons ch rest =>
      have : (ch, c.atts) ∈ cells f := by
        simp only [cells, List.mem_flatMap, Chunk.cells, List.mem_map]
        exact ⟨c, hc.1, ch, by rw [hs]; exact List.mem_cons_self .., rfl⟩
      exact hu _ this
  have hex : f.filter (fun c : Chunk => !c.s.isEmpty) ≠ [] := by
    intro he
    apply hne
    simp only [cells, List.flatMap_eq_nil_iff]
    intro c hc
    cases hs : c.s with
    | nil => simp [Chunk.cells, hs]
    | cons ch rest =>
      have : c ∈ f.filter (fun c : Chunk => !c.s.isEmpty) := by
        rw [List.mem_filter]; exact ⟨hc, by rw [hs]; rfl⟩
      rw [he] at this; cases this
  unfold copyWithNewStr
  simp only []
  have hie : (f.filter (fun c : Chunk => !c.s.isEmpty)).isEmpty = false := by
    cases hh : f.filter (fun c : Chunk => !c.s.isEmpty) with
    | nil => exact absurd hh hex
    | cons _ _ => rfl
  rw [hie]
  simp only [Bool.false_eq_true, if_false]
  rw [key _ {} hall (Or.inr ⟨rfl, hex⟩)]

theorem C14_newstr_cells (f : FmtStr) (a : Atts) (t : Text) (hne : cells f ≠ []) (hu : ∀ p ∈ cells f, p.2 = a) :
    cells (copyWithNewStr f t) = t.map fun ch => (ch, a) := by
  rw [C14_newstr f a t hne hu]; simp [Chunk.cells]

/-- Non-vacuity / the D32 shape: an empty bold run in front of a red character does not leak `bold`. -/
example : copyWithNewStr [⟨[], { bold := some true }⟩, ⟨['a'], { fg := some 1 }⟩] ['x'] = [⟨['x'], { fg := some 1 }⟩] := by
  decide

/-! ### shared_atts -/

private theorem inter_le_left (a b : Atts) : (a.inter b).le a := by
  simp only [Atts.le, Atts.inter]
  refine ⟨?_, ?_, ?_, ?_, ?_, ?_, ?_, ?_⟩ <;> (split <;> simp_all)
private theorem inter_le_right (a b : Atts) : (a.inter b).le b := by
  simp only [Atts.le, Atts.inter]
  refine ⟨?_, ?_, ?_, ?_, ?_, ?_, ?_, ?_⟩ <;> (split <;> simp_all)
private theorem le_refl' (a : Atts) : a.le a := by simp [Atts.le]
private theorem le_trans' {a b c : Atts} (h1 : a.le b) (h2 : b.le c) : a.le c := by
  simp only [Atts.le] at *
  obtain ⟨h11, h12, h13, h14, h15, h16, h17, h18⟩ := h1
  obtain ⟨h21, h22, h23, h24, h25, h26, h27, h28⟩ := h2
  refine ⟨?_, ?_, ?_, ?_, ?_, ?_, ?_, ?_⟩ <;> intro h <;> simp_all

private theorem foldl_inter_le (l : List Chunk) (acc : Atts) :
    (l.foldl (fun acc c => acc.inter c.atts) acc).le acc ∧
    ∀ c ∈ l, (l.foldl (fun acc c => acc.inter c.atts) acc).le c.atts := by
  induction l generalizing acc with
  | nil => exact ⟨le_refl' _, by simp⟩
  | cons x xs ih =>
    simp only [List.foldl_cons]
    obtain ⟨h1, h2⟩ := ih (acc.inter x.atts)
    refine ⟨le_trans' h1 (inter_le_left _ _), ?_⟩
    intro c hc
    rcases List.mem_cons.mp hc with rfl | hc
    · exact le_trans' h1 (inter_le_right _ _)
    · exact h2 c hc

/-- `shared_atts` only ever reports an entry that every character has. -/
theorem C14_shared (f : FmtStr) (a : Atts) (h : sharedAtts f = .ok a) :
    ∀ p ∈ cells f, a.le p.2 := by
  cases f with
  | nil => simp [sharedAtts] at h
  | cons hd tl =>
    simp only [sharedAtts] at h
    injection h with h
    intro p hp
    simp only [cells, List.mem_flatMap, Chunk.cells, List.mem_map] at hp
    obtain ⟨c, hc, ch, hch, rfl⟩ := hp
    have hne : c ∈ (hd :: tl).filter fun c => !c.s.isEmpty := by
      rw [List.mem_filter]; refine ⟨hc, ?_⟩
      cases hs : c.s with
      | nil => rw [hs] at hch; simp at hch
      | cons _ _ => simp
    rw [← h]
    exact (foldl_inter_le _ _).2 c hne

private theorem le_inter {x a b : Atts} (h1 : x.le a) (h2 : x.le b) : x.le (a.inter b) := by
  simp only [Atts.le, Atts.inter] at *
  obtain ⟨h11, h12, h13, h14, h15, h16, h17, h18⟩ := h1
  obtain ⟨h21, h22, h23, h24, h25, h26, h27, h28⟩ := h2
  refine ⟨?_, ?_, ?_, ?_, ?_, ?_, ?_, ?_⟩ <;> intro h <;> simp_all

private theorem foldl_inter_ge (x : Atts) (l : List Chunk) (acc : Atts) (h0 : x.le acc)
    (hl : ∀ c ∈ l, x.le c.atts) : x.le (l.foldl (fun acc c => acc.inter c.atts) acc) := by
  induction l generalizing acc with
  | nil => exact h0
  | cons c rest ih =>
    simp only [List.foldl_cons]
    exact ih _ (le_inter h0 (hl c (List.mem_cons_self ..))) (fun d hd => hl d (List.mem_cons_of_mem _ hd))

/-- Completeness of `shared_atts` on a string with at least one character: it reports EXACTLY the entries common
    to all characters - every reported entry is on every character (`C14_shared`), and every dict `x` whose
    entries are on every character is contained in the report. -/
theorem C14_shared_complete (f : FmtStr) (hch : cells f ≠ []) :
    ∃ sh, sharedAtts f = .ok sh ∧ (∀ p ∈ cells f, sh.le p.2) ∧
      ∀ x : Atts, (∀ p ∈ cells f, x.le p.2) → x.le sh := by
  cases f with
  | nil => exact absurd rfl hch
  | cons hd tl =>
    refine ⟨_, rfl, C14_shared _ _ rfl, ?_⟩
    intro x hx
    have hmem : ∀ c ∈ (hd :: tl).filter (fun c => !c.s.isEmpty), x.le c.atts := by
      intro c hc
      rw [List.mem_filter] at hc
      obtain ⟨hc1, hc2⟩ := hc
      cases hs : c.s with
      | nil => rw [hs] at hc2; simp at hc2
      | cons ch rest =>
        apply hx (ch, c.atts)
        simp only [cells, List.mem_flatMap, Chunk.cells, List.mem_map]
        exact ⟨c, hc1, ch, by rw [hs]; exact List.mem_cons_self .., rfl⟩
    show x.le (((hd :: tl).filter fun c : Chunk => !c.s.isEmpty).foldl (fun acc c => acc.inter c.atts)
      (match (hd :: tl).filter (fun c : Chunk => !c.s.isEmpty) with | [] => hd | c :: _ => c).atts)
    apply foldl_inter_ge x _ _ _ hmem
    cases hne : (hd :: tl).filter (fun c => !c.s.isEmpty) with
    | nil =>
      exfalso; apply hch
      have : ∀ c ∈ hd :: tl, c.s = [] := by
        intro c hc
        cases hs : c.s with
        | nil => rfl
        | cons ch rest =>
          have : c ∈ (hd :: tl).filter (fun c => !c.s.isEmpty) := by
            rw [List.mem_filter]; exact ⟨hc, by rw [hs]; rfl⟩
          rw [hne] at this; cases this
      simp only [cells, List.flatMap_eq_nil_iff]
      intro c hc; simp [Chunk.cells, this c hc]
    | cons c0 rest =>
      simp only []
      apply hmem; rw [hne]; exact List.mem_cons_self ..

/-- Non-vacuity of `C14_shared`: a three-run string (one run empty) sharing `fg` but not `bold`. -/
example : sharedAtts [⟨[], {}⟩, ⟨['a'], { fg := some 1, bold := some true }⟩, ⟨['b'], { fg := some 1 }⟩]
    = .ok { fg := some 1 } := by decide

/-! ### equivalent spellings (over the regenerated tables; `lower` leaves the lower-case names alone) -/

/-- A `lower` that maps every string to itself - correct for the already lower-case table names. -/
def idl : String → String := fun s => s

/-- Foreground colour i by its CANONICAL name (the one `repr` prints): positional name ≡ `fg=name` ≡ `fg=30+i` ≡ `style=name` ≡ the helper of that name. -/
theorem C14_spellings_fg : ∀ i : Fin 8,
    parseArgs idl [.str (colourName i)] [] = .ok { fg := some i } ∧
    parseArgs idl [] [("fg", .str (colourName i))] = .ok { fg := some i } ∧
    parseArgs idl [] [("fg", .int (30 + i.val))] = .ok { fg := some i } ∧
    parseArgs idl [] [("style", .str (colourName i))] = .ok { fg := some i } ∧
    Generated.fmtfuncs.lookup (colourName i) = some (colourName i) ∧
    parseArgs idl [] (fmtfuncKw (colourName i) []) = .ok { fg := some i } := by
  decide +kernel

/-- Background colour i by its canonical name: `'on_'+name` ≡ `bg=name` ≡ `bg=40+i` ≡ `style='on_'+name` ≡ the helper `on_<name>`. -/
theorem C14_spellings_bg : ∀ i : Fin 8,
    parseArgs idl [.str ("on_" ++ colourName i)] [] = .ok { bg := some i } ∧
    parseArgs idl [] [("bg", .str (colourName i))] = .ok { bg := some i } ∧
    parseArgs idl [] [("bg", .int (40 + i.val))] = .ok { bg := some i } ∧
    parseArgs idl [] [("style", .str ("on_" ++ colourName i))] = .ok { bg := some i } ∧
    Generated.fmtfuncs.lookup ("on_" ++ colourName i) = some ("on_" ++ colourName i) ∧
    parseArgs idl [] (fmtfuncKw ("on_" ++ colourName i) []) = .ok { bg := some i } := by
  decide +kernel

def styleAtts : Key → Bool → Atts
  | .bold, b => { bold := some b } | .dark, b => { dark := some b } | .italic, b => { italic := some b }
  | .underline, b => { underline := some b } | .blink, b => { blink := some b } | .invert, b => { invert := some b }
  | _, _ => {}

/-- Style s: positional ≡ `s=True` ≡ `style=s` ≡ repeated consistent mentions ≡ the helper; `s=False` sets False. -/
theorem C14_spellings_style : ∀ p ∈ styleNames,
    parseArgs idl [.str p.1] [] = .ok (styleAtts p.2 true) ∧
    parseArgs idl [] [(p.1, .bool true)] = .ok (styleAtts p.2 true) ∧
    parseArgs idl [] [("style", .str p.1)] = .ok (styleAtts p.2 true) ∧
    parseArgs idl [.str p.1, .str p.1] [(p.1, .bool true)] = .ok (styleAtts p.2 true) ∧
    parseArgs idl [] [(p.1, .bool false)] = .ok (styleAtts p.2 false) ∧
    Generated.fmtfuncs.lookup p.1 = some p.1 ∧
    parseArgs idl [] (fmtfuncKw p.1 []) = .ok (styleAtts p.2 true) := by
  decide +kernel

/-- Every fmtfuncs helper in the live module is `fmtstr` with its bound name as the one positional
    argument (`plain`: none), and that specification is valid; `on_dark` is `on_black`. -/
theorem C14_spellings_fmtfuncs : ∀ p ∈ Generated.fmtfuncs,
    parseArgs idl [] (fmtfuncKw p.2 []) = parseArgs idl (if p.2 = "" then [] else [.str p.2]) [] ∧
    (parseArgs idl [] (fmtfuncKw p.2 [])).toOption.isSome := by
  decide +kernel

/-- EVERY name of the live foreground table (aliases included): positional ≡ `fg=name` ≡ `fg=number` ≡ `style=name`,
    all meaning the colour whose code the table gives. -/
theorem C14_spellings_live_fg : ∀ p ∈ Generated.fgColors,
    (colourIndex 30 (.int (p.2 : Nat))).isSome = true ∧
    parseArgs idl [.str p.1] [] = .ok { fg := colourIndex 30 (.int (p.2 : Nat)) } ∧
    parseArgs idl [] [("fg", .str p.1)] = .ok { fg := colourIndex 30 (.int (p.2 : Nat)) } ∧
    parseArgs idl [] [("fg", .int p.2)] = .ok { fg := colourIndex 30 (.int (p.2 : Nat)) } ∧
    parseArgs idl [] [("style", .str p.1)] = .ok { fg := colourIndex 30 (.int (p.2 : Nat)) } := by
  decide +kernel

/-- EVERY name of the live background table: `'on_'+name` ≡ `bg=name` ≡ `bg=number` ≡ `style='on_'+name`; and
    `on_<name>` is the background of the SAME colour index as the foreground `<name>`. -/
theorem C14_spellings_live_bg : ∀ p ∈ Generated.bgColors,
    (colourIndex 40 (.int (p.2 : Nat))).isSome = true ∧
    parseArgs idl [.str ("on_" ++ p.1)] [] = .ok { bg := colourIndex 40 (.int (p.2 : Nat)) } ∧
    parseArgs idl [] [("bg", .str p.1)] = .ok { bg := colourIndex 40 (.int (p.2 : Nat)) } ∧
    parseArgs idl [] [("bg", .int p.2)] = .ok { bg := colourIndex 40 (.int (p.2 : Nat)) } ∧
    parseArgs idl [] [("style", .str ("on_" ++ p.1))] = .ok { bg := colourIndex 40 (.int (p.2 : Nat)) } ∧
    (parseArgs idl [.str p.1] []).toOption.map Atts.fg = some (colourIndex 40 (.int (p.2 : Nat))) := by
  decide +kernel

/-- The helpers of the live `fmtfuncs` module: whenever a helper's NAME is itself an accepted positional spelling, the
    helper means exactly that spelling (a helper bound to the wrong word fails here); and every one of the 8 + 8
    colours and the 6 styles has at least one helper. -/
theorem C14_fmtfuncs_names :
    (∀ p ∈ Generated.fmtfuncs, (parseArgs idl [.str p.1] []).toOption.isSome = true →
        parseArgs idl [] (fmtfuncKw p.2 []) = parseArgs idl [.str p.1] []) ∧
    (∀ i : Fin 8, Generated.fmtfuncs.any (fun p => parseArgs idl [] (fmtfuncKw p.2 []) == .ok { fg := some i }) = true) ∧
    (∀ i : Fin 8, Generated.fmtfuncs.any (fun p => parseArgs idl [] (fmtfuncKw p.2 []) == .ok { bg := some i }) = true) ∧
    (∀ q ∈ styleNames, Generated.fmtfuncs.any (fun p => parseArgs idl [] (fmtfuncKw p.2 []) == .ok (styleAtts q.2 true)) = true) ∧
    Generated.fmtfuncs.any (fun p => p.2 == "") = true := by
  decide +kernel

theorem C14_spellings_on_dark :
    Generated.fmtfuncs.lookup "on_dark" = Generated.fmtfuncs.lookup "on_black" := by decide +kernel

/-- Only the values of `lower` on the positional strings (and on their `[3:]`) matter, so the spelling
    theorems hold for every `lower` that leaves the table names alone. -/
theorem C14_lower_congr (l1 l2 : String → String) (args : List ArgVal) (kw : Kw)
    (h : ∀ s, ArgVal.str s ∈ args ++ (kw.get? "style").toList → l1 s = l2 s ∧ l1 (strDrop3 s) = l2 (strDrop3 s)) :
    parseArgs l1 args kw = parseArgs l2 args kw := by
  have step : ∀ (as : List ArgVal) (k : Kw),
      (∀ s, ArgVal.str s ∈ as → l1 s = l2 s ∧ l1 (strDrop3 s) = l2 (strDrop3 s)) →
      posLoop l1 k as = posLoop l2 k as := by
    intro as
    induction as with
    | nil => intros; rfl
    | cons a rest ih =>
      intro k hs
      have e : posStep l1 k a = posStep l2 k a := by
        cases a with
        | str s =>
          obtain ⟨e1, e2⟩ := hs s (List.mem_cons_self ..)
          simp only [posStep, e1, e2]
        | _ => rfl
      simp only [posLoop, e]
      cases posStep l2 k a with
      | error _ => rfl
      | ok k' => exact ih k' (fun s hm => hs s (List.mem_cons_of_mem _ hm))
  unfold parseArgs
  cases hst : kw.get? "style" with
  | none =>
    simp only [hst, Option.toList_none, List.append_nil] at h ⊢
    rw [step args kw h]
  | some v =>
    simp only [hst, Option.toList_some] at h ⊢
    rw [step (args ++ [v]) _ h]


/-! ### corollaries -/

private theorem orElse_swap {α : Type} (x y z : Option α) (h : x.isSome = false ∨ y.isSome = false) :
    (y.orElse fun _ => x.orElse fun _ => z) = (x.orElse fun _ => y.orElse fun _ => z) := by
  cases x <;> cases y <;> simp_all

/-- Order independence: two attribute dicts that name no common attribute can be applied in either order
    (nesting `red(bold(x))` / `bold(red(x))`, or two `copy_with_new_atts`). -/
theorem C14_order_indep (f : FmtStr) (a b : Atts) (h : ∀ k : Key, a.has k = false ∨ b.has k = false) :
    copyWithNewAtts (copyWithNewAtts f a) b = copyWithNewAtts (copyWithNewAtts f b) a := by
  have e : ∀ x : Atts, (x.extend a).extend b = (x.extend b).extend a := by
    intro x
    have h1 := h .bg; have h2 := h .blink; have h3 := h .bold; have h4 := h .dark
    have h5 := h .fg; have h6 := h .invert; have h7 := h .italic; have h8 := h .underline
    simp only [Atts.has] at h1 h2 h3 h4 h5 h6 h7 h8
    simp only [Atts.extend, Atts.mk.injEq]
    exact ⟨orElse_swap _ _ _ h1, orElse_swap _ _ _ h2, orElse_swap _ _ _ h3, orElse_swap _ _ _ h4,
      orElse_swap _ _ _ h5, orElse_swap _ _ _ h6, orElse_swap _ _ _ h7, orElse_swap _ _ _ h8⟩
  simp only [copyWithNewAtts, List.map_map]
  apply List.map_congr_left
  intro c _
  simp [e]

/-- A fmtfuncs helper called with ANY further positional and keyword arguments (no own `style=`) is `fmtstr`
    with the helper's bound name as one more (last) positional argument; with an own `style=` the bound name is
    replaced (functools.partial). -/
theorem C14_fmtfunc_general (lower : String → String) (bound : String) (f : FmtStr) (args : List ArgVal) (kw : Kw)
    (hb : (bound == "") = false) :
    (kw.has "style" = false → fmtfuncApply lower bound f args kw = fmtstrApply lower f (args ++ [.str bound]) kw) ∧
    (kw.has "style" = true → fmtfuncApply lower bound f args kw = fmtstrApply lower f args kw) := by
  constructor
  · intro hs
    have hg : kw.get? "style" = none := by
      cases h : kw.get? "style" with
      | none => rfl
      | some v =>
        exfalso
        have : kw.has "style" = true := by
          simp only [Kw.get?, Option.map_eq_some_iff] at h
          obtain ⟨p, hp, _⟩ := h
          have := List.find?_some hp
          simp only [Kw.has, List.any_eq_true]
          exact ⟨p, List.mem_of_find?_eq_some hp, this⟩
        rw [hs] at this; cases this
    have hd : Kw.del kw "style" = kw := by
      simp only [Kw.del]
      apply List.filter_eq_self.mpr
      intro p hp
      cases hq : (p.1 == "style") with
      | false => rfl
      | true =>
        exfalso
        have : kw.has "style" = true := by simp only [Kw.has, List.any_eq_true]; exact ⟨p, hp, hq⟩
        rw [hs] at this; cases this
    simp only [fmtfuncApply, fmtfuncKw, hb, hs, Bool.or_self, Bool.false_eq_true, if_false, fmtstrApply, parseArgs, hg]
    have e1 : Kw.get? (("style", ArgVal.str bound) :: kw) "style" = some (.str bound) := by simp [Kw.get?]
    have e2 : Kw.del (("style", ArgVal.str bound) :: kw) "style" = kw := by
      simp only [Kw.del, List.filter_cons]
      simpa [Kw.del] using hd
    rw [e1, e2]
  · intro hs
    simp [fmtfuncApply, fmtfuncKw, hs]

/-- The live `fmtfuncs` module: every public callable is `functools.partial(fmtstr)` with no bound positional
    argument and at most the keyword `style`, and these are exactly the names of the `fmtfuncs` table. -/
theorem C14_fmtfuncs_shape :
    (∀ p ∈ Generated.fmtfuncShape, p.2.1 = true ∧ p.2.2.1 = true ∧ p.2.2.2.1 = 0 ∧ ∀ k ∈ p.2.2.2.2, k = "style") ∧
    Generated.fmtfuncShape.map Prod.fst = Generated.fmtfuncs.map Prod.fst := by
  decide +kernel

/-! ### towards the full statement

  `C14_full_statement` (above) is proved in Properties/C14Sound.lean (`C14_sound_complete`, and `C14_error_kind`:
  ValueError is the only exception).  Kept here as cheap independent evidence:
  * `C14_error_kind_weak`: for ALL inputs the only exception `parse_args` can raise is ValueError
    (`otherException` is the model's own "dict not representable as `Atts`" outcome of `toAtts`; showing it
    unreachable needs the same invariant as the full statement: after the key loop and the two colour blocks
    every entry of the dict is a legal key with a legal value);
  * `C14_sound_complete_bounded`: the full statement (model = denotation, invalid => ValueError) for
    every specification with at most two positional arguments from `posReps` and at most two keyword
    arguments with distinct names from `kwReps` (valid and invalid names, colour names / numbers in and out of
    range, bool / float / None values, `style=` of each kind) - about 5000 specifications, by kernel evaluation.
  -/

private theorem posStep_err (lower : String → String) (kw : Kw) (a : ArgVal) (e : PyErr)
    (h : posStep lower kw a = .error e) : e = .valueError := by
  cases a with
  | str s =>
    simp only [posStep] at h
    cases h1 : List.lookup (lower s) Generated.fgColors with
    | some code =>
      rw [h1] at h; simp only [] at h
      by_cases c : kw.has "fg" = true
      · rw [if_pos c] at h; injection h with h; exact h.symm
      · rw [if_neg c] at h; cases h
    | none =>
      rw [h1] at h; simp only [] at h
      cases h2 : (if startsWithOn (lower s) = true then List.lookup (lower (strDrop3 s)) Generated.bgColors else none) with
      | some code =>
        rw [h2] at h; simp only [] at h
        by_cases c : kw.has "bg" = true
        · rw [if_pos c] at h; injection h with h; exact h.symm
        · rw [if_neg c] at h; cases h
      | none =>
        rw [h2] at h; simp only [] at h
        by_cases c : isStyleName (lower s) = true
        · rw [if_pos c] at h
          by_cases c2 : (kw.get? (lower s)).getD (ArgVal.bool true) ≠ ArgVal.bool true
          · rw [if_pos c2] at h; injection h with h; exact h.symm
          · rw [if_neg c2] at h; cases h
        · rw [if_neg c] at h; injection h with h; exact h.symm
  | _ => simp only [posStep] at h; injection h with h; exact h.symm

theorem posLoop_err (lower : String → String) (args : List ArgVal) : ∀ (kw : Kw) (e : PyErr),
    posLoop lower kw args = .error e → e = .valueError := by
  induction args with
  | nil => intro kw e h; cases h
  | cons a rest ih =>
    intro kw e h
    simp only [posLoop] at h
    cases hs : posStep lower kw a with
    | error e' => rw [hs] at h; injection h with h; subst h; exact posStep_err lower kw a _ hs
    | ok kw' => rw [hs] at h; exact ih kw' e h

theorem keyLoop_err (kw : Kw) (e : PyErr) (h : keyLoop kw = .error e) : e = .valueError := by
  induction kw with
  | nil => cases h
  | cons p rest ih =>
    obtain ⟨k, v⟩ := p
    simp only [keyLoop] at h
    repeat' split at h
    all_goals (first | (injection h with h; exact h.symm) | exact ih h)

theorem colourBlock_err (table : List (String × Nat)) (key : String) (kw : Kw) (e : PyErr)
    (h : colourBlock table key kw = .error e) : e = .valueError := by
  unfold colourBlock at h
  repeat' split at h
  all_goals (first | (injection h with h; exact h.symm) | cases h)

theorem C14_error_kind_weak (lower : String → String) (args : List ArgVal) (kw : Kw) (e : PyErr)
    (h : parseArgs lower args kw = .error e) : e = .valueError ∨ e = .otherException := by
  unfold parseArgs parseTail at h
  repeat' split at h
  all_goals first
    | (injection h with h; subst h
       first
         | (left; exact posLoop_err _ _ _ _ ‹_›)
         | (left; exact keyLoop_err _ _ ‹_›)
         | (left; exact colourBlock_err _ _ _ _ ‹_›)
         | exact Or.inr rfl)
    | cases h

def posReps : List ArgVal := [.str "red", .str "on_blue", .str "bold", .str "nope", .int 31, .none]
def kwReps : List (String × ArgVal) :=
  [("fg", .str "red"), ("fg", .int 34), ("fg", .int 41), ("fg", .bool true), ("fg", .float),
   ("bg", .str "blue"), ("bg", .none), ("bold", .bool true), ("bold", .bool false), ("bold", .int 1),
   ("colour", .str "red"), ("style", .str "bold"), ("style", .str "blue"), ("style", .int 5)]
def lists2 (l : List α) : List (List α) :=
  [[]] ++ l.map (fun a => [a]) ++ l.flatMap (fun a => l.map fun b => [a, b])
def kwPool : List Kw := (lists2 kwReps).filter fun kw => (kw.map Prod.fst).Nodup

theorem C14_sound_complete_bounded :
    ∀ pos ∈ lists2 posReps, ∀ kw ∈ kwPool,
      (parseArgs idl pos kw).toOption = denote idl pos kw ∧
      (denote idl pos kw = none → parseArgs idl pos kw = .error .valueError) := by
  decide +kernel

/-- Non-vacuity of the denotation: a mixed valid specification and its value; three invalid ones. -/
example : denote idl [.str "red", .str "bold"] [("bg", .int 44), ("underline", .bool false)]
    = some { fg := some 1, bold := some true, bg := some 4, underline := some false } := by decide +kernel
example : denote idl [.str "red"] [("fg", .str "blue")] = none := by decide +kernel
example : denote idl [.str "bold"] [("bold", .bool false)] = none := by decide +kernel
example : denote idl [] [("fg", .bool true)] = none := by decide +kernel

end Curtsies
