/-
  C09 - splice replaces exactly the requested range and nothing else.

  Statement level: `cells f` is the per-character view (character, attribute dict of its run), so
  "f's first `start` characters, then the characters of new, then f's characters from `end` onward, every
  character keeping its own formatting" is `(cells f).take start ++ cells new ++ (cells f).drop e`.
  `List.take`/`List.drop` past the end are the whole list / the empty list, which is precisely the
  "a start past the end appends" clause (and covers the whole quantifier range `start ≤ end ≤ len+2`, indeed
  every `start ≤ end`).  `text` and `len` follow through `text_eq_cells` / `cells_length` (C09_splice_text,
  C09_splice_len).

  Hypotheses: `start ≤ end` only (the property's range; Python negative offsets are outside the statement).
  A plain `str` argument is converted by `fmtstr(new_str)`, which for ESC-free text is the single unformatted
  run `[⟨t, {}⟩]` (C17); C09_splice_str / C09_append_str state that its characters come out unformatted.

  "f itself is unchanged": in this value model `splice` is a function of immutable values, so there is nothing
  to state; the heap-level statement (no `Chunk`/`FmtStr` object reachable from `f` is mutated, memoised views
  stay valid) is C13's. The harness oracle checks it on the real objects (str(f), f.s, repr(f) before/after).
-/
import Curtsies.Model.FmtStr
import Curtsies.Proofs.Splice
namespace Curtsies
open Splice

/-- The model's `splice` is `filter nonempty ∘ finish ∘ loop` outside the early return. -/
private theorem splice_unfold (f new : FmtStr) (start : Nat) (eo : Option Nat)
    (h : ¬ (len new = 0 ∧ eo.getD start ≤ start)) :
    splice f new start eo =
      (spliceFinish new (spliceLoop new start (eo.getD start) 0 false f)).filter fun c => !c.s.isEmpty := by
  unfold splice
  rw [if_neg h]
  simp only [spliceFinish]

private theorem splice_cells (f new : FmtStr) (start : Nat) (eo : Option Nat)
    (h : start ≤ eo.getD start) :
    cells (splice f new start eo)
      = (cells f).take start ++ cells new ++ (cells f).drop (eo.getD start) := by
  by_cases h0 : len new = 0 ∧ eo.getD start ≤ start
  · -- early return `self`: nothing to insert, nothing to delete
    have he : eo.getD start = start := by omega
    unfold splice
    rw [if_pos h0, he, cells_eq_nil_of_len_zero new h0.1, List.append_nil, List.take_append_drop]
  · rw [splice_unfold f new start eo h0, cells_filter_nonempty]
    have := spliceLoop_cells_pending new start (eo.getD start) h f 0 (Nat.zero_le _)
    simpa using this

/-- `f.splice(new, start, end)` for every FmtStr `f`, every FmtStr `new` and every `start ≤ end` (no upper
    bound: offsets past the end behave as `len`): the first `start` characters of `f`, then the characters
    of `new`, then the characters of `f` from `end` on, each with the attribute dict it had. -/
theorem C09_splice (f new : FmtStr) (start e : Nat) (h : start ≤ e) :
    cells (splice f new start (some e)) = (cells f).take start ++ cells new ++ (cells f).drop e := by
  simpa using splice_cells f new start (some e) (by simpa using h)

/-- `end` omitted: it defaults to `start` - a pure insertion that deletes nothing. -/
theorem C09_insert (f new : FmtStr) (start : Nat) :
    cells (splice f new start none) = (cells f).take start ++ cells new ++ (cells f).drop start := by
  simpa using splice_cells f new start none (by simp)

/-- "a start past the end appends" made explicit. -/
theorem C09_splice_past_end (f new : FmtStr) (start e : Nat) (h : start ≤ e) (hp : len f ≤ start) :
    cells (splice f new start (some e)) = cells f ++ cells new := by
  rw [C09_splice f new start e h, List.take_of_length_le (by rw [cells_length]; omega),
    List.drop_eq_nil_of_le (by rw [cells_length]; omega), List.append_nil]

/-- `f.append(x)` = `f.splice(x, len(f.s))`. -/
theorem C09_append (f new : FmtStr) : cells (append f new) = cells f ++ cells new := by
  unfold append
  rw [C09_insert, List.take_of_length_le (by rw [cells_length]; omega),
    List.drop_eq_nil_of_le (by rw [cells_length]; omega), List.append_nil]

/-- A plain `str` argument (`fmtstr(t)` = one unformatted run): its characters are unformatted. -/
theorem C09_splice_str (f : FmtStr) (t : Text) (start e : Nat) (h : start ≤ e) :
    cells (splice f [⟨t, {}⟩] start (some e)) = (cells f).take start ++ plainCells t ++ (cells f).drop e := by
  rw [C09_splice f _ start e h]; simp [plainCells, Chunk.cells]

theorem C09_insert_str (f : FmtStr) (t : Text) (start : Nat) :
    cells (splice f [⟨t, {}⟩] start none) = (cells f).take start ++ plainCells t ++ (cells f).drop start := by
  rw [C09_insert]; simp [plainCells, Chunk.cells]

theorem C09_append_str (f : FmtStr) (t : Text) :
    cells (append f [⟨t, {}⟩]) = cells f ++ plainCells t := by
  rw [C09_append]; simp [plainCells, Chunk.cells]

/-- The text of the result is the str splice of the texts. -/
theorem C09_splice_text (f new : FmtStr) (start e : Nat) (h : start ≤ e) :
    text (splice f new start (some e)) = (text f).take start ++ text new ++ (text f).drop e := by
  simp only [text_eq_cells, C09_splice f new start e h, List.map_append, List.map_take, List.map_drop]

/-- `len()` of the result, for offsets inside the string. -/
theorem C09_splice_len (f new : FmtStr) (start e : Nat) (h : start ≤ e) (he : e ≤ len f) :
    len (splice f new start (some e)) = len f - (e - start) + len new := by
  rw [← cells_length, C09_splice f new start e h]
  simp only [List.length_append, List.length_take, List.length_drop, cells_length]
  omega

theorem C09_insert_text (f new : FmtStr) (start : Nat) :
    text (splice f new start none) = (text f).take start ++ text new ++ (text f).drop start := by
  simp only [text_eq_cells, C09_insert, List.map_append, List.map_take, List.map_drop]

theorem C09_append_text (f new : FmtStr) : text (append f new) = text f ++ text new := by
  simp only [text_eq_cells, C09_append, List.map_append]

theorem C09_append_len (f new : FmtStr) : len (append f new) = len f + len new := by
  rw [← cells_length, C09_append, List.length_append, cells_length, cells_length]

/-- Non-vacuity: three runs with an empty one, replacement range from the end of the first run across the
    empty run into the third; and an insertion exactly at an interior run boundary (the D3 alignment). -/
example : cells (splice [⟨['a','b'], {fg := some 1}⟩, ⟨[], {}⟩, ⟨['c','d'], {bold := some true}⟩]
      [⟨['X'], {bg := some 4}⟩, ⟨['Y'], {}⟩] 2 (some 3))
    = [('a', {fg := some 1}), ('b', {fg := some 1}), ('X', {bg := some 4}), ('Y', {}),
       ('d', {bold := some true})] := by decide
example : cells (splice [⟨['a'], {fg := some 1}⟩, ⟨['b'], {fg := some 4}⟩] [⟨['X'], {}⟩] 1 none)
    = [('a', {fg := some 1}), ('X', {}), ('b', {fg := some 4})] := by decide

end Curtsies
