/-
  C09 - splice replaces exactly the requested range and nothing else.

  Statement level: `cells f` is the per-character view (character, attribute dict of its run), so
  "f's first `start` characters, then the characters of new, then f's characters from `end` onward, every
  character keeping its own formatting" is `(cells f).take start ++ cells new ++ (cells f).drop e`.
  `List.take`/`List.drop` past the end are the whole list / the empty list, which is precisely the
  "a start past the end appends" clause (and covers the whole quantifier range `start ≤ end ≤ len+2`, indeed
  every `start ≤ end`).  `text` and `len` follow through `text_eq_cells` / `cells_length` (C09_splice_text,
  C09_splice_len).

  Hypotheses: `start ≤ end` only (the property's range; Python negative offsets and `end < start` are outside the
  statement - for `end < start` the code's `bfs.s[end - bfs_start:]` wraps around, the model's Nat subtraction
  truncates, and the drivers answer `bad-op`).
  Operands: C09_splice / C09_insert / C09_append are about a FmtStr operand. A plain `str` operand is converted by
  `fmtstr(new_str)`, which PARSES escape sequences, and the early return tests the RAW `len(new_str)`
  (Model/SpliceOp.lean `spliceOp`, shared `Operand`). The statement for every operand is `C09_full_statement`; it is
  refuted by `C09_D27_witness` (open finding D27); `C09_*_operand_partial` carry the hypothesis `Operand.EscFree`
  (no `ESC [` in a str operand), under which the str's characters come out verbatim and unformatted.

  "f itself is unchanged": in this value model `splice` is a function of immutable values, so there is nothing
  to state; the heap-level statement (no `Chunk`/`FmtStr` object reachable from `f` is mutated, memoised views
  stay valid) is C13's. The harness oracle checks it on the real objects (str(f), f.s, repr(f) before/after).
-/
import Curtsies.Model.FmtStr
import Curtsies.Proofs.Splice
namespace Curtsies
open Splice

/-- The model's `splice` is `filter nonempty ∘ finish ∘ loop` outside the early return. -/
private theorem splice_unfold (f new : FmtStr) (start : Nat) (eo : Option Nat)
    (h : ¬ (len new = 0 ∧ eo.getD start ≤ start)) :
    splice f new start eo =
      (spliceFinish new (spliceLoop new start (eo.getD start) 0 false f)).filter fun c => !c.s.isEmpty := by
  unfold splice
  rw [if_neg h]
  simp only [spliceFinish]

private theorem splice_cells (f new : FmtStr) (start : Nat) (eo : Option Nat)
    (h : start ≤ eo.getD start) :
    cells (splice f new start eo)
      = (cells f).take start ++ cells new ++ (cells f).drop (eo.getD start) := by
  by_cases h0 : len new = 0 ∧ eo.getD start ≤ start
  · -- early return `self`: nothing to insert, nothing to delete
    have he : eo.getD start = start := by omega
    unfold splice
    rw [if_pos h0, he, cells_eq_nil_of_len_zero new h0.1, List.append_nil, List.take_append_drop]
  · rw [splice_unfold f new start eo h0, cells_filter_nonempty]
    have := spliceLoop_cells_pending new start (eo.getD start) h f 0 (Nat.zero_le _)
    simpa using this

/-- `f.splice(new, start, end)` for every FmtStr `f`, every FmtStr `new` and every `start ≤ end` (no upper
    bound: offsets past the end behave as `len`): the first `start` characters of `f`, then the characters
    of `new`, then the characters of `f` from `end` on, each with the attribute dict it had. -/
theorem C09_splice (f new : FmtStr) (start e : Nat) (h : start ≤ e) :
    cells (splice f new start (some e)) = (cells f).take start ++ cells new ++ (cells f).drop e := by
  simpa using splice_cells f new start (some e) (by simpa using h)

/-- `end` omitted: it defaults to `start` - a pure insertion that deletes nothing. -/
theorem C09_insert (f new : FmtStr) (start : Nat) :
    cells (splice f new start none) = (cells f).take start ++ cells new ++ (cells f).drop start := by
  simpa using splice_cells f new start none (by simp)

/-- "a start past the end appends" made explicit. -/
theorem C09_splice_past_end (f new : FmtStr) (start e : Nat) (h : start ≤ e) (hp : len f ≤ start) :
    cells (splice f new start (some e)) = cells f ++ cells new := by
  rw [C09_splice f new start e h, List.take_of_length_le (by rw [cells_length]; omega),
    List.drop_eq_nil_of_le (by rw [cells_length]; omega), List.append_nil]

/-- `f.append(x)` = `f.splice(x, len(f.s))`. -/
theorem C09_append (f new : FmtStr) : cells (append f new) = cells f ++ cells new := by
  unfold append
  rw [C09_insert, List.take_of_length_le (by rw [cells_length]; omega),
    List.drop_eq_nil_of_le (by rw [cells_length]; omega), List.append_nil]

/-! ### The operand as the code receives it: a plain `str` or a FmtStr (`Splice.spliceOp`, Model/SpliceOp.lean) -/

/-- The property for every operand, plain `str` included: the characters of a `str` come out verbatim and
    unformatted (`Operand.cells`). FALSE for the code as it is - `C09_D27_witness`: `splice` converts a `str` with
    `fmtstr(new_str)`, which parses escape sequences. What holds is `C09_splice_operand_partial` (ESC-free str). -/
def C09_full_statement : Prop :=
  ∀ (md : Nat) (f : FmtStr) (new : Operand) (start e : Nat), start ≤ e →
    ∃ r, spliceOp md f new start (some e) = .ok r ∧
      cells r = (cells f).take start ++ new.cells ++ (cells f).drop e

/-- `f.splice(new, start, end)` with `new` a FmtStr or a plain `str` that does not contain `ESC [`
    (`Operand.EscFree`, the complement of finding D27's footprint): the first `start` characters of `f`, the
    characters of `new` (those of a `str` unformatted), the characters of `f` from `end` on. -/
theorem C09_splice_operand_partial (md : Nat) (f : FmtStr) (new : Operand) (start e : Nat) (h : start ≤ e)
    (hesc : new.EscFree) :
    ∃ r, spliceOp md f new start (some e) = .ok r ∧
      cells r = (cells f).take start ++ new.cells ++ (cells f).drop e :=
  ⟨_, spliceOp_noEsc md f new start (some e) (NoEsc_of_EscFree new hesc),
    by rw [C09_splice f _ start e h, asFmt_cells]⟩

/-- `end` omitted. -/
theorem C09_insert_operand_partial (md : Nat) (f : FmtStr) (new : Operand) (start : Nat) (hesc : new.EscFree) :
    ∃ r, spliceOp md f new start none = .ok r ∧
      cells r = (cells f).take start ++ new.cells ++ (cells f).drop start :=
  ⟨_, spliceOp_noEsc md f new start none (NoEsc_of_EscFree new hesc), by rw [C09_insert, asFmt_cells]⟩

/-- `f.append(x)`. -/
theorem C09_append_operand_partial (md : Nat) (f : FmtStr) (new : Operand) (hesc : new.EscFree) :
    ∃ r, appendOp md f new = .ok r ∧ cells r = cells f ++ new.cells :=
  ⟨_, spliceOp_noEsc md f new (len f) none (NoEsc_of_EscFree new hesc), by
    have := C09_append f (asFmt new)
    rw [append] at this
    rw [this, asFmt_cells]⟩

/-- Non-vacuity of `Operand.EscFree`: a plain str with a lone ESC and a lone '[' but no `ESC [`. -/
example : (Operand.str ['x', ESC, ' ', '[', 'y']).EscFree := by
  show ¬ [ESC, '['] <:+: ['x', ESC, ' ', '[', 'y']; decide
example : ((spliceOp 4300 [⟨['a', 'b'], { fg := some 1 }⟩] (.str ['x', ESC, ' ', '[', 'y']) 1 (some 2)).toOption.map cells)
    = some [('a', { fg := some 1 }), ('x', {}), (ESC, {}), (' ', {}), ('[', {}), ('y', {})] := by decide +kernel

/-- D27 at a concrete point: `fmtstr('abc').splice('\x1b[31mX\x1b[39m', 1, 1)` is `a`, a RED `X`, `bc` - four
    cells, although the str has eleven characters and a plain str's characters should be unformatted. -/
theorem C09_D27_cells :
    ((spliceOp 4300 [⟨['a', 'b', 'c'], {}⟩] (.str [ESC, '[', '3', '1', 'm', 'X', ESC, '[', '3', '9', 'm']) 1
        (some 1)).toOption.map cells)
      = some [('a', {}), ('X', { fg := some 1 }), ('b', {}), ('c', {})] := by decide +kernel

/-- The model violates the full statement at that point. -/
theorem C09_D27_witness : ¬ C09_full_statement := by
  intro h
  obtain ⟨r, hr, hc⟩ := h 4300 [⟨['a', 'b', 'c'], {}⟩] (.str [ESC, '[', '3', '1', 'm', 'X', ESC, '[', '3', '9', 'm']) 1 1
    (Nat.le_refl _)
  have h1 := C09_D27_cells
  rw [hr] at h1
  simp only [Except.toOption, Option.map_some, Option.some.injEq] at h1
  have := congrArg List.length (h1.symm.trans hc)
  revert this
  decide

/-- The text of the result is the str splice of the texts. -/
theorem C09_splice_text (f new : FmtStr) (start e : Nat) (h : start ≤ e) :
    text (splice f new start (some e)) = (text f).take start ++ text new ++ (text f).drop e := by
  simp only [text_eq_cells, C09_splice f new start e h, List.map_append, List.map_take, List.map_drop]

/-- `len()` of the result, for offsets inside the string. -/
theorem C09_splice_len (f new : FmtStr) (start e : Nat) (h : start ≤ e) (he : e ≤ len f) :
    len (splice f new start (some e)) = len f - (e - start) + len new := by
  rw [← cells_length, C09_splice f new start e h]
  simp only [List.length_append, List.length_take, List.length_drop, cells_length]
  omega

theorem C09_insert_text (f new : FmtStr) (start : Nat) :
    text (splice f new start none) = (text f).take start ++ text new ++ (text f).drop start := by
  simp only [text_eq_cells, C09_insert, List.map_append, List.map_take, List.map_drop]

theorem C09_append_text (f new : FmtStr) : text (append f new) = text f ++ text new := by
  simp only [text_eq_cells, C09_append, List.map_append]

theorem C09_append_len (f new : FmtStr) : len (append f new) = len f + len new := by
  rw [← cells_length, C09_append, List.length_append, cells_length, cells_length]

/-- Non-vacuity: three runs with an empty one, replacement range from the end of the first run across the
    empty run into the third; and an insertion exactly at an interior run boundary (the D3 alignment). -/
example : cells (splice [⟨['a','b'], {fg := some 1}⟩, ⟨[], {}⟩, ⟨['c','d'], {bold := some true}⟩]
      [⟨['X'], {bg := some 4}⟩, ⟨['Y'], {}⟩] 2 (some 3))
    = [('a', {fg := some 1}), ('b', {fg := some 1}), ('X', {bg := some 4}), ('Y', {}),
       ('d', {bold := some true})] := by decide
example : cells (splice [⟨['a'], {fg := some 1}⟩, ⟨['b'], {fg := some 4}⟩] [⟨['X'], {}⟩] 1 none)
    = [('a', {fg := some 1}), ('X', {}), ('b', {fg := some 4})] := by decide

end Curtsies
