/-
  C13 - FmtStr values are immutable and their memoised views never go stale.

  Model: Model/Heap.lean. FmtStr objects, their run lists (MUTABLE Python lists) and run objects live in a
  heap; every public operation is a command over the primitives (allocate, read, `list.extend/append`,
  `del list[:]`, write one memo field) following the code's allocations and aliasing. `runOp u op h` is
  the PLAIN semantics the driver executes and the harness ties to the real code: in it `listExtend`,
  `listClear` work on any list object and a memo write stores any value (`C13_primitives_can_break`
  shows they do break values and caches when misused), so the theorems below are facts about what the
  operations DO, not about what the interpreter allows.

  `h.value r` (the abstract value of object `r`) is the list of runs `(text, attribute dict)` read through
  `r.chunks`, ignoring all memo fields. Text, length, width, terminal string, repr and per-character
  formatting are functions of it (`text`, `len`, `fmtWidth u`, `render`, `reprAst`, `cells`), so one
  statement about `value` covers them all (`C13_frame_views`). Width depends on cwcwidth: everything is
  proved for every `u : UEnv`.

  Invariant `Inv u h` between operations (`WF`: every reference in the heap points to an existing object;
  `CacheOK`: each memo field is `none` or equals the freshly computed view). The empty heap satisfies it
  and every operation preserves it, so it holds in every reachable heap.

  Outside the model: `splice` with `end < start` (the code slices runs with negative offsets there; the
  operation answers `Res.outside` without touching the heap, the driver refuses it, and the harness judges
  such calls by the oracle alone), a `width_aware_splitlines` generator consumed lazily between other
  operations (oracle only), attribute-dict method names outside the regenerated `Generated.dictMutators`.
  `==` and `hash()` are operations (`Op.eq`, `Op.hash`): they fill `_unicode` of their operands.

  Data taken as given by an operation (and universally quantified here): the split positions of
  `split`/`splitlines`, the result strings of delegated `str` methods, `shared_atts`, the pieces the
  ChunkSplitter cuts for `width_aware_splitlines`.

  D24 (repaired in /repo, bca5639): `FrozenAttributes.__init__` could be re-run on a run's attribute dict and
  changed it in place. It now raises like every other mutator, the model's `attsMutate` answers `.err`
  for every regenerated mutator name, and `C13_guards_table` decides that the live class lets NO mutator
  through. What an in-place change would do is kept as a regression fact in `C13_primitives_can_break`
  (primitive `setAtts`).
-/
import Curtsies.Proofs.Heap
import Curtsies.Generated.Heap
namespace Curtsies.Heap
open Curtsies

/-! ### the invariant -/

/-- every reference stored in the heap points to an existing object -/
structure WF (h : Heap) : Prop where
  fmtList : ∀ (r : Nat) (f : FmtObj), h.fmts[r]? = some f → f.chunks < h.lists.length
  listElems : ∀ (l : Nat) (cs : List Nat), h.lists[l]? = some cs → ∀ c, c ∈ cs → c < h.chunks.length

/-- each memo field is `none` or equals the freshly computed view -/
structure CacheOK (u : UEnv) (h : Heap) : Prop where
  colorStr : ∀ (c : Nat) (x : ChunkObj), h.chunks[c]? = some x → ∀ v, x.colorStr = some v → v = Chunk.colorStr ⟨x.s, x.atts⟩
  fmt : ∀ (r : Nat) (f : FmtObj) (v : FmtStr), h.fmts[r]? = some f → h.value r = some v →
    (∀ x, f.uni = some x → x = render v) ∧ (∀ n, f.len = some n → n = len v) ∧
    (∀ x, f.s = some x → x = text v) ∧ (∀ w, f.width = some w → fmtWidth u v = .ok w)

def Inv (u : UEnv) (h : Heap) : Prop := WF h ∧ CacheOK u h

private theorem valsOf_some {h : Heap} {cs : List Nat} (hc : ∀ c, c ∈ cs → c < h.chunks.length) :
    ∃ v, h.valsOf cs = some v := by
  induction cs with
  | nil => exact ⟨[], rfl⟩
  | cons c cs ih =>
    obtain ⟨v, hv⟩ := ih (fun x hx => hc x (List.mem_cons_of_mem _ hx))
    have h1 := hc c List.mem_cons_self
    exact ⟨h.chunks[c].val :: v, by simp [Heap.valsOf, Heap.chunkVal, List.getElem?_eq_getElem h1, hv]⟩

/-- in a well-formed heap every FmtStr object has a value -/
theorem WF.value_some {h : Heap} (w : WF h) {r : Nat} (hr : r < h.fmts.length) : ∃ v, h.value r = some v := by
  have hf := List.getElem?_eq_getElem hr
  have hl := w.fmtList r _ hf
  obtain ⟨v, hv⟩ := valsOf_some (w.listElems _ _ (List.getElem?_eq_getElem hl))
  exact ⟨v, by simp [Heap.value, Heap.listVal, hf, List.getElem?_eq_getElem hl, hv]⟩

private theorem good_of_inv {u : UEnv} {h : Heap} (hI : Inv u h) : Good u [] h := by
  obtain ⟨w, c⟩ := hI
  refine ⟨w.fmtList, w.listElems, (fun l hl => by cases hl), c.colorStr, ?_⟩
  intro r f hf
  obtain ⟨v, hv⟩ := w.value_some (List.getElem?_eq_some_iff.mp hf).1
  have := c.fmt r f v hf hv
  refine ⟨?_, ?_, ?_, ?_⟩
  · intro x hx; simp [Heap.freshUni, hv, this.1 x hx]
  · intro x hx; simp [Heap.freshLen, hv, this.2.1 x hx]
  · intro x hx; simp [Heap.freshS, hv, this.2.2.1 x hx]
  · intro x hx; simp [Heap.freshWidth, hv, this.2.2.2 x hx]

private theorem inv_of_good {u : UEnv} {o : List Nat} {h : Heap} (g : Good u o h) : Inv u h := by
  refine ⟨⟨g.fmtList, g.listElems⟩, ⟨g.chunkMemo, ?_⟩⟩
  intro r f v hf hv
  have := g.fmtMemo r f hf
  refine ⟨?_, ?_, ?_, ?_⟩
  · intro x hx; have := this.1 x hx; simp [Heap.freshUni, hv] at this; exact this.symm
  · intro x hx; have := this.2.1 x hx; simp [Heap.freshLen, hv] at this; exact this.symm
  · intro x hx; have := this.2.2.1 x hx; simp [Heap.freshS, hv] at this; exact this.symm
  · intro x hx
    have := this.2.2.2 x hx
    simp only [Heap.freshWidth, hv] at this
    split at this
    · rename_i w hw; rw [hw, this]
    · exact this.elim

/-- from the checked interpreter to the plain semantics -/
private theorem run_of_ok {u : UEnv} {α : Type} {c : Cmd α} {h : Heap} {Q : α → List Nat → Heap → Prop}
    (hk : Ok u c [] h Q) : ∃ a o' h', run u c h = some (a, h') ∧ Q a o' h' := by
  obtain ⟨a, o', h', e, q⟩ := hk
  exact ⟨a, o', h', by simp [run, interp_unchecked c [] h _ e], q⟩

/-- A program is well-scoped when each operation's operands exist when it runs. -/
def Scoped (u : UEnv) : List Op → Heap → Prop
  | [], _ => True
  | op :: rest, h => opLive h op ∧ ∀ res h', runOp u op h = some (res, h') → Scoped u rest h'


private theorem scoped_append {u : UEnv} (p1 p2 : List Op) : ∀ (h : Heap), Scoped u (p1 ++ p2) h →
    Scoped u p1 h ∧ ∀ rs h1, runProg u p1 h = some (rs, h1) → Scoped u p2 h1 := by
  induction p1 with
  | nil => intro h hs; exact ⟨trivial, fun rs h1 e => by simp [runProg] at e; rw [← e.2]; exact hs⟩
  | cons op rest ih =>
    intro h hs
    obtain ⟨hl, hrest⟩ := hs
    refine ⟨⟨hl, fun res h' e => (ih h' (hrest res h' e)).1⟩, ?_⟩
    intro rs h1 e
    simp only [runProg] at e
    cases e1 : runOp u op h with
    | none => simp [e1] at e
    | some x =>
      obtain ⟨res, h'⟩ := x
      simp only [e1] at e
      cases e2 : runProg u rest h' with
      | none => simp [e2] at e
      | some y =>
        obtain ⟨rs', h''⟩ := y
        simp only [e2, Option.some.injEq, Prod.mk.injEq] at e
        rw [← e.2]
        exact (ih h' (hrest res h' e1)).2 rs' h'' e2

/-! ### decidable scoping -/

def opLiveB (h : Heap) (op : Op) : Bool := (opRefs op).all (· < h.fmts.length)
/-- executable version of `Scoped` -/
def scopedB (u : UEnv) : List Op → Heap → Bool
  | [], _ => true
  | op :: rest, h => opLiveB h op &&
    (match runOp u op h with
     | some (_, h') => scopedB u rest h'
     | none => true)

theorem scoped_of_scopedB (u : UEnv) (p : List Op) : ∀ (h : Heap), scopedB u p h = true → Scoped u p h := by
  induction p with
  | nil => intro h _; trivial
  | cons op rest ih =>
    intro h hb
    simp only [scopedB, Bool.and_eq_true] at hb
    obtain ⟨h1, h3⟩ := hb
    refine ⟨?_, ?_⟩
    · intro r hm
      simp only [opLiveB, List.all_eq_true, decide_eq_true_eq] at h1
      exact h1 r hm
    · intro res h' e
      rw [e] at h3
      exact ih h' h3

end Curtsies.Heap

namespace Curtsies
open Curtsies.Heap

/-- The heap before anything was created satisfies the invariant. -/
theorem C13_inv_empty (u : UEnv) : Inv u {} :=
  ⟨⟨fun r f hf => by simp at hf, fun l cs hl => by simp at hl⟩,
   ⟨fun c x hx => by simp at hx, fun r f v hf => by simp at hf⟩⟩

/-! ### C13_frame -/

/-- FRAME. On every heap satisfying the invariant, every public operation whose operands exist
    runs, returns existing objects, keeps the heap
    well-formed, and EVERY FmtStr object that existed before it - operands, earlier results, values no
    longer referenced - still exists and has the same value afterwards. -/
theorem C13_frame (u : UEnv) (h : Heap) (op : Op) (hI : Inv u h) (hl : opLive h op) :
    ∃ res h', runOp u op h = some (res, h') ∧ Inv u h' ∧ resLive h' res ∧
      ∀ r, r < h.fmts.length → r < h'.fmts.length ∧ h'.value r = h.value r := by
  have g := good_of_inv hI
  obtain ⟨res, o', h', e, g', p, _, hr⟩ := run_of_ok (opCmd_ok g op hl)
  exact ⟨res, h', e, inv_of_good g', hr, fun r hr => ⟨p.fmt_lt hr, p.value g hr⟩⟩

/-- Every view of an existing object is unchanged by an operation: per-character formatting, terminal
    string, length, text, width under any cwcwidth, and any other function of the runs (repr). -/
theorem C13_frame_views (u : UEnv) (h : Heap) (op : Op) (hI : Inv u h) (hl : opLive h op)
    (res : Res) (h' : Heap) (e : runOp u op h = some (res, h')) (r : Nat) (hr : r < h.fmts.length) :
    (h'.value r).map cells = (h.value r).map cells ∧ (h'.value r).map render = (h.value r).map render ∧
    (h'.value r).map len = (h.value r).map len ∧ (h'.value r).map text = (h.value r).map text ∧
    (h'.value r).map (fmtWidth u) = (h.value r).map (fmtWidth u) ∧
    ∀ (β : Type) (view : FmtStr → β), (h'.value r).map view = (h.value r).map view := by
  obtain ⟨res2, h2, e2, _, _, hv⟩ := C13_frame u h op hI hl
  rw [e] at e2
  cases e2
  have := (hv r hr).2
  simp [this]

/-- FRAME, programs. Every well-scoped straight-line program (observations are operations and may
    stand anywhere) runs to the end, the invariant holds again, and every object that existed before
    the program has the same value after it. -/
theorem C13_frame_program (u : UEnv) (p : List Op) : ∀ (h : Heap), Inv u h → Scoped u p h →
    ∃ rs h', runProg u p h = some (rs, h') ∧ Inv u h' ∧
      ∀ r, r < h.fmts.length → r < h'.fmts.length ∧ h'.value r = h.value r := by
  induction p with
  | nil => intro h hI _; exact ⟨[], h, rfl, hI, fun r hr => ⟨hr, rfl⟩⟩
  | cons op rest ih =>
    intro h hI hs
    obtain ⟨hl, hrest⟩ := hs
    obtain ⟨res, h1, e1, hI1, _, hv1⟩ := C13_frame u h op hI hl
    obtain ⟨rs, h2, e2, hI2, hv2⟩ := ih h1 hI1 (hrest res h1 e1)
    refine ⟨res :: rs, h2, by simp [runProg, e1, e2], hI2, ?_⟩
    intro r hr
    have a := hv1 r hr
    have b := hv2 r a.1
    exact ⟨b.1, b.2.trans a.2⟩

/-- FRAME at every position of a program: cut a well-scoped program anywhere; every object existing at
    the cut - whatever observations filled its caches before or fill them after - has the same value
    at the end. -/
theorem C13_frame_program_split (u : UEnv) (p1 p2 : List Op) (h : Heap) (hI : Inv u h) (hs : Scoped u (p1 ++ p2) h) :
    ∃ rs1 h1 rs2 h2, runProg u p1 h = some (rs1, h1) ∧ runProg u p2 h1 = some (rs2, h2) ∧ Inv u h1 ∧ Inv u h2 ∧
      ∀ r, r < h1.fmts.length → r < h2.fmts.length ∧ h2.value r = h1.value r := by
  obtain ⟨s1, s2⟩ := scoped_append p1 p2 h hs
  obtain ⟨rs1, h1, e1, hI1, _⟩ := C13_frame_program u p1 h hI s1
  obtain ⟨rs2, h2, e2, hI2, hv⟩ := C13_frame_program u p2 h1 hI1 (s2 rs1 h1 e1)
  exact ⟨rs1, h1, rs2, h2, e1, e2, hI1, hI2, hv⟩

/-! ### C13_cache -/

/-- CACHE. Every operation preserves "each memo field (`_unicode`, `_len`, `_s`, `_width` of every
    FmtStr object, `color_str` of every run object) is unset or equals the freshly computed view". -/
theorem C13_cache (u : UEnv) (h : Heap) (op : Op) (hI : Inv u h) (hl : opLive h op) :
    ∃ res h', runOp u op h = some (res, h') ∧ CacheOK u h' := by
  obtain ⟨res, h', e, hI', _⟩ := C13_frame u h op hI hl
  exact ⟨res, h', e, hI'.2⟩

/-- CACHE, observations: `str(f)`, `len(f)`, `f.s`, `f.width` return the freshly computed views of `f`'s
    value, whatever the state of the memo fields (and `f.width` raises exactly when a fresh computation
    raises). -/
theorem C13_cache_observations (u : UEnv) (h : Heap) (a : Nat) (v : FmtStr) (hI : Inv u h) (ha : a < h.fmts.length)
    (hv : h.value a = some v) :
    (∃ h', runOp u (.obsStr a) h = some (.text (render v), h')) ∧
    (∃ h', runOp u (.obsLen a) h = some (.int (len v), h')) ∧
    (∃ h', runOp u (.obsS a) h = some (.text (text v), h')) ∧
    (∃ h', runOp u (.obsWidth a) h = some ((match fmtWidth u v with | .ok w => Res.int w | .error e => Res.err e), h')) := by
  have g := good_of_inv hI
  refine ⟨?_, ?_, ?_, ?_⟩
  · have : Ok u (opCmd u (.obsStr a)) [] h (Std u [] h fun res _ h' => res = .text (render v)) := by
      refine Std.bind (obsStr_ok g ha) ?_
      intro x o1 h1 g1 p1 _ hx
      refine Std.pure g1 ?_
      simp only [Heap.freshUni, p1.value g ha, hv, Option.map_some, Option.some.injEq] at hx
      rw [hx]
    obtain ⟨res, _, h', e, _, _, _, hr⟩ := run_of_ok this
    exact ⟨h', by rw [← hr]; exact e⟩
  · have : Ok u (opCmd u (.obsLen a)) [] h (Std u [] h fun res _ h' => res = .int (len v)) := by
      refine Std.bind (obsLen_ok g ha) ?_
      intro x o1 h1 g1 p1 _ hx
      refine Std.pure g1 ?_
      simp only [Heap.freshLen, p1.value g ha, hv, Option.map_some, Option.some.injEq] at hx
      rw [hx]
    obtain ⟨res, _, h', e, _, _, _, hr⟩ := run_of_ok this
    exact ⟨h', by rw [← hr]; exact e⟩
  · have : Ok u (opCmd u (.obsS a)) [] h (Std u [] h fun res _ h' => res = .text (text v)) := by
      refine Std.bind (obsS_ok g ha) ?_
      intro x o1 h1 g1 p1 _ hx
      refine Std.pure g1 ?_
      simp only [Heap.freshS, p1.value g ha, hv, Option.map_some, Option.some.injEq] at hx
      rw [hx]
    obtain ⟨res, _, h', e, _, _, _, hr⟩ := run_of_ok this
    exact ⟨h', by rw [← hr]; exact e⟩
  · have : Ok u (opCmd u (.obsWidth a)) [] h (Std u [] h fun res _ h' =>
        res = (match fmtWidth u v with | .ok w => Res.int w | .error e => Res.err e)) := by
      refine Std.bind (obsWidth_ok g ha) ?_
      intro x o1 h1 g1 p1 _ hx
      cases x with
      | ok w =>
        refine Std.pure g1 ?_
        simp only [Heap.freshWidth, p1.value g ha, hv] at hx
        split at hx
        · rename_i w' hw; rw [hw, hx]
        · exact hx.elim
      | error e =>
        refine Std.pure g1 ?_
        simp only [p1.value g ha, hv, Option.map_some, Option.some.injEq] at hx
        rw [hx]
    obtain ⟨res, _, h', e, _, _, _, hr⟩ := run_of_ok this
    exact ⟨h', by rw [← hr]; exact e⟩

/-! ### the heap operations return the values of the value-level models -/

/-- Slicing/indexing on the heap returns what the value-level `getitem` (the model the C06 theorems are
    about) computes from the operand's value: the same error, or an object holding exactly that value.
    -/
theorem C13_getitem_refines (u : UEnv) (h : Heap) (a : Nat) (v : FmtStr) (idx : Index) (hI : Inv u h)
    (ha : a < h.fmts.length) (hv : h.value a = some v) :
    ∃ res h', runOp u (.getitem a idx) h = some (res, h') ∧
      match Curtsies.getitem v idx with
      | .error e => res = .err e
      | .ok w => ∃ r, res = .refs [r] ∧ h'.value r = some w := by
  have g := good_of_inv hI
  have : Ok u (opCmd u (.getitem a idx)) [] h (Std u [] h fun res _ h' =>
      match Curtsies.getitem v idx with
      | .error e => res = .err e
      | .ok w => ∃ r, res = .refs [r] ∧ h'.value r = some w) := by
    refine Std.bind (getitem_val g ha hv idx) ?_
    intro x o1 h1 g1 _ _ hx
    refine Std.pure g1 ?_
    cases hg : Curtsies.getitem v idx with
    | error e => rw [hg] at hx; simp only at hx; rw [hx]; rfl
    | ok w =>
      rw [hg] at hx
      obtain ⟨r, e, _, hr⟩ := hx
      exact ⟨r, by rw [e]; rfl, hr⟩
  obtain ⟨res, _, h', e, _, _, _, hr⟩ := run_of_ok this
  exact ⟨res, h', e, hr⟩


/-- from a value triple of a command returning one object to `runOp` -/
private theorem one_refines {u : UEnv} {h : Heap} {op : Op} {c : Cmd Nat} {X : FmtStr}
    (hop : opCmd u op = c >>= fun r => Pure.pure (Res.one r)) (hI : Inv u h)
    (hc : Good u [] h → Ok u c [] h (Std u [] h fun r _ h' => r < h'.fmts.length ∧ h'.value r = some X)) :
    ∃ r h', runOp u op h = some (.refs [r], h') ∧ h'.value r = some X := by
  have g := good_of_inv hI
  have : Ok u (opCmd u op) [] h (Std u [] h fun res _ h' => ∃ r, res = .refs [r] ∧ h'.value r = some X) := by
    rw [hop]
    refine Std.bind (hc g) ?_
    intro r o1 h1 g1 _ _ hr
    exact Std.pure g1 ⟨r, rfl, hr.2⟩
  obtain ⟨res, _, h', e, _, _, _, r, er, hr⟩ := run_of_ok this
  exact ⟨r, h', by rw [← er]; exact e, hr⟩

/-- `a.splice(new, start, end)` (start ≤ end, ESC-free `str` operand) returns an object whose value is the
    value-level `splice` of the operands' values - the function the C09 theorems are about. -/
theorem C13_splice_refines (u : UEnv) (h : Heap) (a : Nat) (new : Arg) (start : Nat) (end_ : Option Nat) (v w : FmtStr)
    (hI : Inv u h) (ha : a < h.fmts.length) (hn : argLive h new) (hv : h.value a = some v) (hw : argVal h new = some w)
    (hse : ¬ end_.getD start < start) :
    ∃ r h', runOp u (.splice a new start end_) h = some (.refs [r], h') ∧
      h'.value r = some (Curtsies.splice v w start end_) :=
  one_refines (by simp only [opCmd, if_neg hse]) hI (fun g => splice_val g ha hn hv hw start end_)

/-- `a.append(new)` -/
theorem C13_append_refines (u : UEnv) (h : Heap) (a : Nat) (new : Arg) (v w : FmtStr)
    (hI : Inv u h) (ha : a < h.fmts.length) (hn : argLive h new) (hv : h.value a = some v) (hw : argVal h new = some w) :
    ∃ r h', runOp u (.append a new) h = some (.refs [r], h') ∧ h'.value r = some (Curtsies.append v w) :=
  one_refines rfl hI (fun g => append_val g ha hn hv hw)

/-- `a + b`, `a + "str"`, `"str" + a`, `a * n` (also `n * a`): the value-level functions of C06. -/
theorem C13_add_refines (u : UEnv) (h : Heap) (a b : Nat) (va vb : FmtStr) (hI : Inv u h) (ha : a < h.fmts.length)
    (hb : b < h.fmts.length) (hva : h.value a = some va) (hvb : h.value b = some vb) :
    ∃ r h', runOp u (.add a b) h = some (.refs [r], h') ∧ h'.value r = some (Curtsies.add va vb) :=
  one_refines rfl hI (fun g => add_val g ha hb hva hvb)

theorem C13_addStr_refines (u : UEnv) (h : Heap) (a : Nat) (t : Text) (va : FmtStr) (hI : Inv u h) (ha : a < h.fmts.length)
    (hva : h.value a = some va) :
    (∃ r h', runOp u (.addStr a t) h = some (.refs [r], h') ∧ h'.value r = some (Curtsies.addStr va t)) ∧
    (∃ r h', runOp u (.raddStr a t) h = some (.refs [r], h') ∧ h'.value r = some (Curtsies.raddStr va t)) :=
  ⟨one_refines rfl hI (fun g => addStr_val g ha hva t), one_refines rfl hI (fun g => raddStr_val g ha hva t)⟩

theorem C13_mul_refines (u : UEnv) (h : Heap) (a : Nat) (n : Int) (va : FmtStr) (hI : Inv u h) (ha : a < h.fmts.length)
    (hva : h.value a = some va) :
    ∃ r h', runOp u (.mul a n) h = some (.refs [r], h') ∧ h'.value r = some (Curtsies.mul va n) :=
  one_refines rfl hI (fun g => mul_val g ha hva n)

/-- `sep.join(items)`: items are FmtStr objects or ESC-free `str`s (`argVal`); `ws` are their values. -/
theorem C13_join_refines (u : UEnv) (h : Heap) (sep : Nat) (items : List Arg) (vsep : FmtStr) (ws : List FmtStr)
    (hI : Inv u h) (hs : sep < h.fmts.length) (hvs : h.value sep = some vsep) (hlive : ∀ x, x ∈ items → argLive h x)
    (hws : items.map (argVal h) = ws.map some) :
    ∃ r h', runOp u (.join sep items) h = some (.refs [r], h') ∧ h'.value r = some (Curtsies.join vsep ws) :=
  one_refines rfl hI (fun g => join_val g hs hvs hlive hws)

/-- `a.width_aware_slice(idx)`: the value-level `widthAwareSlice` of Model/Width.lean (C10), same error or
    an object holding exactly that value. -/
theorem C13_wslice_refines (u : UEnv) (h : Heap) (a : Nat) (v : FmtStr) (idx : Index) (hI : Inv u h)
    (ha : a < h.fmts.length) (hv : h.value a = some v) :
    ∃ res h', runOp u (.wslice a idx) h = some (res, h') ∧
      match Curtsies.widthAwareSlice u v idx with
      | .error e => res = .err e
      | .ok w => ∃ r, res = .refs [r] ∧ h'.value r = some w := by
  have g := good_of_inv hI
  have : Ok u (opCmd u (.wslice a idx)) [] h (Std u [] h fun res _ h' =>
      match Curtsies.widthAwareSlice u v idx with
      | .error e => res = .err e
      | .ok w => ∃ r, res = .refs [r] ∧ h'.value r = some w) := by
    refine Std.bind (widthAwareSlice_val g ha hv idx) ?_
    intro x o1 h1 g1 _ _ hx
    refine Std.pure g1 ?_
    cases hg : Curtsies.widthAwareSlice u v idx with
    | error e => rw [hg] at hx; simp only at hx; rw [hx]; rfl
    | ok w =>
      rw [hg] at hx
      obtain ⟨r, e, _, hr⟩ := hx
      exact ⟨r, by rw [e]; rfl, hr⟩
  obtain ⟨res, _, h', e, _, _, _, hr⟩ := run_of_ok this
  exact ⟨res, h', e, hr⟩

/-! ### C13_guards

  These statements only RECORD how the model reads formatstring.py:77-87 and 720-721 (`opCmd` answers
  `.err` for `setitem` and for the mutator names): they are immediate from the model's definition and
  carry no weight by themselves. That the REAL `f[i] = x` and the real attribute-dict methods raise and
  leave `str(f)` unchanged is established on every run by the tie (guard steps inside the programs) and by
  the guard oracle, which enumerates `dir(dict)` semantically; `C13_guards_table` (Properties/C13Table.lean) connects the two: the
  names the live `FrozenAttributes` lets through (regenerated) are exactly the ones the model lets
  through. The operation `attsMutate` is an operation of the model only for names in
  `Generated.dictMutators` (the driver refuses others: `get`, `keys`, `copy` … are not mutators). -/

/-- GUARD (model's reading). Item assignment raises and leaves the heap unchanged. -/
theorem C13_guards_setitem (u : UEnv) (h : Heap) (a : Nat) :
    runOp u (.setitem a) h = some (.err .otherException, h) := rfl

/-- GUARD (model's reading). Every regenerated mutator name of a run's attribute dict (`__init__` on the
    initialised dict included) raises and leaves the heap unchanged. -/
theorem C13_guards (u : UEnv) (h : Heap) (a k : Nat) (name : String) (_hm : name ∈ Generated.dictMutators) :
    runOp u (.attsMutate a k name) h = some (.err .otherException, h) := rfl

/-- `__init__` is one of the regenerated mutator names (so `C13_guards` covers it). -/
theorem C13_guards_init_listed : "__init__" ∈ Generated.dictMutators := by decide

/-! ### concrete instances -/

private def u0 : UEnv := ⟨fun _ => 1, fun _ => false⟩
private def redBold : Atts := { fg := some 1, bold := some true }
private def redNotBold : Atts := { fg := some 1, bold := some false }

/-- `f = FmtStr(Chunk('a', {'fg': 31, 'bold': True})); str(f)` -/
private def wProg : List Op := [.lit [⟨['a'], redBold⟩], .obsStr 0]
private def wRendered : Text := seq 31 ++ (seq 1 ++ ['a'] ++ seq 0) ++ seq 39
private def hW : Heap :=
  ⟨[⟨['a'], redBold, some wRendered⟩], [[0]], [⟨0, some wRendered, none, none, none⟩]⟩
/-- the heap `hW` after an in-place change of the run's attributes to `{'fg': 31, 'bold': False}` (what the
    re-callable `__init__` of D24 did) -/
private def hW' : Heap :=
  ⟨[⟨['a'], redNotBold, some wRendered⟩], [[0]], [⟨0, some wRendered, none, none, none⟩]⟩

private theorem hW_reached : runProg u0 wProg {} = some ([.refs [0], .text wRendered], hW) := by decide +kernel
private theorem hW_inv : Inv u0 hW := by
  obtain ⟨rs, h', e, hI, _⟩ := C13_frame_program u0 wProg {} (C13_inv_empty u0)
    (scoped_of_scopedB u0 wProg {} (by decide +kernel))
  rw [hW_reached] at e
  cases e
  exact hI

/-- REGRESSION for D24 (repaired): on the reachable heap `f = bold(red('a')); str(f)`, an in-place change of
    the run's attribute dict (primitive `setAtts`, what `atts.__init__({'bold': False})` used to do) runs in
    the plain semantics, changes the value of `f`, leaves the memoised terminal string stale, and is
    refused by the checked interpreter - no operation of the library may do it. -/
theorem C13_inplace_atts_would_break :
    Inv u0 hW ∧ run u0 (Heap.setAtts 0 redNotBold) hW = some ((), hW') ∧
    hW'.value 0 ≠ hW.value 0 ∧ ¬ CacheOK u0 hW' ∧ interp u0 true (Heap.setAtts 0 redNotBold) [] hW = none := by
  refine ⟨hW_inv, by decide +kernel, by decide +kernel, ?_, by decide +kernel⟩
  intro c
  have := (c.fmt 0 ⟨0, some wRendered, none, none, none⟩ [⟨['a'], redNotBold⟩] rfl (by decide +kernel)).1 wRendered rfl
  revert this
  decide +kernel

/-- The primitives are NOT safe by themselves. On the heap holding `f = bold(red('a'))` with `str(f)`
    memoised: extending or clearing the run list `f.chunks` in place changes `f`'s value, and writing a
    memo field with another value breaks the cache invariant - all three run fine in the plain semantics,
    and the checked interpreter (whose discipline every operation is PROVED to follow, `opCmd_ok`) refuses
    each of them. -/
theorem C13_primitives_can_break :
    hW.value 0 = some [⟨['a'], redBold⟩] ∧
    (run u0 (Heap.listExtend 0 [0]) hW).map (fun p => p.2.value 0) = some (some [⟨['a'], redBold⟩, ⟨['a'], redBold⟩]) ∧
    (run u0 (Heap.listClear 0) hW).map (fun p => p.2.value 0) = some (some []) ∧
    (run u0 (Heap.setLen 0 7) hW).map (fun p => p.2.fmts.map (·.len)) = some [some 7] ∧
    interp u0 true (Heap.listExtend 0 [0]) [] hW = none ∧
    interp u0 true (Heap.listClear 0) [] hW = none ∧
    interp u0 true (Heap.setLen 0 7) [] hW = none := by
  decide +kernel

/-- Non-vacuity: a program with aliasing and observations before and after it.
      a = red('ab') + bold('c');  sep = bold(',') + ' ';  str(a); len(sep)
      j = sep.join([a, 'y', a])          -- `before` aliases sep.chunks; j shares a's and sep's runs
      s = a[0:2]                         -- whole-run slice: s.chunks[0] IS a.chunks[0]
      t = a.splice('', 1)                -- t IS a
      str(j); s.s; a.width; len(t)
      k = s.append(sep); m = j * 2
    It is well-scoped, runs, the slice shares run object 0 with `a`, the splice returns `a` (object 0),
    and afterwards `a`, `sep`, `j`, `s` have the values they had when created. -/
private def exProg : List Op :=
  [.lit [⟨['a', 'b'], { fg := some 1 }⟩, ⟨['c'], { bold := some true }⟩],
   .lit [⟨[','], { bold := some true }⟩, ⟨[' '], {}⟩],
   .obsStr 0, .obsLen 1,
   .join 1 [.ref 0, .str ['y'], .ref 0],
   .getitem 0 (.slice (some 0) (some 2) false),
   .splice 0 (.str []) 1 none,
   .obsStr 4, .obsS 5, .obsWidth 0, .obsLen 0,
   .append 5 (.ref 1), .mul 4 2]

theorem C13_example_aliasing :
    scopedB u0 exProg {} = true ∧
    (match runProg u0 exProg {} with
     | none => false
     | some (rs, h) =>
       rs.take 2 == [.refs [0], .refs [1]] && rs[4]? == some (.refs [4]) && rs[5]? == some (.refs [5]) &&
       rs[6]? == some (.refs [0]) &&                                           -- splice returned `a` itself
       (h.fmts[5]?.bind fun f => h.lists[f.chunks]?) == some [0] &&             -- the slice holds a's run object 0
       (h.fmts[0]?.bind fun f => h.lists[f.chunks]?) == some [0, 1] &&
       h.value 0 == some [⟨['a', 'b'], { fg := some 1 }⟩, ⟨['c'], { bold := some true }⟩] &&
       h.value 1 == some [⟨[','], { bold := some true }⟩, ⟨[' '], {}⟩] &&
       h.value 5 == some [⟨['a', 'b'], { fg := some 1 }⟩] &&
       (h.value 4).map text == some ['a', 'b', 'c', ',', ' ', 'y', ',', ' ', 'a', 'b', 'c'] &&
       (h.fmts[0]?.map fun f => (f.uni.isSome, f.len.isSome, f.width.isSome)) == some (true, true, true)) = true := by
  decide +kernel

end Curtsies
