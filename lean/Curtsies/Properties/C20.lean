/-
  C20 - Key naming modes and config-file key names are mutually consistent.

  Model: `getKey`, `keyName` (events.get_key / _key_name), `keymapGet` (configfile_keynames.KeyMap.__getitem__)
  in Model/Keys.lean; tables and SPECIALS regenerated from /repo (Generated/Keys.lean).
  The theorems hold for ARBITRARY tables meeting the decidable side conditions `T.Core` (Proofs/KeysCore.lean:
  curses keys ⊆ curtsies keys, prefix set = recomputation, multi-byte entries ESC-initiated, sizes, no duplicate
  keys), which `genTables_core` (Proofs/KeysGenCore.lean) re-proves over the regenerated tables on every build.
  They do NOT need "multi-byte entries are ASCII" (C03's premise): this file does not import Properties/C03.lean.

  Domain of C20_config (the property's "every key a configuration file can name ... all letters, all printable
  characters, all function keys, all specials"): C-<letter a..z, A..Z>, M-<printable ASCII character 0x20..0x7e>,
  M-<non-ASCII printable character; three representatives>, F1..F12, the documented SPECIALS, and the empty
  (unbound) name. KNOWN FINDING D42: C-<UPPER-CASE letter> and M-<non-ASCII character> map to names the decoder
  never produces; `C20_config_partial` carries the complement of that footprint (`isD42Name`), the full statement
  is `C20_config_full_statement`, refuted by `C20_D42_witness`. The property is silent on malformed names;
  `keymapGet` models them (KeyError etc.) and the harness ties them.
-/
import Curtsies.Proofs.KeysGenCore
namespace Curtsies
open Spec.Utf8

/-- where the decoder cuts: waits / reports a key / fails with an exception kind -/
inductive Cut | wait | key | fail (e : PyErr)
  deriving DecidableEq, Repr

def cutOf : Except PyErr (Option KeyVal) → Cut
  | .ok none => .wait
  | .ok (some _) => .key
  | .error e => .fail e

theorem getKey_cut {T : KeyTables} (hT : T.Core) (seq : List Nat) (enc : Enc) (mode : KeyMode) (full : Bool) :
    cutOf (getKey T seq enc mode full) =
      if seq.length > T.maxSize then .fail .valueError
      else if full && keyKnown T seq enc then .key
      else if T.prefixes.contains seq || couldBeUnfinishedChar seq enc then .wait
      else if keyKnown T seq enc then .key
      else .fail .unicodeDecodeError := by
  unfold getKey
  split
  · rfl
  · split
    · rename_i h
      simp only [Bool.and_eq_true] at h
      obtain ⟨k, hk⟩ := keyName_ok_of_known_core hT seq enc mode h.2
      simp [hk, Except.map, cutOf]
    · split
      · rfl
      · split
        · rename_i h
          obtain ⟨k, hk⟩ := keyName_ok_of_known_core hT seq enc mode h
          simp [hk, Except.map, cutOf]
        · rfl

/-- The three naming modes differ only in names: for the same bytes, encoding and `full` they decide alike
    (wait / key / the same exception kind) - for all inputs. Naming happens after the decision. -/
theorem C20_same_cuts (T : KeyTables) (hT : T.Core) (seq : List Nat) (enc : Enc) (m₁ m₂ : KeyMode) (full : Bool) :
    cutOf (getKey T seq enc m₁ full) = cutOf (getKey T seq enc m₂ full) := by
  rw [getKey_cut hT, getKey_cut hT]

/-- ... hence `find_key` consumes the same bytes in every mode (one call; whole runs: `C20_same_cuts_segment`). -/
theorem C20_same_cuts_findKey (T : KeyTables) (hT : T.Core) (enc : Enc) (m₁ m₂ : KeyMode) (buf : List Nat) :
    (findKey T enc m₁ buf).map (Option.map (·.2)) = (findKey T enc m₂ buf).map (Option.map (·.2)) := by
  suffices ∀ un cur, (findKeyLoop T enc m₁ cur un).map (Option.map (·.2)) =
      (findKeyLoop T enc m₂ cur un).map (Option.map (·.2)) from this buf []
  intro un
  induction un with
  | nil => intro cur; simp only [findKeyLoop]
  | cons b rest ih =>
    intro cur
    have hc := C20_same_cuts T hT (cur ++ [b]) enc m₁ m₂ rest.isEmpty
    simp only [findKeyLoop]
    cases h1 : getKey T (cur ++ [b]) enc m₁ rest.isEmpty with
    | error e1 =>
      cases h2 : getKey T (cur ++ [b]) enc m₂ rest.isEmpty with
      | error e2 => rw [h1, h2] at hc; simp [cutOf] at hc; simp [hc, Except.map]
      | ok o2 => rw [h1, h2] at hc; cases o2 <;> simp [cutOf] at hc
    | ok o1 =>
      cases h2 : getKey T (cur ++ [b]) enc m₂ rest.isEmpty with
      | error e2 => rw [h1, h2] at hc; cases o1 <;> simp [cutOf] at hc
      | ok o2 =>
        rw [h1, h2] at hc
        cases o1 <;> cases o2 <;> simp [cutOf] at hc
        · exact ih _
        · simp [Except.map]

/-- ... and over a whole run: `segment` cuts the stream into the same pieces in every mode (same consumed byte
    strings in the same order, or the same exception). -/
theorem C20_same_cuts_segment (T : KeyTables) (hT : T.Core) (enc : Enc) (m₁ m₂ : KeyMode) (n : Nat) (buf : List Nat) :
    (segment T enc m₁ n buf).map (List.map (·.2)) = (segment T enc m₂ n buf).map (List.map (·.2)) := by
  induction n generalizing buf with
  | zero => cases buf <;> simp [segment, Except.map]
  | succ n ih =>
    cases buf with
    | nil => simp [segment, Except.map]
    | cons b bs =>
      have h := C20_same_cuts_findKey T hT enc m₁ m₂ (b :: bs)
      simp only [segment]
      cases h1 : findKey T enc m₁ (b :: bs) with
      | error e1 =>
        cases h2 : findKey T enc m₂ (b :: bs) with
        | error e2 => rw [h1, h2] at h; simp [Except.map] at h; simp [h, Except.map]
        | ok o2 => rw [h1, h2] at h; simp [Except.map] at h
      | ok o1 =>
        cases h2 : findKey T enc m₂ (b :: bs) with
        | error e2 => rw [h1, h2] at h; simp [Except.map] at h
        | ok o2 =>
          rw [h1, h2] at h
          simp [Except.map] at h
          cases o1 with
          | none => cases o2 with
            | none => rfl
            | some _ => simp at h
          | some p1 => cases o2 with
            | none => simp at h
            | some p2 =>
              obtain ⟨k1, c1, r1⟩ := p1
              obtain ⟨k2, c2, r2⟩ := p2
              simp at h
              obtain ⟨rfl, rfl⟩ := h
              have := ih r1
              simp only []
              cases s1 : segment T enc m₁ n r1 <;> cases s2 : segment T enc m₂ n r1 <;>
                rw [s1, s2] at this <;> simp [Except.map] at this ⊢ <;> simp [this]

/-- 'bytes' naming returns exactly the bytes of the keypress. -/
theorem C20_bytes (T : KeyTables) (s : List Nat) (e : Enc) (full : Bool) (k : KeyVal)
    (h : getKey T s e .bytes full = .ok (some k)) : k = .bytes s := by
  unfold getKey at h
  simp only [keyName, Except.map] at h
  split at h
  · simp at h
  · split at h
    · simp at h; exact h.symm
    · split at h
      · simp at h
      · split at h
        · simp at h; exact h.symm
        · simp at h

/-- Every sequence that has a curses-style name also has a curtsies name (regenerated tables). -/
theorem C20_subset : ∀ e ∈ Generated.cursesNamesCps, (Generated.curtsiesNamesCps.lookup e.1).isSome := by
  decide +kernel

/-- Curses naming never raises NotImplementedError - for ANY tables: since fix c2888a4 an undecodable multi-byte
    sequence without a curses name is called `bytes: xNN-xNN...` (`bytesName`); `_key_name` in curses mode always
    returns a name, and `get_key` never raises NotImplementedError in any mode. -/
theorem C20_no_unnameable (T : KeyTables) (seq : List Nat) (enc : Enc) (mode : KeyMode) (full : Bool) :
    (∃ k, keyName T seq enc .curses = .ok k) ∧ getKey T seq enc mode full ≠ .error .notImplementedError := by
  have hkn : ∀ m x, keyName T seq enc m = .error x → x = .unicodeDecodeError := by
    intro m x h
    cases m <;> simp only [keyName] at h <;> (repeat' split at h) <;> simp_all
  refine ⟨?_, ?_⟩
  · simp only [keyName]; (repeat' split) <;> exact ⟨_, rfl⟩
  · intro h
    unfold getKey at h
    have hm : ∀ r : Except PyErr KeyVal, Except.map some r = .error .notImplementedError →
        r = .error .notImplementedError := by
      intro r hr; cases r <;> simp [Except.map] at hr ⊢; exact hr
    split at h
    · cases h
    · split at h
      · have := hkn _ _ (hm _ h); cases this
      · split at h
        · cases h
        · split at h
          · have := hkn _ _ (hm _ h); cases this
          · cases h

/-! ### configuration names -/

/-- `n` is a name the decoder can actually produce: for some table sequence `u`, some encoding and some
    continuation `rest`, `find_key` on `u ++ rest` returns `n` as one keypress consuming exactly `u` (curtsies
    naming) -/
def producible (T : KeyTables) (n : List Nat) : Prop :=
  ∃ u enc rest, T.isKey u = true ∧ findKey T enc .curtsies (u ++ rest) = .ok (some (.text n, u, rest))

/-- every curtsies table name is produced by `get_key` on its sequence when the buffer is exhausted ... -/
theorem C20_table_names_producible (T : KeyTables) (hT : T.Core) (u : List Nat) (name : List Nat)
    (h : T.curtsies.lookup u = some name) (enc : Enc) :
    getKey T u enc .curtsies true = .ok (some (.text name)) := by
  have hu : T.isKey u = true := by simp [KeyTables.isKey, h]
  have hl : u.length ≤ T.maxSize := hT.max_size (u, name) (by simp [KeyTables.all, lookup_mem h])
  rw [getKey_known hl enc .curtsies true (keyKnown_of_isKey hu enc) (Or.inl rfl)]
  simp [keyName, h, Except.map]

/-- ... and by `find_key` on a buffer holding exactly that sequence, under every encoding. -/
theorem C20_table_names_producible_findKey (T : KeyTables) (hT : T.Core) (u : List Nat) (name : List Nat)
    (h : T.curtsies.lookup u = some name) (enc : Enc) :
    findKey T enc .curtsies (u ++ []) = .ok (some (.text name, u, [])) :=
  findKey_table_whole_core hT u name h enc

/-- the configuration names the property quantifies over ("all letters, all printable characters, all function
    keys, all specials"): SPECIALS, C-a..C-z, C-A..C-Z, M-<0x20..0x7e>, M-<a few non-ASCII printable characters:
    U+00E9, U+00DF, U+0416>, F1..F12 -/
def validConfigNames (specials : List (List Nat × List Nat)) : List (List Nat) :=
  specials.map (fun p => p.1) ++ (List.range 26).map (fun i => [67, 45, 97 + i]) ++
  (List.range 26).map (fun i => [67, 45, 65 + i]) ++
  (List.range 95).map (fun i => [77, 45, 32 + i]) ++ [[77, 45, 0xE9], [77, 45, 0xDF], [77, 45, 0x416]] ++
  (List.range 12).map (fun i => 70 :: natCps (i + 1))

/-- Footprint of known finding D42: the two name shapes `C-<UPPER-CASE letter>` and `M-<non-ASCII character>`. -/
def isD42Name : List Nat → Bool
  | [67, 45, c] => 65 ≤ c && c ≤ 90
  | [77, 45, c] => 128 ≤ c
  | _ => false

/-- `keymap[k]` succeeds with at least one name, each of which is a name in the curtsies table -/
def configOk (T : KeyTables) (specials : List (List Nat × List Nat)) (k : List Nat) : Bool :=
  match keymapGet specials k with
  | .ok names => !names.isEmpty && names.all fun n => (T.curtsies.map (·.2)).contains n
  | .error _ => false

set_option maxRecDepth 100000 in
theorem config_check : ∀ k ∈ validConfigNames Generated.configSpecialsCps,
    isD42Name k = false → configOk genTables Generated.configSpecialsCps k = true := by decide +kernel

/-- FULL statement: every key a configuration file can name maps to at least one name, and every name it maps to
    is one the decoder actually produces. FALSE for the code as it is (`C20_D42_witness`): known finding D42. -/
def C20_config_full_statement : Prop :=
  ∀ k ∈ validConfigNames Generated.configSpecialsCps,
    ∃ names, keymapGet Generated.configSpecialsCps k = .ok names ∧ names ≠ [] ∧
      ∀ n ∈ names, producible genTables n

/-- What is proved: the full statement for every valid name outside D42's footprint (`isD42Name`: C-<UPPER-CASE
    letter>, M-<non-ASCII character>). Missing: exactly those two shapes, where the code does map to names the
    decoder never produces. -/
theorem C20_config_partial : ∀ k ∈ validConfigNames Generated.configSpecialsCps, isD42Name k = false →
    ∃ names, keymapGet Generated.configSpecialsCps k = .ok names ∧ names ≠ [] ∧
      ∀ n ∈ names, producible genTables n := by
  intro k hk hd
  have h := config_check k hk hd
  simp only [configOk] at h
  split at h
  · rename_i names hn
    simp only [Bool.and_eq_true, Bool.not_eq_true', List.isEmpty_eq_false_iff, List.all_eq_true,
      List.contains_iff_mem, List.mem_map] at h
    refine ⟨names, hn, h.1, ?_⟩
    intro n hn'
    obtain ⟨e, he, h1⟩ := h.2 n hn'
    have h2 : genTables.curtsies.lookup e.1 = some e.2 := genTables_core.curtsies_lookup e he
    refine ⟨e.1, .utf8, [], by simp [KeyTables.isKey, h2], ?_⟩
    rw [C20_table_names_producible_findKey genTables genTables_core e.1 e.2 h2 .utf8, h1]
  · cases h

theorem findKeyLoop_result_getKey {T : KeyTables} (enc : Enc) (mode : KeyMode) (un : List Nat) :
    ∀ cur k c r, findKeyLoop T enc mode cur un = .ok (some (k, c, r)) →
      ∃ full, getKey T c enc mode full = .ok (some k) := by
  induction un with
  | nil => intro cur k c r h; simp only [findKeyLoop] at h; split at h <;> simp at h
  | cons b rest ih =>
    intro cur k c r h
    simp only [findKeyLoop] at h
    split at h
    · simp at h
    · rename_i k' hg
      simp at h
      obtain ⟨rfl, rfl, rfl⟩ := h
      exact ⟨_, hg⟩
    · exact ih _ k c r h

theorem getKey_some_keyName {T : KeyTables} {s : List Nat} {enc : Enc} {mode : KeyMode} {full : Bool} {k : KeyVal}
    (h : getKey T s enc mode full = .ok (some k)) : keyName T s enc mode = .ok k := by
  have hm : ∀ r : Except PyErr KeyVal, Except.map some r = .ok (some k) → r = .ok k := by
    intro r hr; cases r <;> simp [Except.map] at hr ⊢; exact hr
  unfold getKey at h
  split at h
  · cases h
  · split at h
    · exact hm _ h
    · split at h
      · cases h
      · split at h
        · exact hm _ h
        · cases h

/-- whatever name the decoder produces for a table sequence (any encoding, any continuation) is a name in the
    curtsies table -/
theorem producible_in_table (T : KeyTables) (hT : T.Core) (n : List Nat) (h : producible T n) :
    ∃ e ∈ T.curtsies, e.2 = n := by
  obtain ⟨u, enc, rest, hu, hf⟩ := h
  obtain ⟨full, hg⟩ := findKeyLoop_result_getKey enc .curtsies (u ++ rest) [] _ _ _ hf
  have hk := getKey_some_keyName hg
  obtain ⟨n', hn'⟩ := curtsies_name_of_isKey hT hu
  simp [keyName, hn'] at hk
  subst hk
  exact ⟨(u, n'), lookup_mem hn', rfl⟩

set_option maxRecDepth 100000 in
/-- Known finding D42, witnessed on the model: `C-A` and `M-é` are configuration names in the property's domain
    ("all letters, all printable characters"); `keymap` maps them to `<Ctrl-A>` and to `<Esc+é>`, `<Meta-é>`;
    no table sequence is called any of these, so the decoder never produces them and the full statement is
    false. -/
theorem C20_D42_witness :
    [67, 45, 65] ∈ validConfigNames Generated.configSpecialsCps ∧
    keymapGet Generated.configSpecialsCps [67, 45, 65] = .ok [[60, 67, 116, 114, 108, 45, 65, 62]] ∧
    ¬ producible genTables [60, 67, 116, 114, 108, 45, 65, 62] ∧
    [77, 45, 0xE9] ∈ validConfigNames Generated.configSpecialsCps ∧
    keymapGet Generated.configSpecialsCps [77, 45, 0xE9] =
      .ok [[60, 69, 115, 99, 43, 0xE9, 62], [60, 77, 101, 116, 97, 45, 0xE9, 62]] ∧
    ¬ producible genTables [60, 69, 115, 99, 43, 0xE9, 62] ∧
    ¬ C20_config_full_statement := by
  have t1 : ∀ e ∈ genTables.curtsies, e.2 ≠ [60, 67, 116, 114, 108, 45, 65, 62] := by decide +kernel
  have t2 : ∀ e ∈ genTables.curtsies, e.2 ≠ [60, 69, 115, 99, 43, 0xE9, 62] := by decide +kernel
  have p1 : ¬ producible genTables [60, 67, 116, 114, 108, 45, 65, 62] := by
    intro h; obtain ⟨e, he, h2⟩ := producible_in_table genTables genTables_core _ h; exact t1 e he h2
  have p2 : ¬ producible genTables [60, 69, 115, 99, 43, 0xE9, 62] := by
    intro h; obtain ⟨e, he, h2⟩ := producible_in_table genTables genTables_core _ h; exact t2 e he h2
  have m1 : [67, 45, 65] ∈ validConfigNames Generated.configSpecialsCps := by decide +kernel
  have k1 : keymapGet Generated.configSpecialsCps [67, 45, 65] = .ok [[60, 67, 116, 114, 108, 45, 65, 62]] := by
    decide +kernel
  refine ⟨m1, k1, p1, by decide +kernel, by decide +kernel, p2, ?_⟩
  intro h
  obtain ⟨names, hn, _, hp⟩ := h _ m1
  rw [k1] at hn
  cases hn
  exact p1 (hp _ (by simp))

/-- An unbound key (the empty name) maps to nothing - for any SPECIALS table. -/
theorem C20_config_unbound (specials : List (List Nat × List Nat)) : keymapGet specials [] = .ok [] := rfl

/-- Non-vacuity: `C-a`, `M-x`, `M- `, `F12`, `C-i` (SPECIALS) are among the valid names, outside D42's footprint, and
    map as expected. -/
example : [67, 45, 97] ∈ validConfigNames Generated.configSpecialsCps ∧ isD42Name [67, 45, 97] = false ∧
    [77, 45, 32] ∈ validConfigNames Generated.configSpecialsCps ∧
    keymapGet Generated.configSpecialsCps [77, 45, 32] = .ok [cpsOf "<Esc+SPACE>", cpsOf "<Meta- >"] ∧
    keymapGet Generated.configSpecialsCps [67, 45, 97] = .ok [cpsOf "<Ctrl-a>"] ∧
    keymapGet Generated.configSpecialsCps [77, 45, 120] = .ok [cpsOf "<Esc+x>", cpsOf "<Meta-x>"] ∧
    keymapGet Generated.configSpecialsCps (cpsOf "F12") = .ok [cpsOf "<F12>"] ∧
    keymapGet Generated.configSpecialsCps (cpsOf "C-i") = .ok [cpsOf "<TAB>"] := by decide +kernel

end Curtsies
