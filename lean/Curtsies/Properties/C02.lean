/-
  C02 - FullscreenWindow: after every render the screen equals the array.

  Terminal = Spec/Term.lean (`Term`, `exec`); window = Model/Window.lean (`renderFullscreen`, emitting `TermOp`s;
  writing a line is `TermOp.putStr (render line)`, which C01 turns into "the cells of the line, default state after").

  `Inv win t`    what the row cache promises: every cached line is ESC-free, and IF the size the window last rendered
                 at is the terminal's size and the cache is non-empty, every screen row shows its cached line (blank for
                 `None` and for rows absent from the cache — the "skip rows not in the cache" shortcut relies on it).
  C02_render     one render from ANY terminal state satisfying `Inv` (in particular any junk screen when the cache is
                 empty or the size changed): afterwards every cell (r,c) of the screen is cell (r,c) of the array
                 (blank outside the array: rows/columns beyond the terminal are clipped), the cursor is at cursor_pos with
                 no pending wrap, cursor visibility is restored, nothing scrolled, and `Inv` holds again.
  C02_history    any sequence of render | resize steps (resize = adversarial replacement of size, grid and cursor, to a
                 size different from the one last rendered at): after every render the screen equals the array.
  C02_caps       the capability strings regenerated from blessed are the control functions `TermOp` stands for.

  Hypotheses: rows `Printable` - no control character at all (C0 incl. ESC/newline/tab, DEL, C1 incl. 0x9b), each
  character one column wide ("single-column characters" in the property's quantifier; the terminal spec's `put` is
  defined only for such cells; wide characters are C10's); cursor_pos on the screen; the terminal is in its DEFAULT
  GRAPHIC STATE when the render starts (`t.g = {}`: `put` carries absolute formatting computed from the default state,
  and erasing uses the current background) - every `str(FmtStr)` ends in the default state, and the theorems prove
  `g = {}` again after each render, so the window itself never leaves another one.
-/
import Curtsies.Proofs.Window
import Curtsies.Generated.Blessed
namespace Curtsies
open Window Spec Spec.Terminal

namespace Window

theorem getslice_cells0 (l : FmtStr) (w : Nat) : cells (getslice l 0 w) = (cells l).take w := by
  have := getitemLoop_cells 0 w l 0
  simp only [Nat.sub_zero, List.drop_zero] at this
  unfold getslice
  simp only []
  by_cases h : (getitemLoop 0 w 0 l).isEmpty
  · rw [if_pos h]
    have e := List.isEmpty_iff.mp h
    rw [e] at this
    rw [← this]; rfl
  · rw [if_neg h, this]

theorem getslice_effCells (l : FmtStr) (w : Nat) : effCells (getslice l 0 w) = (effCells l).take w := by
  simp [effCells, getslice_cells0, List.map_take]

theorem getslice_escFree (l : FmtStr) (w : Nat) (h : EscFree l) : EscFree (getslice l 0 w) := by
  intro ch hch
  apply h ch
  rw [text_eq_cells] at hch ⊢
  rw [getslice_cells0, List.map_take] at hch
  exact List.mem_of_mem_take hch

theorem getslice_len (l : FmtStr) (w : Nat) : len (getslice l 0 w) ≤ w := by
  rw [← cells_length, getslice_cells0, List.length_take]; omega

end Window

/-- cell (r, c) of the array as a terminal shows it; blank outside the array -/
def C02.arrayCell (arr : List FmtStr) (r c : Nat) : TCell :=
  match arr[r]? with
  | some l => (effCells l)[c]?.getD blank
  | none => blank

/-- what the row cache promises about the screen -/
def C02.Inv (win : Win) (t : Term) : Prop :=
  CacheEsc win.cache ∧ (win.lastH = some t.h → win.lastW = some t.w → Coherent win.cache t 0)

open C02

/-- a freshly constructed window satisfies `Inv` on any terminal whatsoever -/
theorem C02_initial (hide : Bool) (t : Term) : Inv { hideCursor := hide } t :=
  ⟨fun _ _ h => by simp [get_nil] at h, fun h => by simp at h⟩

theorem renderFullscreen_eq (win : Win) (h w : Nat) (arr : List FmtStr) (pos : Nat × Nat) :
    renderFullscreen win h w arr pos =
      let win0 := if win.lastH ≠ some h ∨ win.lastW ≠ some w then win.onTerminalSizeChange h w else win
      let c1 := contentLoop win0.cache w (fun l => getslice l 0 w) (pyRange 0 h) (arr.take h) []
      let c2 := blankLoop win0.cache (pyRange arr.length h) c1.1
      ({ win0 with cache := c2.1 },
        (if !win.hideCursor then [TermOp.hide] else []) ++ c1.2 ++ c2.2 ++ [.cup pos.1 pos.2] ++
          (if !win0.hideCursor then [TermOp.show] else [])) := by
  rfl

theorem C02_render (u : UEnv) (win : Win) (t : Term) (arr : List FmtStr) (pos : Nat × Nat)
    (hpos : pos.1 < t.h ∧ pos.2 < t.w) (hbg : t.g = {}) (hprint : ∀ l ∈ arr, Glyphs u l) (hinv : Inv win t) :
    (∀ r c, r < t.h → c < t.w → (exec t (renderFullscreen win t.h t.w arr pos).2).grid r c = arrayCell arr r c) ∧
    (exec t (renderFullscreen win t.h t.w arr pos).2).r = pos.1 ∧
    (exec t (renderFullscreen win t.h t.w arr pos).2).c = pos.2 ∧
    (exec t (renderFullscreen win t.h t.w arr pos).2).pw = false ∧
    (exec t (renderFullscreen win t.h t.w arr pos).2).cursorVisible = (if win.hideCursor then t.cursorVisible else true) ∧
    (exec t (renderFullscreen win t.h t.w arr pos).2).scrollback = t.scrollback ∧
    (exec t (renderFullscreen win t.h t.w arr pos).2).h = t.h ∧
    (exec t (renderFullscreen win t.h t.w arr pos).2).w = t.w ∧
    (exec t (renderFullscreen win t.h t.w arr pos).2).g = {} ∧
    Inv (renderFullscreen win t.h t.w arr pos).1 (exec t (renderFullscreen win t.h t.w arr pos).2) := by
  have hesc : ∀ l ∈ arr, EscFree l := fun l hl => (hprint l hl).1.escFree
  rw [renderFullscreen_eq]
  simp only []
  -- the cache the loops compare against
  generalize hwin0 : (if win.lastH ≠ some t.h ∨ win.lastW ≠ some t.w then win.onTerminalSizeChange t.h t.w else win) = win0
  have hhide : win0.hideCursor = win.hideCursor := by
    rw [← hwin0]; split <;> rfl
  have hsize : win0.lastH = some t.h ∧ win0.lastW = some t.w := by
    rw [← hwin0]
    by_cases hc : win.lastH ≠ some t.h ∨ win.lastW ≠ some t.w
    · rw [if_pos hc]; exact ⟨rfl, rfl⟩
    · rw [if_neg hc]
      exact ⟨Classical.not_not.mp fun h => hc (Or.inl h), Classical.not_not.mp fun h => hc (Or.inr h)⟩
  have hold : CacheEsc win0.cache := by
    rw [← hwin0]
    by_cases hc : win.lastH ≠ some t.h ∨ win.lastW ≠ some t.w
    · rw [if_pos hc]; intro _ _ h; simp [Win.onTerminalSizeChange, get_nil] at h
    · rw [if_neg hc]; exact hinv.1
  -- hide the cursor (if it is not kept hidden)
  generalize hpre : exec t (if (!win.hideCursor) = true then [TermOp.hide] else []) = t0
  have f0 : t0.h = t.h ∧ t0.w = t.w ∧ t0.scrollback = t.scrollback ∧ t0.g = t.g ∧ t0.grid = t.grid ∧
      t0.cursorVisible = (if win.hideCursor then t.cursorVisible else false) := by
    rw [← hpre]; cases win.hideCursor <;> simp [Term.step]
  obtain ⟨f0h, f0w, f0sb, f0g, f0grid, f0vis⟩ := f0
  have hcoh0 : Coherent win0.cache t0 0 := by
    rw [← hwin0]
    by_cases hc : win.lastH ≠ some t.h ∨ win.lastW ≠ some t.w
    · rw [if_pos hc]; intro h; exact absurd rfl h
    · rw [if_neg hc]
      have := hinv.2 (Classical.not_not.mp fun h => hc (Or.inl h)) (Classical.not_not.mp fun h => hc (Or.inr h))
      intro hne row h1 h2
      exact Shows.congr f0w (fun c => by rw [f0grid]) (this hne row h1 (by rw [← f0h]; exact h2))
  -- the two loops
  have hlen : (arr.take t.h).length = min t.h arr.length := List.length_take
  have hclip : ∀ l ∈ arr.take t.h, EscFree (getslice l 0 t.w) ∧ len (getslice l 0 t.w) ≤ t.w := fun l hl =>
    ⟨getslice_escFree l t.w (hesc l (List.mem_of_mem_take hl)), getslice_len l t.w⟩
  have p1 := contentLoop_spec win0.cache t.w (fun l => getslice l 0 t.w) hold (arr.take t.h) 0 t.h [] t0
    f0w (by rw [hlen]; omega) (by rw [hlen, f0h]; omega) (by rw [f0g]; exact hbg) hclip hcoh0
  rw [← pyRange_zero] at p1
  generalize (contentLoop win0.cache t.w (fun l => getslice l 0 t.w) (pyRange 0 t.h) (arr.take t.h) []) = c1 at p1
  rw [exec_append, exec_append, exec_append, exec_append, hpre]
  generalize exec t0 c1.2 = t1 at p1
  have hcoh1 : Coherent win0.cache t1 arr.length := by
    intro hne row h1 h2
    have := hcoh0 hne row (Nat.zero_le _) (by rw [← p1.frame.h]; exact h2)
    exact Shows.congr p1.frame.w (p1.others row (Or.inr (by rw [hlen]; omega))) this
  have p2 := blankLoop_spec win0.cache (t.h - arr.length) arr.length c1.1 t1
    (fun _ => by rw [p1.frame.h, f0h]; omega) p1.bg hcoh1
  rw [← pyRange_eq] at p2
  generalize (blankLoop win0.cache (pyRange arr.length t.h) c1.1) = c2 at p2
  generalize exec t1 c2.2 = t2 at p2
  have h2h : t2.h = t.h := by rw [p2.frame.h, p1.frame.h, f0h]
  have h2w : t2.w = t.w := by rw [p2.frame.w, p1.frame.w, f0w]
  -- what every row shows after the loops
  have hshow : ∀ r, r < t.h → Shows t2 r (match arr[r]? with | some l => effCells (getslice l 0 t.w) | none => []) := by
    intro r hr
    by_cases hrn : r < arr.length
    · have hi : r < (arr.take t.h).length := by rw [hlen]; omega
      have := p1.shows r hi
      simp only [Nat.zero_add, List.getElem_take] at this
      rw [List.getElem?_eq_getElem hrn]
      exact Shows.congr p2.frame.w (p2.others r (Or.inl hrn)) this
    · rw [List.getElem?_eq_none (by omega)]
      exact p2.shows r (by omega) (by omega)
  -- the cache after the loops
  have hcacheIn : ∀ r (hr : r < arr.length), r < t.h → c2.1.get (r : Int) = some (some (getslice arr[r] 0 t.w)) := by
    intro r hr hrh
    have hi : r < (arr.take t.h).length := by rw [hlen]; omega
    rw [p2.cacheOut (r : Int) (Or.inl (by omega))]
    have := p1.cacheIn r hi
    simpa [List.getElem_take] using this
  have hcacheOut : ∀ row : Int, (row < 0 ∨ (arr.length : Int) ≤ row ∨ (t.h : Int) ≤ row) →
      c2.1.get row = some none ∨ c2.1.get row = none := by
    intro row hrow
    have hc1 : c1.1.get row = none := by
      rw [p1.cacheOut row (by rw [hlen]; omega)]; rfl
    by_cases hin : (arr.length : Int) ≤ row ∧ row < (t.h : Int)
    · obtain ⟨r, rfl⟩ : ∃ r : Nat, row = (r : Int) := ⟨row.toNat, by omega⟩
      rcases p2.cacheIn r (by omega) (by omega) with h | h
      · exact Or.inl h
      · exact Or.inr (by rw [h, hc1])
    · exact Or.inr (by rw [p2.cacheOut row (by omega), hc1])
  -- move to cursor_pos, show the cursor again
  generalize hfin : exec (exec t2 [TermOp.cup pos.1 pos.2]) (if (!win0.hideCursor) = true then [TermOp.show] else []) = t3
  have f3 : t3.h = t2.h ∧ t3.w = t2.w ∧ t3.scrollback = t2.scrollback ∧ t3.g = t2.g ∧ t3.grid = t2.grid ∧
      t3.r = min pos.1 (t2.h - 1) ∧ t3.c = min pos.2 (t2.w - 1) ∧ t3.pw = false ∧
      t3.cursorVisible = (if win0.hideCursor then t2.cursorVisible else true) := by
    rw [← hfin]; cases win0.hideCursor <;> simp [Term.step]
  obtain ⟨f3h, f3w, f3sb, f3g, f3grid, f3r, f3c, f3pw, f3vis⟩ := f3
  refine ⟨?_, by rw [f3r, h2h]; omega, by rw [f3c, h2w]; omega, f3pw, ?_, ?_, by rw [f3h, h2h], by rw [f3w, h2w],
    by rw [f3g]; exact p2.bg, ?_, ?_⟩
  · intro r c hr hc
    rw [f3grid, hshow r hr c (by rw [h2w]; exact hc)]
    unfold arrayCell
    cases arr[r]? with
    | none => simp
    | some l =>
      simp only [getslice_effCells, List.getElem?_take, if_pos hc]
  · rw [f3vis, p2.frame.vis, p1.frame.vis, f0vis, hhide]
    cases win.hideCursor <;> simp
  · rw [f3sb, p2.frame.sb, p1.frame.sb, f0sb]
  · -- cached lines are ESC-free
    intro row l hget
    simp only at hget
    by_cases hin : 0 ≤ row ∧ row < (arr.length : Int) ∧ row < (t.h : Int)
    · obtain ⟨r, rfl⟩ : ∃ r : Nat, row = (r : Int) := ⟨row.toNat, by omega⟩
      have hr : r < arr.length := by omega
      rw [hcacheIn r hr (by omega)] at hget
      cases hget
      exact getslice_escFree _ _ (hesc _ (List.getElem_mem hr))
    · rcases hcacheOut row (by omega) with h | h <;> rw [h] at hget <;> cases hget
  · -- and the screen shows them
    intro _ _ _ row _ hrow
    simp only at hrow ⊢
    rw [f3h, h2h] at hrow
    refine Shows.congr (t := t2) f3w (fun c => by rw [f3grid]) ?_
    have := hshow row hrow
    unfold cacheCells
    by_cases hr : row < arr.length
    · rw [hcacheIn row hr hrow]
      rw [List.getElem?_eq_getElem hr] at this
      exact this
    · rw [List.getElem?_eq_none (by omega)] at this
      rcases hcacheOut (row : Int) (by omega) with h | h <;> rw [h] <;> exact this

/-! ### histories -/

/-- one step of a history: a render, or a terminal resize that leaves ARBITRARY content, size and cursor behind -/
inductive C02.Step
  | render (arr : List FmtStr) (pos : Nat × Nat)
  | resize (h w : Nat) (grid : Grid) (r c : Nat)

def C02.resized (t : Term) (h w : Nat) (grid : Grid) (r c : Nat) : Term :=
  { t with h := h, w := w, grid := grid, r := r, c := c, pw := false }

def C02.run : Win → Term → List C02.Step → Win × Term
  | win, t, [] => (win, t)
  | win, t, .render arr pos :: rest =>
    C02.run (renderFullscreen win t.h t.w arr pos).1 (exec t (renderFullscreen win t.h t.w arr pos).2) rest
  | win, t, .resize h w grid r c :: rest => C02.run win (C02.resized t h w grid r c) rest

/-- the property's domain: rows ESC-free, cursor_pos on the screen, resizes go to a size different from the one last
    rendered at (the window cannot notice a resize back to the size it rendered at before its next render) -/
def C02.Valid (u : UEnv) : Win → Term → List C02.Step → Prop
  | _, _, [] => True
  | win, t, .render arr pos :: rest =>
    pos.1 < t.h ∧ pos.2 < t.w ∧ (∀ l ∈ arr, Glyphs u l) ∧
      C02.Valid u (renderFullscreen win t.h t.w arr pos).1 (exec t (renderFullscreen win t.h t.w arr pos).2) rest
  | win, t, .resize h w grid r c :: rest =>
    (win.lastH ≠ some h ∨ win.lastW ≠ some w) ∧ C02.Valid u win (C02.resized t h w grid r c) rest

theorem C02_run_inv (u : UEnv) (steps more : List C02.Step) :
    ∀ (win : Win) (t : Term), Inv win t → t.g = {} → C02.Valid u win t (steps ++ more) →
      Inv (C02.run win t steps).1 (C02.run win t steps).2 ∧ (C02.run win t steps).2.g = {} ∧
      C02.Valid u (C02.run win t steps).1 (C02.run win t steps).2 more := by
  induction steps with
  | nil => intro win t hi hb hv; exact ⟨hi, hb, hv⟩
  | cons st rest ih =>
    intro win t hi hb hv
    cases st with
    | render arr pos =>
      obtain ⟨h1, h2, h3, h4⟩ := hv
      have r := C02_render u win t arr pos ⟨h1, h2⟩ hb h3 hi
      exact ih _ _ r.2.2.2.2.2.2.2.2.2 r.2.2.2.2.2.2.2.2.1 h4
    | resize h w grid r c =>
      obtain ⟨h1, h2⟩ := hv
      refine ih win (C02.resized t h w grid r c) ⟨hi.1, ?_⟩ hb h2
      intro e1 e2
      rcases h1 with h1 | h1
      · exact absurd e1 h1
      · exact absurd e2 h1

/-- After EVERY render of every history — whatever was rendered before, whatever the resizes left on the screen — the
    screen equals the array (clipped to the terminal), the cursor is at cursor_pos, and nothing scrolled.
    (`steps` is the history before that render, starting from any window/terminal pair satisfying `Inv`, e.g. a
    freshly constructed window on an arbitrary screen: `C02_initial`.) -/
theorem C02_history (u : UEnv) (win : Win) (t : Term) (steps : List C02.Step) (arr : List FmtStr) (pos : Nat × Nat)
    (hinv : Inv win t) (hbg : t.g = {}) (hv : C02.Valid u win t (steps ++ [.render arr pos])) :
    let win1 := (C02.run win t steps).1
    let t1 := (C02.run win t steps).2
    let t2 := exec t1 (renderFullscreen win1 t1.h t1.w arr pos).2
    (∀ r c, r < t1.h → c < t1.w → t2.grid r c = arrayCell arr r c) ∧
    t2.r = pos.1 ∧ t2.c = pos.2 ∧ t2.pw = false ∧
    t2.cursorVisible = (if win1.hideCursor then t1.cursorVisible else true) ∧
    t2.scrollback = t1.scrollback ∧ t2.h = t1.h ∧ t2.w = t1.w := by
  obtain ⟨hi, hb, hv'⟩ := C02_run_inv u steps [.render arr pos] win t hinv hbg hv
  obtain ⟨h1, h2, h3, _⟩ := hv'
  have r := C02_render u _ _ arr pos ⟨h1, h2⟩ hb h3 hi
  exact ⟨r.1, r.2.1, r.2.2.1, r.2.2.2.1, r.2.2.2.2.1, r.2.2.2.2.2.1, r.2.2.2.2.2.2.1, r.2.2.2.2.2.2.2.1⟩

/-- non-vacuity: a 2x3 terminal full of junk; render a too-wide red row over a short row, resize, render again -/
example : C02.Valid ⟨fun _ => 1, fun _ => false⟩ {} { h := 2, w := 3, grid := fun _ _ => ('#', { bg := some 1 }) }
    [.render [[⟨"abcd".toList, { fg := some 1 }⟩], [⟨"x".toList, {}⟩], [⟨"zzz".toList, {}⟩]] (1, 2),
     .resize 1 2 (fun _ _ => ('?', {})) 0 0,
     .render [[⟨"q".toList, {}⟩]] (0, 1)] := by
  refine ⟨by decide, by decide, ?_, ⟨Or.inl (by decide), by decide, by decide, ?_, trivial⟩⟩ <;>
    (intro l hl; simp at hl; refine ⟨?_, fun _ _ => rfl⟩; intro ch hch; revert ch; rcases hl with rfl | rfl | rfl <;> decide)

/-! ### the capability strings -/

/-- The strings blessed emits under TERM=xterm (regenerated from the live library on every run) are the control
    functions the `TermOp` vocabulary stands for (header of Spec/Term.lean). -/
theorem C02_caps :
    Generated.Blessed.clearEol = "\x1b[K" ∧ Generated.Blessed.clearBol = "\x1b[1K" ∧
    Generated.Blessed.clearEos = "\x1b[J" ∧ Generated.Blessed.hideCursor = "\x1b[?25l" ∧
    Generated.Blessed.normalCursor = "\x1b[?12l\x1b[?25h" ∧ Generated.Blessed.moveDown = "\n" ∧
    Generated.Blessed.moveX0 = "\x1b[1G" ∧ Generated.Blessed.save = "\x1b7" ∧ Generated.Blessed.restore = "\x1b8" ∧
    Generated.Blessed.locationEnter = "\x1b7\x1b[1000001;1H" ∧ Generated.Blessed.locationExit = "\x1b8" ∧
    Generated.Blessed.fullscreenEnter = Generated.Blessed.enterFullscreen ∧
    Generated.Blessed.fullscreenExit = Generated.Blessed.exitFullscreen ∧
    Generated.Blessed.enterFullscreen.startsWith "\x1b[?1049h" = true ∧
    Generated.Blessed.exitFullscreen.startsWith "\x1b[?1049l" = true ∧
    Generated.Blessed.moveSamples.all (fun (r, c, s) => s == "\x1b[" ++ toString (r + 1) ++ ";" ++ toString (c + 1) ++ "H")
      = true := by
  decide +kernel

end Curtsies
