/-
  C04 (extension) - `BaseWindow.array_from_text_rc(msg, rows, columns)` (window.py; `array_from_text(msg)` is the same
  with the terminal's height and width), modelled on top of the FSArray model (`FSArray.arrayFromTextRc`: one
  `arr[i // width, i % width] = [fmtstr(c)]` per character, CR and LF jump to the end of the row, stop at
  `rows * columns`).

  Meaning, stated against a list-level specification that has no cursor: `Spec.flatLayout W msg` splits the text at
  every CR / LF, pads every line but the last with blanks up to the next multiple of `W` STRICTLY beyond its end (a
  line break always moves to a fresh row: a full row followed by a break, and each of CR and LF in "\r\n", leave a
  blank row), and concatenates; `Spec.layoutFlat` truncates that to `rows * W` cells; cell (r, c) of the array shows
  element `r * W + c` (`C04_array_from_text_grid`), every character unformatted; no row is wider than `columns`, the
  array has at most `rows` rows and never raises (`columns = 0`: `i // columns` is never evaluated, because
  `i >= rows * 0` returns first - no ZeroDivisionError; the result is the empty array). `Spec.layoutText` is the
  same as a list of `rows` rows of `W` characters (`C04_array_from_text_rows`).
  Hypothesis: `rows ≤ sys.maxsize` (the int row subscript is range-checked against it).
-/
import Curtsies.Properties.C04
namespace Curtsies
open FSArray Splice

namespace Spec
/-- Is the character one of those in `"\r\n"`? -/
def isBreak (c : Char) : Prop := c = '\r' ∨ c = '\n'
instance (c : Char) : Decidable (isBreak c) := by unfold isBreak; infer_instance

/-- The text split at every CR / LF (always at least one piece). -/
def splitBreaks : Text → List Text
  | [] => [[]]
  | c :: rest =>
    if isBreak c then [] :: splitBreaks rest
    else match splitBreaks rest with
      | l :: ls => (c :: l) :: ls
      | [] => [[c]]

/-- A line followed by a break: its characters, then blanks up to the next multiple of `W` strictly beyond its end. -/
def padLine (W : Nat) (l : Text) : List (Option Char) := l.map some ++ List.replicate (W - l.length % W) none

/-- The lines laid end to end (`none` = blank): every line but the last padded. -/
def flatLines (W : Nat) : List Text → List (Option Char)
  | [] => []
  | [l] => l.map some
  | l :: ls => padLine W l ++ flatLines W ls

def flatLayout (W : Nat) (msg : Text) : List (Option Char) := flatLines W (splitBreaks msg)

/-- What the `rows * W` cells of the window show, row-major. -/
def layoutFlat (msg : Text) (rows W : Nat) : List (Option Char) := (flatLayout W msg).take (rows * W)

/-- The same as `rows` rows of `W` characters (a blank shown as a space). -/
def layoutText (msg : Text) (rows W : Nat) : List (List Char) :=
  (List.range rows).map fun r => (List.range W).map fun c => (((layoutFlat msg rows W)[r * W + c]?).join).getD ' '
end Spec
open Spec

namespace FSArray

/-- What a cell of the flat layout shows. -/
def cellOf : Option (Option Char) → Cell
  | some (some ch) => (ch, {})
  | _ => blankCell

/-- The flat layout with a running position (helper; `flatFrom_eq` connects it to the cursor-free `flatLines`). -/
def flatFrom (W : Nat) : Nat → Text → List (Option Char)
  | _, [] => []
  | pos, c :: rest =>
    if isBreak c then List.replicate (W - pos % W) none ++ flatFrom W (pos + (W - pos % W)) rest
    else some c :: flatFrom W (pos + 1) rest

structure TextInv (W rows : Nat) (arr : FSArr) (written : List (Option Char)) : Prop where
  wf : WF arr
  nc : arr.numColumns = W
  h : arr.rows.length ≤ rows
  g : ∀ r c, grid arr r c = if c < W then cellOf (written[r * W + c]?) else blankCell

theorem cellOf_append_none (written : List (Option Char)) (k p : Nat) :
    cellOf ((written ++ List.replicate k none)[p]?) = cellOf (written[p]?) := by
  rw [List.getElem?_append]
  by_cases h : p < written.length
  · rw [if_pos h]
  · rw [if_neg h, List.getElem?_replicate, List.getElem?_eq_none (by omega)]
    split <;> rfl

theorem toFmt_char (md : Nat) (c : Char) : (Operand.str [c]).toFmt md = .ok [⟨[c], {}⟩] :=
  toFmt_noEsc md (.str [c]) (by simp [NoEsc, hasEscBracket])

theorem pos_unique (W i r c : Nat) (hW : 0 < W) (hc : c < W) (h : r * W + c = i) : r = i / W ∧ c = i % W := by
  have := (Nat.div_mod_unique hW (a := i) (c := c) (d := r)).mpr ⟨by rw [Nat.mul_comm]; omega, hc⟩
  exact ⟨this.1.symm, this.2.symm⟩

theorem arrayFromTextLoop_spec (md rows W : Nat) (hW : 0 < W) (hrows : rows ≤ maxsize) (rest : Text) :
    ∀ (arr : FSArr) (i : Nat) (written : List (Option Char)), TextInv W rows arr written → written.length = i →
      i ≤ rows * W →
      ∃ arr', arrayFromTextLoop md rows W arr i rest = .ok arr' ∧
        TextInv W rows arr' ((written ++ flatFrom W i rest).take (rows * W)) := by
  induction rest with
  | nil =>
    intro arr i written inv hl hi
    refine ⟨arr, rfl, ?_⟩
    simp only [flatFrom, List.append_nil]
    rw [List.take_of_length_le (by omega)]; exact inv
  | cons c rest ih =>
    intro arr i written inv hl hi
    unfold arrayFromTextLoop
    by_cases hfull : i ≥ rows * W
    · rw [if_pos hfull]
      refine ⟨arr, rfl, ?_⟩
      rw [List.take_append_of_le_length (by omega), List.take_of_length_le (by omega)]; exact inv
    · rw [if_neg hfull]
      have hlt : i < rows * W := by omega
      have hdiv : i / W < rows := Nat.div_lt_of_lt_mul (by rw [Nat.mul_comm]; exact hlt)
      have hdm : i / W * W + i % W = i := Nat.div_add_mod' i W
      have hmod : i % W < W := Nat.mod_lt i hW
      by_cases hb : c = '\r' ∨ c = '\n'
      · rw [if_pos hb]
        have hnext : (i / W + 1) * W - 1 + 1 = i + (W - i % W) := by
          have : (i / W + 1) * W = i / W * W + W := by rw [Nat.add_mul, Nat.one_mul]
          omega
        have hle : i + (W - i % W) ≤ rows * W := by
          have h1 : (i / W + 1) * W ≤ rows * W := Nat.mul_le_mul_right W hdiv
          have : (i / W + 1) * W = i / W * W + W := by rw [Nat.add_mul, Nat.one_mul]
          omega
        rw [hnext]
        obtain ⟨arr', h1, h2⟩ := ih arr (i + (W - i % W)) (written ++ List.replicate (W - i % W) none)
          ⟨inv.wf, inv.nc, inv.h, fun r cc => by rw [inv.g r cc, cellOf_append_none]⟩
          (by rw [List.length_append, List.length_replicate, hl]) hle
        refine ⟨arr', h1, ?_⟩
        have : flatFrom W i (c :: rest) = List.replicate (W - i % W) none ++ flatFrom W (i + (W - i % W)) rest := by
          have hb' : isBreak c := hb
          simp only [flatFrom]; rw [if_pos hb']
        rw [this, ← List.append_assoc]; exact h2
      · rw [if_neg hb]
        rw [toFmt_char]
        simp only [inv.nc]
        obtain ⟨a', heq, hg, hh, hwf, hnc⟩ := C04_assign_int_partial md arr (i / W) (i % W) ⟨false, [.fmt [⟨[c], {}⟩]]⟩
          (.fmt [⟨[c], {}⟩]) inv.wf (by omega) (by rw [inv.nc]; exact hmod) rfl (by simp [Operand.rawLen])
          (by simp [Operand.EscFree])
        rw [heq]
        simp only []
        obtain ⟨arr', h1, h2⟩ := ih a' (i + 1) (written ++ [some c])
          ⟨hwf, by rw [hnc, inv.nc], by rw [hh]; have := inv.h; omega, fun r cc => by
            rw [hg r cc]
            simp only [C04_paint]
            by_cases hin : i / W ≤ r ∧ r < i / W + 1 ∧ i % W ≤ cc ∧ cc < i % W + 1
            · have hr : r = i / W := by omega
              have hc : cc = i % W := by omega
              rw [if_pos hin, if_pos (by omega)]
              have hp : r * W + cc = written.length := by rw [hr, hc, hdm, hl]
              rw [hp, List.getElem?_append_right (Nat.le_refl _)]
              simp [padCell, cellOf, Operand.cells, Chunk.cells, hr, hc]
            · rw [if_neg hin, inv.g r cc]
              by_cases hcw : cc < W
              · rw [if_pos hcw, if_pos hcw]
                have hne : r * W + cc ≠ i := by
                  intro h
                  obtain ⟨h1, h2⟩ := pos_unique W i r cc hW hcw h
                  omega
                rw [List.getElem?_append]
                by_cases hp : r * W + cc < written.length
                · rw [if_pos hp]
                · rw [if_neg hp, List.getElem?_eq_none (by omega)]
                  have : r * W + cc - written.length ≠ 0 := by omega
                  cases hk : r * W + cc - written.length with
                  | zero => exact absurd hk this
                  | succ k => simp
              · rw [if_neg hcw, if_neg hcw]⟩
          (by rw [List.length_append, hl]; rfl) (by omega)
        refine ⟨arr', h1, ?_⟩
        have : flatFrom W i (c :: rest) = some c :: flatFrom W (i + 1) rest := by
          have hb' : ¬ isBreak c := hb
          simp only [flatFrom]; rw [if_neg hb']
        rw [this]
        have e : written ++ some c :: flatFrom W (i + 1) rest = written ++ [some c] ++ flatFrom W (i + 1) rest := by simp
        rw [e]; exact h2

/-- `flatLines` with the first line starting at position `pos` of its row. -/
def flatLinesFrom (W pos : Nat) : List Text → List (Option Char)
  | [] => []
  | [l] => l.map some
  | l :: ls => l.map some ++ List.replicate (W - (pos + l.length) % W) none ++ flatLines W ls

theorem flatLinesFrom_zero (W pos : Nat) (hp : pos % W = 0) (ls : List Text) :
    flatLinesFrom W pos ls = flatLines W ls := by
  match ls with
  | [] => rfl
  | [l] => rfl
  | l :: l2 :: ls =>
    simp only [flatLinesFrom, flatLines, padLine]
    rw [Nat.add_mod, hp, Nat.zero_add, Nat.mod_mod]

theorem splitBreaks_ne_nil (msg : Text) : splitBreaks msg ≠ [] := by
  induction msg with
  | nil => simp [splitBreaks]
  | cons c rest ih =>
    unfold splitBreaks
    split
    · simp
    · split <;> simp

/-- The running-position layout is the cursor-free one. -/
theorem flatFrom_eq (W : Nat) (hW : 0 < W) (msg : Text) :
    ∀ pos, flatFrom W pos msg = flatLinesFrom W pos (splitBreaks msg) := by
  induction msg with
  | nil => intro pos; rfl
  | cons c rest ih =>
    intro pos
    unfold flatFrom splitBreaks
    by_cases hb : isBreak c
    · rw [if_pos hb, if_pos hb]
      have hp : (pos + (W - pos % W)) % W = 0 := by
        have h1 : pos % W < W := Nat.mod_lt pos hW
        have h2 : pos / W * W + pos % W = pos := Nat.div_add_mod' pos W
        have : pos + (W - pos % W) = (pos / W + 1) * W := by rw [Nat.add_mul, Nat.one_mul]; omega
        rw [this]; exact Nat.mul_mod_left _ _
      rw [ih, flatLinesFrom_zero W _ hp]
      cases hs : splitBreaks rest with
      | nil => exact absurd hs (splitBreaks_ne_nil rest)
      | cons l ls => simp [flatLinesFrom]
    · rw [if_neg hb, if_neg hb, ih]
      cases hs : splitBreaks rest with
      | nil => exact absurd hs (splitBreaks_ne_nil rest)
      | cons l ls =>
        cases ls with
        | nil => simp [flatLinesFrom]
        | cons l2 ls =>
          simp only [flatLinesFrom, List.map_cons, List.cons_append, List.length_cons]
          have : pos + 1 + l.length = pos + (l.length + 1) := by omega
          rw [this]

theorem cellOf_eq (x : Option (Option Char)) : cellOf x = ((x.join).getD ' ', {}) := by
  rcases x with _ | _ | ch <;> rfl

end FSArray
open FSArray

/-- `array_from_text_rc(msg, rows, columns)` never raises; the array is `columns` wide, has at most `rows` rows, none
    wider than `columns`; and cell (r, c) shows element `r * columns + c` of the text laid out row-major with line
    breaks honoured and truncated to `rows * columns` cells (`Spec.layoutFlat`), unformatted; every other cell is
    blank. -/
theorem C04_array_from_text_grid (md : Nat) (msg : Text) (rows W : Nat) (hrows : rows ≤ maxsize) :
    ∃ arr, arrayFromTextRc md msg rows W = .ok arr ∧ WF arr ∧ arr.numColumns = W ∧ arr.rows.length ≤ rows ∧
      ∀ r c, grid arr r c = if c < W then cellOf ((layoutFlat msg rows W)[r * W + c]?) else blankCell := by
  have hinit := C04_init 0 W {}
  rcases Nat.eq_zero_or_pos W with hW | hW
  · subst hW
    refine ⟨FSArr.init 0 0 {}, ?_, hinit.1, rfl, by simp [FSArr.init], ?_⟩
    · unfold arrayFromTextRc
      cases msg with
      | nil => rfl
      | cons c rest => unfold arrayFromTextLoop; simp
    · intro r c; rw [hinit.2.2.2 r c]; simp
  · obtain ⟨arr, h1, h2⟩ := arrayFromTextLoop_spec md rows W hW hrows msg (FSArr.init 0 W {}) 0 []
      ⟨hinit.1, rfl, by simp [FSArr.init], fun r c => by rw [hinit.2.2.2 r c]; simp [cellOf]⟩ rfl (Nat.zero_le _)
    refine ⟨arr, h1, h2.wf, h2.nc, h2.h, ?_⟩
    have : layoutFlat msg rows W = ([] ++ flatFrom W 0 msg).take (rows * W) := by
      simp only [layoutFlat, flatLayout, List.nil_append]
      rw [flatFrom_eq W hW msg 0, flatLinesFrom_zero W 0 (Nat.zero_mod W)]
    rw [this]; exact h2.g

/-- The same against `Spec.layoutText` (a list of `rows` rows of `columns` characters, blanks as spaces): row `r`,
    column `c` of that list is the character cell (r, c) shows, and the cell is unformatted. -/
theorem C04_array_from_text_rows (md : Nat) (msg : Text) (rows W : Nat) (hrows : rows ≤ maxsize) :
    ∃ arr, arrayFromTextRc md msg rows W = .ok arr ∧ (layoutText msg rows W).length = rows ∧
      ∀ r c, r < rows → c < W →
        ((layoutText msg rows W)[r]?.bind (·[c]?)) = some (grid arr r c).1 ∧ (grid arr r c).2 = {} := by
  obtain ⟨arr, h1, _, _, _, hg⟩ := C04_array_from_text_grid md msg rows W hrows
  refine ⟨arr, h1, by simp [layoutText], ?_⟩
  intro r c hr hc
  rw [hg r c, if_pos hc, cellOf_eq]
  simp [layoutText, hr, hc]

/-- Line breaks at concrete points: "ab\r\ncd" in 3 columns leaves a blank row between (CR and LF each jump), a full
    row followed by a break leaves a blank row too, and the text is cut at `rows * columns`. -/
example : layoutText ['a', 'b', '\r', '\n', 'c', 'd'] 3 3 = [['a', 'b', ' '], [' ', ' ', ' '], ['c', 'd', ' ']] := by
  decide
example : layoutText ['a', 'b', 'c', '\n', 'd', 'e', 'f', 'g'] 3 3 = [['a', 'b', 'c'], [' ', ' ', ' '], ['d', 'e', 'f']] := by
  decide
example : ((arrayFromTextRc 4300 ['a', 'b', '\r', '\n', 'c', 'd'] 3 3).toOption.map fun a => a.rows.map cells)
    = some [[('a', {}), ('b', {})], [], [('c', {}), ('d', {})]] := by decide +kernel

end Curtsies
