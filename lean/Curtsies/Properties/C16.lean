/-
  C16 - linesplit word-wraps without losing, reordering or restyling words.

  STATUS: PARTIAL. The full statement is `C16_full_statement` below (kept visible, not proved). Proved, for every
  Unicode environment `u` (`isSpace` = the regex class `\s`), every FmtStr in any run layout:
  * `C16_len_partial`      - no returned line is longer than `columns` (every `columns`);
  * `C16_total_partial`    - for `columns ≥ 1` nothing is raised (the words the scanner extracts are non-empty, so
                             `lines[-1]` exists; every gap has a run, so `shared_atts` is defined);
  * `C16_wordless_partial` - empty or whitespace-only text gives `[]`.
  Missing (covered on every run by the exhaustive correspondence + oracle of harness/props/c16.py only): that the
  scanner's words/gaps are the maximal non-space/space runs of `cells f` (`specWords`), and the loop-level facts
  `Greedy` expresses - the greedy fit rule `len cur + 1 + len w ≤ columns`, chopping of long words into
  full-length pieces, words kept in order with their formatting, each joining space being one `' '` carrying
  the attributes common to the whole gap (`gapAtts`), no line starting or ending with whitespace.
-/
import Curtsies.Proofs.Width
import Curtsies.Proofs.Slice
namespace Curtsies

/-! ### specification side (independent of the model) -/

/-- Maximal runs of non-whitespace cells, each with the whitespace run that precedes it (`gap`, `word` are the
    runs being read). Trailing whitespace is dropped. -/
def specWords (u : UEnv) : List Cell → List Cell → List Cell → List (List Cell × List Cell)
  | [], gap, word => if word.isEmpty then [] else [(gap, word)]
  | x :: rest, gap, word =>
    if u.isSpace x.1 then
      (if word.isEmpty then specWords u rest (gap ++ [x]) [] else (gap, word) :: specWords u rest [x] [])
    else specWords u rest gap (word ++ [x])

/-- the attributes every cell of the gap has (with the same value) -/
def gapAtts : List Cell → Atts
  | [] => {}
  | x :: rest => rest.foldl (fun a y => a.inter y.2) x.2

/-- `w` cut into full-length pieces `full` and a non-empty last piece -/
def Chopped (columns : Nat) (w : List Cell) (full : List (List Cell)) (last : List Cell) : Prop :=
  w = full.flatten ++ last ∧ (∀ p ∈ full, p.length = columns) ∧ 0 < last.length ∧ last.length ≤ columns

/-- `Greedy columns cur rest out`: with `cur` the line being filled, the remaining (word, joining-space
    attributes) pairs produce the lines `out`. A word joins the current line - after ONE space - iff it fits;
    otherwise the line is closed and the word starts a new one, cut into full-length pieces if it is too long. -/
inductive Greedy (columns : Nat) : List Cell → List (List Cell × Atts) → List (List Cell) → Prop
  | done (cur : List Cell) : Greedy columns cur [] [cur]
  | join {cur w : List Cell} {a : Atts} {rest : List (List Cell × Atts)} {out : List (List Cell)} :
      cur.length + 1 + w.length ≤ columns →
      Greedy columns (cur ++ (' ', a) :: w) rest out → Greedy columns cur ((w, a) :: rest) out
  | wrap {cur w last : List Cell} {a : Atts} {rest : List (List Cell × Atts)} {full out : List (List Cell)} :
      ¬ (cur.length + 1 + w.length ≤ columns) → Chopped columns w full last →
      Greedy columns last rest out → Greedy columns cur ((w, a) :: rest) (cur :: full ++ out)

/-- The full statement of C16 (NOT proved; see the header). -/
def C16_full_statement : Prop :=
  ∀ (u : UEnv) (f : FmtStr) (columns : Nat), 1 ≤ columns → u.isSpace ' ' = true →
    ∃ lines, linesplit u f columns = .ok lines ∧
      match specWords u (cells f) [] [] with
      | [] => lines = []
      | (_, w0) :: rest =>
        ∃ full last out, Chopped columns w0 full last ∧
          Greedy columns last (rest.map fun p => (p.2, gapAtts p.1)) out ∧
          lines.map cells = full ++ out

/-! ### proofs of the parts -/

private theorem getslice_cells' (f : FmtStr) (s e : Nat) :
    cells (getslice f s e) = ((cells f).take e).drop s := by
  have := getitemLoop_cells s e f 0
  simp only [Nat.sub_zero] at this
  unfold getslice
  simp only []
  by_cases h : (getitemLoop s e 0 f).isEmpty
  · rw [if_pos h, ← this]
    have : getitemLoop s e 0 f = [] := List.isEmpty_iff.mp h
    rw [this]; rfl
  · rw [if_neg h, this]

private theorem len_getslice (f : FmtStr) (s e : Nat) : len (getslice f s e) = min e (len f) - s := by
  rw [← cells_length, getslice_cells', List.length_drop, List.length_take, cells_length]

private theorem len_append (f g : FmtStr) : len (f ++ g) = len f + len g := by
  rw [← cells_length, cells_append, List.length_append, cells_length, cells_length]

private theorem wordToLines_len {columns : Nat} {word : FmtStr} {ls : List FmtStr}
    (h : wordToLines columns word = .ok ls) : ∀ l ∈ ls, len l ≤ columns := by
  unfold wordToLines at h
  by_cases hc : columns = 0
  · rw [if_pos hc] at h; cases h
  · rw [if_neg hc] at h
    injection h with h
    subst h
    intro l hl
    obtain ⟨i, _, rfl⟩ := List.mem_map.mp hl
    rw [len_getslice, Nat.mul_succ]
    omega

private theorem linesplitLoop_len (columns : Nat) (pairs : List (FmtStr × FmtStr)) (lines result : List FmtStr)
    (hl : ∀ l ∈ lines, len l ≤ columns) (h : linesplitLoop columns lines pairs = .ok result) :
    ∀ l ∈ result, len l ≤ columns := by
  induction pairs generalizing lines with
  | nil => simp [linesplitLoop] at h; subst h; exact hl
  | cons p rest ih =>
    obtain ⟨word, space⟩ := p
    unfold linesplitLoop at h
    cases hlast : lines.getLast? with
    | none => rw [hlast] at h; cases h
    | some last =>
      rw [hlast] at h
      simp only [] at h
      have hlastmem : last ∈ lines := List.mem_of_getLast? hlast
      by_cases hfit : len last + len word < columns
      · rw [if_pos hfit] at h
        cases hsa : sharedAtts space with
        | error e => rw [hsa] at h; cases h
        | ok a =>
          rw [hsa] at h
          simp only [bind, Except.bind] at h
          apply ih _ _ h
          intro l hl2
          rcases List.mem_append.mp hl2 with hl2 | hl2
          · exact hl l ((List.dropLast_sublist lines).subset hl2)
          · simp only [List.mem_singleton] at hl2
            subst hl2
            simp only [add, spaceFmt, len_append, len_cons, len_nil, List.length_cons, List.length_nil]
            omega
      · rw [if_neg hfit] at h
        cases hw : wordToLines columns word with
        | error e => rw [hw] at h; cases h
        | ok ls =>
          rw [hw] at h
          simp only [bind, Except.bind] at h
          apply ih _ _ h
          intro l hl2
          rcases List.mem_append.mp hl2 with hl2 | hl2
          · exact hl l hl2
          · exact wordToLines_len hw l hl2

/-- no line is longer than `columns` -/
theorem C16_len_partial (u : UEnv) (f : FmtStr) (columns : Nat) (lines : List FmtStr)
    (h : linesplit u f columns = .ok lines) : ∀ l ∈ lines, len l ≤ columns := by
  unfold linesplit at h
  simp only [] at h
  cases hw : linesplitWords f (spaceMatches u (text f) 0 none) with
  | nil => rw [hw] at h; simp only [] at h; injection h with h; subst h; simp
  | cons w0 ws =>
    rw [hw] at h
    simp only [] at h
    cases hl : wordToLines columns w0 with
    | error e => rw [hl] at h; cases h
    | ok ls =>
      rw [hl] at h
      simp only [bind, Except.bind] at h
      exact linesplitLoop_len columns _ ls lines (wordToLines_len hl) h
/-- matches are ordered, non-empty and inside `[lo, hi]` -/
def Chain (lo : Nat) : List (Nat × Nat) → Nat → Prop
  | [], hi => lo ≤ hi
  | (s, e) :: rest, hi => lo ≤ s ∧ s < e ∧ Chain e rest hi

theorem Chain.le {lo hi : Nat} {ms : List (Nat × Nat)} (h : Chain lo ms hi) : lo ≤ hi := by
  induction ms generalizing lo with
  | nil => exact h
  | cons p rest ih =>
    obtain ⟨s, e⟩ := p
    have := ih h.2.2
    have := h.1; have := h.2.1
    omega

private theorem spaceMatches_chain (u : UEnv) (t : List Char) (i : Nat) :
    Chain i (spaceMatches u t i none) (i + t.length) ∧
    ∀ st, st < i → ∃ e rest, spaceMatches u t i (some st) = (st, e) :: rest ∧ i ≤ e ∧
      Chain e rest (i + t.length) := by
  induction t generalizing i with
  | nil =>
    refine ⟨by simp [spaceMatches, Chain], fun st hst => ⟨i, [], by simp [spaceMatches], Nat.le_refl _, ?_⟩⟩
    simp [Chain]
  | cons c rest ih =>
    have hlen : i + (c :: rest).length = i + 1 + rest.length := by simp; omega
    rw [hlen]
    have ih1 := ih (i + 1)
    by_cases hsp : u.isSpace c
    · constructor
      · unfold spaceMatches
        rw [if_pos hsp]
        obtain ⟨e, r, h1, h2, h3⟩ := ih1.2 i (by omega)
        simp only [Option.getD_none]
        rw [h1]
        exact ⟨Nat.le_refl _, by omega, h3⟩
      · intro st hst
        unfold spaceMatches
        rw [if_pos hsp]
        obtain ⟨e, r, h1, h2, h3⟩ := ih1.2 st (by omega)
        simp only [Option.getD_some]
        exact ⟨e, r, h1, by omega, h3⟩
    · constructor
      · unfold spaceMatches
        rw [if_neg hsp]
        have := ih1.1
        -- Chain (i+1) ms hi → Chain i ms hi
        revert this
        generalize spaceMatches u rest (i + 1) none = ms
        intro h
        cases ms with
        | nil => simp [Chain] at h ⊢; omega
        | cons p ps => obtain ⟨s, e⟩ := p; exact ⟨by have := h.1; omega, h.2.1, h.2.2⟩
      · intro st hst
        unfold spaceMatches
        rw [if_neg hsp]
        refine ⟨i, _, rfl, Nat.le_refl _, ?_⟩
        have := ih1.1
        revert this
        generalize spaceMatches u rest (i + 1) none = ms
        intro h
        cases ms with
        | nil => simp [Chain] at h ⊢; omega
        | cons p ps => obtain ⟨s, e⟩ := p; exact ⟨by have := h.1; omega, h.2.1, h.2.2⟩

theorem Chain.zip_bounds {lo n : Nat} {ms : List (Nat × Nat)} (h : Chain lo ms n) :
    ∀ p ∈ List.zip (lo :: ms.map Prod.snd) (ms.map Prod.fst ++ [n]), p.1 ≤ p.2 ∧ p.2 ≤ n := by
  induction ms generalizing lo with
  | nil => intro p hp; simp at hp; subst hp; exact ⟨h, Nat.le_refl _⟩
  | cons q rest ih =>
    obtain ⟨s, e⟩ := q
    intro p hp
    simp only [List.map_cons, List.cons_append, List.zip_cons_cons, List.mem_cons] at hp
    rcases hp with rfl | hp
    · have := h.2.2.le
      exact ⟨h.1, by have := h.2.1; omega⟩
    · exact ih h.2.2 p hp

/-- every extracted word is non-empty -/
private theorem linesplitWords_pos (u : UEnv) (f : FmtStr) :
    ∀ w ∈ linesplitWords f (spaceMatches u (text f) 0 none), 0 < len w := by
  intro w hw
  unfold linesplitWords at hw
  obtain ⟨p, hp, rfl⟩ := List.mem_map.mp hw
  have hp' := List.mem_filter.mp hp
  have hch := (spaceMatches_chain u (text f) 0).1
  rw [Nat.zero_add, text_length] at hch
  have := hch.zip_bounds p hp'.1
  have hne : p.1 ≠ p.2 := by simpa using hp'.2
  rw [len_getslice]
  omega

private theorem getslice_ne_nil (f : FmtStr) (a b : Nat) : getslice f a b ≠ [] := by
  unfold getslice
  simp only []
  by_cases h : (getitemLoop a b 0 f).isEmpty
  · rw [if_pos h]; simp [emptyFmt]
  · rw [if_neg h]; intro h2; rw [h2] at h; simp at h

private theorem sharedAtts_ok {f : FmtStr} (h : f ≠ []) : ∃ a, sharedAtts f = .ok a := by
  cases f with
  | nil => exact absurd rfl h
  | cons c rest => exact ⟨_, rfl⟩

private theorem wordToLines_ok {columns : Nat} (hc : 1 ≤ columns) (word : FmtStr) (hw : 0 < len word) :
    ∃ ls, wordToLines columns word = .ok ls ∧ ls ≠ [] := by
  unfold wordToLines
  rw [if_neg (by omega)]
  refine ⟨_, rfl, ?_⟩
  have h1 : (0 : Int) ≤ ((len word : Nat) : Int) - 1 := by omega
  have h2 : (0 : Int) ≤ (((len word : Nat) : Int) - 1) / (columns : Int) := Int.ediv_nonneg h1 (by omega)
  intro h
  have := congrArg List.length h
  simp at this
  omega

private theorem linesplitLoop_ok (columns : Nat) (hc : 1 ≤ columns) (pairs : List (FmtStr × FmtStr))
    (lines : List FmtStr) (hl : lines ≠ [])
    (hp : ∀ p ∈ pairs, 0 < len p.1 ∧ p.2 ≠ []) :
    ∃ result, linesplitLoop columns lines pairs = .ok result := by
  induction pairs generalizing lines with
  | nil => exact ⟨lines, rfl⟩
  | cons p rest ih =>
    obtain ⟨word, space⟩ := p
    have ⟨hw, hs⟩ := hp (word, space) (by simp)
    have hrest : ∀ p ∈ rest, 0 < len p.1 ∧ p.2 ≠ [] := fun p h => hp p (by simp [h])
    unfold linesplitLoop
    cases hlast : lines.getLast? with
    | none => simp at hlast; exact absurd hlast hl
    | some last =>
      simp only []
      by_cases hfit : len last + len word < columns
      · rw [if_pos hfit]
        obtain ⟨a, ha⟩ := sharedAtts_ok hs
        rw [ha]
        simp only [bind, Except.bind]
        exact ih _ (by simp) hrest
      · rw [if_neg hfit]
        obtain ⟨ls, h1, h2⟩ := wordToLines_ok hc word hw
        rw [h1]
        simp only [bind, Except.bind]
        exact ih _ (by simp [hl]) hrest

/-- `linesplit` raises nothing for `columns ≥ 1` (whatever the Unicode environment and the run layout). -/
theorem C16_total_partial (u : UEnv) (f : FmtStr) (columns : Nat) (hc : 1 ≤ columns) :
    ∃ lines, linesplit u f columns = .ok lines := by
  unfold linesplit
  simp only []
  have hpos := linesplitWords_pos u f
  cases hw : linesplitWords f (spaceMatches u (text f) 0 none) with
  | nil => exact ⟨[], rfl⟩
  | cons w0 ws =>
    rw [hw] at hpos
    simp only []
    obtain ⟨ls, h1, h2⟩ := wordToLines_ok hc w0 (hpos w0 (by simp))
    rw [h1]
    simp only [bind, Except.bind]
    apply linesplitLoop_ok columns hc _ ls h2
    intro p hp
    have h3 := List.of_mem_zip hp
    refine ⟨hpos p.1 (by simp [h3.1]), ?_⟩
    have := h3.2
    unfold linesplitSpaces at this
    obtain ⟨m, _, hm⟩ := List.mem_map.mp this
    rw [← hm]
    exact getslice_ne_nil _ _ _


private theorem spaceMatches_allspace (u : UEnv) (t : List Char) (i : Nat) (h : ∀ c ∈ t, u.isSpace c = true) :
    (∀ st, spaceMatches u t i (some st) = [(st, i + t.length)]) ∧
    (spaceMatches u t i none = if t = [] then [] else [(i, i + t.length)]) := by
  induction t generalizing i with
  | nil => simp [spaceMatches]
  | cons c rest ih =>
    have hc := h c (by simp)
    have ih1 := ih (i + 1) (fun d hd => h d (by simp [hd]))
    have e : i + 1 + rest.length = i + (c :: rest).length := by simp; omega
    constructor
    · intro st
      unfold spaceMatches
      rw [if_pos hc]
      simp only [Option.getD_some]
      rw [ih1.1 st, e]
    · unfold spaceMatches
      rw [if_pos hc]
      simp only [Option.getD_none]
      rw [ih1.1 i, e]
      simp

/-- Text without a word (empty, or whitespace only) gives no lines - for every `columns`, no exception. -/
theorem C16_wordless_partial (u : UEnv) (f : FmtStr) (columns : Nat) (h : ∀ c ∈ text f, u.isSpace c = true) :
    linesplit u f columns = .ok [] := by
  have hm := (spaceMatches_allspace u (text f) 0 h).2
  have hw : linesplitWords f (spaceMatches u (text f) 0 none) = [] := by
    rw [hm]
    unfold linesplitWords
    by_cases he : text f = []
    · rw [if_pos he]
      have : len f = 0 := by rw [← text_length, he]; rfl
      simp [this]
    · rw [if_neg he]
      simp [text_length]
  unfold linesplit
  simp only [hw]


/-! ### non-vacuity / examples (whitespace of three kinds, formatting changing inside a gap) -/

example : (match linesplit exEnv [⟨[' ', 'a', 'b', ' '], {fg := some 1, bold := some true}⟩,
      ⟨['\t', 'c', '\n'], {fg := some 1}⟩, ⟨['d', 'e', 'f', 'g'], {}⟩] 3 with
    | .ok ls => ls == [[⟨['a', 'b'], {fg := some 1, bold := some true}⟩],
                       [⟨['c'], {fg := some 1}⟩], [⟨['d', 'e', 'f'], {}⟩], [⟨['g'], {}⟩]]
    | _ => false) = true := by decide +kernel

example : (match linesplit exEnv [⟨[' ', 'a', 'b', ' '], {fg := some 1, bold := some true}⟩,
      ⟨['\t', 'c', '\n'], {fg := some 1}⟩, ⟨['d'], {}⟩] 4 with
    | .ok ls => ls == [[⟨['a', 'b'], {fg := some 1, bold := some true}⟩, ⟨[' '], {fg := some 1}⟩, ⟨['c'], {fg := some 1}⟩],
                       [⟨['d'], {}⟩]]
    | _ => false) = true := by decide +kernel

example : specWords exEnv (cells [⟨[' ', 'a', ' '], {}⟩, ⟨['\t', 'c', '\n'], {fg := some 1}⟩]) [] []
    = [([(' ', {})], [('a', {})]), ([(' ', {}), ('\t', {fg := some 1})], [('c', {fg := some 1})])] := by
  decide +kernel

end Curtsies
