/-
  C16 - linesplit word-wraps without losing, reordering or restyling words.

  STATUS: FULL. For every Unicode environment `u` (`isSpace` = the regex class `\s`), every FmtStr in any run
  layout and every `columns ≥ 1`:
  * `C16_full : C16_full_statement` - `linesplit` raises nothing and, with `(gap, word)` the maximal whitespace /
    non-whitespace runs of `cells f` (`specWords`, an independent left-to-right grouping), the lines are the
    first word chopped into full-length pieces (`Chopped`) followed by what the relation `Greedy` allows:
    a word joins the current line - after ONE space carrying the attributes common to ALL cells of the gap it
    replaces (`gapAtts`) - iff `len cur + 1 + len w ≤ columns`, otherwise the line is closed and the word starts
    a new one, cut into full-length pieces when longer than a line. Characters keep their formatting because
    everything is stated on cells.
  Plain-terms corollaries:
  * `C16_len`         - no line is longer than `columns` (every `columns`);
  * `C16_total`       - nothing is raised for `columns ≥ 1`;
  * `C16_wordless`    - empty or whitespace-only text gives `[]`;
  * `C16_clean_lines` - no line is empty, starts with whitespace or ends with whitespace;
  * `C16_words_kept`  - the non-whitespace cells of the lines, in order, are exactly those of the text.
  The only hypothesis beyond `columns ≥ 1` is `u.isSpace ' ' = true` (the joining character is whitespace), used by
  the last two.
-/
import Curtsies.Proofs.Width
import Curtsies.Proofs.Slice
namespace Curtsies

/-! ### specification side (independent of the model) -/

/-- Maximal runs of non-whitespace cells, each with the whitespace run that precedes it (`gap`, `word` are the
    runs being read). Trailing whitespace is dropped. -/
def specWords (u : UEnv) : List Cell → List Cell → List Cell → List (List Cell × List Cell)
  | [], gap, word => if word.isEmpty then [] else [(gap, word)]
  | x :: rest, gap, word =>
    if u.isSpace x.1 then
      (if word.isEmpty then specWords u rest (gap ++ [x]) [] else (gap, word) :: specWords u rest [x] [])
    else specWords u rest gap (word ++ [x])

/-- the attributes every cell of the gap has (with the same value) -/
def gapAtts : List Cell → Atts
  | [] => {}
  | x :: rest => rest.foldl (fun a y => a.inter y.2) x.2

/-- `w` cut into full-length pieces `full` and a non-empty last piece -/
def Chopped (columns : Nat) (w : List Cell) (full : List (List Cell)) (last : List Cell) : Prop :=
  w = full.flatten ++ last ∧ (∀ p ∈ full, p.length = columns) ∧ 0 < last.length ∧ last.length ≤ columns

/-- `Greedy columns cur rest out`: with `cur` the line being filled, the remaining (word, joining-space
    attributes) pairs produce the lines `out`. A word joins the current line - after ONE space - iff it fits;
    otherwise the line is closed and the word starts a new one, cut into full-length pieces if it is too long. -/
inductive Greedy (columns : Nat) : List Cell → List (List Cell × Atts) → List (List Cell) → Prop
  | done (cur : List Cell) : Greedy columns cur [] [cur]
  | join {cur w : List Cell} {a : Atts} {rest : List (List Cell × Atts)} {out : List (List Cell)} :
      cur.length + 1 + w.length ≤ columns →
      Greedy columns (cur ++ (' ', a) :: w) rest out → Greedy columns cur ((w, a) :: rest) out
  | wrap {cur w last : List Cell} {a : Atts} {rest : List (List Cell × Atts)} {full out : List (List Cell)} :
      ¬ (cur.length + 1 + w.length ≤ columns) → Chopped columns w full last →
      Greedy columns last rest out → Greedy columns cur ((w, a) :: rest) (cur :: full ++ out)

/-- The full statement of C16 (proved below as `C16_full`). -/
def C16_full_statement : Prop :=
  ∀ (u : UEnv) (f : FmtStr) (columns : Nat), 1 ≤ columns → u.isSpace ' ' = true →
    ∃ lines, linesplit u f columns = .ok lines ∧
      match specWords u (cells f) [] [] with
      | [] => lines = []
      | (_, w0) :: rest =>
        ∃ full last out, Chopped columns w0 full last ∧
          Greedy columns last (rest.map fun p => (p.2, gapAtts p.1)) out ∧
          lines.map cells = full ++ out

/-! ### proofs of the parts -/

private theorem getslice_cells' (f : FmtStr) (s e : Nat) :
    cells (getslice f s e) = ((cells f).take e).drop s := by
  have := getitemLoop_cells s e f 0
  simp only [Nat.sub_zero] at this
  unfold getslice
  simp only []
  by_cases h : (getitemLoop s e 0 f).isEmpty
  · rw [if_pos h, ← this]
    have : getitemLoop s e 0 f = [] := List.isEmpty_iff.mp h
    rw [this]; rfl
  · rw [if_neg h, this]

private theorem len_getslice (f : FmtStr) (s e : Nat) : len (getslice f s e) = min e (len f) - s := by
  rw [← cells_length, getslice_cells', List.length_drop, List.length_take, cells_length]

private theorem len_append (f g : FmtStr) : len (f ++ g) = len f + len g := by
  rw [← cells_length, cells_append, List.length_append, cells_length, cells_length]

private theorem wordToLines_len {columns : Nat} {word : FmtStr} {ls : List FmtStr}
    (h : wordToLines columns word = .ok ls) : ∀ l ∈ ls, len l ≤ columns := by
  unfold wordToLines at h
  by_cases hc : columns = 0
  · rw [if_pos hc] at h; cases h
  · rw [if_neg hc] at h
    injection h with h
    subst h
    intro l hl
    obtain ⟨i, _, rfl⟩ := List.mem_map.mp hl
    rw [len_getslice, Nat.mul_succ]
    omega

private theorem linesplitLoop_len (columns : Nat) (pairs : List (FmtStr × FmtStr)) (lines result : List FmtStr)
    (hl : ∀ l ∈ lines, len l ≤ columns) (h : linesplitLoop columns lines pairs = .ok result) :
    ∀ l ∈ result, len l ≤ columns := by
  induction pairs generalizing lines with
  | nil => simp [linesplitLoop] at h; subst h; exact hl
  | cons p rest ih =>
    obtain ⟨word, space⟩ := p
    unfold linesplitLoop at h
    cases hlast : lines.getLast? with
    | none => rw [hlast] at h; cases h
    | some last =>
      rw [hlast] at h
      simp only [] at h
      have hlastmem : last ∈ lines := List.mem_of_getLast? hlast
      by_cases hfit : len last + len word < columns
      · rw [if_pos hfit] at h
        cases hsa : sharedAtts space with
        | error e => rw [hsa] at h; cases h
        | ok a =>
          rw [hsa] at h
          simp only [bind, Except.bind] at h
          apply ih _ _ h
          intro l hl2
          rcases List.mem_append.mp hl2 with hl2 | hl2
          · exact hl l ((List.dropLast_sublist lines).subset hl2)
          · simp only [List.mem_singleton] at hl2
            subst hl2
            simp only [add, spaceFmt, len_append, len_cons, len_nil, List.length_cons, List.length_nil]
            omega
      · rw [if_neg hfit] at h
        cases hw : wordToLines columns word with
        | error e => rw [hw] at h; cases h
        | ok ls =>
          rw [hw] at h
          simp only [bind, Except.bind] at h
          apply ih _ _ h
          intro l hl2
          rcases List.mem_append.mp hl2 with hl2 | hl2
          · exact hl l hl2
          · exact wordToLines_len hw l hl2

/-- no line is longer than `columns` -/
theorem C16_len (u : UEnv) (f : FmtStr) (columns : Nat) (lines : List FmtStr)
    (h : linesplit u f columns = .ok lines) : ∀ l ∈ lines, len l ≤ columns := by
  unfold linesplit at h
  simp only [] at h
  cases hw : linesplitWords f (spaceMatches u (text f) 0 none) with
  | nil => rw [hw] at h; simp only [] at h; injection h with h; subst h; simp
  | cons w0 ws =>
    rw [hw] at h
    simp only [] at h
    cases hl : wordToLines columns w0 with
    | error e => rw [hl] at h; cases h
    | ok ls =>
      rw [hl] at h
      simp only [bind, Except.bind] at h
      exact linesplitLoop_len columns _ ls lines (wordToLines_len hl) h
/-- matches are ordered, non-empty and inside `[lo, hi]` -/
def Chain (lo : Nat) : List (Nat × Nat) → Nat → Prop
  | [], hi => lo ≤ hi
  | (s, e) :: rest, hi => lo ≤ s ∧ s < e ∧ Chain e rest hi

theorem Chain.le {lo hi : Nat} {ms : List (Nat × Nat)} (h : Chain lo ms hi) : lo ≤ hi := by
  induction ms generalizing lo with
  | nil => exact h
  | cons p rest ih =>
    obtain ⟨s, e⟩ := p
    have := ih h.2.2
    have := h.1; have := h.2.1
    omega

private theorem spaceMatches_chain (u : UEnv) (t : List Char) (i : Nat) :
    Chain i (spaceMatches u t i none) (i + t.length) ∧
    ∀ st, st < i → ∃ e rest, spaceMatches u t i (some st) = (st, e) :: rest ∧ i ≤ e ∧
      Chain e rest (i + t.length) := by
  induction t generalizing i with
  | nil =>
    refine ⟨by simp [spaceMatches, Chain], fun st hst => ⟨i, [], by simp [spaceMatches], Nat.le_refl _, ?_⟩⟩
    simp [Chain]
  | cons c rest ih =>
    have hlen : i + (c :: rest).length = i + 1 + rest.length := by simp; omega
    rw [hlen]
    have ih1 := ih (i + 1)
    by_cases hsp : u.isSpace c
    · constructor
      · unfold spaceMatches
        rw [if_pos hsp]
        obtain ⟨e, r, h1, h2, h3⟩ := ih1.2 i (by omega)
        simp only [Option.getD_none]
        rw [h1]
        exact ⟨Nat.le_refl _, by omega, h3⟩
      · intro st hst
        unfold spaceMatches
        rw [if_pos hsp]
        obtain ⟨e, r, h1, h2, h3⟩ := ih1.2 st (by omega)
        simp only [Option.getD_some]
        exact ⟨e, r, h1, by omega, h3⟩
    · constructor
      · unfold spaceMatches
        rw [if_neg hsp]
        have := ih1.1
        -- Chain (i+1) ms hi → Chain i ms hi
        revert this
        generalize spaceMatches u rest (i + 1) none = ms
        intro h
        cases ms with
        | nil => simp [Chain] at h ⊢; omega
        | cons p ps => obtain ⟨s, e⟩ := p; exact ⟨by have := h.1; omega, h.2.1, h.2.2⟩
      · intro st hst
        unfold spaceMatches
        rw [if_neg hsp]
        refine ⟨i, _, rfl, Nat.le_refl _, ?_⟩
        have := ih1.1
        revert this
        generalize spaceMatches u rest (i + 1) none = ms
        intro h
        cases ms with
        | nil => simp [Chain] at h ⊢; omega
        | cons p ps => obtain ⟨s, e⟩ := p; exact ⟨by have := h.1; omega, h.2.1, h.2.2⟩

theorem Chain.zip_bounds {lo n : Nat} {ms : List (Nat × Nat)} (h : Chain lo ms n) :
    ∀ p ∈ List.zip (lo :: ms.map Prod.snd) (ms.map Prod.fst ++ [n]), p.1 ≤ p.2 ∧ p.2 ≤ n := by
  induction ms generalizing lo with
  | nil => intro p hp; simp at hp; subst hp; exact ⟨h, Nat.le_refl _⟩
  | cons q rest ih =>
    obtain ⟨s, e⟩ := q
    intro p hp
    simp only [List.map_cons, List.cons_append, List.zip_cons_cons, List.mem_cons] at hp
    rcases hp with rfl | hp
    · have := h.2.2.le
      exact ⟨h.1, by have := h.2.1; omega⟩
    · exact ih h.2.2 p hp

/-- every extracted word is non-empty -/
private theorem linesplitWords_pos (u : UEnv) (f : FmtStr) :
    ∀ w ∈ linesplitWords f (spaceMatches u (text f) 0 none), 0 < len w := by
  intro w hw
  unfold linesplitWords at hw
  obtain ⟨p, hp, rfl⟩ := List.mem_map.mp hw
  have hp' := List.mem_filter.mp hp
  have hch := (spaceMatches_chain u (text f) 0).1
  rw [Nat.zero_add, text_length] at hch
  have := hch.zip_bounds p hp'.1
  have hne : p.1 ≠ p.2 := by simpa using hp'.2
  rw [len_getslice]
  omega

private theorem getslice_ne_nil (f : FmtStr) (a b : Nat) : getslice f a b ≠ [] := by
  unfold getslice
  simp only []
  by_cases h : (getitemLoop a b 0 f).isEmpty
  · rw [if_pos h]; simp [emptyFmt]
  · rw [if_neg h]; intro h2; rw [h2] at h; simp at h

private theorem sharedAtts_ok {f : FmtStr} (h : f ≠ []) : ∃ a, sharedAtts f = .ok a := by
  cases f with
  | nil => exact absurd rfl h
  | cons c rest => exact ⟨_, rfl⟩

private theorem wordToLines_ok {columns : Nat} (hc : 1 ≤ columns) (word : FmtStr) (hw : 0 < len word) :
    ∃ ls, wordToLines columns word = .ok ls ∧ ls ≠ [] := by
  unfold wordToLines
  rw [if_neg (by omega)]
  refine ⟨_, rfl, ?_⟩
  have h1 : (0 : Int) ≤ ((len word : Nat) : Int) - 1 := by omega
  have h2 : (0 : Int) ≤ (((len word : Nat) : Int) - 1) / (columns : Int) := Int.ediv_nonneg h1 (by omega)
  intro h
  have := congrArg List.length h
  simp at this
  omega

private theorem linesplitLoop_ok (columns : Nat) (hc : 1 ≤ columns) (pairs : List (FmtStr × FmtStr))
    (lines : List FmtStr) (hl : lines ≠ [])
    (hp : ∀ p ∈ pairs, 0 < len p.1 ∧ p.2 ≠ []) :
    ∃ result, linesplitLoop columns lines pairs = .ok result := by
  induction pairs generalizing lines with
  | nil => exact ⟨lines, rfl⟩
  | cons p rest ih =>
    obtain ⟨word, space⟩ := p
    have ⟨hw, hs⟩ := hp (word, space) (by simp)
    have hrest : ∀ p ∈ rest, 0 < len p.1 ∧ p.2 ≠ [] := fun p h => hp p (by simp [h])
    unfold linesplitLoop
    cases hlast : lines.getLast? with
    | none => simp at hlast; exact absurd hlast hl
    | some last =>
      simp only []
      by_cases hfit : len last + len word < columns
      · rw [if_pos hfit]
        obtain ⟨a, ha⟩ := sharedAtts_ok hs
        rw [ha]
        simp only [bind, Except.bind]
        exact ih _ (by simp) hrest
      · rw [if_neg hfit]
        obtain ⟨ls, h1, h2⟩ := wordToLines_ok hc word hw
        rw [h1]
        simp only [bind, Except.bind]
        exact ih _ (by simp [hl]) hrest

/-- `linesplit` raises nothing for `columns ≥ 1` (whatever the Unicode environment and the run layout). -/
theorem C16_total (u : UEnv) (f : FmtStr) (columns : Nat) (hc : 1 ≤ columns) :
    ∃ lines, linesplit u f columns = .ok lines := by
  unfold linesplit
  simp only []
  have hpos := linesplitWords_pos u f
  cases hw : linesplitWords f (spaceMatches u (text f) 0 none) with
  | nil => exact ⟨[], rfl⟩
  | cons w0 ws =>
    rw [hw] at hpos
    simp only []
    obtain ⟨ls, h1, h2⟩ := wordToLines_ok hc w0 (hpos w0 (by simp))
    rw [h1]
    simp only [bind, Except.bind]
    apply linesplitLoop_ok columns hc _ ls h2
    intro p hp
    have h3 := List.of_mem_zip hp
    refine ⟨hpos p.1 (by simp [h3.1]), ?_⟩
    have := h3.2
    unfold linesplitSpaces at this
    obtain ⟨m, _, hm⟩ := List.mem_map.mp this
    rw [← hm]
    exact getslice_ne_nil _ _ _


private theorem spaceMatches_allspace (u : UEnv) (t : List Char) (i : Nat) (h : ∀ c ∈ t, u.isSpace c = true) :
    (∀ st, spaceMatches u t i (some st) = [(st, i + t.length)]) ∧
    (spaceMatches u t i none = if t = [] then [] else [(i, i + t.length)]) := by
  induction t generalizing i with
  | nil => simp [spaceMatches]
  | cons c rest ih =>
    have hc := h c (by simp)
    have ih1 := ih (i + 1) (fun d hd => h d (by simp [hd]))
    have e : i + 1 + rest.length = i + (c :: rest).length := by simp; omega
    constructor
    · intro st
      unfold spaceMatches
      rw [if_pos hc]
      simp only [Option.getD_some]
      rw [ih1.1 st, e]
    · unfold spaceMatches
      rw [if_pos hc]
      simp only [Option.getD_none]
      rw [ih1.1 i, e]
      simp

/-- Text without a word (empty, or whitespace only) gives no lines - for every `columns`, no exception. -/
theorem C16_wordless (u : UEnv) (f : FmtStr) (columns : Nat) (h : ∀ c ∈ text f, u.isSpace c = true) :
    linesplit u f columns = .ok [] := by
  have hm := (spaceMatches_allspace u (text f) 0 h).2
  have hw : linesplitWords f (spaceMatches u (text f) 0 none) = [] := by
    rw [hm]
    unfold linesplitWords
    by_cases he : text f = []
    · rw [if_pos he]
      have : len f = 0 := by rw [← text_length, he]; rfl
      simp [this]
    · rw [if_neg he]
      simp [text_length]
  unfold linesplit
  simp only [hw]



/-! ### the full statement: scanner = maximal runs, chopping, greedy loop -/

def sl (L : List Cell) (p : Nat × Nat) : List Cell := (L.take p.2).drop p.1

def wordsR (prev : Nat) : List (Nat × Nat) → Nat → List (Nat × Nat)
  | [], n => [(prev, n)]
  | (s, e) :: r, n => (prev, s) :: wordsR e r n

def wordsAfter : List (Nat × Nat) → Nat → List (Nat × Nat)
  | [], _ => []
  | (_, e) :: r, n => wordsR e r n

def mW (L : List Cell) (segs : List (Nat × Nat)) : List (List Cell) :=
  (segs.filter fun p => p.1 ≠ p.2).map (sl L)
def mS (L : List Cell) (ms : List (Nat × Nat)) : List (List Cell) :=
  (ms.filter fun m => m.1 ≠ 0 ∧ m.2 ≠ L.length).map (sl L)

private theorem zip_eq_wordsR (prev n : Nat) (ms : List (Nat × Nat)) :
    List.zip (prev :: ms.map Prod.snd) (ms.map Prod.fst ++ [n]) = wordsR prev ms n := by
  induction ms generalizing prev with
  | nil => rfl
  | cons m r ih => obtain ⟨s, e⟩ := m; simp [wordsR, ← ih]

private theorem specWords_head (u : UEnv) (suf gap word : List Cell) (h : word ≠ []) :
    ∃ w' tl, specWords u suf gap word = (gap, w') :: tl := by
  induction suf generalizing word with
  | nil =>
    unfold specWords
    have : word.isEmpty = false := by cases word <;> simp_all
    simp [this]
  | cons x r ih =>
    unfold specWords
    by_cases hs : u.isSpace x.1
    · have : word.isEmpty = false := by cases word <;> simp_all
      simp [hs, this]
    · simp only [hs]
      exact ih (word ++ [x]) (by simp)

private theorem sl_pre (pre suf : List Cell) (a : Nat) : sl (pre ++ suf) (a, pre.length) = pre.drop a := by
  simp [sl]


private theorem spaceMatches_some_cons (u : UEnv) (t : List Char) (i st : Nat) :
    ∃ e r, spaceMatches u t i (some st) = (st, e) :: r := by
  induction t generalizing i with
  | nil => exact ⟨i, [], rfl⟩
  | cons c rest ih =>
    by_cases h : u.isSpace c
    · simp only [spaceMatches, h, if_true, Option.getD_some]; exact ih (i + 1)
    · simp only [spaceMatches, h]; exact ⟨i, _, rfl⟩

private theorem isEmpty_false_of_ne {α} {l : List α} (h : l ≠ []) : l.isEmpty = false := by
  cases l <;> simp_all

private theorem scan_spec (u : UEnv) (L : List Cell) (suf : List Cell) :
    ∀ pre : List Cell, L = pre ++ suf →
    (∀ ws gap, ws ≤ pre.length → (pre.length = 0 → gap = []) → (0 < pre.length → ws < pre.length) →
      mW L (wordsR ws (spaceMatches u (suf.map Prod.fst) pre.length none) L.length)
          = (specWords u suf gap (pre.drop ws)).map Prod.snd ∧
        mS L (spaceMatches u (suf.map Prod.fst) pre.length none)
          = (specWords u suf gap (pre.drop ws)).tail.map Prod.fst) ∧
    (∀ st, st < pre.length →
      mW L (wordsAfter (spaceMatches u (suf.map Prod.fst) pre.length (some st)) L.length)
          = (specWords u suf (pre.drop st) []).map Prod.snd ∧
        mS L (spaceMatches u (suf.map Prod.fst) pre.length (some st))
          = (if st = 0 then (specWords u suf (pre.drop st) []).tail
             else specWords u suf (pre.drop st) []).map Prod.fst) := by
  induction suf with
  | nil =>
    intro pre hL
    have hn : L.length = pre.length := by rw [hL]; simp
    constructor
    · intro ws gap hws hgap hlt
      simp only [List.map_nil, spaceMatches, wordsR, specWords]
      by_cases hw : ws = pre.length
      · have : pre.drop ws = [] := by rw [hw]; simp
        simp [this, mW, mS, hn, hw]
      · have hne : pre.drop ws ≠ [] := by
          intro h; have := congrArg List.length h; simp at this; omega
        simp [isEmpty_false_of_ne hne, mW, mS, hn, hw]
        rw [hL, ← hn]; simp [sl, hn]
    · intro st hst
      simp [spaceMatches, wordsAfter, wordsR, specWords, mW, mS, hn]
  | cons x suf' ih =>
    intro pre hL
    have hL' : L = (pre ++ [x]) ++ suf' := by rw [hL]; simp
    have ih' := ih (pre ++ [x]) hL'
    have hlen : (pre ++ [x]).length = pre.length + 1 := by simp
    rw [hlen] at ih'
    have hnlt : pre.length < L.length := by rw [hL]; simp
    have hdrop : ∀ k, k ≤ pre.length → (pre ++ [x]).drop k = pre.drop k ++ [x] :=
      fun k hk => List.drop_append_of_le_length hk
    have hdropi : (pre ++ [x]).drop pre.length = [x] := by simp
    have hslpre : ∀ a, sl L (a, pre.length) = pre.drop a := fun a => by rw [hL]; exact sl_pre _ _ _
    constructor
    · intro ws gap hws hgap hlt
      by_cases hs : u.isSpace x.1
      · obtain ⟨e, r, hshape⟩ := spaceMatches_some_cons u (suf'.map Prod.fst) (pre.length + 1) pre.length
        have hsome := ih'.2 pre.length (by omega)
        rw [hdropi, hshape] at hsome
        simp only [List.map_cons, spaceMatches, specWords, hs, if_true, Option.getD_none, hshape]
        simp only [wordsAfter] at hsome
        by_cases hw : ws = pre.length
        · -- at the very start of the string
          have hz : pre.length = 0 := by
            by_cases h0 : 0 < pre.length
            · have := hlt h0; omega
            · omega
          have hg := hgap hz
          subst hg
          have hde : pre.drop ws = [] := by rw [hw]; simp
          rw [hz] at hsome ⊢
          simp only [hde, List.isEmpty_nil, if_true, List.nil_append] at hsome ⊢
          refine ⟨?_, hsome.2⟩
          rw [← hsome.1]
          have : ws = 0 := by omega
          subst this
          simp [wordsR, mW, hz]
        · have hne : pre.drop ws ≠ [] := by
            intro h; have := congrArg List.length h; simp at this; omega
          have hpos : pre.length ≠ 0 := by omega
          simp only [isEmpty_false_of_ne hne, if_neg hpos] at hsome ⊢
          simp only [Bool.false_eq_true, if_false, List.map_cons, List.tail_cons]
          refine ⟨?_, hsome.2⟩
          rw [← hsome.1]
          simp [wordsR, mW, hw, hslpre]
      · have hnone := ih'.1 ws gap (by omega) (by omega) (by omega)
        rw [hdrop ws hws] at hnone
        simp only [List.map_cons, spaceMatches, specWords, hs, Bool.false_eq_true, if_false]
        exact hnone
    · intro st hst
      by_cases hs : u.isSpace x.1
      · have hsome := ih'.2 st (by omega)
        rw [hdrop st (by omega)] at hsome
        simp only [List.map_cons, spaceMatches, specWords, hs, if_true, Option.getD_some, List.isEmpty_nil]
        exact hsome
      · have hnone := ih'.1 pre.length (pre.drop st) (by omega) (by omega) (by omega)
        rw [hdropi] at hnone
        simp only [List.map_cons, spaceMatches, specWords, hs, List.nil_append, wordsAfter,
          Bool.false_eq_true, if_false]
        refine ⟨hnone.1, ?_⟩
        obtain ⟨w', tl, hP⟩ := specWords_head u suf' (pre.drop st) [x] (by simp)
        rw [hP] at hnone ⊢
        have hm := hnone.2
        simp only [List.tail_cons] at hm
        by_cases h0 : st = 0
        · simp only [mS] at hm ⊢
          rw [if_pos h0, List.filter_cons_of_neg (by simp [h0])]
          exact hm
        · simp only [if_neg h0, List.map_cons]
          simp only [mS] at hm ⊢
          rw [List.filter_cons, if_pos (by simp; omega), List.map_cons, hm, hslpre]

/-- the model's word and gap extraction computes the maximal runs of the specification -/
theorem words_spaces_spec (u : UEnv) (f : FmtStr) :
    (linesplitWords f (spaceMatches u (text f) 0 none)).map cells
        = (specWords u (cells f) [] []).map Prod.snd ∧
    (linesplitSpaces f (spaceMatches u (text f) 0 none)).map cells
        = (specWords u (cells f) [] []).tail.map Prod.fst := by
  have h := (scan_spec u (cells f) (cells f) [] rfl).1 0 [] (Nat.le_refl _) (fun _ => rfl)
    (fun h => absurd h (Nat.lt_irrefl _))
  simp only [List.length_nil, List.drop_nil, ← text_eq_cells, cells_length] at h
  constructor
  · rw [← h.1, ← zip_eq_wordsR]
    simp only [linesplitWords, mW, List.map_map]
    apply List.map_congr_left
    intro p _
    simp [sl, getslice_cells']
  · rw [← h.2]
    simp only [linesplitSpaces, mS, List.map_map, cells_length]
    apply List.map_congr_left
    intro p _
    simp [sl, getslice_cells']

/-! #### chopping -/

private theorem take_append_drop_take {α} (l : List α) (a b : Nat) (h : a ≤ b) :
    l.take a ++ (l.take b).drop a = l.take b := by
  have : l.take a = (l.take b).take a := by rw [List.take_take, Nat.min_eq_left h]
  rw [this, List.take_append_drop]

private theorem pieces_flatten {α} (w : List α) (c q : Nat) :
    ((List.range q).map fun i => (w.take (c * (i + 1))).drop (c * i)).flatten = w.take (c * q) := by
  induction q with
  | zero => simp
  | succ q ih =>
    rw [List.range_succ, List.map_append, List.flatten_append, ih]
    simp only [List.map_cons, List.map_nil, List.flatten_cons, List.flatten_nil, List.append_nil]
    exact take_append_drop_take w _ _ (Nat.mul_le_mul_left c (Nat.le_succ q))

private theorem wordToLines_chopped {columns : Nat} (hc : 1 ≤ columns) (word : FmtStr) (hw : 0 < len word) :
    ∃ ls0 lastF, wordToLines columns word = .ok (ls0 ++ [lastF]) ∧
      Chopped columns (cells word) (ls0.map cells) (cells lastF) := by
  have hn : (cells word).length = len word := cells_length word
  have hk : ((((len word : Nat) : Int) - 1) / (columns : Int) + 1).toNat = (len word - 1) / columns + 1 := by
    have e : ((len word : Nat) : Int) - 1 = ((len word - 1 : Nat) : Int) := by omega
    rw [e]
    have h2 : (0 : Int) ≤ ((len word - 1 : Nat) : Int) / (columns : Int) :=
      Int.ediv_nonneg (by omega) (by omega)
    omega
  have hq1 : columns * ((len word - 1) / columns) ≤ len word - 1 := Nat.mul_div_le _ _
  have hq2 : len word - 1 < columns * ((len word - 1) / columns + 1) := Nat.lt_mul_div_succ _ (by omega)
  refine ⟨(List.range ((len word - 1) / columns)).map fun i => getslice word (columns * i) (columns * (i + 1)),
    getslice word (columns * ((len word - 1) / columns)) (columns * ((len word - 1) / columns + 1)), ?_, ?_⟩
  · unfold wordToLines
    rw [if_neg (by omega), hk, List.range_succ, List.map_append]
    rfl
  · generalize (len word - 1) / columns = q at hq1 hq2
    have hmap : ((List.range q).map fun i => getslice word (columns * i) (columns * (i + 1))).map cells
        = (List.range q).map fun i => ((cells word).take (columns * (i + 1))).drop (columns * i) := by
      rw [List.map_map]; apply List.map_congr_left; intro i _; simp [getslice_cells']
    rw [hmap, getslice_cells']
    refine ⟨?_, ?_, ?_, ?_⟩
    · rw [pieces_flatten, List.take_of_length_le (l := cells word) (i := columns * (q + 1)) (by omega)]
      exact (List.take_append_drop _ _).symm
    · intro p hp
      obtain ⟨i, hi, rfl⟩ := List.mem_map.mp hp
      have hi' : i + 1 ≤ q := by have := List.mem_range.mp hi; omega
      have := Nat.mul_le_mul_left columns hi'
      rw [List.length_drop, List.length_take, Nat.mul_succ]
      rw [Nat.mul_succ] at this
      omega
    · rw [List.length_drop, List.length_take]; omega
    · rw [List.length_drop, List.length_take, Nat.mul_succ]; rw [Nat.mul_succ] at hq2; omega

/-- cells of a text all carrying the same attributes -/
def mkCells' (s : Text) (a : Atts) : List Cell := s.map fun ch => (ch, a)

/-! #### the joining space: `shared_atts` of a gap = the attributes common to all its cells -/

private theorem optInter_idem {α} [DecidableEq α] (x a : Option α) :
    (if (if x = a then x else none) = a then (if x = a then x else none) else none)
      = (if x = a then x else none) := by
  by_cases h : x = a
  · simp [h]
  · simp [h]
private theorem Atts.inter_inter_self (x a : Atts) : (x.inter a).inter a = x.inter a := by
  simp only [Atts.inter]
  congr 1 <;> exact optInter_idem _ _
private theorem Atts.inter_self (a : Atts) : a.inter a = a := by
  simp [Atts.inter]

private theorem fold_same (a : Atts) (s : Text) (hs : s ≠ []) (acc : Atts) :
    (mkCells' s a).foldl (fun x y => x.inter y.2) acc = acc.inter a := by
  induction s generalizing acc with
  | nil => exact absurd rfl hs
  | cons c r ih =>
    cases r with
    | nil => simp [mkCells']
    | cons c' r' =>
      have := ih (by simp) (acc.inter a)
      simp only [mkCells', List.map_cons, List.foldl_cons] at this ⊢
      rw [this, Atts.inter_inter_self]

private theorem cells_fold (f : FmtStr) (acc : Atts) :
    (cells f).foldl (fun x y => x.inter y.2) acc
      = (f.filter fun c => !c.s.isEmpty).foldl (fun x c => x.inter c.atts) acc := by
  induction f generalizing acc with
  | nil => rfl
  | cons c rest ih =>
    rw [cells_cons, List.foldl_append]
    by_cases he : c.s = []
    · have : c.cells = [] := by simp [Chunk.cells, he]
      rw [this, List.filter_cons_of_neg (by simp [he])]
      exact ih acc
    · rw [List.filter_cons_of_pos (by simpa using he), List.foldl_cons]
      have : c.cells = mkCells' c.s c.atts := rfl
      rw [this, fold_same _ _ he]
      exact ih _

theorem sharedAtts_eq_gapAtts (f : FmtStr) (h : cells f ≠ []) :
    sharedAtts f = .ok (gapAtts (cells f)) := by
  induction f with
  | nil => exact absurd rfl h
  | cons c rest ih =>
    by_cases he : c.s = []
    · have hc : c.cells = [] := by simp [Chunk.cells, he]
      have hrest : cells rest ≠ [] := by simpa [hc] using h
      rw [cells_cons, hc, List.nil_append, ← ih hrest]
      cases rest with
      | nil => exact absurd rfl hrest
      | cons d rest' =>
        have hne : ((d :: rest').filter fun c => !c.s.isEmpty) ≠ [] := by
          intro h0
          have := cells_fold (d :: rest') {}
          apply hrest
          -- no non-empty chunk means no cells
          clear this ih
          have : ∀ (g : FmtStr), (g.filter fun c => !c.s.isEmpty) = [] → cells g = [] := by
            intro g
            induction g with
            | nil => intro _; rfl
            | cons e g ihg =>
              intro hg
              by_cases hee : e.s = []
              · rw [List.filter_cons_of_neg (by simp [hee])] at hg
                simp [Chunk.cells, hee, ihg hg]
              · rw [List.filter_cons_of_pos (by simpa using hee)] at hg
                cases hg
          exact this _ h0
        simp only [sharedAtts]
        rw [List.filter_cons_of_neg (by simp [he])]
        cases hfl : (d :: rest').filter (fun c => !c.s.isEmpty) with
        | nil => exact absurd hfl hne
        | cons e es => rfl
    · obtain ⟨ch, r, hs⟩ := List.exists_cons_of_ne_nil he
      simp only [sharedAtts]
      rw [List.filter_cons_of_pos (by simpa using he)]
      simp only [List.foldl_cons, Atts.inter_self]
      congr 1
      rw [cells_cons]
      have hcells : c.cells = (ch, c.atts) :: mkCells' r c.atts := by
        simp [Chunk.cells, mkCells', hs]
      rw [hcells]
      simp only [List.cons_append, gapAtts, List.foldl_append]
      rw [← cells_fold]
      congr 1
      by_cases hr : r = []
      · simp [hr, mkCells']
      · rw [fold_same _ _ hr, Atts.inter_self]

/-! #### the greedy loop -/

private theorem linesplitLoop_greedy (columns : Nat) (hc : 1 ≤ columns) (pairs : List (FmtStr × FmtStr))
    (hp : ∀ p ∈ pairs, 0 < len p.1 ∧ cells p.2 ≠ []) (done : List FmtStr) (cur : FmtStr) :
    ∃ result out, linesplitLoop columns (done ++ [cur]) pairs = .ok result ∧
      result.map cells = done.map cells ++ out ∧
      Greedy columns (cells cur) (pairs.map fun p => (cells p.1, gapAtts (cells p.2))) out := by
  induction pairs generalizing done cur with
  | nil => exact ⟨done ++ [cur], [cells cur], rfl, by simp, Greedy.done _⟩
  | cons p rest ih =>
    obtain ⟨word, space⟩ := p
    have ⟨hw, hs⟩ := hp (word, space) (by simp)
    have hrest : ∀ p ∈ rest, 0 < len p.1 ∧ cells p.2 ≠ [] := fun p h => hp p (by simp [h])
    unfold linesplitLoop
    have hlast : (done ++ [cur]).getLast? = some cur := by simp
    rw [hlast]
    simp only [List.map_cons]
    by_cases hfit : len cur + len word < columns
    · rw [if_pos hfit, sharedAtts_eq_gapAtts space hs]
      simp only [bind, Except.bind, List.dropLast_concat]
      obtain ⟨result, out, h1, h2, h3⟩ := ih hrest done (add (add cur (spaceFmt (gapAtts (cells space)))) word)
      refine ⟨result, out, h1, h2, ?_⟩
      apply Greedy.join
      · rw [cells_length, cells_length]; omega
      · have : cells (add (add cur (spaceFmt (gapAtts (cells space)))) word)
            = cells cur ++ (' ', gapAtts (cells space)) :: cells word := by
          simp [add, spaceFmt, Chunk.cells]
        rw [this] at h3
        exact h3
    · rw [if_neg hfit]
      obtain ⟨ls0, lastF, hl, hch⟩ := wordToLines_chopped hc word hw
      rw [hl]
      simp only [bind, Except.bind]
      obtain ⟨result, out, h1, h2, h3⟩ := ih hrest (done ++ [cur] ++ ls0) lastF
      rw [← List.append_assoc]
      refine ⟨result, cells cur :: (ls0.map cells ++ out), h1, ?_, ?_⟩
      · rw [h2]; simp
      · apply Greedy.wrap ?_ hch h3
        rw [cells_length, cells_length]; omega

private theorem zip_map_eq {α β γ δ ε} (ws : List α) (sp : List β) (rest : List (γ × δ))
    (fw : α → δ) (fs : β → γ) (g : γ → ε)
    (h1 : ws.map fw = rest.map Prod.snd) (h2 : sp.map fs = rest.map Prod.fst) :
    (List.zip ws sp).map (fun p => (fw p.1, g (fs p.2))) = rest.map fun p => (p.2, g p.1) := by
  induction rest generalizing ws sp with
  | nil =>
    have : ws = [] := by simpa using h1
    subst this; rfl
  | cons r rest ih =>
    cases ws with
    | nil => simp at h1
    | cons w ws =>
      cases sp with
      | nil => simp at h2
      | cons s sp =>
        simp only [List.map_cons, List.cons.injEq] at h1 h2
        simp only [List.zip_cons_cons, List.map_cons, h1.1, h2.1]
        rw [ih ws sp h1.2 h2.2]

theorem Chain.mem_bounds {lo hi : Nat} {ms : List (Nat × Nat)} (h : Chain lo ms hi) :
    ∀ m ∈ ms, m.1 < m.2 ∧ m.2 ≤ hi := by
  induction ms generalizing lo with
  | nil => simp
  | cons q rest ih =>
    obtain ⟨s, e⟩ := q
    intro m hm
    rcases List.mem_cons.mp hm with rfl | hm
    · exact ⟨h.2.1, h.2.2.le⟩
    · exact ih h.2.2 m hm

/-- C16, full statement: see `C16_full_statement`. -/
theorem C16_full : C16_full_statement := by
  intro u f columns hc _
  have hpos := linesplitWords_pos u f
  obtain ⟨hW, hS⟩ := words_spaces_spec u f
  unfold linesplit
  simp only []
  cases hw : linesplitWords f (spaceMatches u (text f) 0 none) with
  | nil =>
    rw [hw] at hW
    have : specWords u (cells f) [] [] = [] := by
      cases h : specWords u (cells f) [] [] with
      | nil => rfl
      | cons a b => rw [h] at hW; simp at hW
    rw [this]
    exact ⟨[], rfl, rfl⟩
  | cons w0 ws =>
    rw [hw] at hW hpos
    cases hP : specWords u (cells f) [] [] with
    | nil => rw [hP] at hW; simp at hW
    | cons p0 rest =>
      obtain ⟨g0, c0⟩ := p0
      rw [hP] at hW hS
      simp only [List.map_cons, List.cons.injEq, List.tail_cons] at hW hS
      simp only []
      obtain ⟨ls0, lastF, hl, hch⟩ := wordToLines_chopped hc w0 (hpos w0 (by simp))
      rw [hl]
      simp only [bind, Except.bind]
      have hpairs : ∀ p ∈ List.zip ws (linesplitSpaces f (spaceMatches u (text f) 0 none)),
          0 < len p.1 ∧ cells p.2 ≠ [] := by
        intro p hp
        have h3 := List.of_mem_zip hp
        refine ⟨hpos p.1 (by simp [h3.1]), ?_⟩
        have := h3.2
        unfold linesplitSpaces at this
        obtain ⟨m, hm, hmeq⟩ := List.mem_map.mp this
        have hch := (spaceMatches_chain u (text f) 0).1
        rw [Nat.zero_add, text_length] at hch
        have hb := hch.mem_bounds m (List.mem_filter.mp hm).1
        rw [← hmeq]
        intro h0
        have := congrArg List.length h0
        rw [cells_length, len_getslice] at this
        simp at this
        omega
      obtain ⟨result, out, h1, h2, h3⟩ := linesplitLoop_greedy columns hc _ hpairs ls0 lastF
      refine ⟨result, h1, ls0.map cells, cells lastF, out, ?_, ?_, h2⟩
      · rw [← hW.1]; exact hch
      · rw [← zip_map_eq ws _ rest cells cells gapAtts hW.2 hS]
        exact h3

/-! ### consequences of the full statement, in plain terms -/

/-- not whitespace -/
def nsp (u : UEnv) (x : Cell) : Bool := !u.isSpace x.1

theorem specWords_filter (u : UEnv) (suf gap word : List Cell) :
    ((specWords u suf gap word).flatMap Prod.snd).filter (nsp u) = (word ++ suf).filter (nsp u) := by
  induction suf generalizing gap word with
  | nil =>
    unfold specWords
    cases word with
    | nil => simp
    | cons a b => simp
  | cons x rest ih =>
    unfold specWords
    by_cases hs : u.isSpace x.1
    · have hx : nsp u x = false := by simp [nsp, hs]
      cases word with
      | nil =>
        simp only [hs, if_true, List.isEmpty_nil, List.nil_append]
        rw [ih, List.filter_cons_of_neg (by simp [hx])]; rfl
      | cons a b =>
        simp only [hs, if_true, List.isEmpty_cons, Bool.false_eq_true, if_false, List.flatMap_cons,
          List.filter_append]
        rw [ih, List.filter_cons_of_neg (a := x) (by simp [hx])]; rfl
    · simp only [hs, Bool.false_eq_true, if_false]
      rw [ih]; simp

theorem Greedy.filter {u : UEnv} {columns : Nat} {cur : List Cell} {pairs : List (List Cell × Atts)}
    {out : List (List Cell)} (h : Greedy columns cur pairs out) (hsp : u.isSpace ' ' = true) :
    out.flatten.filter (nsp u) = (cur ++ pairs.flatMap Prod.fst).filter (nsp u) := by
  induction h with
  | done cur => simp
  | @join cur w a rest out _ _ ih =>
    rw [ih]
    have : nsp u (' ', a) = false := by simp [nsp, hsp]
    simp [List.filter_cons, this]
  | @wrap cur w last a rest full out _ hch _ ih =>
    simp only [List.flatten_cons, List.flatten_append, List.filter_append, ih, List.flatMap_cons]
    rw [hch.1]
    simp [List.filter_append]

/-- every word of the specification is non-empty and free of whitespace -/
theorem specWords_clean (u : UEnv) (suf gap word : List Cell) (hw : ∀ x ∈ word, u.isSpace x.1 = false) :
    ∀ p ∈ specWords u suf gap word, p.2 ≠ [] ∧ ∀ x ∈ p.2, u.isSpace x.1 = false := by
  induction suf generalizing gap word with
  | nil =>
    unfold specWords
    cases word with
    | nil => simp
    | cons a b => intro p hp; simp at hp; subst hp; exact ⟨by simp, hw⟩
  | cons x rest ih =>
    unfold specWords
    by_cases hs : u.isSpace x.1
    · cases word with
      | nil => simp only [hs, if_true, List.isEmpty_nil]; exact ih _ _ (by simp)
      | cons a b =>
        simp only [hs, if_true, List.isEmpty_cons, Bool.false_eq_true, if_false]
        intro p hp
        rcases List.mem_cons.mp hp with rfl | hp
        · exact ⟨by simp, hw⟩
        · exact ih _ _ (by simp) p hp
    · simp only [hs, Bool.false_eq_true, if_false]
      apply ih
      intro y hy
      rcases List.mem_append.mp hy with hy | hy
      · exact hw y hy
      · simp at hy; subst hy; simpa using hs

private theorem getLast?_append_cons' {α} (c w : List α) (s : α) (h : w ≠ []) : (c ++ s :: w).getLast? = w.getLast? := by
  cases w with
  | nil => exact absurd rfl h
  | cons a b =>
    rw [List.getLast?_append, List.getLast?_cons_cons]
    cases hl : (a :: b).getLast? with
    | none => simp at hl
    | some v => simp

/-- a line that is non-empty and neither starts nor ends with whitespace -/
def CleanLine (u : UEnv) (l : List Cell) : Prop :=
  l ≠ [] ∧ (∀ x, l.head? = some x → u.isSpace x.1 = false) ∧ (∀ x, l.getLast? = some x → u.isSpace x.1 = false)

theorem cleanLine_of_allns {u : UEnv} {l : List Cell} (h0 : l ≠ []) (h : ∀ x ∈ l, u.isSpace x.1 = false) :
    CleanLine u l :=
  ⟨h0, fun x hx => h x (List.mem_of_head? hx), fun x hx => h x (List.mem_of_getLast? hx)⟩

theorem Greedy.clean {u : UEnv} {columns : Nat} {cur : List Cell} {pairs : List (List Cell × Atts)}
    {out : List (List Cell)} (h : Greedy columns cur pairs out) (hc : 1 ≤ columns) (hcur : CleanLine u cur)
    (hp : ∀ p ∈ pairs, p.1 ≠ [] ∧ ∀ x ∈ p.1, u.isSpace x.1 = false) : ∀ l ∈ out, CleanLine u l := by
  induction h with
  | done cur => intro l hl; simp at hl; subst hl; exact hcur
  | @join cur w a rest out _ _ ih =>
    have ⟨hw0, hw⟩ := hp (w, a) (by simp)
    apply ih _ (fun p h => hp p (by simp [h]))
    refine ⟨by simp, ?_, ?_⟩
    · intro x hx
      apply hcur.2.1 x
      cases cur with
      | nil => exact absurd rfl hcur.1
      | cons c cs => simpa using hx
    · intro x hx
      rw [getLast?_append_cons' _ _ _ hw0] at hx
      exact hw x (List.mem_of_getLast? hx)
  | @wrap cur w last a rest full out _ hch _ ih =>
    have ⟨hw0, hw⟩ := hp (w, a) (by simp)
    have hlast : CleanLine u last := by
      apply cleanLine_of_allns (List.length_pos_iff.mp hch.2.2.1)
      intro x hx; apply hw; rw [hch.1]; simp [hx]
    intro l hl
    rcases List.mem_cons.mp hl with rfl | hl
    · exact hcur
    · rcases List.mem_append.mp hl with hl | hl
      · apply cleanLine_of_allns
        · apply List.length_pos_iff.mp; rw [hch.2.1 l hl]; omega
        · intro x hx; apply hw; rw [hch.1]
          exact List.mem_append_left _ (List.mem_flatten.mpr ⟨l, hl, hx⟩)
      · exact ih hlast (fun p h => hp p (by simp [h])) l hl

/-- No returned line is empty, starts with whitespace or ends with whitespace (`columns ≥ 1`). -/
theorem C16_clean_lines (u : UEnv) (f : FmtStr) (columns : Nat) (hc : 1 ≤ columns)
    (hsp : u.isSpace ' ' = true) :
    ∃ lines, linesplit u f columns = .ok lines ∧ ∀ l ∈ lines, CleanLine u (cells l) := by
  obtain ⟨lines, h1, h2⟩ := C16_full u f columns hc hsp
  refine ⟨lines, h1, ?_⟩
  have hclean := specWords_clean u (cells f) [] [] (by simp)
  cases hP : specWords u (cells f) [] [] with
  | nil => rw [hP] at h2; simp only [] at h2; subst h2; simp
  | cons p0 rest =>
    obtain ⟨g0, w0⟩ := p0
    rw [hP] at h2 hclean
    simp only [] at h2
    obtain ⟨full, last, out, hch, hg, hl⟩ := h2
    have ⟨hw0, hw⟩ := hclean (g0, w0) (by simp)
    have hlast : CleanLine u last := by
      apply cleanLine_of_allns (List.length_pos_iff.mp hch.2.2.1)
      intro x hx; apply hw; rw [hch.1]; simp [hx]
    have hout := hg.clean hc hlast (by
      intro p hp
      obtain ⟨q, hq, rfl⟩ := List.mem_map.mp hp
      exact hclean q (by simp [hq]))
    intro l hl2
    have : cells l ∈ full ++ out := by rw [← hl]; exact List.mem_map.mpr ⟨l, hl2, rfl⟩
    rcases List.mem_append.mp this with hm | hm
    · apply cleanLine_of_allns
      · apply List.length_pos_iff.mp; rw [hch.2.1 _ hm]; omega
      · intro x hx; apply hw; rw [hch.1]
        exact List.mem_append_left _ (List.mem_flatten.mpr ⟨_, hm, hx⟩)
    · exact hout _ hm

/-- Nothing but whitespace is lost, added, reordered or restyled: the non-whitespace cells of the lines, in order,
    are the non-whitespace cells of the text (characters with their formatting). -/
theorem C16_words_kept (u : UEnv) (f : FmtStr) (columns : Nat) (hc : 1 ≤ columns)
    (hsp : u.isSpace ' ' = true) :
    ∃ lines, linesplit u f columns = .ok lines ∧
      (lines.flatMap cells).filter (nsp u) = (cells f).filter (nsp u) := by
  obtain ⟨lines, h1, h2⟩ := C16_full u f columns hc hsp
  refine ⟨lines, h1, ?_⟩
  have hfil := specWords_filter u (cells f) [] []
  simp only [List.nil_append] at hfil
  rw [← hfil]
  cases hP : specWords u (cells f) [] [] with
  | nil => rw [hP] at h2; simp only [] at h2; subst h2; simp
  | cons p0 rest =>
    obtain ⟨g0, w0⟩ := p0
    rw [hP] at h2
    simp only [] at h2
    obtain ⟨full, last, out, hch, hg, hl⟩ := h2
    have e : lines.flatMap cells = (lines.map cells).flatten := by simp [List.flatMap]
    rw [e, hl, List.flatten_append, List.filter_append, hg.filter hsp]
    simp only [List.flatMap_cons, List.filter_append]
    rw [hch.1, List.filter_append, List.append_assoc]
    congr 2
    simp [List.flatMap, Function.comp_def]

/-! ### non-vacuity / examples (whitespace of three kinds, formatting changing inside a gap) -/

example : (match linesplit exEnv [⟨[' ', 'a', 'b', ' '], {fg := some 1, bold := some true}⟩,
      ⟨['\t', 'c', '\n'], {fg := some 1}⟩, ⟨['d', 'e', 'f', 'g'], {}⟩] 3 with
    | .ok ls => ls == [[⟨['a', 'b'], {fg := some 1, bold := some true}⟩],
                       [⟨['c'], {fg := some 1}⟩], [⟨['d', 'e', 'f'], {}⟩], [⟨['g'], {}⟩]]
    | _ => false) = true := by decide +kernel

example : (match linesplit exEnv [⟨[' ', 'a', 'b', ' '], {fg := some 1, bold := some true}⟩,
      ⟨['\t', 'c', '\n'], {fg := some 1}⟩, ⟨['d'], {}⟩] 4 with
    | .ok ls => ls == [[⟨['a', 'b'], {fg := some 1, bold := some true}⟩, ⟨[' '], {fg := some 1}⟩, ⟨['c'], {fg := some 1}⟩],
                       [⟨['d'], {}⟩]]
    | _ => false) = true := by decide +kernel

example : specWords exEnv (cells [⟨[' ', 'a', ' '], {}⟩, ⟨['\t', 'c', '\n'], {fg := some 1}⟩]) [] []
    = [([(' ', {})], [('a', {})]), ([(' ', {}), ('\t', {fg := some 1})], [('c', {fg := some 1})])] := by
  decide +kernel

end Curtsies
