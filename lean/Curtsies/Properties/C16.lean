/-
  C16 - linesplit word-wraps without losing, reordering or restyling words.
  (header completed below)
-/
import Curtsies.Proofs.Width
import Curtsies.Proofs.Slice
namespace Curtsies

theorem getslice_cells' (f : FmtStr) (s e : Nat) :
    cells (getslice f s e) = ((cells f).take e).drop s := by
  have := getitemLoop_cells s e f 0
  simp only [Nat.sub_zero] at this
  unfold getslice
  simp only []
  by_cases h : (getitemLoop s e 0 f).isEmpty
  · rw [if_pos h, ← this]
    have : getitemLoop s e 0 f = [] := List.isEmpty_iff.mp h
    rw [this]; rfl
  · rw [if_neg h, this]

theorem len_getslice (f : FmtStr) (s e : Nat) : len (getslice f s e) = min e (len f) - s := by
  rw [← cells_length, getslice_cells', List.length_drop, List.length_take, cells_length]

theorem len_append (f g : FmtStr) : len (f ++ g) = len f + len g := by
  rw [← cells_length, cells_append, List.length_append, cells_length, cells_length]

theorem wordToLines_len {columns : Nat} {word : FmtStr} {ls : List FmtStr}
    (h : wordToLines columns word = .ok ls) : ∀ l ∈ ls, len l ≤ columns := by
  unfold wordToLines at h
  by_cases hc : columns = 0
  · rw [if_pos hc] at h; cases h
  · rw [if_neg hc] at h
    injection h with h
    subst h
    intro l hl
    obtain ⟨i, _, rfl⟩ := List.mem_map.mp hl
    rw [len_getslice, Nat.mul_succ]
    omega

theorem linesplitLoop_len (columns : Nat) (pairs : List (FmtStr × FmtStr)) (lines result : List FmtStr)
    (hl : ∀ l ∈ lines, len l ≤ columns) (h : linesplitLoop columns lines pairs = .ok result) :
    ∀ l ∈ result, len l ≤ columns := by
  induction pairs generalizing lines with
  | nil => simp [linesplitLoop] at h; subst h; exact hl
  | cons p rest ih =>
    obtain ⟨word, space⟩ := p
    unfold linesplitLoop at h
    cases hlast : lines.getLast? with
    | none => rw [hlast] at h; cases h
    | some last =>
      rw [hlast] at h
      simp only [] at h
      have hlastmem : last ∈ lines := List.mem_of_getLast? hlast
      by_cases hfit : len last + len word < columns
      · rw [if_pos hfit] at h
        cases hsa : sharedAtts space with
        | error e => rw [hsa] at h; cases h
        | ok a =>
          rw [hsa] at h
          simp only [bind, Except.bind] at h
          apply ih _ _ h
          intro l hl2
          rcases List.mem_append.mp hl2 with hl2 | hl2
          · exact hl l ((List.dropLast_sublist lines).subset hl2)
          · simp only [List.mem_singleton] at hl2
            subst hl2
            simp only [add, spaceFmt, len_append, len_cons, len_nil, List.length_cons, List.length_nil]
            omega
      · rw [if_neg hfit] at h
        cases hw : wordToLines columns word with
        | error e => rw [hw] at h; cases h
        | ok ls =>
          rw [hw] at h
          simp only [bind, Except.bind] at h
          apply ih _ _ h
          intro l hl2
          rcases List.mem_append.mp hl2 with hl2 | hl2
          · exact hl l hl2
          · exact wordToLines_len hw l hl2

/-- no line is longer than `columns` -/
theorem C16_len (u : UEnv) (f : FmtStr) (columns : Nat) (lines : List FmtStr)
    (h : linesplit u f columns = .ok lines) : ∀ l ∈ lines, len l ≤ columns := by
  unfold linesplit at h
  simp only [] at h
  cases hw : linesplitWords f (spaceMatches u (text f) 0 none) with
  | nil => rw [hw] at h; simp only [] at h; injection h with h; subst h; simp
  | cons w0 ws =>
    rw [hw] at h
    simp only [] at h
    cases hl : wordToLines columns w0 with
    | error e => rw [hl] at h; cases h
    | ok ls =>
      rw [hl] at h
      simp only [bind, Except.bind] at h
      exact linesplitLoop_len columns _ ls lines (wordToLines_len hl) h
end Curtsies
