/-
  C15 - str methods on a FmtStr agree with str on its text.

  Natively implemented methods, fully:
  * `C15_split_spans`: for ANY list of match spans (what `re.finditer` returned - regex matching itself is
    CPython's), the pieces are the slices of `f` between the spans: same characters AND each character's
    own formatting (`cells`), same text (`text`).
  * `C15_split_sep`: for an explicit non-empty separator the spans are computed by the model's scanner and
    the texts of the pieces are exactly `str.split(sep)` of the text (`Spec.strSplit`).
  * `C15_splitlines`: texts = `str.splitlines(keepends)` (`Spec.strSplitlines`, line-boundary set a
    parameter), and piece i is the slice of `f` at the explicit position of line i (`lineSpans`).
  * `C15_join` (as C06_join), `C15_ljust` / `C15_rjust`: EXACTLY what the code does - with `sh = sharedAtts f`:
    if `sh` has a bg, the characters are unchanged and the padding carries `{bg}` only; otherwise every character
    loses its (non-shared) bg and the padding carries exactly `sh`.  `C15_just_bounds` relates this to the
    statement's wording (characters keep at least the shared attributes and show only attributes they had;
    padding shows only shared attributes - with equality exactly in the no-shared-bg branch).  With a fill
    character the whole result carries exactly `sharedAtts f`.
  * `fmtstr(text, **dict)` inside ljust/rjust/delegation is modelled as written (from_str, parse_args,
    copy_with_new_atts); `C15_fmtstrAtts` shows it is `FmtStr(Chunk(text, dict))` (via `C14_parse_own_atts`).
  Delegated methods, generically (`C15_delegate_partial`; open finding D27 for result texts with `ESC [`): for an UNINTERPRETED str method `m`, the result has the
  text(s) `m` gives on the text, carries exactly `sharedAtts f`, and by `C14_shared` every entry of that is an
  entry of every character of `f`; non-text answers and exceptions pass through unchanged.
  PARTIAL by design: that `m` is CPython's `str.upper` etc. is not a Lean fact; regexes enter as span lists.
  Hypotheses: separator non-empty; result texts free of `ESC [` (else `fmtstr` re-parses them: C05/C17).
-/
import Curtsies.Model.StrMethods
import Curtsies.Proofs.Slice
import Curtsies.Spec.PySlice
import Curtsies.Properties.C14
import Curtsies.Properties.C14Sound
import Curtsies.Generated.EscParse
namespace Curtsies
open Spec

private theorem getslice_cells' (f : FmtStr) (s e : Nat) :
    cells (getslice f s e) = ((cells f).take e).drop s := by
  have := getitemLoop_cells s e f 0
  simp only [Nat.sub_zero] at this
  unfold getslice
  simp only []
  by_cases h : (getitemLoop s e 0 f).isEmpty
  · rw [if_pos h, show cells emptyFmt = [] from rfl, ← this]
    have : getitemLoop s e 0 f = [] := List.isEmpty_iff.mp h
    rw [this]; rfl
  · rw [if_neg h, this]

private theorem getslice_text (f : FmtStr) (s e : Nat) :
    text (getslice f s e) = ((text f).take e).drop s := by
  rw [text_eq_cells, getslice_cells', text_eq_cells, List.map_drop, List.map_take]

/-- the pieces of `l` between the spans: from the end of one span to the start of the next -/
def cutAt (l : List α) (spans : List (Nat × Nat)) : List (List α) :=
  (List.zip (0 :: spans.map Prod.snd) (spans.map Prod.fst ++ [l.length])).map fun p => (l.take p.2).drop p.1

theorem C15_split_spans (f : FmtStr) (spans : List (Nat × Nat)) :
    (splitSpans f spans).map cells = cutAt (cells f) spans ∧
    (splitSpans f spans).map text = cutAt (text f) spans := by
  simp [splitSpans, cutAt, List.map_map, Function.comp_def, getslice_cells', getslice_text, cells_length, text_length]

private def cutGo (l : List α) : Nat → List (Nat × Nat) → List (List α)
  | st, [] => [(l.take l.length).drop st]
  | st, (a, b) :: rest => (l.take a).drop st :: cutGo l b rest

private theorem cutAt_eq_cutGo (l : List α) (spans : List (Nat × Nat)) : cutAt l spans = cutGo l 0 spans := by
  unfold cutAt
  generalize 0 = st
  induction spans generalizing st with
  | nil => simp [cutGo]
  | cons p rest ih =>
    obtain ⟨a, b⟩ := p
    simp only [List.map_cons, List.cons_append, List.zip_cons_cons, cutGo]
    rw [ih b]

private theorem scan (sep : Text) (hsep : sep ≠ []) (s : Text) : ∀ (pre : Text) (skip st : Nat),
    ((skip = 0 ∧ st ≤ pre.length) ∨ (0 < skip ∧ st = pre.length + skip ∧ skip ≤ s.length)) →
    cutGo (pre ++ s) st (findSpansAux sep s pre.length skip) = strSplitAux sep s skip (pre.drop st) := by
  induction s with
  | nil =>
    intro pre skip st h
    simp [findSpansAux, cutGo, strSplitAux]
  | cons c rest ih =>
    intro pre skip st h
    have hl : pre ++ c :: rest = (pre ++ [c]) ++ rest := by simp
    have hlen : (pre ++ [c]).length = pre.length + 1 := by simp
    cases skip with
    | succ k =>
      simp only [findSpansAux, strSplitAux]
      have hh : st = pre.length + (k + 1) ∧ k + 1 ≤ (c :: rest).length := by
        rcases h with ⟨h0, _⟩ | ⟨_, h1, h2⟩
        · omega
        · exact ⟨h1, h2⟩
      simp only [List.length_cons] at hh
      have := ih (pre ++ [c]) k st (by rw [hlen]; omega)
      rw [hlen, ← hl] at this
      rw [this]
      congr 1
      rw [List.drop_eq_nil_of_le (by rw [hlen]; omega), List.drop_eq_nil_of_le (by omega)]
    | zero =>
      have hst : st ≤ pre.length := by
        rcases h with ⟨_, h1⟩ | ⟨h0, _⟩
        · exact h1
        · omega
      simp only [findSpansAux, strSplitAux]
      by_cases hp : sep.isPrefixOf (c :: rest) = true
      · rw [if_pos hp, if_pos hp]
        simp only [cutGo]
        have hsl : 0 < sep.length := List.length_pos_iff.mpr hsep
        have hle : sep.length ≤ rest.length + 1 := by
          have := (List.isPrefixOf_iff_prefix.mp hp).length_le
          simpa using this
        have := ih (pre ++ [c]) (sep.length - 1) (pre.length + sep.length) (by rw [hlen]; omega)
        rw [hlen, ← hl] at this
        rw [this]
        congr 1
        · rw [List.take_left']; rfl
        · congr 1
          exact List.drop_eq_nil_of_le (by rw [hlen]; omega)
      · rw [if_neg hp, if_neg hp]
        have := ih (pre ++ [c]) 0 st (by rw [hlen]; omega)
        rw [hlen, ← hl] at this
        rw [this]
        congr 1
        rw [List.drop_append_of_le_length hst]

theorem C15_split_sep_spec (sep : Text) (hsep : sep ≠ []) (t : Text) :
    cutAt t (findSpans sep t) = strSplit sep t := by
  rw [cutAt_eq_cutGo]
  have := scan sep hsep t [] 0 0 (Or.inl ⟨rfl, Nat.le_refl _⟩)
  simpa [findSpans, strSplit] using this

/-- `f.split(sep)`, explicit separator: an empty separator raises ValueError (as `str.split('')`); otherwise the
    texts of the pieces are `str.split(sep)` of the text, and the pieces are the slices of `f` (characters with their
    own formatting) at the same positions. -/
theorem C15_split_sep (f : FmtStr) (sep : Text) :
    (sep = [] → splitSep f sep = .error .valueError) ∧
    (sep ≠ [] → ∃ ps, splitSep f sep = .ok ps ∧ ps.map text = strSplit sep (text f) ∧
      ps.map cells = cutAt (cells f) (findSpans sep (text f)) ∧
      ps.map text = cutAt (text f) (findSpans sep (text f))) := by
  constructor
  · intro h; simp [splitSep, h]
  · intro hsep
    have h := C15_split_spans f (findSpans sep (text f))
    have he : sep.isEmpty = false := by cases sep with | nil => exact absurd rfl hsep | cons _ _ => rfl
    exact ⟨_, by simp [splitSep, he], by rw [h.2, C15_split_sep_spec sep hsep], h.1, h.2⟩

/-! ### splitlines -/

private theorem linePairs_flatten (isBreak : Char → Bool) (s cur : Text) :
    (linePairs isBreak s cur).flatMap (fun p => p.1 ++ p.2) = cur ++ s := by
  fun_induction linePairs isBreak s cur <;> simp_all

/-- the (start, end) positions `splitlines` slices at -/
def lineSpans (keepends : Bool) : Nat → List (Text × Text) → List (Nat × Nat)
  | _, [] => []
  | start, (l, e) :: rest =>
    (start, start + (if keepends then (l ++ e).length else l.length)) ::
      lineSpans keepends (start + (l ++ e).length) rest

private theorem loop_spans (f : FmtStr) (keep : Bool) (ps : List (Text × Text)) (start : Nat) :
    splitlinesLoop f keep start (ps.map fun p => (p.1 ++ p.2, p.1))
      = (lineSpans keep start ps).map fun p => getslice f p.1 p.2 := by
  induction ps generalizing start with
  | nil => rfl
  | cons p rest ih =>
    obtain ⟨l, e⟩ := p
    simp only [List.map_cons, splitlinesLoop, lineSpans, ih]

private theorem slice_mid (pre x y : List α) :
    ((pre ++ x ++ y).take (pre.length + x.length)).drop pre.length = x := by
  rw [List.take_append_of_le_length (by simp), List.take_of_length_le (by simp)]
  simp

private theorem spans_text (t : Text) (keep : Bool) (ps : List (Text × Text)) (pre post : Text)
    (h : t = pre ++ ps.flatMap (fun p => p.1 ++ p.2) ++ post) :
    (lineSpans keep pre.length ps).map (fun p => (t.take p.2).drop p.1)
      = ps.map fun p => if keep then p.1 ++ p.2 else p.1 := by
  induction ps generalizing pre with
  | nil => rfl
  | cons p rest ih =>
    obtain ⟨l, e⟩ := p
    simp only [lineSpans, List.map_cons, List.flatMap_cons] at h ⊢
    have hrest := ih (pre ++ (l ++ e)) (by rw [h]; simp)
    rw [List.length_append] at hrest
    rw [hrest]
    congr 1
    cases keep with
    | true =>
      simp only [if_true]
      rw [h]
      have := slice_mid pre (l ++ e) (rest.flatMap (fun p => p.1 ++ p.2) ++ post)
      simpa [List.append_assoc] using this
    | false =>
      simp only [Bool.false_eq_true, if_false]
      rw [h]
      have := slice_mid pre l (e ++ rest.flatMap (fun p => p.1 ++ p.2) ++ post)
      simpa [List.append_assoc] using this

/-- `f.splitlines(keepends)`: the texts are `str.splitlines(keepends)` of the text; piece i is the slice of `f` -
    characters with their own formatting - at the position of line i: the explicit spans
    `lineSpans keepends 0 (linePairs isBreak (text f) [])` (start of the line, end of its content or of its line
    ending), which cut the TEXT into exactly the lines of `str.splitlines`. -/
theorem C15_splitlines (isBreak : Char → Bool) (f : FmtStr) (keepends : Bool) :
    (splitlines isBreak f keepends).map text = strSplitlines isBreak keepends (text f) ∧
    (splitlines isBreak f keepends).map cells =
      (lineSpans keepends 0 (linePairs isBreak (text f) [])).map (fun p => ((cells f).take p.2).drop p.1) ∧
    (lineSpans keepends 0 (linePairs isBreak (text f) [])).map (fun p => ((text f).take p.2).drop p.1)
      = strSplitlines isBreak keepends (text f) := by
  have hz : List.zip (strSplitlines isBreak true (text f)) (strSplitlines isBreak false (text f))
      = (linePairs isBreak (text f) []).map fun p => (p.1 ++ p.2, p.1) := by
    simp [strSplitlines, List.zip_map']
  have hloop := loop_spans f keepends (linePairs isBreak (text f) []) 0
  have htext : ∀ spans : List (Nat × Nat),
      (spans.map fun p => getslice f p.1 p.2).map text = spans.map (fun p => ((text f).take p.2).drop p.1) := by
    intro spans; simp [List.map_map, Function.comp_def, getslice_text]
  have hcells : ∀ spans : List (Nat × Nat),
      (spans.map fun p => getslice f p.1 p.2).map cells = spans.map (fun p => ((cells f).take p.2).drop p.1) := by
    intro spans; simp [List.map_map, Function.comp_def, getslice_cells']
  have hsp : (lineSpans keepends 0 (linePairs isBreak (text f) [])).map (fun p => ((text f).take p.2).drop p.1)
      = strSplitlines isBreak keepends (text f) := by
    have := spans_text (text f) keepends (linePairs isBreak (text f) []) [] []
      (by simp [linePairs_flatten])
    simpa [strSplitlines] using this
  unfold splitlines
  rw [hz, hloop]
  exact ⟨by rw [htext, hsp], hcells _, hsp⟩

/-! ### join, ljust, rjust -/

/-- `sep.join(items)` (items already FmtStrs): Python's join on the per-character views (same proof as `C06_join`,
    kept here so that this file does not depend on Properties/C06.lean). -/
theorem C15_join (sep : FmtStr) (items : List FmtStr) :
    cells (join sep items) = pyJoin (cells sep) (items.map cells) := by
  unfold join
  cases items with
  | nil => simp [joinLoop, pyJoin]
  | cons x xs =>
    simp only [joinLoop, List.nil_append]
    induction xs generalizing x with
    | nil => simp [joinLoop, pyJoin]
    | cons y ys ih =>
      have := ih y
      simp only [List.map_cons, cells_append] at this
      simp only [joinLoop, cells_append, List.map_cons, pyJoin, this, List.append_assoc]

/-- `fmtstr(text, **dict)` for the attribute dict of an existing FmtStr (ESC-free text) is
    `FmtStr(Chunk(text, dict))`: `parse_args` returns such a dict unchanged. -/
theorem C15_fmtstrAtts (md : Nat) (t : Text) (a : Atts) (h : hasEscBracket t = false) :
    fmtstrAtts md t a = .ok [⟨t, a⟩] := by
  simp [fmtstrAtts, fromStr, h, fmtstrApply, C14_parse_own_atts, copyWithNewAtts, Atts.extend]

/-- the padding never contains an escape sequence -/
theorem spaces_clean (n : Nat) : hasEscBracket (spaces n) = false := by
  induction n with
  | zero => rfl
  | succ m ih =>
    cases m with
    | zero => rfl
    | succ k =>
      have e : spaces (k + 1 + 1) = ' ' :: ' ' :: spaces k := by simp [spaces, List.replicate_succ]
      have e' : spaces (k + 1) = ' ' :: spaces k := by simp [spaces, List.replicate_succ]
      rw [e, hasEscBracket, ← e', ih]; decide

private theorem le_remove_bg (sh a : Atts) (h : sh.le a) (hb : sh.bg.isSome = false) :
    sh.le (a.remove [.bg]) ∧ (a.remove [.bg]).le a := by
  simp only [Atts.le, Atts.remove, List.foldl, Atts.erase] at *
  simp_all
  exact h

private theorem le_self (a : Atts) : a.le a := by simp [Atts.le]

/-- What `ljust`/`rjust` do to an original character's dict, given the shared dict `sh`. -/
def keepOf (sh a : Atts) : Atts := if sh.bg.isSome then a else a.remove [.bg]
/-- The dict of the padding, given the shared dict `sh`. -/
def padOf (sh : Atts) : Atts := if sh.bg.isSome then { bg := sh.bg } else sh

/-- `f.ljust(width)`, exactly: the characters of `f` in order with `keepOf sh`, then `width - len` spaces with
    `padOf sh`, where `sh = sharedAtts f`. -/
theorem C15_ljust (md : Nat) (f : FmtStr) (w : Int) (r : FmtStr) (h : ljust md f w none = .ok r) :
    ∃ sh, sharedAtts f = .ok sh ∧
      cells r = (cells f).map (fun p => (p.1, keepOf sh p.2)) ++
        (spaces (w - (text f).length).toNat).map (fun ch => (ch, padOf sh)) := by
  unfold ljust at h
  simp only [C15_fmtstrAtts _ _ _ (spaces_clean _)] at h
  cases hs : sharedAtts f with
  | error e => rw [hs] at h; cases h
  | ok sh =>
    rw [hs] at h
    simp only [] at h
    refine ⟨sh, rfl, ?_⟩
    by_cases hb : sh.bg.isSome = true
    · rw [if_pos hb] at h
      simp only [keepOf, padOf, hb, if_true]
      by_cases he : (spaces (w - (text f).length).toNat).isEmpty = true
      · rw [if_pos he] at h; injection h with h
        rw [← h, List.isEmpty_iff.mp he]; simp
      · rw [if_neg he] at h; injection h with h
        rw [← h]; simp [add, Chunk.cells]
    · rw [if_neg hb] at h
      simp only [keepOf, padOf, hb, Bool.false_eq_true, if_false]
      by_cases he : (spaces (w - (text f).length).toNat).isEmpty = true
      · rw [if_pos he] at h; injection h with h
        rw [← h, List.isEmpty_iff.mp he, C14_remove]; simp
      · rw [if_neg he] at h; injection h with h
        rw [← h]; simp [add, Chunk.cells, C14_remove]

/-- `f.rjust(width)`: the same with the padding in front. -/
theorem C15_rjust (md : Nat) (f : FmtStr) (w : Int) (r : FmtStr) (h : rjust md f w none = .ok r) :
    ∃ sh, sharedAtts f = .ok sh ∧
      cells r = (spaces (w - (text f).length).toNat).map (fun ch => (ch, padOf sh)) ++
        (cells f).map (fun p => (p.1, keepOf sh p.2)) := by
  unfold rjust at h
  simp only [C15_fmtstrAtts _ _ _ (spaces_clean _)] at h
  cases hs : sharedAtts f with
  | error e => rw [hs] at h; cases h
  | ok sh =>
    rw [hs] at h
    simp only [] at h
    refine ⟨sh, rfl, ?_⟩
    by_cases hb : sh.bg.isSome = true
    · rw [if_pos hb] at h
      simp only [keepOf, padOf, hb, if_true]
      by_cases he : (spaces (w - (text f).length).toNat).isEmpty = true
      · rw [if_pos he] at h; injection h with h
        rw [← h, List.isEmpty_iff.mp he]; simp
      · rw [if_neg he] at h; injection h with h
        rw [← h]; simp [add, Chunk.cells]
    · rw [if_neg hb] at h
      simp only [keepOf, padOf, hb, Bool.false_eq_true, if_false]
      by_cases he : (spaces (w - (text f).length).toNat).isEmpty = true
      · rw [if_pos he] at h; injection h with h
        rw [← h, List.isEmpty_iff.mp he, C14_remove]; simp
      · rw [if_neg he] at h; injection h with h
        rw [← h]; simp [add, Chunk.cells, C14_remove]

/-- `ljust` / `rjust` without fill character never fail on a FmtStr with at least one run (`FmtStr()` raises
    IndexError in `shared_atts`). -/
theorem C15_just_total (md : Nat) (f : FmtStr) (w : Int) (hne : f ≠ []) :
    (∃ r, ljust md f w none = .ok r) ∧ (∃ r, rjust md f w none = .ok r) := by
  cases f with
  | nil => exact absurd rfl hne
  | cons hd tl =>
    have hs : ∃ sh, sharedAtts (hd :: tl) = .ok sh := ⟨_, rfl⟩
    obtain ⟨sh, hs⟩ := hs
    constructor
    · unfold ljust
      simp only [C15_fmtstrAtts _ _ _ (spaces_clean _), hs]
      split <;> split <;> exact ⟨_, rfl⟩
    · unfold rjust
      simp only [C15_fmtstrAtts _ _ _ (spaces_clean _), hs]
      split <;> split <;> exact ⟨_, rfl⟩

/-- How the exact behaviour relates to the statement's wording: every original character keeps at least the
    shared attributes and shows only attributes it had; the padding shows only shared attributes - ALL of them
    exactly when no bg is shared; with a shared bg the padding carries that bg and nothing else. -/
theorem C15_just_bounds (f : FmtStr) (sh : Atts) (hs : sharedAtts f = .ok sh) :
    (∀ p ∈ cells f, sh.le (keepOf sh p.2) ∧ (keepOf sh p.2).le p.2) ∧ (padOf sh).le sh ∧
    (sh.bg.isSome = false → padOf sh = sh) ∧ (sh.bg.isSome = true → padOf sh = { bg := sh.bg }) := by
  have hsh := C14_shared f sh hs
  refine ⟨fun p hp => ?_, ?_, fun hb => by simp [padOf, hb], fun hb => by simp [padOf, hb]⟩
  · by_cases hb : sh.bg.isSome = true
    · simp only [keepOf, hb, if_true]; exact ⟨hsh p hp, le_self _⟩
    · have hb' : sh.bg.isSome = false := by simpa using hb
      simp only [keepOf, hb', Bool.false_eq_true, if_false]
      exact le_remove_bg sh p.2 (hsh p hp) hb'
  · by_cases hb : sh.bg.isSome = true
    · simp only [padOf, hb, if_true]; simp [Atts.le]
    · simp only [padOf, hb, if_false]; exact le_self _

/-- The text of `ljust` / `rjust` without fill character is `str.ljust` / `str.rjust` of the text. -/
theorem C15_just_text (md : Nat) (f : FmtStr) (w : Int) (r : FmtStr) :
    (ljust md f w none = .ok r → text r = pyLjust (text f) w ' ') ∧
    (rjust md f w none = .ok r → text r = pyRjust (text f) w ' ') := by
  constructor
  · intro h
    obtain ⟨sh, _, hc⟩ := C15_ljust md f w r h
    rw [text_eq_cells, hc, text_eq_cells]
    simp [pyLjust, spaces, List.map_map, Function.comp_def]
  · intro h
    obtain ⟨sh, _, hc⟩ := C15_rjust md f w r h
    rw [text_eq_cells, hc, text_eq_cells]
    simp [pyRjust, spaces, List.map_map, Function.comp_def]

/-- With a fill character (padded text free of `ESC [`): the padded text, every character carrying exactly the
    shared attributes, each of which every character of `f` has. -/
theorem C15_just_fill (md : Nat) (f : FmtStr) (w : Int) (c : Char) (r : FmtStr) :
    (hasEscBracket (pyLjust (text f) w c) = false → ljust md f w (some c) = .ok r → ∃ sh, sharedAtts f = .ok sh ∧
        cells r = (pyLjust (text f) w c).map (fun ch => (ch, sh)) ∧ ∀ p ∈ cells f, sh.le p.2) ∧
    (hasEscBracket (pyRjust (text f) w c) = false → rjust md f w (some c) = .ok r → ∃ sh, sharedAtts f = .ok sh ∧
        cells r = (pyRjust (text f) w c).map (fun ch => (ch, sh)) ∧ ∀ p ∈ cells f, sh.le p.2) := by
  constructor <;> intro hcl h
  · unfold ljust at h
    cases hs : sharedAtts f with
    | error e => rw [hs] at h; cases h
    | ok sh =>
      rw [hs] at h; simp only [C15_fmtstrAtts _ _ _ hcl] at h; injection h with h
      exact ⟨sh, rfl, by rw [← h]; simp [Chunk.cells], C14_shared f sh hs⟩
  · unfold rjust at h
    cases hs : sharedAtts f with
    | error e => rw [hs] at h; cases h
    | ok sh =>
      rw [hs] at h; simp only [C15_fmtstrAtts _ _ _ hcl] at h; injection h with h
      exact ⟨sh, rfl, by rw [← h]; simp [Chunk.cells], C14_shared f sh hs⟩

/-! ### delegation to str -/

private theorem mapM_clean_ok (md : Nat) (sh : Atts) (ts : List Text) (h : ∀ t ∈ ts, hasEscBracket t = false) :
    ts.mapM (fun t => fmtstrAtts md t sh) = .ok (ts.map fun t => [⟨t, sh⟩]) := by
  induction ts with
  | nil => rfl
  | cons t rest ih =>
    have := ih (fun t' ht => h t' (List.mem_cons_of_mem _ ht))
    simp [List.mapM_cons, this, C15_fmtstrAtts md t sh (h t (List.mem_cons_self ..)), bind, Except.bind, pure, Except.pure]

/-- FULL STATEMENT of the delegation clause (text results carry exactly the shared formatting, for EVERY result
    text). -/
def C15_delegate_full_statement : Prop :=
  ∀ (md : Nat) (f : FmtStr) (m : Text → Except PyErr (StrResult Unit)) (t : Text) (sh : Atts),
    m (text f) = .ok (.str t) → sharedAtts f = .ok sh → delegate md f m = .ok (.fmt [⟨t, sh⟩])

/-- `__getattr__` delegation for an uninterpreted str method `m`: exceptions, bytes and other non-text answers
    pass through unchanged; a text answer `t` free of `ESC [` becomes the FmtStr with text `t` whose every character
    carries exactly `sharedAtts f` - and each entry of that is an entry of every character of `f`; a list of texts
    likewise, element by element.
    PARTIAL w.r.t. `C15_delegate_full_statement` (open finding D27): a result text containing `ESC [` is re-parsed by
    `fmtstr` (`C15_delegate_witness`); the hypothesis is the complement of that footprint. -/
theorem C15_delegate_partial {β : Type} (md : Nat) (f : FmtStr) (m : Text → Except PyErr (StrResult β)) :
    (∀ e, m (text f) = .error e → delegate md f m = .error e) ∧
    (∀ b, m (text f) = .ok (.other b) → delegate md f m = .ok (.other b)) ∧
    (∀ bs, m (text f) = .ok (.bytes bs) → delegate md f m = .ok (.bytes bs)) ∧
    (∀ t sh, m (text f) = .ok (.str t) → hasEscBracket t = false → sharedAtts f = .ok sh →
      delegate md f m = .ok (.fmt [⟨t, sh⟩]) ∧ cells [⟨t, sh⟩] = t.map (fun ch => (ch, sh)) ∧
      ∀ p ∈ cells f, sh.le p.2) ∧
    (∀ ts sh, m (text f) = .ok (.list ts) → (∀ t ∈ ts, hasEscBracket t = false) → sharedAtts f = .ok sh →
      delegate md f m = .ok (.fmtList (ts.map fun t => [⟨t, sh⟩])) ∧ ∀ p ∈ cells f, sh.le p.2) := by
  refine ⟨?_, ?_, ?_, ?_, ?_⟩
  · intro e h; simp [delegate, h]
  · intro b h; simp [delegate, h]
  · intro bs h; simp [delegate, h]
  · intro t sh h hcl hs
    exact ⟨by simp [delegate, h, hs, C15_fmtstrAtts md t sh hcl], by simp [Chunk.cells], C14_shared f sh hs⟩
  · intro ts sh h hcl hs
    refine ⟨?_, C14_shared f sh hs⟩
    simp only [delegate, h, hs]
    rw [mapM_clean_ok md sh ts hcl]

/-- WITNESS for D27 (replayed on the real code by the harness): `fmtstr('a').replace('a', '\x1b[31mx\x1b[39m')` -
    the str method returns a text with an escape sequence; the re-wrapped result is the ONE character `x`, red. -/
theorem C15_delegate_witness :
    delegate Generated.intMaxStrDigits [⟨['a'], {}⟩]
        (fun _ => (.ok (.str [Curtsies.ESC, '[', '3', '1', 'm', 'x', Curtsies.ESC, '[', '3', '9', 'm']) :
          Except PyErr (StrResult Unit)))
      = .ok (.fmt [⟨['x'], { fg := some 1 }⟩]) := by
  decide +kernel

/-- The full statement is FALSE for the model (hence the finding D27, not a gap in the proof). -/
theorem C15_delegate_full_statement_false : ¬ C15_delegate_full_statement := by
  intro h
  have := h Generated.intMaxStrDigits [⟨['a'], {}⟩]
    (fun _ => .ok (.str [Curtsies.ESC, '[', '3', '1', 'm', 'x', Curtsies.ESC, '[', '3', '9', 'm'])) _ {} rfl (by decide)
  rw [C15_delegate_witness] at this
  revert this; decide +kernel

/-- `sh` is exactly the formatting shared by all characters of `f`: on every character, and containing every
    dict that is on every character (`C14_shared` + `C14_shared_complete`). -/
def ExactlyShared (f : FmtStr) (sh : Atts) : Prop :=
  (∀ p ∈ cells f, sh.le p.2) ∧ ∀ x : Atts, (∀ p ∈ cells f, x.le p.2) → x.le sh

/-- Sharpened delegation / fill-character statements for a string with at least one character: the formatting of
    the result is EXACTLY the formatting shared by all characters of the original (and the call cannot fail on
    `shared_atts`). -/
theorem C15_delegate_exact {β : Type} (md : Nat) (f : FmtStr) (hch : cells f ≠ [])
    (m : Text → Except PyErr (StrResult β)) :
    ∃ sh, ExactlyShared f sh ∧
      (∀ t, m (text f) = .ok (.str t) → hasEscBracket t = false → delegate md f m = .ok (.fmt [⟨t, sh⟩])) ∧
      (∀ ts, m (text f) = .ok (.list ts) → (∀ t ∈ ts, hasEscBracket t = false) →
        delegate md f m = .ok (.fmtList (ts.map fun t => [⟨t, sh⟩]))) := by
  obtain ⟨sh, hs, h1, h2⟩ := C14_shared_complete f hch
  obtain ⟨_, _, _, d3, d4⟩ := C15_delegate_partial md f m
  exact ⟨sh, ⟨h1, h2⟩, fun t ht hc => (d3 t sh ht hc hs).1, fun ts ht hc => (d4 ts sh ht hc hs).1⟩

theorem C15_just_fill_exact (md : Nat) (f : FmtStr) (hch : cells f ≠ []) (w : Int) (c : Char)
    (hl : hasEscBracket (pyLjust (text f) w c) = false) (hr : hasEscBracket (pyRjust (text f) w c) = false) :
    ∃ sh, ExactlyShared f sh ∧
      ljust md f w (some c) = .ok [⟨pyLjust (text f) w c, sh⟩] ∧
      rjust md f w (some c) = .ok [⟨pyRjust (text f) w c, sh⟩] := by
  obtain ⟨sh, hs, h1, h2⟩ := C14_shared_complete f hch
  exact ⟨sh, ⟨h1, h2⟩, by simp [ljust, hs, C15_fmtstrAtts _ _ _ hl], by simp [rjust, hs, C15_fmtstrAtts _ _ _ hr]⟩

/-- Non-vacuity: `on_blue(underline('ab')).ljust(4)` is padded with non-underlined blue; a red string with a
    plain tail loses nothing it shares; split and splitlines on a two-run string. -/
example : ljust 4300 [⟨['a', 'b'], { bg := some 4, underline := some true }⟩] 4 none
    = .ok [⟨['a', 'b'], { bg := some 4, underline := some true }⟩, ⟨[' ', ' '], { bg := some 4 }⟩] := by decide
example : (splitSpans [⟨['a', ','], { fg := some 1 }⟩, ⟨['b'], {}⟩] (findSpans [','] ['a', ',', 'b'])).map cells
    = [[('a', { fg := some 1 })], [('b', {})]] := by decide
example : (splitlines (fun c => c = '\n') [⟨['a', '\n'], { fg := some 1 }⟩, ⟨['b'], {}⟩] true).map cells
    = [[('a', { fg := some 1 }), ('\n', { fg := some 1 })], [('b', {})]] := by decide

end Curtsies
