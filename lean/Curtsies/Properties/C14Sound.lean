/-
  C14 (continued) - `parse_args` is sound and complete for the declarative reading `denote`
  (Properties/C14.lean), and raises nothing but ValueError.

  Proof outline.  `view kw k` is the dict read at attribute `k`.
  * `posStep_spec`: one iteration of `for arg in args` is "look up what the argument names (`posName`), check the
    slot (`stepOk`), write it" - this is where the regenerated tables enter (`C14_tables`).
  * `posLoop_spec`: the loop on the dict is the loop `absLoop` on views; distinct keys and the set of unknown keys
    are preserved.
  * `absLoop_some/none`: the loop decomposes per attribute (`runK`): slots do not interact.
  * `tail_spec`: key loop, `fg` block, `bg` block and the final read, per attribute (`postC`, `readFlag`).
  * `runK_colour`, `runK_style`: per attribute, pipeline = `resolveColour` / `resolveStyle`.
-/
import Curtsies.Properties.C14
import Curtsies.Proofs.ParseArgs
namespace Curtsies

/-! bridges between the specification's own helpers and the model's -/
theorem specColour_eq (base i : Int) : specColour base i = colourIndex base (.int i) := rfl
theorem afterOn_eq (s : String) : afterOn s = strDrop3 s := rfl
theorem beq_swap (x y : Char) : (x == y) = (y == x) := by
  by_cases h : x = y
  · subst h; rfl
  · have h' : ¬ y = x := fun e => h e.symm
    rw [beq_eq_false_iff_ne.mpr h, beq_eq_false_iff_ne.mpr h']
theorem onPrefix_eq (l : String) : onPrefix l = startsWithOn l := by
  have e : "on_".toList = ['o', 'n', '_'] := by decide
  simp only [onPrefix, startsWithOn, e]
  generalize l.toList = xs
  cases xs with
  | nil => rfl
  | cons a xs =>
    cases xs with
    | nil => simp [List.isPrefixOf]
    | cons b xs =>
      cases xs with
      | nil => simp [List.isPrefixOf]
      | cons c xs =>
        simp only [List.isPrefixOf, List.take, List.take_zero]
        rw [beq_swap 'o' a, beq_swap 'n' b, beq_swap '_' c]
        by_cases h1 : a = 'o' <;> by_cases h2 : b = 'n' <;> by_cases h3 : c = '_' <;> simp [h1, h2, h3]

abbrev G := Key → Option ArgVal
def view (kw : Kw) : G := fun k => kw.get? k.name
def G.upd (g : G) (j : Key) (v : ArgVal) : G := fun k => if k = j then some v else g k

theorem name_inj (a b : Key) : a.name = b.name ↔ a = b := by cases a <;> cases b <;> decide
theorem name_ne_style (k : Key) : k.name ≠ "style" := by cases k <;> decide

theorem view_set (kw : Kw) (j : Key) (v : ArgVal) : view (kw.set j.name v) = (view kw).upd j v := by
  funext k
  simp only [view, G.upd, Kw.get?_set, name_inj]

def newVal : Key → Option (Fin 8) → ArgVal
  | .bg, some c => .int ((40 + c.val : Nat) : Int)
  | _, some c => .int ((30 + c.val : Nat) : Int)
  | _, none => .bool true
def stepOk (cur : Option ArgVal) : Option (Fin 8) → Bool
  | some _ => cur.isNone
  | none => decide (cur.getD (.bool true) = .bool true)

theorem C14S_lookup_mem {β : Type} (l : List (String × β)) (k : String) (v : β) (h : l.lookup k = some v) : (k, v) ∈ l := by
  induction l with
  | nil => simp at h
  | cons p rest ih =>
    obtain ⟨a, b⟩ := p
    rw [List.lookup_cons] at h
    by_cases e : (k == a) = true
    · rw [e] at h; simp at h; simp at e; subst e; subst h; exact List.mem_cons_self ..
    · have : (k == a) = false := by simpa using e
      rw [this] at h; exact List.mem_cons_of_mem _ (ih h)

theorem lookup_isSome {β : Type} (l : List (String × β)) (k : String) :
    (l.lookup k).isSome = (l.map Prod.fst).contains k := by
  induction l with
  | nil => rfl
  | cons p rest ih =>
    obtain ⟨a, b⟩ := p
    rw [List.lookup_cons, List.map_cons, List.contains_cons]
    by_cases e : (k == a) = true
    · rw [e]; simp
    · have : (k == a) = false := by simpa using e
      rw [this, ← ih]; simp

theorem fg_codes : ∀ p ∈ Generated.fgColors, (colourIndex 30 (.int (p.2 : Nat))).map (fun c => 30 + c.val) = some p.2 := by
  decide +kernel
theorem bg_codes : ∀ p ∈ Generated.bgColors, (colourIndex 40 (.int (p.2 : Nat))).map (fun c => 40 + c.val) = some p.2 := by
  decide +kernel
theorem style_names_ok : ∀ p ∈ styleNames, p.1 = p.2.name ∧ p.2 ≠ .fg ∧ p.2 ≠ .bg := by decide
theorem style_keys_eq : styleTable.map Prod.fst = styleNames.map Prod.fst := by decide

theorem fg_lookup (l : String) (code : Nat) (h : Generated.fgColors.lookup l = some code) :
    ∃ c, colourIndex 30 (.int code) = some c ∧ 30 + c.val = code := by
  have := fg_codes _ (C14S_lookup_mem _ _ _ h)
  simp only at this
  cases hc : colourIndex 30 (.int (code : Nat)) with
  | none => rw [hc] at this; simp at this
  | some c => rw [hc] at this; simp at this; exact ⟨c, rfl, this⟩
theorem bg_lookup (l : String) (code : Nat) (h : Generated.bgColors.lookup l = some code) :
    ∃ c, colourIndex 40 (.int code) = some c ∧ 40 + c.val = code := by
  have := bg_codes _ (C14S_lookup_mem _ _ _ h)
  simp only at this
  cases hc : colourIndex 40 (.int (code : Nat)) with
  | none => rw [hc] at this; simp at this
  | some c => rw [hc] at this; simp at this; exact ⟨c, rfl, this⟩

theorem isStyleName_eq (l : String) : isStyleName l = (styleNames.lookup l).isSome := by
  unfold isStyleName
  rw [C14_tables.2.2.2.2.2, lookup_isSome, lookup_isSome, style_keys_eq]

theorem newVal_none (k : Key) : newVal k none = .bool true := by cases k <;> rfl

theorem style_tail (kw : Kw) (l : String) :
    (if isStyleName l = true then
      (if (kw.get? l).getD (.bool true) ≠ .bool true then (Except.error PyErr.valueError : Except PyErr Kw)
       else .ok (kw.set l (.bool true)))
     else .error .valueError)
    = match (styleNames.lookup l).map (fun k => (k, (none : Option (Fin 8)))) with
      | none => .error .valueError
      | some (j, oc) => if stepOk (view kw j) oc then .ok (kw.set j.name (newVal j oc)) else .error .valueError := by
  rw [isStyleName_eq]
  cases h : styleNames.lookup l with
  | none => simp
  | some k =>
    have := (style_names_ok _ (C14S_lookup_mem _ _ _ h)).1
    simp only at this
    subst this
    simp only [Option.isSome_some, if_true, Option.map_some, stepOk, view, newVal_none]
    by_cases e : (kw.get? k.name).getD (.bool true) = .bool true <;> simp [e]

theorem posStep_spec (lower : String → String) (kw : Kw) (arg : ArgVal) :
    posStep lower kw arg = match posName lower arg with
      | none => .error .valueError
      | some (j, oc) => if stepOk (view kw j) oc then .ok (kw.set j.name (newVal j oc)) else .error .valueError := by
  cases arg with
  | str s =>
    simp only [posStep, posName, colourOfName, specColour_eq, onPrefix_eq, afterOn_eq]
    cases h1 : Generated.fgColors.lookup (lower s) with
    | some code =>
      obtain ⟨c, hc, hcode⟩ := fg_lookup _ _ h1
      simp only [Option.bind_some, hc, stepOk, view, Key.name, newVal, Kw.has_eq, hcode]
      cases kw.get? "fg" <;> simp
    | none =>
      simp only [Option.bind_none]
      by_cases hon : startsWithOn (lower s) = true
      · simp only [hon, if_true]
        cases h2 : Generated.bgColors.lookup (lower (strDrop3 s)) with
        | some code =>
          obtain ⟨c, hc, hcode⟩ := bg_lookup _ _ h2
          simp only [Option.bind_some, hc, stepOk, view, Key.name, newVal, Kw.has_eq, hcode]
          cases kw.get? "bg" <;> simp
        | none =>
          simp only [Option.bind_none]
          exact style_tail kw (lower s)
      · simp only [hon, if_false]
        exact style_tail kw (lower s)
  | _ => rfl

abbrev Named := List (Key × Option (Fin 8))
def absLoop : G → Named → Option G
  | g, [] => some g
  | g, (j, oc) :: rest => if stepOk (g j) oc then absLoop (g.upd j (newVal j oc)) rest else none

def runK (k : Key) : Option ArgVal → List (Option (Fin 8)) → Option (Option ArgVal)
  | cur, [] => some cur
  | cur, oc :: rest => if stepOk cur oc then runK k (some (newVal k oc)) rest else none
def ents (named : Named) (k : Key) : List (Option (Fin 8)) :=
  named.filterMap fun p => if p.1 = k then some p.2 else none

theorem ents_cons (j : Key) (oc : Option (Fin 8)) (rest : Named) (k : Key) :
    ents ((j, oc) :: rest) k = if j = k then oc :: ents rest k else ents rest k := by
  simp only [ents, List.filterMap_cons]
  by_cases h : j = k <;> simp [h]

theorem absLoop_some (named : Named) : ∀ (g g' : G), absLoop g named = some g' →
    ∀ k, runK k (g k) (ents named k) = some (g' k) := by
  induction named with
  | nil => intro g g' h k; simp [absLoop] at h; subst h; rfl
  | cons e rest ih =>
    obtain ⟨j, oc⟩ := e
    intro g g' h k
    simp only [absLoop] at h
    by_cases hs : stepOk (g j) oc = true
    · rw [if_pos hs] at h
      have := ih _ _ h k
      rw [ents_cons]
      by_cases e : j = k
      · subst e; simp only [if_true, runK, hs]
        simpa [G.upd] using this
      · have e' : ¬ k = j := fun h => e h.symm
        simpa [e, G.upd, e'] using this
    · rw [if_neg hs] at h; cases h

theorem absLoop_none (named : Named) : ∀ (g : G), absLoop g named = none →
    ∃ k, runK k (g k) (ents named k) = none := by
  induction named with
  | nil => intro g h; simp [absLoop] at h
  | cons e rest ih =>
    obtain ⟨j, oc⟩ := e
    intro g h
    simp only [absLoop] at h
    by_cases hs : stepOk (g j) oc = true
    · rw [if_pos hs] at h
      obtain ⟨k, hk⟩ := ih _ h
      refine ⟨k, ?_⟩
      rw [ents_cons]
      by_cases e : j = k
      · subst e; simp only [if_true, runK, hs]
        simpa [G.upd] using hk
      · have e' : ¬ k = j := fun h => e h.symm
        simpa [e, G.upd, e'] using hk
    · exact ⟨j, by rw [ents_cons]; simp [runK, hs]⟩

theorem mapM_cons_opt {α β : Type} (f : α → Option β) (a : α) (as : List α) :
    (a :: as).mapM f = (f a).bind fun b => (as.mapM f).bind fun bs => some (b :: bs) := by
  simp [List.mapM_cons, bind, pure]

theorem keys_all_set (kw : Kw) (k : String) (v : ArgVal) (P : String → Bool) (hP : P k = true) :
    (keysOf (kw.set k v)).all P = (keysOf kw).all P := by
  rw [keys_set]
  by_cases hh : kw.has k = true <;> simp [hh, hP]

theorem posLoop_none (lower : String → String) (args : List ArgVal) : ∀ (kw : Kw),
    args.mapM (posName lower) = none → posLoop lower kw args = .error .valueError := by
  induction args with
  | nil => intro kw h; simp at h
  | cons a rest ih =>
    intro kw h
    rw [mapM_cons_opt] at h
    simp only [posLoop, posStep_spec]
    cases hn : posName lower a with
    | none => rfl
    | some e =>
      obtain ⟨j, oc⟩ := e
      rw [hn] at h
      simp only [Option.bind_some] at h
      by_cases hs : stepOk (view kw j) oc = true
      · simp only [hs, if_true]
        apply ih
        cases hr : rest.mapM (posName lower) with
        | none => rfl
        | some x => rw [hr] at h; simp at h
      · simp [hs]

theorem posLoop_spec (lower : String → String) (args : List ArgVal) : ∀ (kw : Kw) (named : Named),
    args.mapM (posName lower) = some named →
    (absLoop (view kw) named = none → posLoop lower kw args = .error .valueError) ∧
    (∀ g', absLoop (view kw) named = some g' → ∃ kw1, posLoop lower kw args = .ok kw1 ∧ view kw1 = g' ∧
      ((keysOf kw).Nodup → (keysOf kw1).Nodup) ∧
      (∀ P : String → Bool, (∀ k : Key, P k.name = true) → (keysOf kw1).all P = (keysOf kw).all P)) := by
  induction args with
  | nil =>
    intro kw named h
    simp at h; subst h
    exact ⟨by simp [absLoop], fun g' hg => ⟨kw, rfl, by simpa [absLoop] using hg, id, fun _ _ => rfl⟩⟩
  | cons a rest ih =>
    intro kw named h
    rw [mapM_cons_opt] at h
    cases hn : posName lower a with
    | none => rw [hn] at h; simp at h
    | some e =>
      obtain ⟨j, oc⟩ := e
      rw [hn] at h
      simp only [Option.bind_some] at h
      cases hr : rest.mapM (posName lower) with
      | none => rw [hr] at h; simp at h
      | some nr =>
        rw [hr] at h; simp at h; subst h
        simp only [posLoop, posStep_spec, hn, absLoop]
        by_cases hs : stepOk (view kw j) oc = true
        · simp only [hs, if_true]
          obtain ⟨i1, i2⟩ := ih (kw.set j.name (newVal j oc)) nr hr
          rw [view_set] at i1 i2
          refine ⟨i1, fun g' hg => ?_⟩
          obtain ⟨kw1, h1, h2, h3, h4⟩ := i2 g' hg
          exact ⟨kw1, h1, h2, fun hnd => h3 (nodup_set _ _ _ hnd),
            fun P hP => by rw [h4 P hP, keys_all_set _ _ _ _ (hP j)]⟩
        · simp [hs]
theorem known_iff (k : String) : isKnownKey k = true ↔ ∃ j : Key, j.name = k := by
  constructor
  · intro h
    simp only [isKnownKey, List.any_eq_true, beq_iff_eq] at h
    obtain ⟨j, _, hj⟩ := h
    exact ⟨j, hj⟩
  · rintro ⟨j, rfl⟩; cases j <;> decide

theorem styleName_iff (k : String) : isStyleName k = true ↔ ∃ j : Key, j.name = k ∧ j ≠ .fg ∧ j ≠ .bg := by
  constructor
  · intro h
    unfold isStyleName at h
    rw [C14_tables.2.2.2.2.2] at h
    cases hl : styleTable.lookup k with
    | none => rw [hl] at h; simp at h
    | some n =>
      have := C14S_lookup_mem _ _ _ hl
      simp only [styleTable, List.mem_cons, Prod.mk.injEq, List.mem_nil_iff, or_false] at this
      rcases this with ⟨rfl, _⟩ | ⟨rfl, _⟩ | ⟨rfl, _⟩ | ⟨rfl, _⟩ | ⟨rfl, _⟩ | ⟨rfl, _⟩
      · exact ⟨.bold, by decide⟩
      · exact ⟨.dark, by decide⟩
      · exact ⟨.italic, by decide⟩
      · exact ⟨.underline, by decide⟩
      · exact ⟨.blink, by decide⟩
      · exact ⟨.invert, by decide⟩
  · rintro ⟨j, rfl, h1, h2⟩
    cases j <;> first | (exact absurd rfl h1) | (exact absurd rfl h2) | decide +kernel

theorem keyPass_iff (k : String) : (k == "fg" || k == "bg" || isStyleName k) = true ↔ isKnownKey k = true := by
  rw [known_iff]
  simp only [Bool.or_eq_true, beq_iff_eq, styleName_iff]
  constructor
  · rintro ((rfl | rfl) | ⟨j, h, _⟩)
    · exact ⟨.fg, rfl⟩
    · exact ⟨.bg, rfl⟩
    · exact ⟨j, h⟩
  · rintro ⟨j, rfl⟩
    cases j
    case fg => exact Or.inl (Or.inl rfl)
    case bg => exact Or.inl (Or.inr rfl)
    all_goals exact Or.inr ⟨_, rfl, by decide, by decide⟩

theorem attKeys_iff (k : String) : attKeys.contains k = true ↔ isKnownKey k = true := by
  rw [known_iff]
  constructor
  · intro h
    simp only [attKeys, List.contains_cons, List.contains_nil, Bool.or_false, Bool.or_eq_true, beq_iff_eq] at h
    rcases h with rfl | rfl | rfl | rfl | rfl | rfl | rfl | rfl
    · exact ⟨.bg, rfl⟩
    · exact ⟨.blink, rfl⟩
    · exact ⟨.bold, rfl⟩
    · exact ⟨.dark, rfl⟩
    · exact ⟨.fg, rfl⟩
    · exact ⟨.invert, rfl⟩
    · exact ⟨.italic, rfl⟩
    · exact ⟨.underline, rfl⟩
  · rintro ⟨j, rfl⟩; cases j <;> decide

theorem colourIndex_base (base : Int) (c : Fin 8) : colourIndex base (.int (base + c.val)) = some c := by
  have : base ≤ base + ↑c.val ∧ base + ↑c.val < base + 8 := by omega
  simp only [colourIndex]
  rw [dif_pos this]
  congr 1
  apply Fin.ext
  simp only []
  omega

theorem keyLoop_ok_iff (kw : Kw) : keyLoop kw = .ok () ↔
    ∀ p ∈ kw, isKnownKey p.1 = true ∧ (isStyleName p.1 = true → p.2.isBool = true) := by
  induction kw with
  | nil => simp [keyLoop]
  | cons p rest ih =>
    obtain ⟨k, v⟩ := p
    simp only [keyLoop, List.mem_cons, forall_eq_or_imp]
    have hk : isKnownKey k = (k == "fg" || k == "bg" || isStyleName k) := by
      rw [Bool.eq_iff_iff]; exact (keyPass_iff k).symm
    rw [hk, ← ih]
    generalize (k == "fg" || k == "bg") = A
    generalize isStyleName k = S
    generalize v.isBool = B
    cases A <;> cases S <;> cases B <;> simp

theorem colourIndex_int_some (base i : Int) (c : Fin 8) (h : colourIndex base (.int i) = some c) : i = base + c.val := by
  simp only [colourIndex] at h
  split at h
  · injection h with h; rw [← h]; simp only []; omega
  · cases h

theorem colourBlock_spec (table : List (String × Nat)) (base : Int) (key : String)
    (H1 : ∀ l code, table.lookup l = some code → ∃ c, colourIndex base (.int (code : Nat)) = some c)
    (H2 : ∀ i : Int, table.any (fun p => (p.2 : Int) == i) = (colourIndex base (.int i)).isSome)
    (H3 : ∀ b : Bool, table.any (fun p => p.2 == b.toNat) = false) (kw : Kw) :
    match kw.get? key with
    | none => colourBlock table key kw = .ok kw
    | some v => match kwColour table base v with
      | none => colourBlock table key kw = .error .valueError
      | some c => ∃ kw', colourBlock table key kw = .ok kw' ∧
          (∀ k', kw'.get? k' = if k' = key then some (.int (base + c.val)) else kw.get? k') ∧
          keysOf kw' = keysOf kw := by
  unfold colourBlock
  cases hg : kw.get? key with
  | none => rfl
  | some v =>
    cases v with
    | int i =>
      simp only [kwColour, specColour_eq, H2]
      cases hc : colourIndex base (.int i) with
      | none => simp
      | some c =>
        have hi := colourIndex_int_some _ _ _ hc
        refine ⟨kw, by simp, fun k' => ?_, rfl⟩
        by_cases e : k' = key
        · rw [if_pos e, e, hg, hi]
        · rw [if_neg e]
    | str s =>
      simp only [kwColour, colourOfName, specColour_eq]
      cases hl : table.lookup s with
      | none => simp
      | some code =>
        obtain ⟨c, hc⟩ := H1 _ _ hl
        have hi := colourIndex_int_some _ _ _ hc
        simp only [Option.bind_some, hc, H2, Option.isSome_some, if_true]
        refine ⟨_, rfl, fun k' => ?_, ?_⟩
        · rw [Kw.get?_set, hi]
        · rw [keys_set, Kw.has_eq, hg]; rfl
    | bool b => simp [kwColour, H3]
    | none => simp [kwColour]
    | float => simp [kwColour]
    | other => simp [kwColour]

theorem fg_H1 : ∀ l code, Generated.fgColors.lookup l = some code → ∃ c, colourIndex 30 (.int (code : Nat)) = some c := by
  intro l code h
  have : ∀ p ∈ Generated.fgColors, (colourIndex 30 (.int (p.2 : Nat))).isSome = true := by decide +kernel
  have := this _ (C14S_lookup_mem _ _ _ h)
  exact Option.isSome_iff_exists.mp this
theorem bg_H1 : ∀ l code, Generated.bgColors.lookup l = some code → ∃ c, colourIndex 40 (.int (code : Nat)) = some c := by
  intro l code h
  have : ∀ p ∈ Generated.bgColors, (colourIndex 40 (.int (p.2 : Nat))).isSome = true := by decide +kernel
  have := this _ (C14S_lookup_mem _ _ _ h)
  exact Option.isSome_iff_exists.mp this
theorem any_code_iff (table : List (String × Nat)) (base : Nat)
    (hr : ∀ p ∈ table, base ≤ p.2 ∧ p.2 < base + 8)
    (hc : ∀ i : Fin 8, table.any (fun p => p.2 == base + i.val) = true) (i : Int) :
    table.any (fun p => (p.2 : Int) == i) = (colourIndex base (.int i)).isSome := by
  rw [Bool.eq_iff_iff, List.any_eq_true]
  simp only [colourIndex, beq_iff_eq]
  constructor
  · rintro ⟨p, hp, rfl⟩
    obtain ⟨h1, h2⟩ := hr p hp
    have : (base : Int) ≤ (p.2 : Int) ∧ (p.2 : Int) < (base : Int) + 8 := by omega
    rw [dif_pos this]; rfl
  · intro h
    by_cases hh : (base : Int) ≤ i ∧ i < (base : Int) + 8
    · have hk : (i - base).toNat < 8 := by omega
      have := hc ⟨(i - base).toNat, hk⟩
      rw [List.any_eq_true] at this
      obtain ⟨p, hp, he⟩ := this
      simp only [beq_iff_eq] at he
      exact ⟨p, hp, by omega⟩
    · rw [dif_neg hh] at h; cases h

theorem fg_H2 : ∀ i : Int, Generated.fgColors.any (fun p => (p.2 : Int) == i) = (colourIndex 30 (.int i)).isSome :=
  any_code_iff Generated.fgColors 30 C14_tables.1 C14_tables.2.1
theorem bg_H2 : ∀ i : Int, Generated.bgColors.any (fun p => (p.2 : Int) == i) = (colourIndex 40 (.int i)).isSome :=
  any_code_iff Generated.bgColors 40 C14_tables.2.2.1 C14_tables.2.2.2.1

theorem no_bool_code (table : List (String × Nat)) (base : Nat) (hb : 2 ≤ base)
    (hr : ∀ p ∈ table, base ≤ p.2 ∧ p.2 < base + 8) (b : Bool) : table.any (fun p => p.2 == b.toNat) = false := by
  rw [Bool.eq_false_iff]
  intro h
  rw [List.any_eq_true] at h
  obtain ⟨p, hp, he⟩ := h
  simp only [beq_iff_eq] at he
  have := (hr p hp).1
  cases b <;> simp at he <;> omega
theorem fg_H3 : ∀ b : Bool, Generated.fgColors.any (fun p => p.2 == b.toNat) = false :=
  no_bool_code _ 30 (by decide) C14_tables.1
theorem bg_H3 : ∀ b : Bool, Generated.bgColors.any (fun p => p.2 == b.toNat) = false :=
  no_bool_code _ 40 (by decide) C14_tables.2.2.1


/-! ### the tail of parse_args in terms of the per-key view -/

def postC (table : List (String × Nat)) (base : Int) : Option ArgVal → Option (Option (Fin 8))
  | none => some none
  | some v => (kwColour table base v).map some

def assemble (bg : Option (Option (Fin 8))) (blink bold dark : Option (Option Bool)) (fg : Option (Option (Fin 8)))
    (invert italic underline : Option (Option Bool)) : Option Atts := do
  let bg ← bg
  let blink ← blink
  let bold ← bold
  let dark ← dark
  let fg ← fg
  let invert ← invert
  let italic ← italic
  let underline ← underline
  pure { bg, blink, bold, dark, fg, invert, italic, underline }

theorem assemble_none (a1 : Option (Option (Fin 8))) (a2 a3 a4 : Option (Option Bool)) (a5 : Option (Option (Fin 8)))
    (a6 a7 a8 : Option (Option Bool))
    (h : a1 = none ∨ a2 = none ∨ a3 = none ∨ a4 = none ∨ a5 = none ∨ a6 = none ∨ a7 = none ∨ a8 = none) :
    assemble a1 a2 a3 a4 a5 a6 a7 a8 = none := by
  cases a1 <;> try rfl
  cases a2 <;> try rfl
  cases a3 <;> try rfl
  cases a4 <;> try rfl
  cases a5 <;> try rfl
  cases a6 <;> try rfl
  cases a7 <;> try rfl
  cases a8 <;> try rfl
  simp at h

theorem all_known_iff (kw : Kw) : (keysOf kw).all isKnownKey = true ↔ ∀ p ∈ kw, isKnownKey p.1 = true := by
  simp [keysOf, List.all_eq_true]

theorem block_result (table : List (String × Nat)) (base : Int) (key : String)
    (H1 : ∀ l code, table.lookup l = some code → ∃ c, colourIndex base (.int (code : Nat)) = some c)
    (H2 : ∀ i : Int, table.any (fun p => (p.2 : Int) == i) = (colourIndex base (.int i)).isSome)
    (H3 : ∀ b : Bool, table.any (fun p => p.2 == b.toNat) = false) (kw : Kw) :
    (postC table base (kw.get? key) = none ∧ colourBlock table key kw = .error .valueError) ∨
    ∃ kw' r, postC table base (kw.get? key) = some r ∧ colourBlock table key kw = .ok kw' ∧
      readColour base (kw'.get? key) = some r ∧ (∀ k', k' ≠ key → kw'.get? k' = kw.get? k') ∧
      keysOf kw' = keysOf kw := by
  have := colourBlock_spec table base key H1 H2 H3 kw
  cases hg : kw.get? key with
  | none =>
    rw [hg] at this
    exact Or.inr ⟨kw, none, rfl, this, by rw [hg]; rfl, fun _ _ => rfl, rfl⟩
  | some v =>
    rw [hg] at this
    simp only at this
    cases hc : kwColour table base v with
    | none => rw [hc] at this; exact Or.inl ⟨by simp [postC, hc], this⟩
    | some c =>
      rw [hc] at this
      obtain ⟨kw', h1, h2, h3⟩ := this
      refine Or.inr ⟨kw', some c, by simp [postC, hc], h1, ?_, fun k' hk => by rw [h2, if_neg hk], h3⟩
      rw [h2, if_pos rfl]
      simp [readColour, colourIndex_base]

theorem flagOf_isBool (v : ArgVal) : (flagOf v).isSome = v.isBool := by cases v <;> rfl

theorem tail_spec (kw : Kw) (hnd : (keysOf kw).Nodup) :
    parseTail kw = if (keysOf kw).all isKnownKey = true then
      (match assemble (postC Generated.bgColors 40 (view kw .bg)) (readFlag (view kw .blink)) (readFlag (view kw .bold))
          (readFlag (view kw .dark)) (postC Generated.fgColors 30 (view kw .fg)) (readFlag (view kw .invert))
          (readFlag (view kw .italic)) (readFlag (view kw .underline)) with
        | some a => .ok a
        | none => .error .valueError)
    else .error .valueError := by
  by_cases hk : (keysOf kw).all isKnownKey = true
  · rw [if_pos hk]
    have hkn := (all_known_iff kw).mp hk
    by_cases hst : ∀ p ∈ kw, isStyleName p.1 = true → p.2.isBool = true
    · have hkl : keyLoop kw = .ok () := (keyLoop_ok_iff kw).mpr fun p hp => ⟨hkn p hp, hst p hp⟩
      -- every style reads as a flag
      have hflag : ∀ j : Key, j ≠ .fg → j ≠ .bg → ∃ r, readFlag (view kw j) = some r := by
        intro j h1 h2
        cases hv : view kw j with
        | none => exact ⟨none, rfl⟩
        | some v =>
          have hm : (j.name, v) ∈ kw := (mem_iff_get? kw hnd _ _).mpr hv
          have hb := hst _ hm ((styleName_iff _).mpr ⟨j, rfl, h1, h2⟩)
          simp only at hb
          cases v <;> simp [ArgVal.isBool] at hb
          exact ⟨_, rfl⟩
      simp only [parseTail, hkl]
      rcases block_result Generated.fgColors 30 "fg" fg_H1 fg_H2 fg_H3 kw with ⟨hp, he⟩ | ⟨kw2, rfg, hp, he, hr, hsame, hkeys⟩
      · rw [he]
        have : postC Generated.fgColors 30 (view kw .fg) = none := hp
        rw [assemble_none _ _ _ _ _ _ _ _ (by simp [this])]
      · rw [he]
        simp only
        rcases block_result Generated.bgColors 40 "bg" bg_H1 bg_H2 bg_H3 kw2 with ⟨hp2, he2⟩ | ⟨kw3, rbg, hp2, he2, hr2, hsame2, hkeys2⟩
        · rw [he2]
          have : postC Generated.bgColors 40 (view kw .bg) = none := by
            rw [← hp2, hsame "bg" (by decide)]; rfl
          rw [assemble_none _ _ _ _ _ _ _ _ (by simp [this])]
        · rw [he2]
          simp only
          have hbg : postC Generated.bgColors 40 (view kw .bg) = some rbg := by
            rw [← hp2, hsame "bg" (by decide)]; rfl
          have hfg : postC Generated.fgColors 30 (view kw .fg) = some rfg := hp
          have hall : kw3.all (fun p => attKeys.contains p.1) = true := by
            rw [List.all_eq_true]
            intro p hp3
            rw [attKeys_iff]
            have : p.1 ∈ keysOf kw3 := List.mem_map.mpr ⟨p, hp3, rfl⟩
            rw [hkeys2, hkeys] at this
            obtain ⟨q, hq, hq1⟩ := List.mem_map.mp this
            rw [← hq1]; exact hkn q hq
          have g3 : ∀ j : Key, j ≠ .fg → j ≠ .bg → kw3.get? j.name = view kw j := by
            intro j h1 h2
            rw [hsame2 _ (by intro e; exact h2 ((name_inj j .bg).mp e)), hsame _ (by intro e; exact h1 ((name_inj j .fg).mp e))]
            rfl
          have g3fg : readColour 30 (kw3.get? "fg") = some rfg := by rw [hsame2 "fg" (by decide)]; exact hr
          obtain ⟨r1, e1⟩ := hflag .blink (by decide) (by decide)
          obtain ⟨r2, e2⟩ := hflag .bold (by decide) (by decide)
          obtain ⟨r3, e3⟩ := hflag .dark (by decide) (by decide)
          obtain ⟨r4, e4⟩ := hflag .invert (by decide) (by decide)
          obtain ⟨r5, e5⟩ := hflag .italic (by decide) (by decide)
          obtain ⟨r6, e6⟩ := hflag .underline (by decide) (by decide)
          have t1 := g3 .blink (by decide) (by decide)
          have t2 := g3 .bold (by decide) (by decide)
          have t3 := g3 .dark (by decide) (by decide)
          have t4 := g3 .invert (by decide) (by decide)
          have t5 := g3 .italic (by decide) (by decide)
          have t6 := g3 .underline (by decide) (by decide)
          simp only [Key.name] at t1 t2 t3 t4 t5 t6
          simp only [toAtts, hall, if_true, hr2, g3fg, t1, t2, t3, t4, t5, t6, e1, e2, e3, e4, e5, e6, hbg, hfg, assemble]
          rfl
    · have hkl : keyLoop kw ≠ .ok () := fun h => hst fun p hp => ((keyLoop_ok_iff kw).mp h p hp).2
      have hL : parseTail kw = .error .valueError := by
        cases h : keyLoop kw with
        | ok u => exact absurd h hkl
        | error e => simp only [parseTail, h]; rw [keyLoop_err kw e h]
      rw [hL]
      -- some style key carries a non-bool
      have : ∃ p ∈ kw, isStyleName p.1 = true ∧ p.2.isBool = false := by
        apply Classical.byContradiction
        intro hne
        apply hst
        intro p hp hs
        cases hb : p.2.isBool with
        | true => rfl
        | false => exact absurd ⟨p, hp, hs, hb⟩ hne
      obtain ⟨p, hp, hs, hb⟩ := this
      obtain ⟨j, hj, h1, h2⟩ := (styleName_iff _).mp hs
      have hv : view kw j = some p.2 := by
        have : (j.name, p.2) ∈ kw := by rw [hj]; exact hp
        exact (mem_iff_get? kw hnd _ _).mp this
      have hr : readFlag (view kw j) = none := by
        rw [hv]; simp only [readFlag]
        have := flagOf_isBool p.2
        rw [hb] at this
        cases hf : flagOf p.2 with
        | none => rfl
        | some _ => rw [hf] at this; simp at this
      rw [assemble_none _ _ _ _ _ _ _ _ (by cases j <;> simp_all)]
  · rw [if_neg hk]
    cases h : keyLoop kw with
    | ok u =>
      exfalso; apply hk
      exact (all_known_iff kw).mpr fun p hp => ((keyLoop_ok_iff kw).mp h p hp).1
    | error e => simp only [parseTail, h]; rw [keyLoop_err kw e h]

/-! ### per-key: the threaded dict against the declarative reading -/

def colsOf (named : Named) (k : Key) : List (Fin 8) := named.filterMap fun p => if p.1 = k then p.2 else none
def hasOf (named : Named) (k : Key) : Bool := named.any fun p => p.1 = k

def WF (named : Named) : Prop := ∀ p ∈ named, (p.2.isSome = true ↔ (p.1 = .fg ∨ p.1 = .bg))

theorem posName_wf (lower : String → String) (a : ArgVal) (j : Key) (oc : Option (Fin 8))
    (h : posName lower a = some (j, oc)) : (oc.isSome = true ↔ (j = .fg ∨ j = .bg)) := by
  cases a with
  | str s =>
    simp only [posName] at h
    split at h
    · injection h with h; injection h with h1 h2; subst h1; subst h2; simp
    · split at h
      · injection h with h; injection h with h1 h2; subst h1; subst h2; simp
      · cases hl : styleNames.lookup (lower s) with
        | none => rw [hl] at h; simp at h
        | some k =>
          rw [hl] at h; simp at h
          obtain ⟨h1, h2⟩ := h
          subst h1; subst h2
          have := (style_names_ok _ (C14S_lookup_mem _ _ _ hl)).2
          simp only at this
          simp [this.1, this.2]
  | _ => simp [posName] at h

theorem mapM_wf (lower : String → String) (args : List ArgVal) : ∀ named,
    args.mapM (posName lower) = some named → WF named := by
  induction args with
  | nil => intro named h; simp at h; subst h; intro p hp; cases hp
  | cons a rest ih =>
    intro named h
    rw [mapM_cons_opt] at h
    cases hn : posName lower a with
    | none => rw [hn] at h; simp at h
    | some e =>
      rw [hn] at h
      cases hr : rest.mapM (posName lower) with
      | none => rw [hr] at h; simp at h
      | some nr =>
        rw [hr] at h; simp at h; subst h
        intro p hp
        rcases List.mem_cons.mp hp with rfl | hp
        · exact posName_wf lower a p.1 p.2 hn
        · exact ih nr hr p hp

theorem ents_colour (named : Named) (hwf : WF named) (k : Key) (hk : k = .fg ∨ k = .bg) :
    ents named k = (colsOf named k).map some := by
  induction named with
  | nil => rfl
  | cons p rest ih =>
    obtain ⟨j, oc⟩ := p
    have ih := ih (fun q hq => hwf q (List.mem_cons_of_mem _ hq))
    rw [ents_cons]
    simp only [colsOf, List.filterMap_cons] at ih ⊢
    by_cases e : j = k
    · subst e
      have := (hwf (j, oc) (List.mem_cons_self ..)).mpr hk
      simp only at this
      cases oc with
      | none => simp at this
      | some c => simp [ih]
    · simp [e, ih]

theorem ents_style (named : Named) (hwf : WF named) (k : Key) (h1 : k ≠ .fg) (h2 : k ≠ .bg) :
    ents named k = List.replicate (ents named k).length none ∧ hasOf named k = decide ((ents named k).length > 0) := by
  induction named with
  | nil => exact ⟨rfl, rfl⟩
  | cons p rest ih =>
    obtain ⟨j, oc⟩ := p
    obtain ⟨i1, i2⟩ := ih (fun q hq => hwf q (List.mem_cons_of_mem _ hq))
    rw [ents_cons]
    simp only [hasOf, List.any_cons] at i2 ⊢
    by_cases e : j = k
    · subst e
      have hn : oc = none := by
        have := (hwf (j, oc) (List.mem_cons_self ..))
        simp only at this
        cases oc with
        | none => rfl
        | some c => exact absurd (this.mp rfl) (by simp [h1, h2])
      subst hn
      simp only [if_true, List.length_cons, List.replicate_succ]
      exact ⟨by rw [← i1], by simp⟩
    · simp only [e, if_false]
      exact ⟨i1, by simpa using i2⟩

theorem newVal_fg (c : Fin 8) : kwColour Generated.fgColors 30 (newVal .fg (some c)) = some c := by
  have : ((30 + c.val : Nat) : Int) = (30 : Int) + (c.val : Int) := by omega
  simp only [newVal, kwColour, this, specColour_eq, colourIndex_base]
theorem newVal_bg (c : Fin 8) : kwColour Generated.bgColors 40 (newVal .bg (some c)) = some c := by
  have : ((40 + c.val : Nat) : Int) = (40 : Int) + (c.val : Int) := by omega
  simp only [newVal, kwColour, this, specColour_eq, colourIndex_base]

theorem runK_colour (k : Key) (table : List (String × Nat)) (base : Int)
    (hnv : ∀ c, kwColour table base (newVal k (some c)) = some c) (v0 : Option ArgVal) (cs : List (Fin 8)) :
    (runK k v0 (cs.map some)).bind (postC table base) = resolveColour table base v0 cs := by
  cases cs with
  | nil => cases v0 <;> simp [runK, postC, resolveColour]
  | cons c rest =>
    cases rest with
    | nil => cases v0 <;> simp [runK, stepOk, postC, resolveColour, hnv]
    | cons d rest => cases v0 <;> simp [runK, stepOk, resolveColour]

theorem runK_true (k : Key) (n : Nat) :
    runK k (some (.bool true)) (List.replicate n none) = some (some (.bool true)) := by
  induction n with
  | zero => rfl
  | succ m ih => simp [List.replicate_succ, runK, stepOk, newVal_none, ih]

theorem runK_style (k : Key) (v0 : Option ArgVal) (n : Nat) :
    (runK k v0 (List.replicate n none)).bind readFlag = resolveStyle v0 (decide (n > 0)) := by
  cases n with
  | zero =>
    cases v0 with
    | none => rfl
    | some v => cases v <;> rfl
  | succ m =>
    simp only [List.replicate_succ, runK, stepOk, newVal_none, runK_true]
    cases v0 with
    | none => simp [readFlag, flagOf, resolveStyle]
    | some v =>
      cases v with
      | bool b => cases b <;> simp [readFlag, flagOf, resolveStyle]
      | _ => simp [resolveStyle]

theorem del_none (kw : Kw) (k : String) (h : kw.get? k = none) : kw.del k = kw := by
  induction kw with
  | nil => rfl
  | cons p rest ih =>
    rw [Kw.get?_cons] at h
    by_cases hp : p.1 = k
    · simp [hp] at h
    · simp only [hp, if_false] at h
      simp only [Kw.del, List.filter_cons] at ih ⊢
      have : (!(p.1 == k)) = true := by simp [hp]
      rw [this, if_pos rfl, ih h]

/-- `parse_args` with the `style` keyword already moved. -/
theorem parseArgs_norm (lower : String → String) (args : List ArgVal) (kw : Kw) :
    parseArgs lower args kw =
      match posLoop lower (kw.del "style") (args ++ (kw.get? "style").toList) with
      | .error e => .error e
      | .ok k => parseTail k := by
  unfold parseArgs
  cases h : kw.get? "style" with
  | some v => rfl
  | none =>
    rw [del_none kw "style" h]
    simp only [Option.toList_none, List.append_nil]
    cases posLoop lower kw args <;> rfl

theorem denote_eq (lower : String → String) (args : List ArgVal) (kw : Kw) (named : Named)
    (h : (args ++ (kw.get? "style").toList).mapM (posName lower) = some named) :
    denote lower args kw =
      if (keysOf (kw.del "style")).all isKnownKey = true then
        assemble (resolveColour Generated.bgColors 40 ((kw.del "style").get? "bg") (colsOf named .bg))
          (resolveStyle ((kw.del "style").get? "blink") (hasOf named .blink))
          (resolveStyle ((kw.del "style").get? "bold") (hasOf named .bold))
          (resolveStyle ((kw.del "style").get? "dark") (hasOf named .dark))
          (resolveColour Generated.fgColors 30 ((kw.del "style").get? "fg") (colsOf named .fg))
          (resolveStyle ((kw.del "style").get? "invert") (hasOf named .invert))
          (resolveStyle ((kw.del "style").get? "italic") (hasOf named .italic))
          (resolveStyle ((kw.del "style").get? "underline") (hasOf named .underline))
      else none := by
  simp only [denote, h, keysOf, List.all_map, Function.comp_def]
  rfl

/-- `parse_args` returns exactly the dict the specification denotes, and raises ValueError - nothing else -
    when the specification is invalid: for every `lower`, all positional arguments and all keyword arguments
    with distinct names. -/
theorem C14_sound_complete : C14_full_statement := by
  intro lower args kw hnd
  have hnd0 : (keysOf (kw.del "style")).Nodup := nodup_del kw "style" hnd
  rw [parseArgs_norm]
  cases hm : (args ++ (kw.get? "style").toList).mapM (posName lower) with
  | none =>
    rw [posLoop_none lower _ _ hm]
    have hd : denote lower args kw = none := by simp [denote, hm]
    rw [hd]
    exact ⟨fun a => by simp, fun _ => rfl⟩
  | some named =>
    have hwf := mapM_wf lower _ named hm
    obtain ⟨spec1, spec2⟩ := posLoop_spec lower _ (kw.del "style") named hm
    rw [denote_eq lower args kw named hm]
    -- per key: the pipeline run on the per-key state equals the declarative resolution
    have Kbg : ∀ v0, (runK .bg v0 (ents named .bg)).bind (postC Generated.bgColors 40) = resolveColour Generated.bgColors 40 v0 (colsOf named .bg) := by
      intro v0; rw [ents_colour named hwf .bg (Or.inr rfl)]; exact runK_colour .bg Generated.bgColors 40 newVal_bg v0 _
    have Kfg : ∀ v0, (runK .fg v0 (ents named .fg)).bind (postC Generated.fgColors 30) = resolveColour Generated.fgColors 30 v0 (colsOf named .fg) := by
      intro v0; rw [ents_colour named hwf .fg (Or.inl rfl)]; exact runK_colour .fg Generated.fgColors 30 newVal_fg v0 _
    have Kst : ∀ (j : Key), j ≠ .fg → j ≠ .bg → ∀ v0,
        (runK j v0 (ents named j)).bind readFlag = resolveStyle v0 (hasOf named j) := by
      intro j h1 h2 v0
      obtain ⟨e1, e2⟩ := ents_style named hwf j h1 h2
      rw [e1, e2]; exact runK_style j v0 _
    cases ha : absLoop (view (kw.del "style")) named with
    | none =>
      rw [spec1 ha]
      obtain ⟨k, hk⟩ := absLoop_none named _ ha
      have hnone : assemble (resolveColour Generated.bgColors 40 ((kw.del "style").get? "bg") (colsOf named .bg))
          (resolveStyle ((kw.del "style").get? "blink") (hasOf named .blink))
          (resolveStyle ((kw.del "style").get? "bold") (hasOf named .bold))
          (resolveStyle ((kw.del "style").get? "dark") (hasOf named .dark))
          (resolveColour Generated.fgColors 30 ((kw.del "style").get? "fg") (colsOf named .fg))
          (resolveStyle ((kw.del "style").get? "invert") (hasOf named .invert))
          (resolveStyle ((kw.del "style").get? "italic") (hasOf named .italic))
          (resolveStyle ((kw.del "style").get? "underline") (hasOf named .underline)) = none := by
        apply assemble_none
        cases k
        case bg => left; rw [← Kbg]; simp only [view, Key.name] at hk; rw [hk]; rfl
        case fg => right; right; right; right; left; rw [← Kfg]; simp only [view, Key.name] at hk; rw [hk]; rfl
        case blink => right; left; rw [← Kst .blink (by decide) (by decide)]; simp only [view, Key.name] at hk; rw [hk]; rfl
        case bold => right; right; left; rw [← Kst .bold (by decide) (by decide)]; simp only [view, Key.name] at hk; rw [hk]; rfl
        case dark => right; right; right; left; rw [← Kst .dark (by decide) (by decide)]; simp only [view, Key.name] at hk; rw [hk]; rfl
        case invert => right; right; right; right; right; left; rw [← Kst .invert (by decide) (by decide)]; simp only [view, Key.name] at hk; rw [hk]; rfl
        case italic => right; right; right; right; right; right; left; rw [← Kst .italic (by decide) (by decide)]; simp only [view, Key.name] at hk; rw [hk]; rfl
        case underline => right; right; right; right; right; right; right; rw [← Kst .underline (by decide) (by decide)]; simp only [view, Key.name] at hk; rw [hk]; rfl
      rw [hnone]
      simp
    | some g1 =>
      obtain ⟨kw1, hpl, hview, hnd1, hkeys⟩ := spec2 g1 ha
      have hrun := absLoop_some named _ _ ha
      rw [hpl]
      simp only
      rw [tail_spec kw1 (hnd1 hnd0), hview, hkeys isKnownKey (fun k => by cases k <;> decide)]
      have e : ∀ k, runK k ((kw.del "style").get? k.name) (ents named k) = some (g1 k) := hrun
      have ebg := Kbg ((kw.del "style").get? "bg"); rw [show runK .bg ((kw.del "style").get? "bg") (ents named .bg) = some (g1 .bg) from e .bg] at ebg
      have efg := Kfg ((kw.del "style").get? "fg"); rw [show runK .fg ((kw.del "style").get? "fg") (ents named .fg) = some (g1 .fg) from e .fg] at efg
      have e1 := Kst .blink (by decide) (by decide) ((kw.del "style").get? "blink"); rw [show runK .blink ((kw.del "style").get? "blink") (ents named .blink) = some (g1 .blink) from e .blink] at e1
      have e2 := Kst .bold (by decide) (by decide) ((kw.del "style").get? "bold"); rw [show runK .bold ((kw.del "style").get? "bold") (ents named .bold) = some (g1 .bold) from e .bold] at e2
      have e3 := Kst .dark (by decide) (by decide) ((kw.del "style").get? "dark"); rw [show runK .dark ((kw.del "style").get? "dark") (ents named .dark) = some (g1 .dark) from e .dark] at e3
      have e4 := Kst .invert (by decide) (by decide) ((kw.del "style").get? "invert"); rw [show runK .invert ((kw.del "style").get? "invert") (ents named .invert) = some (g1 .invert) from e .invert] at e4
      have e5 := Kst .italic (by decide) (by decide) ((kw.del "style").get? "italic"); rw [show runK .italic ((kw.del "style").get? "italic") (ents named .italic) = some (g1 .italic) from e .italic] at e5
      have e6 := Kst .underline (by decide) (by decide) ((kw.del "style").get? "underline"); rw [show runK .underline ((kw.del "style").get? "underline") (ents named .underline) = some (g1 .underline) from e .underline] at e6
      simp only [Option.bind_some] at ebg efg e1 e2 e3 e4 e5 e6
      rw [← ebg, ← efg, ← e1, ← e2, ← e3, ← e4, ← e5, ← e6]
      by_cases hk : (keysOf (kw.del "style")).all isKnownKey = true
      · simp only [hk, if_true]
        cases assemble (postC Generated.bgColors 40 (g1 .bg)) (readFlag (g1 .blink)) (readFlag (g1 .bold)) (readFlag (g1 .dark))
            (postC Generated.fgColors 30 (g1 .fg)) (readFlag (g1 .invert)) (readFlag (g1 .italic)) (readFlag (g1 .underline)) with
        | none => exact ⟨fun a => by simp, fun _ => rfl⟩
        | some a => exact ⟨fun b => by simp, fun h => by simp at h⟩
      · simp only [hk]
        exact ⟨fun a => by simp, fun _ => rfl⟩


/-- The only exception `parse_args` raises is ValueError (keyword names distinct). -/
theorem C14_error_kind (lower : String → String) (args : List ArgVal) (kw : Kw) (hnd : (kw.map Prod.fst).Nodup)
    (e : PyErr) (h : parseArgs lower args kw = .error e) : e = .valueError := by
  obtain ⟨h1, h2⟩ := C14_sound_complete lower args kw hnd
  cases hd : denote lower args kw with
  | none => rw [h2 hd] at h; injection h with h; exact h.symm
  | some a => rw [(h1 a).mpr hd] at h; cases h

theorem get?_append (l1 l2 : Kw) (k : String) :
    Kw.get? (l1 ++ l2) k = (Kw.get? l1 k).orElse fun _ => Kw.get? l2 k := by
  induction l1 with
  | nil => simp [Kw.get?]
  | cons p rest ih =>
    rw [List.cons_append, Kw.get?_cons, Kw.get?_cons, ih]
    by_cases h : p.1 = k <;> simp [h]

theorem get?_piece {γ : Type} (o : Option γ) (key : String) (g : γ → ArgVal) (k : String) :
    Kw.get? ((o.map fun v => (key, g v)).toList) k = if key = k then o.map g else none := by
  cases o with
  | none => simp [Kw.get?]
  | some v => simp [Kw.get?]

theorem toKw_get (a : Atts) :
    a.toKw.get? "bg" = a.bg.map (fun c => ArgVal.int (40 + c.val)) ∧
    a.toKw.get? "blink" = a.blink.map ArgVal.bool ∧ a.toKw.get? "bold" = a.bold.map ArgVal.bool ∧
    a.toKw.get? "dark" = a.dark.map ArgVal.bool ∧
    a.toKw.get? "fg" = a.fg.map (fun c => ArgVal.int (30 + c.val)) ∧
    a.toKw.get? "invert" = a.invert.map ArgVal.bool ∧ a.toKw.get? "italic" = a.italic.map ArgVal.bool ∧
    a.toKw.get? "underline" = a.underline.map ArgVal.bool ∧ a.toKw.get? "style" = none := by
  simp only [Atts.toKw, get?_append, get?_piece]
  simp

theorem keys_piece {γ : Type} (o : Option γ) (key : String) (g : γ → ArgVal) :
    List.Sublist (keysOf ((o.map fun v => (key, g v)).toList)) [key] := by
  cases o <;> simp [keysOf]

theorem toKw_keys (a : Atts) : List.Sublist (keysOf a.toKw) attKeys := by
  simp only [Atts.toKw, keysOf, List.map_append]
  have e : attKeys = ["bg"] ++ ["blink"] ++ ["bold"] ++ ["dark"] ++ ["fg"] ++ ["invert"] ++ ["italic"] ++ ["underline"] := rfl
  rw [e]
  exact ((((((( (keys_piece _ _ _).append (keys_piece _ _ _)).append (keys_piece _ _ _)).append (keys_piece _ _ _)).append
    (keys_piece _ _ _)).append (keys_piece _ _ _)).append (keys_piece _ _ _)).append (keys_piece _ _ _))

/-- `fmtstr(text, **atts)` for the attribute dict of an existing FmtStr: `parse_args` accepts such a dict
    unchanged (for every `lower`). -/
theorem C14_parse_own_atts (lower : String → String) (a : Atts) : parseArgs lower [] a.toKw = .ok a := by
  have hsub := toKw_keys a
  have hnd : (a.toKw.map Prod.fst).Nodup := (by decide : attKeys.Nodup).sublist hsub
  rw [(C14_sound_complete lower [] a.toKw hnd).1 a]
  obtain ⟨g1, g2, g3, g4, g5, g6, g7, g8, gs⟩ := toKw_get a
  have hdel : Kw.del a.toKw "style" = a.toKw := del_none _ _ gs
  have hknown : (a.toKw.all fun p => isKnownKey p.1) = true := by
    rw [List.all_eq_true]
    intro p hp
    have : p.1 ∈ attKeys := hsub.subset (List.mem_map.mpr ⟨p, hp, rfl⟩)
    exact (attKeys_iff p.1).mp (by simpa using this)
  have rc : ∀ (table : List (String × Nat)) (base : Int) (o : Option (Fin 8)),
      resolveColour table base (o.map fun c => ArgVal.int (base + c.val)) [] = some o := by
    intro table base o
    cases o with
    | none => rfl
    | some c => simp [resolveColour, kwColour, specColour_eq, colourIndex_base]
  have rs : ∀ o : Option Bool, resolveStyle (o.map ArgVal.bool) false = some o := by
    intro o; cases o <;> rfl
  simp only [denote, gs, Option.toList_none, List.append_nil, hdel, List.mapM_nil, hknown, if_true,
    g1, g2, g3, g4, g5, g6, g7, g8]
  have r1 := rc Generated.bgColors 40 a.bg
  have r2 := rc Generated.fgColors 30 a.fg
  simp [r1, r2, rs]

/-- `fmtstr(f, *args, **kwargs)` composed with the denotation: the call succeeds exactly on valid specifications
    and then every character keeps its text and gets its dict overridden by the denoted attributes
    (`C14_override`); an invalid specification raises ValueError and builds nothing. -/
theorem C14_fmtstr_denote (lower : String → String) (f : FmtStr) (args : List ArgVal) (kw : Kw)
    (hnd : (kw.map Prod.fst).Nodup) :
    (∀ r, fmtstrApply lower f args kw = .ok r ↔ ∃ a, denote lower args kw = some a ∧ r = copyWithNewAtts f a) ∧
    (∀ a, denote lower args kw = some a → ∃ r, fmtstrApply lower f args kw = .ok r ∧
        cells r = (cells f).map fun p => (p.1, p.2.extend a)) ∧
    (denote lower args kw = none → fmtstrApply lower f args kw = .error .valueError) := by
  obtain ⟨h1, h2⟩ := C14_sound_complete lower args kw hnd
  refine ⟨fun r => ?_, fun a ha => ?_, fun hd => ?_⟩
  · unfold fmtstrApply
    cases hp : parseArgs lower args kw with
    | error e =>
      constructor
      · intro h; cases h
      · rintro ⟨a, ha, _⟩; rw [(h1 a).mpr ha] at hp; cases hp
    | ok a =>
      constructor
      · intro h; injection h with h; exact ⟨a, (h1 a).mp hp, h.symm⟩
      · rintro ⟨b, hb, rfl⟩
        have := (h1 b).mpr hb
        rw [hp] at this; injection this with this; rw [this]
  · exact ⟨copyWithNewAtts f a, by simp [fmtstrApply, (h1 a).mpr ha], C14_apply f a⟩
  · simp [fmtstrApply, h2 hd]

/-- Non-vacuity: the hypotheses are met by an ordinary call, valid and invalid. -/
example : parseArgs idl [.str "red", .str "bold"] [("bg", .int 44), ("underline", .bool false)]
    = .ok { fg := some 1, bold := some true, bg := some 4, underline := some false } := by decide +kernel
example : ([("bg", ArgVal.int 44), ("underline", .bool false)].map Prod.fst).Nodup := by decide

end Curtsies
