/- Helper lemmas: the `splice` loop computes `take start ++ new ++ drop end` on the per-character view. -/
import Curtsies.Model.FmtStr
namespace Curtsies.Splice

/-- Dropping the empty runs (`s for s in new_components if s.s`) does not change the cells. -/
theorem cells_filter_nonempty (f : FmtStr) :
    cells (f.filter fun c => !c.s.isEmpty) = cells f := by
  induction f with
  | nil => rfl
  | cons c f ih =>
    by_cases h : c.s.isEmpty
    · have hc : c.cells = [] := by
        have : c.s = [] := List.isEmpty_iff.mp h
        simp [Chunk.cells, this]
      simp [h, ih, hc]
    · simp [h, ih]

theorem Chunk.cells_take (c : Chunk) (k : Nat) :
    Chunk.cells ⟨c.s.take k, c.atts⟩ = c.cells.take k := by
  simp [Chunk.cells, List.map_take]

theorem Chunk.cells_dropText (c : Chunk) (k : Nat) :
    Chunk.cells ⟨dropText c.s k, c.atts⟩ = c.cells.drop k := by
  simp [Chunk.cells, dropText, List.map_drop]

theorem cells_eq_nil_of_len_zero (f : FmtStr) (h : len f = 0) : cells f = [] :=
  List.eq_nil_of_length_eq_zero (by rw [cells_length]; exact h)

/-- Once `inserted` is set it stays set. -/
theorem spliceLoop_inserted_true (new : List Chunk) (start e : Nat) (f : FmtStr) (b : Nat) :
    (spliceLoop new start e b true f).2 = true := by
  induction f generalizing b with
  | nil => rfl
  | cons c rest ih =>
    unfold spliceLoop
    simp only [not_true_eq_false, and_false, false_and, if_false]
    split <;> (try split) <;> simp [ih]

/-- After the insertion (`inserted = True`, hence `start ≤ bfs_start`) the loop keeps exactly the characters
    from offset `end` on. -/
theorem spliceLoop_cells_inserted (new : List Chunk) (start e : Nat) (f : FmtStr) (b : Nat)
    (hb : start ≤ b) :
    cells (spliceLoop new start e b true f).1 = (cells f).drop (e - b) := by
  induction f generalizing b with
  | nil => simp [spliceLoop]
  | cons c rest ih =>
    have hn : c.cells.length = c.s.length := Chunk.cells_length c
    have ih' := ih (b + c.s.length) (by omega)
    unfold spliceLoop
    simp only [not_true_eq_false, and_false, false_and, if_false]
    by_cases h3 : b < e ∧ e < b + c.s.length
    · rw [if_pos h3]
      simp only [cells_append, cells_cons, cells_nil, List.append_nil, ih', Chunk.cells_dropText]
      have e0 : e - (b + c.s.length) = 0 := by omega
      rw [e0, List.drop_zero, List.drop_append_of_le_length (by omega)]
    · rw [if_neg h3]
      by_cases h4 : b ≥ e ∨ b + c.s.length ≤ start
      · rw [if_pos h4]
        simp only [cells_append, cells_cons, cells_nil, List.append_nil, ih']
        rcases h4 with h4 | h4
        · have e0 : e - (b + c.s.length) = 0 := by omega
          have e1 : e - b = 0 := by omega
          rw [e0, e1, List.drop_zero, List.drop_zero]
        · have hz : c.cells = [] := List.eq_nil_of_length_eq_zero (by omega)
          have e1 : e - (b + c.s.length) = e - b := by omega
          rw [hz, e1, List.nil_append, List.nil_append]
      · rw [if_neg h4, ih', cells_cons, List.drop_append, hn]
        have e1 : e - (b + c.s.length) = e - b - c.s.length := by omega
        have hd : c.cells.drop (e - b) = [] := List.drop_eq_nil_of_le (by omega)
        rw [e1, hd, List.nil_append]

/-- What `splice` does after the loop: `if not inserted: new_components.extend(new_fs.chunks)`. -/
def spliceFinish (new : List Chunk) (r : List Chunk × Bool) : List Chunk :=
  if r.2 then r.1 else r.1 ++ new

/-- Before the insertion (`inserted = False`; every processed run ended at or before `start`, so
    `bfs_start ≤ start`) the loop plus the final `extend` yields
    `take (start - bfs_start) ++ new ++ drop (end - bfs_start)` of the remaining characters. -/
theorem spliceLoop_cells_pending (new : List Chunk) (start e : Nat) (hse : start ≤ e) (f : FmtStr)
    (b : Nat) (hb : b ≤ start) :
    cells (spliceFinish new (spliceLoop new start e b false f))
      = (cells f).take (start - b) ++ cells new ++ (cells f).drop (e - b) := by
  induction f generalizing b with
  | nil => simp [spliceLoop, spliceFinish]
  | cons c rest ih =>
    have hn : c.cells.length = c.s.length := Chunk.cells_length c
    have hT := spliceLoop_inserted_true new start e rest (b + c.s.length)
    unfold spliceLoop
    simp only [Bool.false_eq_true, not_false_eq_true, and_true, true_and]
    by_cases h1 : e = b ∧ b = 0
    · -- insertion in front of the first run
      rw [if_pos h1]
      have hI := spliceLoop_cells_inserted new start e rest (b + c.s.length) (by omega)
      have e0 : e - (b + c.s.length) = 0 := by omega
      have e1 : start - b = 0 := by omega
      have e2 : e - b = 0 := by omega
      simp only [spliceFinish, hT, if_true, cells_append, cells_cons, cells_nil, List.append_nil, hI,
        e0, e1, e2, List.drop_zero, List.take_zero, List.nil_append, List.append_assoc]
    · rw [if_neg h1]
      by_cases h2 : b ≤ start ∧ start < b + c.s.length
      · -- the run containing `start`
        rw [if_pos h2]
        have hI := spliceLoop_cells_inserted new start e rest (b + c.s.length) (by omega)
        simp only [spliceFinish, hT, if_true, cells_append, cells_cons, cells_nil, List.append_nil, hI,
          Chunk.cells_take]
        rw [List.take_append_of_le_length (by omega)]
        by_cases ht : e < b + c.s.length
        · rw [if_pos ht]
          have e0 : e - (b + c.s.length) = 0 := by omega
          simp only [cells_cons, cells_nil, List.append_nil, Chunk.cells_dropText, e0, List.drop_zero]
          rw [List.drop_append_of_le_length (by omega)]
          simp only [List.append_assoc]
        · rw [if_neg ht]
          have e1 : e - (b + c.s.length) = e - b - c.s.length := by omega
          have hd : c.cells.drop (e - b) = [] := List.drop_eq_nil_of_le (by omega)
          rw [List.drop_append, hn, e1, hd]
          simp only [cells_nil, List.append_nil, List.nil_append, List.append_assoc]
      · rw [if_neg h2]
        have hge : b + c.s.length ≤ start := by omega
        have h3 : ¬ (b < e ∧ e < b + c.s.length) := by omega
        rw [if_neg h3]
        have h4 : b ≥ e ∨ b + c.s.length ≤ start := Or.inr hge
        rw [if_pos h4]
        have ih' := ih (b + c.s.length) hge
        have : spliceFinish new
            (match spliceLoop new start e (b + c.s.length) false rest with
              | (r, i) => ([c] ++ r, i))
            = c :: spliceFinish new (spliceLoop new start e (b + c.s.length) false rest) := by
          simp only [spliceFinish]
          split <;> simp
        rw [this, cells_cons, ih', cells_cons]
        have e1 : start - (b + c.s.length) = start - b - c.s.length := by omega
        have e2 : e - (b + c.s.length) = e - b - c.s.length := by omega
        have hd : c.cells.drop (e - b) = [] := List.drop_eq_nil_of_le (by omega)
        have htk : c.cells.take (start - b) = c.cells := List.take_of_length_le (by omega)
        rw [List.take_append, List.drop_append, hn, e1, e2, hd, htk]
        simp only [List.nil_append, List.append_assoc]

end Curtsies.Splice
