/- Helper lemmas: the `splice` loop computes `take start ++ new ++ drop end` on the per-character view. -/
import Curtsies.Model.FmtStr
import Curtsies.Model.SpliceOp
namespace Curtsies.Splice

/-- Dropping the empty runs (`s for s in new_components if s.s`) does not change the cells. -/
theorem cells_filter_nonempty (f : FmtStr) :
    cells (f.filter fun c => !c.s.isEmpty) = cells f := by
  induction f with
  | nil => rfl
  | cons c f ih =>
    by_cases h : c.s.isEmpty
    · have hc : c.cells = [] := by
        have : c.s = [] := List.isEmpty_iff.mp h
        simp [Chunk.cells, this]
      simp [h, ih, hc]
    · simp [h, ih]

theorem Chunk.cells_take (c : Chunk) (k : Nat) :
    Chunk.cells ⟨c.s.take k, c.atts⟩ = c.cells.take k := by
  simp [Chunk.cells, List.map_take]

theorem Chunk.cells_dropText (c : Chunk) (k : Nat) :
    Chunk.cells ⟨dropText c.s k, c.atts⟩ = c.cells.drop k := by
  simp [Chunk.cells, dropText, List.map_drop]

theorem cells_eq_nil_of_len_zero (f : FmtStr) (h : len f = 0) : cells f = [] :=
  List.eq_nil_of_length_eq_zero (by rw [cells_length]; exact h)

/-- Once `inserted` is set it stays set. -/
theorem spliceLoop_inserted_true (new : List Chunk) (start e : Nat) (f : FmtStr) (b : Nat) :
    (spliceLoop new start e b true f).2 = true := by
  induction f generalizing b with
  | nil => rfl
  | cons c rest ih =>
    unfold spliceLoop
    simp only [not_true_eq_false, and_false, false_and, if_false]
    split <;> (try split) <;> simp [ih]

/-- After the insertion (`inserted = True`, hence `start ≤ bfs_start`) the loop keeps exactly the characters
    from offset `end` on. -/
theorem spliceLoop_cells_inserted (new : List Chunk) (start e : Nat) (f : FmtStr) (b : Nat)
    (hb : start ≤ b) :
    cells (spliceLoop new start e b true f).1 = (cells f).drop (e - b) := by
  induction f generalizing b with
  | nil => simp [spliceLoop]
  | cons c rest ih =>
    have hn : c.cells.length = c.s.length := Chunk.cells_length c
    have ih' := ih (b + c.s.length) (by omega)
    unfold spliceLoop
    simp only [not_true_eq_false, and_false, false_and, if_false]
    by_cases h3 : b < e ∧ e < b + c.s.length
    · rw [if_pos h3]
      simp only [cells_append, cells_cons, cells_nil, List.append_nil, ih', Chunk.cells_dropText]
      have e0 : e - (b + c.s.length) = 0 := by omega
      rw [e0, List.drop_zero, List.drop_append_of_le_length (by omega)]
    · rw [if_neg h3]
      by_cases h4 : b ≥ e ∨ b + c.s.length ≤ start
      · rw [if_pos h4]
        simp only [cells_append, cells_cons, cells_nil, List.append_nil, ih']
        rcases h4 with h4 | h4
        · have e0 : e - (b + c.s.length) = 0 := by omega
          have e1 : e - b = 0 := by omega
          rw [e0, e1, List.drop_zero, List.drop_zero]
        · have hz : c.cells = [] := List.eq_nil_of_length_eq_zero (by omega)
          have e1 : e - (b + c.s.length) = e - b := by omega
          rw [hz, e1, List.nil_append, List.nil_append]
      · rw [if_neg h4, ih', cells_cons, List.drop_append, hn]
        have e1 : e - (b + c.s.length) = e - b - c.s.length := by omega
        have hd : c.cells.drop (e - b) = [] := List.drop_eq_nil_of_le (by omega)
        rw [e1, hd, List.nil_append]

/-- What `splice` does after the loop: `if not inserted: new_components.extend(new_fs.chunks)`. -/
def spliceFinish (new : List Chunk) (r : List Chunk × Bool) : List Chunk :=
  if r.2 then r.1 else r.1 ++ new

/-- Before the insertion (`inserted = False`; every processed run ended at or before `start`, so
    `bfs_start ≤ start`) the loop plus the final `extend` yields
    `take (start - bfs_start) ++ new ++ drop (end - bfs_start)` of the remaining characters. -/
theorem spliceLoop_cells_pending (new : List Chunk) (start e : Nat) (hse : start ≤ e) (f : FmtStr)
    (b : Nat) (hb : b ≤ start) :
    cells (spliceFinish new (spliceLoop new start e b false f))
      = (cells f).take (start - b) ++ cells new ++ (cells f).drop (e - b) := by
  induction f generalizing b with
  | nil => simp [spliceLoop, spliceFinish]
  | cons c rest ih =>
    have hn : c.cells.length = c.s.length := Chunk.cells_length c
    have hT := spliceLoop_inserted_true new start e rest (b + c.s.length)
    unfold spliceLoop
    simp only [Bool.false_eq_true, not_false_eq_true, and_true, true_and]
    by_cases h1 : e = b ∧ b = 0
    · -- insertion in front of the first run
      rw [if_pos h1]
      have hI := spliceLoop_cells_inserted new start e rest (b + c.s.length) (by omega)
      have e0 : e - (b + c.s.length) = 0 := by omega
      have e1 : start - b = 0 := by omega
      have e2 : e - b = 0 := by omega
      simp only [spliceFinish, hT, if_true, cells_append, cells_cons, cells_nil, List.append_nil, hI,
        e0, e1, e2, List.drop_zero, List.take_zero, List.nil_append, List.append_assoc]
    · rw [if_neg h1]
      by_cases h2 : b ≤ start ∧ start < b + c.s.length
      · -- the run containing `start`
        rw [if_pos h2]
        have hI := spliceLoop_cells_inserted new start e rest (b + c.s.length) (by omega)
        simp only [spliceFinish, hT, if_true, cells_append, cells_cons, cells_nil, List.append_nil, hI,
          Chunk.cells_take]
        rw [List.take_append_of_le_length (by omega)]
        by_cases ht : e < b + c.s.length
        · rw [if_pos ht]
          have e0 : e - (b + c.s.length) = 0 := by omega
          simp only [cells_cons, cells_nil, List.append_nil, Chunk.cells_dropText, e0, List.drop_zero]
          rw [List.drop_append_of_le_length (by omega)]
          simp only [List.append_assoc]
        · rw [if_neg ht]
          have e1 : e - (b + c.s.length) = e - b - c.s.length := by omega
          have hd : c.cells.drop (e - b) = [] := List.drop_eq_nil_of_le (by omega)
          rw [List.drop_append, hn, e1, hd]
          simp only [cells_nil, List.append_nil, List.nil_append, List.append_assoc]
      · rw [if_neg h2]
        have hge : b + c.s.length ≤ start := by omega
        have h3 : ¬ (b < e ∧ e < b + c.s.length) := by omega
        rw [if_neg h3]
        have h4 : b ≥ e ∨ b + c.s.length ≤ start := Or.inr hge
        rw [if_pos h4]
        have ih' := ih (b + c.s.length) hge
        have : spliceFinish new
            (match spliceLoop new start e (b + c.s.length) false rest with
              | (r, i) => ([c] ++ r, i))
            = c :: spliceFinish new (spliceLoop new start e (b + c.s.length) false rest) := by
          simp only [spliceFinish]
          split <;> simp
        rw [this, cells_cons, ih', cells_cons]
        have e1 : start - (b + c.s.length) = start - b - c.s.length := by omega
        have e2 : e - (b + c.s.length) = e - b - c.s.length := by omega
        have hd : c.cells.drop (e - b) = [] := List.drop_eq_nil_of_le (by omega)
        have htk : c.cells.take (start - b) = c.cells := List.take_of_length_le (by omega)
        rw [List.take_append, List.drop_append, hn, e1, e2, hd, htk]
        simp only [List.nil_append, List.append_assoc]

/-- `Curtsies.splice` is the early return followed by `spliceBody`. -/
theorem splice_eq_body (f new : FmtStr) (start : Nat) (eo : Option Nat) :
    splice f new start eo =
      if len new = 0 ∧ eo.getD start ≤ start then f else spliceBody f new start (eo.getD start) := by
  unfold splice spliceBody
  rfl

theorem spliceBody_eq_finish (f new : FmtStr) (start e : Nat) :
    spliceBody f new start e =
      (spliceFinish new (spliceLoop new start e 0 false f)).filter fun c => !c.s.isEmpty := by
  unfold spliceBody
  simp only [spliceFinish]

theorem spliceBody_cells (f new : FmtStr) (start e : Nat) (h : start ≤ e) :
    cells (spliceBody f new start e) = (cells f).take start ++ cells new ++ (cells f).drop e := by
  rw [spliceBody_eq_finish, cells_filter_nonempty]
  simpa using spliceLoop_cells_pending new start e h f 0 (Nat.zero_le _)

/-- The FmtStr an ESC-free operand converts to. -/
def asFmt : Operand → FmtStr
  | .str t => [⟨t, {}⟩]
  | .fmt f => f

theorem asFmt_cells (o : Operand) : cells (asFmt o) = o.cells := by
  cases o <;> simp [asFmt, Operand.cells, plainCells, Chunk.cells]

theorem asFmt_len (o : Operand) : len (asFmt o) = o.rawLen := by
  cases o <;> simp [asFmt, Operand.rawLen]

theorem hasEscBracket_infix {s : Text} (h : hasEscBracket s = true) : [ESC, '['] <:+: s := by
  induction s with
  | nil => simp [hasEscBracket] at h
  | cons a r ih =>
    cases r with
    | nil => simp [hasEscBracket] at h
    | cons b r =>
      simp only [hasEscBracket, Bool.or_eq_true, Bool.and_eq_true, beq_iff_eq] at h
      rcases h with ⟨rfl, rfl⟩ | h
      · exact ⟨[], r, rfl⟩
      · obtain ⟨x, y, hxy⟩ := ih h
        exact ⟨a :: x, y, by simp [← hxy]⟩

/-- `"\x1b[" in s` is false: `from_str` wraps the text verbatim in one unformatted run. -/
theorem fromStr_noEsc (md : Nat) (t : Text) (h : hasEscBracket t = false) : fromStr md t = .ok [⟨t, {}⟩] := by
  unfold fromStr
  rw [h]; rfl

/-- The model-level form of `Operand.EscFree`. -/
def NoEsc : Operand → Prop
  | .str t => hasEscBracket t = false
  | .fmt _ => True

theorem NoEsc_of_EscFree (o : Operand) (h : o.EscFree) : NoEsc o := by
  cases o with
  | fmt f => trivial
  | str t =>
    simp only [Operand.EscFree] at h
    simp only [NoEsc]
    cases hb : hasEscBracket t with
    | false => rfl
    | true => exact absurd (hasEscBracket_infix hb) h

theorem toFmt_noEsc (md : Nat) (o : Operand) (h : NoEsc o) : o.toFmt md = .ok (asFmt o) := by
  cases o with
  | fmt f => rfl
  | str t =>
    simp only [NoEsc] at h
    simp only [Operand.toFmt, fromStr_noEsc md t h, Except.map, asFmt]
    rw [copyWithNewAtts_empty]

/-- For an ESC-free operand the operand-level `splice` is the FmtStr-level `splice` on the converted operand. -/
theorem spliceOp_noEsc (md : Nat) (f : FmtStr) (o : Operand) (start : Nat) (eo : Option Nat) (h : NoEsc o) :
    spliceOp md f o start eo = .ok (splice f (asFmt o) start eo) := by
  unfold spliceOp
  rw [splice_eq_body, asFmt_len, toFmt_noEsc md o h]
  by_cases hc : o.rawLen = 0 ∧ eo.getD start ≤ start
  · rw [if_pos hc, if_pos hc]
  · rw [if_neg hc, if_neg hc]

theorem hasEscBracket_spaces (k : Nat) : hasEscBracket (spaces k) = false := by
  induction k with
  | zero => rfl
  | succ k ih =>
    cases k with
    | zero => rfl
    | succ k =>
      simp only [spaces, List.replicate_succ] at ih ⊢
      simp only [hasEscBracket, ih, Bool.or_false, Bool.and_eq_false_imp, beq_iff_eq]
      intro h; exact absurd h (by decide)

theorem hasEscBracket_spaces_append (k : Nat) (t : Text) : hasEscBracket (spaces k ++ t) = hasEscBracket t := by
  induction k with
  | zero => simp [spaces]
  | succ k ih =>
    have : spaces (k + 1) ++ t = ' ' :: (spaces k ++ t) := by simp [spaces, List.replicate_succ]
    rw [this]
    cases hr : spaces k ++ t with
    | nil =>
      have : t = [] := (List.append_eq_nil_iff.mp hr).2
      simp [hasEscBracket, this]
    | cons b r =>
      rw [← ih, hr]
      simp only [hasEscBracket]
      have : (' ' == ESC) = false := by decide
      simp [this]

theorem hasEscBracket_append_spaces (t : Text) (k : Nat) : hasEscBracket (t ++ spaces k) = hasEscBracket t := by
  induction t with
  | nil => simp [hasEscBracket_spaces, hasEscBracket]
  | cons a r ih =>
    cases r with
    | nil =>
      cases k with
      | zero => simp [spaces]
      | succ k =>
        have : [a] ++ spaces (k + 1) = a :: ' ' :: spaces k := by simp [spaces, List.replicate_succ]
        rw [this]
        have h2 : hasEscBracket (' ' :: spaces k) = false := by
          have := hasEscBracket_spaces (k + 1)
          simpa [spaces, List.replicate_succ] using this
        have h3 : (' ' == '[') = false := by decide
        simp [hasEscBracket, h2, h3]
    | cons b r =>
      have : (a :: b :: r) ++ spaces k = a :: b :: (r ++ spaces k) := rfl
      rw [this]
      simp only [hasEscBracket]
      have ih' : hasEscBracket (b :: (r ++ spaces k)) = hasEscBracket (b :: r) := ih
      rw [ih']

theorem NoEsc_padLeft (k : Nat) (o : Operand) (h : NoEsc o) : NoEsc (padLeft k o) := by
  cases o with
  | fmt f => trivial
  | str t => simpa only [NoEsc, padLeft, hasEscBracket_spaces_append] using h

theorem NoEsc_padRight (k : Nat) (o : Operand) (h : NoEsc o) : NoEsc (padRight k o) := by
  cases o with
  | fmt f => trivial
  | str t => simpa only [NoEsc, padRight, hasEscBracket_append_spaces] using h

end Curtsies.Splice
