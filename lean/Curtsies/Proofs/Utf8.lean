/- UTF-8 lemmas: `decodeOne` on each length class, `decodeOne (encode c ++ r) = some (c, r)` for every scalar
   value, the byte shapes of a valid character and what follows for its proper prefixes. -/
import Curtsies.Spec.Utf8
namespace Curtsies.Spec.Utf8

theorem decodeOne_1 (b0 : Nat) (r : List Nat) (h : b0 < 0x80) : decodeOne (b0 :: r) = some (b0, r) := by
  simp [decodeOne, h]

theorem decodeOne_2 (b0 b1 : Nat) (r : List Nat) (h0 : 0xC2 ≤ b0) (h0' : b0 < 0xE0) (h1 : isCont b1 = true) :
    decodeOne (b0 :: b1 :: r) = some ((b0 - 0xC0) * 64 + (b1 - 0x80), r) := by
  have a1 : ¬ b0 < 0x80 := by omega
  have a2 : ¬ b0 < 0xC2 := by omega
  simp [decodeOne, a1, a2, h0', h1]

theorem decodeOne_3 (b0 b1 b2 : Nat) (r : List Nat) (h0 : 0xE0 ≤ b0) (h0' : b0 < 0xF0)
    (h1 : isCont b1 = true) (h2 : isCont b2 = true) (hE0 : b0 = 0xE0 → 0xA0 ≤ b1) (hED : b0 = 0xED → b1 < 0xA0) :
    decodeOne (b0 :: b1 :: b2 :: r) = some ((b0 - 0xE0) * 4096 + (b1 - 0x80) * 64 + (b2 - 0x80), r) := by
  have a1 : ¬ b0 < 0x80 := by omega
  have a2 : ¬ b0 < 0xC2 := by omega
  have a3 : ¬ b0 < 0xE0 := by omega
  have c1 : (b0 != 0xE0 || decide (0xA0 ≤ b1)) = true := by
    by_cases e : b0 = 0xE0 <;> simp [e, hE0]
  have c2 : (b0 != 0xED || decide (b1 < 0xA0)) = true := by
    by_cases e : b0 = 0xED <;> simp [e, hED]
  simp only [decodeOne, if_neg a1, if_neg a2, if_neg a3, if_pos h0', h1, h2, c1, c2, Bool.and_self, if_true]

theorem decodeOne_4 (b0 b1 b2 b3 : Nat) (r : List Nat) (h0 : 0xF0 ≤ b0) (h0' : b0 < 0xF5)
    (h1 : isCont b1 = true) (h2 : isCont b2 = true) (h3 : isCont b3 = true)
    (hF0 : b0 = 0xF0 → 0x90 ≤ b1) (hF4 : b0 = 0xF4 → b1 < 0x90) :
    decodeOne (b0 :: b1 :: b2 :: b3 :: r) =
      some ((b0 - 0xF0) * 262144 + (b1 - 0x80) * 4096 + (b2 - 0x80) * 64 + (b3 - 0x80), r) := by
  have a1 : ¬ b0 < 0x80 := by omega
  have a2 : ¬ b0 < 0xC2 := by omega
  have a3 : ¬ b0 < 0xE0 := by omega
  have a4 : ¬ b0 < 0xF0 := by omega
  have c1 : (b0 != 0xF0 || decide (0x90 ≤ b1)) = true := by
    by_cases e : b0 = 0xF0 <;> simp [e, hF0]
  have c2 : (b0 != 0xF4 || decide (b1 < 0x90)) = true := by
    by_cases e : b0 = 0xF4 <;> simp [e, hF4]
  simp only [decodeOne, if_neg a1, if_neg a2, if_neg a3, if_neg a4, if_pos h0', h1, h2, h3, c1, c2, Bool.and_self, if_true]

theorem isCont_iff (b : Nat) : isCont b = true ↔ 0x80 ≤ b ∧ b < 0xC0 := by simp [isCont]

theorem decodeOne_encode (c : Nat) (hs : isScalar c) (r : List Nat) :
    decodeOne (encode c ++ r) = some (c, r) := by
  unfold isScalar at hs
  unfold encode
  by_cases h1 : c < 0x80
  · simp [h1, decodeOne]
  · by_cases h2 : c < 0x800
    · simp only [if_neg h1, if_pos h2, List.cons_append, List.nil_append]
      rw [decodeOne_2 (0xC0 + c / 64) (0x80 + c % 64) r (by omega) (by omega) (by rw [isCont_iff]; omega)]
      have e : (0xC0 + c / 64 - 0xC0) * 64 + (0x80 + c % 64 - 0x80) = c := by omega
      rw [e]
    · by_cases h3 : c < 0x10000
      · simp only [if_neg h1, if_neg h2, if_pos h3, List.cons_append, List.nil_append]
        rw [decodeOne_3 (0xE0 + c / 4096) (0x80 + c / 64 % 64) (0x80 + c % 64) r (by omega) (by omega)
          (by rw [isCont_iff]; omega) (by rw [isCont_iff]; omega) (by omega) (by omega)]
        have e : (0xE0 + c / 4096 - 0xE0) * 4096 + (0x80 + c / 64 % 64 - 0x80) * 64 + (0x80 + c % 64 - 0x80) = c := by omega
        rw [e]
      · simp only [if_neg h1, if_neg h2, if_neg h3, List.cons_append, List.nil_append]
        rw [decodeOne_4 (0xF0 + c / 262144) (0x80 + c / 4096 % 64) (0x80 + c / 64 % 64) (0x80 + c % 64) r
          (by omega) (by omega) (by rw [isCont_iff]; omega) (by rw [isCont_iff]; omega)
          (by rw [isCont_iff]; omega) (by omega) (by omega)]
        have e : (0xF0 + c / 262144 - 0xF0) * 262144 + (0x80 + c / 4096 % 64 - 0x80) * 4096 + (0x80 + c / 64 % 64 - 0x80) * 64 + (0x80 + c % 64 - 0x80) = c := by omega
        rw [e]

/-- The byte shapes of one strictly valid character (the table in Spec/Utf8.lean). -/
inductive Shape : List Nat → Prop
  | one (b0 : Nat) : b0 < 0x80 → Shape [b0]
  | two (b0 b1 : Nat) : 0xC2 ≤ b0 → b0 < 0xE0 → isCont b1 = true → Shape [b0, b1]
  | three (b0 b1 b2 : Nat) : 0xE0 ≤ b0 → b0 < 0xF0 → isCont b1 = true → isCont b2 = true →
      (b0 = 0xE0 → 0xA0 ≤ b1) → (b0 = 0xED → b1 < 0xA0) → Shape [b0, b1, b2]
  | four (b0 b1 b2 b3 : Nat) : 0xF0 ≤ b0 → b0 < 0xF5 → isCont b1 = true → isCont b2 = true →
      isCont b3 = true → (b0 = 0xF0 → 0x90 ≤ b1) → (b0 = 0xF4 → b1 < 0x90) → Shape [b0, b1, b2, b3]

theorem decodeOne_shape {bs : List Nat} {c : Nat} {r : List Nat} (h : decodeOne bs = some (c, r)) :
    ∃ p, Shape p ∧ bs = p ++ r ∧ decodeOne p = some (c, []) := by
  cases bs with
  | nil => simp [decodeOne] at h
  | cons b0 t =>
    by_cases a1 : b0 < 0x80
    · simp [decodeOne, a1] at h
      obtain ⟨rfl, rfl⟩ := h
      exact ⟨[b0], .one _ a1, rfl, decodeOne_1 _ _ a1⟩
    · by_cases a2 : b0 < 0xC2
      · simp [decodeOne, a1, a2] at h
      · by_cases a3 : b0 < 0xE0
        · cases t with
          | nil => simp [decodeOne, a1, a2, a3] at h
          | cons b1 t =>
            by_cases i1 : isCont b1 = true
            · simp [decodeOne, a1, a2, a3, i1] at h
              obtain ⟨rfl, rfl⟩ := h
              exact ⟨[b0, b1], .two _ _ (by omega) a3 i1, rfl, decodeOne_2 _ _ _ (by omega) a3 i1⟩
            · simp [decodeOne, a1, a2, a3, i1] at h
        · by_cases a4 : b0 < 0xF0
          · match t with
            | [] => simp [decodeOne, a1, a2, a3, a4] at h
            | [_] => simp [decodeOne, a1, a2, a3, a4] at h
            | b1 :: b2 :: t =>
              by_cases i1 : isCont b1 = true
              · by_cases i2 : isCont b2 = true
                · by_cases e1 : b0 = 0xE0 → 0xA0 ≤ b1
                  · by_cases e2 : b0 = 0xED → b1 < 0xA0
                    · have := decodeOne_3 b0 b1 b2 t (by omega) a4 i1 i2 e1 e2
                      rw [this] at h
                      simp at h
                      obtain ⟨rfl, rfl⟩ := h
                      exact ⟨[b0, b1, b2], .three _ _ _ (by omega) a4 i1 i2 e1 e2, rfl,
                        decodeOne_3 _ _ _ _ (by omega) a4 i1 i2 e1 e2⟩
                    · have : b0 = 0xED ∧ ¬ b1 < 0xA0 := by omega
                      simp [decodeOne, this.1, this.2] at h
                  · have : b0 = 0xE0 ∧ ¬ 0xA0 ≤ b1 := by omega
                    simp [decodeOne, this.1] at h
                    omega
                · simp [decodeOne, a1, a2, a3, a4, i1, i2] at h
              · simp [decodeOne, a1, a2, a3, a4, i1] at h
          · by_cases a5 : b0 < 0xF5
            · match t with
              | [] => simp [decodeOne, a1, a2, a3, a4, a5] at h
              | [_] => simp [decodeOne, a1, a2, a3, a4, a5] at h
              | [_, _] => simp [decodeOne, a1, a2, a3, a4, a5] at h
              | b1 :: b2 :: b3 :: t =>
                by_cases i1 : isCont b1 = true
                · by_cases i2 : isCont b2 = true
                  · by_cases i3 : isCont b3 = true
                    · by_cases e1 : b0 = 0xF0 → 0x90 ≤ b1
                      · by_cases e2 : b0 = 0xF4 → b1 < 0x90
                        · have := decodeOne_4 b0 b1 b2 b3 t (by omega) a5 i1 i2 i3 e1 e2
                          rw [this] at h
                          simp at h
                          obtain ⟨rfl, rfl⟩ := h
                          exact ⟨[b0, b1, b2, b3], .four _ _ _ _ (by omega) a5 i1 i2 i3 e1 e2, rfl,
                            decodeOne_4 _ _ _ _ _ (by omega) a5 i1 i2 i3 e1 e2⟩
                        · have : b0 = 0xF4 ∧ ¬ b1 < 0x90 := by omega
                          simp [decodeOne, this.1, this.2] at h
                      · have : b0 = 0xF0 ∧ ¬ 0x90 ≤ b1 := by omega
                        simp [decodeOne, this.1] at h
                        omega
                    · simp [decodeOne, a1, a2, a3, a4, a5, i1, i2, i3] at h
                  · simp [decodeOne, a1, a2, a3, a4, a5, i1, i2] at h
                · simp [decodeOne, a1, a2, a3, a4, a5, i1] at h
            · simp [decodeOne, a1, a2, a3, a4, a5] at h

theorem decodeUtf8_of_decodeOne {p : List Nat} {c : Nat} (hd : decodeOne p = some (c, [])) :
    decodeUtf8 p = some [c] := by
  cases p with
  | nil => simp [decodeOne] at hd
  | cons b t => simp [decodeUtf8, decodeFuel, hd]

/-- no proper non-empty prefix of a valid character decodes -/
theorem Shape.prefix_undecodable {p : List Nat} (hp : Shape p) (i : Nat) (h1 : 1 ≤ i) (h2 : i < p.length) :
    decodeUtf8 (p.take i) = none := by
  cases hp with
  | one b0 h => simp at h2; omega
  | two b0 b1 h0 h0' i1 =>
    have a1 : ¬ b0 < 0x80 := by omega
    have a2 : ¬ b0 < 0xC2 := by omega
    obtain rfl : i = 1 := by simp at h2; omega
    simp [decodeUtf8, decodeFuel, decodeOne, a1, a2, h0']
  | three b0 b1 b2 h0 h0' i1 i2 e1 e2 =>
    have a1 : ¬ b0 < 0x80 := by omega
    have a2 : ¬ b0 < 0xC2 := by omega
    have a3 : ¬ b0 < 0xE0 := by omega
    have : i = 1 ∨ i = 2 := by simp at h2; omega
    rcases this with rfl | rfl <;> simp [decodeUtf8, decodeFuel, decodeOne, a1, a2, a3, h0']
  | four b0 b1 b2 b3 h0 h0' i1 i2 i3 e1 e2 =>
    have a1 : ¬ b0 < 0x80 := by omega
    have a2 : ¬ b0 < 0xC2 := by omega
    have a3 : ¬ b0 < 0xE0 := by omega
    have a4 : ¬ b0 < 0xF0 := by omega
    have : i = 1 ∨ i = 2 ∨ i = 3 := by simp at h2; omega
    rcases this with rfl | rfl | rfl <;> simp [decodeUtf8, decodeFuel, decodeOne, a1, a2, a3, a4, h0']

theorem Shape.length_le {p : List Nat} (hp : Shape p) : 1 ≤ p.length ∧ p.length ≤ 4 := by
  cases hp <;> simp

theorem Shape.head_ge {p : List Nat} (hp : Shape p) (h : 2 ≤ p.length) : ∃ b0 t, p = b0 :: t ∧ 0xC2 ≤ b0 := by
  cases hp with
  | one b0 _ => simp at h
  | two b0 b1 h0 => exact ⟨_, _, rfl, h0⟩
  | three b0 b1 b2 h0 => exact ⟨_, _, rfl, by omega⟩
  | four b0 b1 b2 b3 h0 => exact ⟨_, _, rfl, by omega⟩

theorem Shape.valid {p : List Nat} (hp : Shape p) : ∃ c, decodeOne p = some (c, []) := by
  cases hp with
  | one b0 h => exact ⟨_, decodeOne_1 _ _ h⟩
  | two b0 b1 h0 h0' i1 => exact ⟨_, decodeOne_2 _ _ _ h0 h0' i1⟩
  | three b0 b1 b2 h0 h0' i1 i2 e1 e2 => exact ⟨_, decodeOne_3 _ _ _ _ h0 h0' i1 i2 e1 e2⟩
  | four b0 b1 b2 b3 h0 h0' i1 i2 i3 e1 e2 => exact ⟨_, decodeOne_4 _ _ _ _ _ h0 h0' i1 i2 i3 e1 e2⟩

theorem encode_shape (c : Nat) (hs : isScalar c) : Shape (encode c) := by
  have h := decodeOne_encode c hs []
  obtain ⟨p, hp, e, _⟩ := decodeOne_shape h
  simp at e
  rw [e]; exact hp

/-- `validChar (encode c)` for every scalar value -/
theorem validChar_encode (c : Nat) (hs : isScalar c) : validChar (encode c) :=
  ⟨c, by simpa using decodeOne_encode c hs []⟩

end Curtsies.Spec.Utf8
